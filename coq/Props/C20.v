(* C20 property theorems: statements only, each closed by `exact`. *)
From Coq Require Import String ZArith List Bool.
From DV Require Import Model.PyPrims Gen.ReaderLoops Model.C20Model Proofs.C20Proofs.
Import ListNotations.
Close Scope string_scope.
Open Scope list_scope.
Open Scope Z_scope.

(* Every reader loop of the CURRENT source (Gen/ReaderLoops.v is regenerated on every run) satisfies
   the progress rule `loop_ok` (C20Model.v: R0-R3), or is on the explicit, justified allow-list, or
   is one of the recorded defect sites. *)
Theorem loop_progress :
  forallb (fun l => loop_ok l || loop_in allow_list l || loop_in known_defect_loops l) reader_loops = true.
Proof. exact loop_progress_l. Qed.
Print Assumptions loop_progress.

Theorem loop_progress_lifted : forall l, In l reader_loops ->
  loop_ok l = true \/ loop_in allow_list l = true \/ loop_in known_defect_loops l = true.
Proof. exact loop_progress_lifted_l. Qed.
Print Assumptions loop_progress_lifted.

(* The loops that are neither mechanically discharged nor allow-listed are exactly the recorded
   defect sites still present in the source (both sides become [] once they are repaired). *)
Theorem loop_defects_exact :
  filter (fun l => negb (loop_ok l || loop_in allow_list l)) reader_loops
  = filter (loop_in known_defect_loops) reader_loops.
Proof. exact loop_defects_exact_l. Qed.
Print Assumptions loop_defects_exact.

Theorem recursion_sites_known : forallb recursion_known reader_recursions = true.
Proof. exact recursion_sites_known_l. Qed.
Print Assumptions recursion_sites_known.
