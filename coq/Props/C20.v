(* C20 property theorems: statements only, each closed by `exact`.
   Readers terminate on every input and report bad data as a parse error.

   Models: Gen/ReaderLoops.v (regenerated from the source on every run), Model/C20Model.v (progress
   rule; PHYLIP and FASTA readers at character level), Model/C20Nexus.v (NEXUS control skeleton at
   token level on C02's Model/Tokenizer.v and Model/Newick.v).
   Python runtime functions (isspace, digit values, lower/upper, the state-alphabet symbol table,
   float()) are universally quantified parameters of the theorems.

   Sites where the CURRENT library violates the property are modelled in both forms (DESIGN 5.2):
   the full statement is proved for the repaired form and refuted (`_refuted`, concrete witness) for
   the current form; `_partial` is what holds for both. *)
From Coq Require Import String ZArith List Bool.
From DV Require Import Model.PyPrims Gen.ReaderLoops Model.Tokenizer Model.Newick Model.C20Model Model.C20Nexus2
                       Proofs.C20Proofs Proofs.C20Tok Proofs.C20Newick Proofs.C20Nexus2Proofs Proofs.C20Nexus2Total
                       Proofs.C20NexusDims Proofs.C20NexusRows.
Import ListNotations.
Close Scope string_scope.
Open Scope list_scope.
Open Scope Z_scope.

(* ========================================================================================== *)
(* 1. every reader loop makes progress                                                         *)
(* ========================================================================================== *)

(* Every `while` (and `for .. in itertools.count()`) of tokenizer.py, nexusprocessing.py,
   newickreader.py, nexusreader.py, nexusyielder.py, newickyielder.py in the CURRENT source satisfies the
   progress rule `loop_ok` (R0-R3 in C20Model.v), or is on the explicit allow-list (each entry justified
   in C20Model.v and pinned to the loop's AST digest).  Strict: a loop that fails the rule and is not
   allow-listed makes this false - changing `require_next_token` to `next_token` in a statement loop,
   or adding an unguarded loop, breaks the proof. *)
Theorem loop_progress :
  forallb (fun l => loop_ok l || loop_in allow_list l) reader_loops = true.
Proof. exact loop_progress_l. Qed.
Print Assumptions loop_progress.

Theorem loop_progress_lifted : forall l, In l reader_loops ->
  loop_ok l = true \/ loop_in allow_list l = true.
Proof. exact loop_progress_lifted_l. Qed.
Print Assumptions loop_progress_lifted.

(* no allow-list entry shadows a loop the rule discharges anyway, and no loop is excluded *)
Theorem allow_list_minimal :
  forallb (fun l => negb (loop_in allow_list l && loop_ok l)) reader_loops = true /\ excluded_loops = [].
Proof. exact (conj allow_list_needed_l excluded_loops_none_l). Qed.
Print Assumptions allow_list_minimal.

(* the only self-recursive functions of the reader modules are the two justified in C20Model.v *)
Theorem recursion_sites_known : forallb recursion_known reader_recursions = true.
Proof. exact recursion_sites_known_l. Qed.
Print Assumptions recursion_sites_known.

(* ========================================================================================== *)
(* 2. PHYLIP                                                                                   *)
(* ========================================================================================== *)

(* For EVERY character list and every option setting the PHYLIP reader model terminates (it is
   structurally recursive; no fuel) and ends in: a matrix with exactly the declared number of rows
   (and, on the repaired form, the declared number of columns in every row) - or DataParseError -
   or, only on the current form of the `%d` site, TypeError.  Never Hang / AttributeError /
   IndexError (the positional lookup taxon_namespace[paged_row] of the interleaved reader is always
   in range) / KeyError / ValueError. *)
Theorem phylip_reader_total :
  forall (isspace : Z -> bool) (dval : Z -> option Z) (lower : str -> str) (sym : Z -> option Z)
         (o : popts) (text : str),
  match phylip_read isspace dval lower sym o text with
  | Ok rows =>
      exists ntax nchar,
        phylip_declared isspace dval text = Some (ntax, nchar)
        /\ zlen rows = ntax
        /\ (po_fix_dims o = true -> Forall (fun r => zlen (snd r) = nchar) rows)
  | Err e => e = ParseErr \/ (po_fix_fmt o = false /\ e = TypeErr)
  | OutOfFuel => False
  end.
Proof. exact phylip_reader_total_l. Qed.
Print Assumptions phylip_reader_total.

(* declared-versus-found dimensions: refuted for the current form (a short last row is accepted) *)
Theorem dims_consistent_refuted :
  exists text rows ntax nchar,
    phylip_read py_isspace ascii_dval ascii_lower dna4 popts_default text = Ok rows
    /\ phylip_declared py_isspace ascii_dval text = Some (ntax, nchar)
    /\ Exists (fun r => zlen (snd r) <> nchar) rows.
Proof. exact phylip_dims_refuted_l. Qed.
Print Assumptions dims_consistent_refuted.

(* "never TypeError": refuted for the current form (a repeated complete sequence) *)
Theorem phylip_reader_total_refuted :
  exists text, phylip_read py_isspace ascii_dval ascii_lower dna4 popts_default text = Err TypeErr.
Proof. exact phylip_typeerr_refuted_l. Qed.
Print Assumptions phylip_reader_total_refuted.

(* ========================================================================================== *)
(* 3. FASTA                                                                                    *)
(* ========================================================================================== *)

(* For EVERY character list: a matrix whose sequence names are pairwise distinct under the
   namespace's label matching, or DataParseError.  (FASTA declares no dimensions.) *)
Theorem fasta_reader_total :
  forall (isspace : Z -> bool) (lower : str -> str) (sym : Z -> option Z) (cs : bool) (text : str),
  match fasta_read isspace lower sym cs text with
  | Ok rows => NoDup (map (fun r : row => if cs then fst r else lower (fst r)) rows)
  | Err e => e = ParseErr
  | OutOfFuel => False
  end.
Proof. exact fasta_reader_total_l. Qed.
Print Assumptions fasta_reader_total.

(* ========================================================================================== *)
(* 4. NEXUS control skeleton (Model/C20Nexus2.v: character level, interleaved and continuous      *)
(*    matrices, multistate groups, SYMBOLS / GAP / MISSING / MATCHCHAR, all data types)          *)
(* ========================================================================================== *)

(* For EVERY character list, every choice of the runtime functions and EVERY form of the recorded defect
   sites (so: for the current reader) the skeleton never runs out of its budget 2*|text| + 16: the reader
   does not hang.  The guards and fetch primitives of its 23 loops are those of the GENERATED records. *)
Theorem nexus_never_hangs :
  forall (fx : nfix) (upper lower : Tokenizer.str -> Tokenizer.str) (dval : Z -> option Z)
         (sym_ok : Z -> Z -> bool) (is_float : Tokenizer.str -> bool) (text : Tokenizer.str),
  nexus_read fx upper lower dval sym_ok is_float text <> RFuel.
Proof. exact nexus_never_hangs_l. Qed.
Print Assumptions nexus_never_hangs.

(* nexus_skeleton_total: on the repaired form the skeleton ends in Ok or DataParseError, for every input:
   no hang, no AttributeError / TypeError / ValueError / IndexError / leaked internal exception *)
Theorem nexus_skeleton_total :
  forall (upper lower : Tokenizer.str -> Tokenizer.str) (dval : Z -> option Z) (sym_ok : Z -> Z -> bool)
         (is_float : Tokenizer.str -> bool) (text : Tokenizer.str),
  match nexus_read nfix_all upper lower dval sym_ok is_float text with
  | ROk _ => True
  | RErr e => e = ParseErr
  | RFuel => False
  end.
Proof. exact nexus_skeleton_total2_l. Qed.
Print Assumptions nexus_skeleton_total.

(* on the current form the only other error classes are those of the recorded sites *)
Theorem nexus_error_classes :
  forall (fx : nfix) (upper lower : Tokenizer.str -> Tokenizer.str) (dval : Z -> option Z)
         (sym_ok : Z -> Z -> bool) (is_float : Tokenizer.str -> bool) (text : Tokenizer.str),
  match nexus_read fx upper lower dval sym_ok is_float text with
  | ROk _ => True
  | RErr e => e = ParseErr \/ (fx_cblock fx = false /\ e = OtherErr)
              \/ (fx_alpha fx = false /\ (e = ValueErr \/ e = TypeErr))
  | RFuel => False
  end.
Proof. exact nexus_error_classes_l. Qed.
Print Assumptions nexus_error_classes.

(* nexus_skeleton_total is REFUTED for the current form: a leaked internal exception (continuous
   matrix), ValueError and TypeError (STANDARD alphabet built from SYMBOLS) *)
Theorem nexus_skeleton_total_refuted :
  cls (run nfix_none w_cblock) = Some OtherErr
  /\ cls (run nfix_none w_alpha_dup) = Some ValueErr
  /\ cls (run nfix_none w_alpha_empty) = Some TypeErr.
Proof. exact nexus2_internal_error_witnesses_l. Qed.
Print Assumptions nexus_skeleton_total_refuted.

(* declared-versus-found dimensions, refuted: the current form returns an interleaved matrix with a row
   shorter than NCHAR; and (both forms: the residual finding) a matrix with fewer rows than NTAX *)
Theorem nexus_dims_consistent_refuted :
  match run nfix_none w_ildims with
  | ROk st => rows_short st 4 = true
  | _ => False
  end
  /\ match run nfix_all w_rows_fewer with
     | ROk st => match n_ntax st, n_mats st with
                 | Some ntax, [m] => (Z.of_nat (length (m_rows m)) <? ntax) = true
                 | _, _ => False
                 end
     | _ => False
     end.
Proof. exact nexus2_dims_witnesses_l. Qed.
Print Assumptions nexus_dims_consistent_refuted.

(* nexus_dims_consistent: declared-versus-found dimensions on the repaired form (fx_ildims = true; for the
   sequential reader both forms agree).
   (a) Every MATRIX statement the skeleton accepts appends ONE matrix, and every row of it holds exactly the NCHAR
       in force when the statement is read (the matrices read before are untouched).
   (b) In the final state of every accepted document every matrix is rectangular (the other blocks - TAXA, TREES,
       SETS/CHARSET, unknown blocks - never change the rows of a matrix).
   The number of ROWS is not tied to NTAX: the reader only bounds it from above through the capacity of the taxon
   namespace (TooManyTaxaError in get_taxon); that a matrix may have FEWER rows than NTAX is the residual finding
   `nexus:Ok-InvalidMatrix:rows-fewer`, the exact exception, witnessed in nexus_dims_consistent_refuted above. *)
Theorem nexus_matrix_dims :
  forall (fx : nfix) (upper lower : Tokenizer.str -> Tokenizer.str) (sym_ok : Z -> Z -> bool)
         (is_float : Tokenizer.str -> bool) (F : nat) (st : nstate) (block_title link_title : option Tokenizer.str)
         (st' : nstate) (nchar : Z),
  fx_ildims fx = true -> 0 <= nchar ->
  parse_matrix fx upper lower sym_ok is_float F st block_title link_title = ROk st' ->
  n_nchar st = Some nchar ->
  exists m, n_mats st' = n_mats st ++ [m] /\ Forall (fun r => snd r = nchar) (m_rows m).
Proof. exact nexus_matrix_dims_l. Qed.
Print Assumptions nexus_matrix_dims.

(* (c) rows versus NTAX, what the skeleton does enforce: the rows of an accepted matrix are DISTINCT taxa of its
   namespace, and there are at most max(NTAX, members the namespace had before the statement) of them (a new label
   is refused with TooManyTaxaError once the namespace holds NTAX members).  No lower bound: `rows-fewer`. *)
Theorem nexus_matrix_rows :
  forall (fx : nfix) (upper lower : Tokenizer.str -> Tokenizer.str) (sym_ok : Z -> Z -> bool)
         (is_float : Tokenizer.str -> bool) (F : nat) (st : nstate) (block_title link_title : option Tokenizer.str)
         (st' : nstate) (ntax : Z),
  parse_matrix fx upper lower sym_ok is_float F st block_title link_title = ROk st' ->
  n_ntax st = Some ntax ->
  exists m, n_mats st' = n_mats st ++ [m] /\ NoDup (map fst (m_rows m))
            /\ Z.of_nat (length (m_rows m)) <= Z.max ntax (Z.of_nat (length (tns_labels st (m_tns m)))).
Proof. exact nexus_matrix_rows_l. Qed.
Print Assumptions nexus_matrix_rows.

Theorem nexus_dims_consistent :
  forall (fx : nfix) (upper lower : Tokenizer.str -> Tokenizer.str) (dval : Z -> option Z)
         (sym_ok : Z -> Z -> bool) (is_float : Tokenizer.str -> bool) (text : Tokenizer.str) (st : nstate),
  fx_ildims fx = true ->
  nexus_read fx upper lower dval sym_ok is_float text = ROk st ->
  Forall (fun m => exists nchar, Forall (fun r => snd r = nchar) (m_rows m)) (n_mats st).
Proof. exact nexus_dims_consistent_l. Qed.
Print Assumptions nexus_dims_consistent.

(* the same documents on the repaired form; valid documents (sequential with multistate groups, TREES with
   TRANSLATE, SETS; interleaved followed by TREES; STANDARD with SYMBOLS) read on both forms *)
Theorem nexus_repaired_examples :
  forallb (fun w => match cls (run nfix_all w) with Some ParseErr => true | _ => false end)
          [w_cblock; w_alpha_dup; w_alpha_empty; w_ildims] = true
  /\ forallb (fun w => match cls (run nfix_all w), cls (run nfix_none w) with None, None => true | _, _ => false end)
             [w_valid; w_valid_interleaved; w_valid_standard] = true.
Proof. exact nexus2_repaired_witnesses_l. Qed.
Print Assumptions nexus_repaired_examples.

(* ========================================================================================== *)
(* 4b. crash points: every prefix of every document                                             *)
(* ========================================================================================== *)

(* prefix_closed_errors: for EVERY document and EVERY truncation point the readers' answer on the prefix
   is a valid (possibly shorter) result or DataParseError.  (Corollaries of the totality theorems, which
   hold for arbitrary texts; that a prefix never yields MORE trees than the whole document is not proved.) *)
Theorem prefix_closed_errors_newick :
  forall (L : Type) (parse_len : Tokenizer.str -> option L) (lower : Tokenizer.str -> Tokenizer.str)
         (o : ropts) (ns : list Tokenizer.str) (document : Tokenizer.str) (k : nat),
  ro_terminating_semicolon_required o = true ->
  match read_newick L parse_len lower o ns (firstn k document) with
  | Ok _ => True
  | Err e => e = ParseErr
  | OutOfFuel => False
  end.
Proof. exact prefix_closed_newick_l. Qed.
Print Assumptions prefix_closed_errors_newick.

Theorem prefix_closed_errors_nexus :
  forall (upper lower : Tokenizer.str -> Tokenizer.str) (dval : Z -> option Z) (sym_ok : Z -> Z -> bool)
         (is_float : Tokenizer.str -> bool) (document : Tokenizer.str) (k : nat),
  match nexus_read nfix_all upper lower dval sym_ok is_float (firstn k document) with
  | ROk _ => True
  | RErr e => e = ParseErr
  | RFuel => False
  end.
Proof. exact prefix_closed_nexus_l. Qed.
Print Assumptions prefix_closed_errors_nexus.

(* computed, per block structure: every prefix of concrete valid documents *)
Theorem prefix_closed_errors_examples :
  prefixes_ok nfix_all w_valid = true /\ prefixes_ok nfix_all w_valid_interleaved = true
  /\ prefixes_ok nfix_all w_valid_standard = true.
Proof. exact nexus2_prefix_closed_examples_l. Qed.
Print Assumptions prefix_closed_errors_examples.

(* ========================================================================================== *)
(* 5. tokenizer and Newick reader (C02's models Model/Tokenizer.v, Model/Newick.v)             *)
(* ========================================================================================== *)

(* The contract of the fetch primitives that the progress rule of section 1 relies on: for EVERY
   tokenizer configuration and character list, `__next__` returns a token and strictly shortens
   the input, or reports end of stream, or raises UnterminatedQuoteError (a DataParseError). *)
Theorem tokenizer_progress : forall (cfg : tok_cfg) (s : Tokenizer.str),
  match Tokenizer.next_token cfg s with
  | TTok t q cs rest => (length rest < length s)%nat
  | TEof _ => True
  | TErr e => e = ParseErr
  | TFuel => False
  end.
Proof. exact tokenizer_progress_l. Qed.
Print Assumptions tokenizer_progress.

Theorem tokenize_total : forall (cfg : tok_cfg) (s : Tokenizer.str),
  snd (tokenize cfg s) <> EndFuel /\ (forall e, snd (tokenize cfg s) = EndErr e -> e = ParseErr).
Proof. exact tokenize_total_l. Qed.
Print Assumptions tokenize_total.

(* NewickReader._read for EVERY character list, namespace, edge-length parser, str.lower and option
   setting with terminating_semicolon_required = True (the default): trees (inductive values: every
   returned tree is a finite, well-formed rose tree by construction) or DataParseError; the reader
   never runs out of the fuel 2 * tokens + 8.  (CPython's recursion limit, which turns nesting deeper
   than about 1000 into RecursionError, is outside the model; the harness tests it.) *)
Theorem newick_reader_total :
  forall (L : Type) (parse_len : Tokenizer.str -> option L) (lower : Tokenizer.str -> Tokenizer.str)
         (o : ropts) (ns : list Tokenizer.str) (text : Tokenizer.str),
  ro_terminating_semicolon_required o = true ->
  match read_newick L parse_len lower o ns text with
  | Ok _ => True
  | Err e => e = ParseErr
  | OutOfFuel => False
  end.
Proof. exact newick_reader_total_l. Qed.
Print Assumptions newick_reader_total.
