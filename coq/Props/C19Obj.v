(* C19 translator tie, object level: the Gallina compiled from the CURRENT charmatrixmodel.py by
   py/dv/gen_charmatrix_obj.py (Gen/CharMatrixObj.v: which row object is stored, where a constructor call is
   evaluated - once before a loop or once per iteration) equals the object-level model Model/C19RowHeap.v.
   st = (store of row objects, the receiver's taxon -> row id map). *)
From Coq Require Import ZArith List Bool.
From DV Require Import Model.PyPrims Model.C19Model Model.C19RowHeap Model.C19Prims Model.C19ObjPrims
                       Gen.CharMatrixObj Proofs.C19GenObj.
Import ListNotations.
Open Scope Z_scope.

(* __setitem__: a row object that passes the isinstance test is stored as it is, any other is copied *)
Theorem generated_setitem_is_model :
  forall (isinst : bool) (T : list tid) (s : store) (m : omatrix) (k : key) (r : rid),
  gen_o_setitem isinst T (s, om_rows m) k r =
  match o_setitem_obj isinst T s m k r with
  | Ok (s', m') => ((s', om_rows m'), Ok tt)
  | Err e => ((s, om_rows m), Err e)
  | OutOfFuel => ((s, om_rows m), OutOfFuel)
  end.
Proof. exact gen_o_setitem_eq. Qed.
Print Assumptions generated_setitem_is_model.

(* fill_taxa: one NEW object per missing taxon (the constructor call is inside the loop) *)
Theorem generated_fill_taxa_is_model :
  forall (generic : bool) (T : list tid) (st : store * orows),
  gen_o_fill_taxa generic T st = (o_fill_taxa_rows generic T st, Ok tt).
Proof. exact gen_o_fill_taxa_eq. Qed.
Print Assumptions generated_fill_taxa_is_model.

(* add_ / replace_ / update_sequences store a copy of the argument's row, never the argument's object *)
Theorem generated_add_sequences_is_model :
  forall (ns_self ns_other : nsid) (st : store * orows) (o : orows),
  NoDup (map fst o) ->
  gen_o_add_sequences ns_self ns_other st o =
  if negb (Z.eqb ns_other ns_self) then (st, Err ValueErr) else (o_add_rows st o, Ok tt).
Proof. exact gen_o_add_sequences_eq. Qed.
Print Assumptions generated_add_sequences_is_model.

Theorem generated_replace_sequences_is_model :
  forall (ns_self ns_other : nsid) (st : store * orows) (o : orows),
  NoDup (map fst o) ->
  gen_o_replace_sequences ns_self ns_other st o =
  if negb (Z.eqb ns_other ns_self) then (st, Err ValueErr) else (o_replace_rows st o, Ok tt).
Proof. exact gen_o_replace_sequences_eq. Qed.
Print Assumptions generated_replace_sequences_is_model.

Theorem generated_update_sequences_is_model :
  forall (ns_self ns_other : nsid) (st : store * orows) (o : orows),
  NoDup (map fst o) ->
  gen_o_update_sequences ns_self ns_other st o =
  if negb (Z.eqb ns_other ns_self) then (st, Err ValueErr) else (o_update_rows st o, Ok tt).
Proof. exact gen_o_update_sequences_eq. Qed.
Print Assumptions generated_update_sequences_is_model.
