(* C19 translator tie, object level: the Gallina compiled from the CURRENT charmatrixmodel.py by
   py/dv/gen_charmatrix_obj.py (Gen/CharMatrixObj.v: which row object is stored, where a constructor call is
   evaluated - once before a loop or once per iteration) equals the object-level model Model/C19RowHeap.v.
   st = (store of row objects, the receiver's taxon -> row id map). *)
From Coq Require Import ZArith List Bool.
From DV Require Import Model.PyPrims Model.C19Model Model.C19RowHeap Model.C19Prims Model.C19ObjPrims
                       Gen.CharMatrixObj Proofs.C19GenObj Proofs.C19GenObj2 Proofs.C19GenObj3 Proofs.C19GenObj4.
Import ListNotations.
Open Scope Z_scope.

(* __setitem__: a row object that passes the isinstance test is stored as it is, any other is copied *)
Theorem generated_setitem_is_model :
  forall (isinst : bool) (T : list tid) (s : store) (m : omatrix) (k : key) (r : rid),
  gen_o_setitem isinst T (s, om_rows m) k r =
  match o_setitem_obj isinst T s m k r with
  | Ok (s', m') => ((s', om_rows m'), Ok tt)
  | Err e => ((s, om_rows m), Err e)
  | OutOfFuel => ((s, om_rows m), OutOfFuel)
  end.
Proof. exact gen_o_setitem_eq. Qed.
Print Assumptions generated_setitem_is_model.

(* fill_taxa: one NEW object per missing taxon (the constructor call is inside the loop) *)
Theorem generated_fill_taxa_is_model :
  forall (generic : bool) (T : list tid) (st : store * orows),
  gen_o_fill_taxa generic T st = (o_fill_taxa_rows generic T st, Ok tt).
Proof. exact gen_o_fill_taxa_eq. Qed.
Print Assumptions generated_fill_taxa_is_model.

(* add_ / replace_ / update_sequences store a copy of the argument's row, never the argument's object *)
Theorem generated_add_sequences_is_model :
  forall (ns_self ns_other : nsid) (st : store * orows) (o : orows),
  NoDup (map fst o) ->
  gen_o_add_sequences ns_self ns_other st o =
  if negb (Z.eqb ns_other ns_self) then (st, Err ValueErr) else (o_add_rows st o, Ok tt).
Proof. exact gen_o_add_sequences_eq. Qed.
Print Assumptions generated_add_sequences_is_model.

Theorem generated_replace_sequences_is_model :
  forall (ns_self ns_other : nsid) (st : store * orows) (o : orows),
  NoDup (map fst o) ->
  gen_o_replace_sequences ns_self ns_other st o =
  if negb (Z.eqb ns_other ns_self) then (st, Err ValueErr) else (o_replace_rows st o, Ok tt).
Proof. exact gen_o_replace_sequences_eq. Qed.
Print Assumptions generated_replace_sequences_is_model.

Theorem generated_update_sequences_is_model :
  forall (ns_self ns_other : nsid) (st : store * orows) (o : orows),
  NoDup (map fst o) ->
  gen_o_update_sequences ns_self ns_other st o =
  if negb (Z.eqb ns_other ns_self) then (st, Err ValueErr) else (o_update_rows st o, Ok tt).
Proof. exact gen_o_update_sequences_eq. Qed.
Print Assumptions generated_update_sequences_is_model.

(* ================= second group.  Side conditions: NoDup of the keys of a Python dict (satisfiable:
   Proofs/C19GenObj2.v extend_hyp_sat, keep_hyp_sat); runs on concrete states: extend_sequences_run, fill_run,
   export_run there and in Proofs/C19GenObj3.v ================= *)

(* new_sequence: ONE new object holding the given values is stored and returned *)
Theorem generated_new_sequence_is_model :
  forall (T : list tid) (s : store) (m : omatrix) (t : tid) (vals : row),
  gen_o_new_sequence T (s, om_rows m) t vals =
  match o_new_sequence T s m t vals with
  | Ok (s', m', r) => ((s', om_rows m'), Ok r)
  | Err e => ((s, om_rows m), Err e)
  | OutOfFuel => ((s, om_rows m), OutOfFuel)
  end.
Proof. exact gen_o_new_sequence_eq. Qed.
Print Assumptions generated_new_sequence_is_model.

(* __getitem__: the STORED object itself; a missing row is created by new_sequence *)
Theorem generated_getitem_is_model :
  forall (T : list tid) (s : store) (m : omatrix) (k : key),
  gen_o_getitem T (s, om_rows m) k =
  match o_getitem T s m k with
  | Ok (s', m', r) => ((s', om_rows m'), Ok r)
  | Err e => ((s, om_rows m), Err e)
  | OutOfFuel => ((s, om_rows m), OutOfFuel)
  end.
Proof. exact gen_o_getitem_eq. Qed.
Print Assumptions generated_getitem_is_model.

(* extend_sequences / extend_matrix: an existing taxon's row OBJECT of the receiver is extended in place
   (o_extend_in: mutate), a new taxon gets a NEW object holding a copy (o_copy_in: alloc), the argument's
   objects are neither stored nor mutated *)
Theorem generated_extend_sequences_is_model :
  forall (ns_self ns_other : nsid) (st : store * orows) (o : orows) (addnew : bool),
  NoDup (map fst o) ->
  gen_o_extend_sequences ns_self ns_other st o addnew =
  if negb (Z.eqb ns_other ns_self) then (st, Err ValueErr) else (o_extend_rows addnew st o, Ok tt).
Proof. exact gen_o_extend_sequences_eq. Qed.
Print Assumptions generated_extend_sequences_is_model.

Theorem generated_extend_matrix_is_model :
  forall (ns_self ns_other : nsid) (st : store * orows) (o : orows),
  NoDup (map fst o) ->
  gen_o_extend_matrix ns_self ns_other st o =
  if negb (Z.eqb ns_other ns_self) then (st, Err ValueErr) else (o_extend_matrix_rows st o, Ok tt).
Proof. exact gen_o_extend_matrix_eq. Qed.
Print Assumptions generated_extend_matrix_is_model.

(* remove_ / discard_ / keep_sequences change the map only: the store is the same afterwards *)
Theorem generated_remove_sequences_is_model :
  forall (taxa : list tid) (st : store * orows),
  gen_o_remove_sequences st taxa =
  ((fst st, fst (o_remove_rows (snd st) taxa)),
   match snd (o_remove_rows (snd st) taxa) with None => Ok tt | Some x => Err x end).
Proof. exact gen_o_remove_sequences_eq. Qed.
Print Assumptions generated_remove_sequences_is_model.

Theorem generated_discard_sequences_is_model :
  forall (taxa : list tid) (st : store * orows),
  gen_o_discard_sequences st taxa = ((fst st, o_discard_rows (snd st) taxa), Ok tt).
Proof. exact gen_o_discard_sequences_eq. Qed.
Print Assumptions generated_discard_sequences_is_model.

Theorem generated_keep_sequences_is_model :
  forall (st : store * orows) (taxa : list tid),
  NoDup (map fst (snd st)) ->
  gen_o_keep_sequences st taxa = ((fst st, o_keep_rows (snd st) taxa), Ok tt).
Proof. exact gen_o_keep_sequences_eq. Qed.
Print Assumptions generated_keep_sequences_is_model.

(* fill: every row object reached by iterating the matrix is padded IN PLACE; the map is unchanged, the result is
   the size; the store equals the model's up to the representation of repeated in-place updates (same next
   object id, same cells for EVERY object id): the source appends cell by cell, the model writes the padded row once *)
Theorem generated_fill_is_model :
  forall (T : list tid) (s : store) (m : omatrix) (value : cell) (size : option Z) (append : bool),
  exists s' : store,
    gen_o_fill T (s, om_rows m) value size append = ((s', om_rows m), Ok (snd (o_fill T s m value size append)))
    /\ s_next s' = s_next (fst (o_fill T s m value size append))
    /\ forall r : rid, hget s' r = hget (fst (o_fill T s m value size append)) r.
Proof. exact gen_o_fill_eq. Qed.
Print Assumptions generated_fill_is_model.

(* pack = fill_taxa (one NEW object per missing taxon), then fill *)
Theorem generated_pack_is_model :
  forall (generic : bool) (T : list tid) (s : store) (m : omatrix) (value : cell) (size : option Z) (append : bool),
  exists s' : store,
    gen_o_pack generic T (s, om_rows m) value size append
    = ((s', om_rows (snd (o_pack generic T s m value size append))), Ok tt)
    /\ s_next s' = s_next (fst (o_pack generic T s m value size append))
    /\ forall r : rid, hget s' r = hget (fst (o_pack generic T s m value size append)) r.
Proof. exact gen_o_pack_eq. Qed.
Print Assumptions generated_pack_is_model.

(* export_character_indices: `self.__class__(self)` is the deep copy (every row object copied once), the column
   deletion then works in place on the CLONE's objects; the receiver's map is unchanged and the returned map is
   the model's; the store agrees with the model's on every object id (in particular: the source's rows keep
   their cells) *)
Theorem generated_export_character_indices_is_model :
  forall (T : list tid) (s : store) (m : omatrix) (idx : list Z),
  exists s' : store,
    gen_o_export_character_indices T (s, om_rows m) idx
    = ((s', om_rows m), Ok (om_rows (snd (o_export T s m idx))))
    /\ s_next s' = s_next (fst (o_export T s m idx))
    /\ forall r : rid, hget s' r = hget (fst (o_export T s m idx)) r.
Proof. exact gen_o_export_character_indices_eq. Qed.
Print Assumptions generated_export_character_indices_is_model.

(* export_character_subset: caseless lookup of the label (KeyError when absent), then export_character_indices *)
Theorem generated_export_character_subset_is_model :
  forall (lower : lbl -> lbl) (T : list tid) (subs : subsets) (st : store * orows) (cs : lbl + list Z),
  gen_o_export_character_subset lower T subs st cs =
  match cs with
  | inl l => match find_sub lower l subs with
             | None => (st, Err KeyErr)
             | Some idx => gen_o_export_character_indices T st idx
             end
  | inr idx => gen_o_export_character_indices T st idx
  end.
Proof. exact gen_o_export_character_subset_eq. Qed.
Print Assumptions generated_export_character_subset_is_model.

(* concatenate (classmethod): the new matrix is built by extend_matrix per argument - it holds NEW objects only
   (copies of the first argument's rows, extended in place afterwards), the arguments are read through the store;
   exact equality with o_concatenate (same store, same matrix, same exception).  Side conditions: the keys of every
   argument's map are distinct (a dict) and every row object of an argument is allocated (id below the store's
   next id) - the source reads cm.vector_size after extend_matrix, the model before; satisfiable:
   Proofs/C19GenObj4.v concat_hyp_sat, concat_run *)
Theorem generated_concatenate_is_model :
  forall (lower : lbl -> lbl) (suffix : lbl -> Z -> lbl) (locus : Z -> lbl) (taxa_of : nsid -> list tid)
         (s : store) (cms : list omatrix),
  Forall (fun cm => NoDup (map fst (om_rows cm)) /\ forall r, In r (map snd (om_rows cm)) -> r < s_next s) cms ->
  gen_o_concatenate lower suffix locus taxa_of s cms = o_concatenate lower suffix locus taxa_of s cms.
Proof. exact gen_o_concatenate_eq. Qed.
Print Assumptions generated_concatenate_is_model.
