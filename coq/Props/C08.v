(* C08 - pruning, retaining and extracting yield exactly the induced subtree.

   Vocabulary (all in Model/C08Model.v):
     restrict sup keep t      the induced subtree (specification, one structural recursion)
     restrictG sup kl ki ke t its generalisation (filter on internal nodes / emptied nodes kept)
     prune_taxa, retain_taxa, ..., extract_tree, extract_tree_with_taxa, ...
                              transcriptions of the library's algorithms (loops, passes, memo)
   All theorems are for every rose tree with pairwise distinct node ids; "leaf_taxa_only" = every
   leaf carries a taxon and no internal node does.  Results are stated as equations that fix the
   whole outcome, so the error branch (nothing survives) and fuel exhaustion are covered:
   the right-hand sides are never IFuel. *)
From Coq Require Import ZArith List Bool.
From DV Require Import Model.PyPrims Model.Tree Model.C08Model.
From DV Require Import Proofs.C08Base Proofs.C08InPlace Proofs.C08Prune Proofs.C08Extract Proofs.C08Spec
     Proofs.C08Dist Proofs.C08Final Proofs.C08Thms.
From DV Require Import Model.C08Spec2 Model.C08Loop Proofs.C08Order Proofs.C08More Proofs.C08Child Proofs.C08Lazy
     Proofs.C08Machine Proofs.C08Link Proofs.C08Variants Proofs.C08RemoveDist.
From DV Require Model.Heap Model.HeapOps Proofs.C03Base.
Import ListNotations.
Open Scope Z_scope.

(* 1. in-place pruning = restriction to the complement (both settings of suppress_unifurcations;
      update_bipartitions applies the structural effect of encode_bipartitions(suppress_unifurcations=sup)
      on top: basal collapse of a tree that is not rooted, nothing on a rooted one - see 12);
      emptying the tree is AttributeError with the bare seed left behind *)
Theorem prune_is_restrict :
  forall (taxa : list Z) (upd_bip sup : bool) (t : tree) (rooted : option bool),
    NoDup (ids t) -> leaf_taxa_only t = true ->
    prune_taxa taxa upd_bip sup true false (t, rooted) =
    match restrict sup (drop_taxa taxa) t with
    | Some r => IOk ([], fst (if upd_bip then encode_effect sup rooted r else (r, rooted)),
                         snd (if upd_bip then encode_effect sup rooted r else (r, rooted)))
    | None => IErr EAttr (set_kids t [])
    end.
Proof. exact (fun taxa u s => prune_taxa_spec taxa u s true false). Qed.
Print Assumptions prune_is_restrict.

(* 2. retaining = pruning the complement (relative to the taxa on the tree, all in the namespace) *)
Theorem retain_is_prune_complement :
  forall (ns : nspace) (keep pruned : list Z) (upd_bip sup : bool) (t : tree) (rooted : option bool),
    NoDup (ids t) -> leaf_taxa_only t = true ->
    (forall n a, In n (leaves t) -> t_taxon n = Some a -> memz a (map fst ns) = true) ->
    (forall n a, In n (leaves t) -> t_taxon n = Some a -> memz a pruned = negb (memz a keep)) ->
    retain_taxa ns keep upd_bip sup (t, rooted) = prune_taxa pruned upd_bip sup true false (t, rooted).
Proof. exact retain_is_prune_complement_thm. Qed.
Print Assumptions retain_is_prune_complement.

(* 3. extraction = restriction, for both settings of suppress_unifurcations;
      nothing surviving is SeedNodeDeletionException (ValueError on a single-node tree) *)
Theorem extract_is_restrict :
  forall (keep : list Z) (sup : bool) (t : tree),
    NoDup (ids t) -> leaf_taxa_only t = true ->
    extract_tree_with_taxa keep sup t =
    match restrict sup (keep_taxa keep) t with
    | Some r => XOk r
    | None => XErr (if is_leaf t then EValue else ESeedDel)
    end.
Proof. exact extract_with_taxa_spec. Qed.
Print Assumptions extract_is_restrict.

Theorem extract_without_is_restrict :
  forall (pruned : list Z) (sup : bool) (t : tree),
    NoDup (ids t) -> leaf_taxa_only t = true ->
    extract_tree_without_taxa pruned sup t =
    match restrict sup (drop_taxa pruned) t with
    | Some r => XOk r
    | None => XErr (if is_leaf t then EValue else ESeedDel)
    end.
Proof. exact extract_without_taxa_spec. Qed.
Print Assumptions extract_without_is_restrict.

(* 3b. what the harness sees of a new tree (x_view): the extraction_source list is the node list of
       the restriction, the new nodes are base, base+1, ... (fresh, distinct) and carry the same
       content; every node of a restriction comes from the source node of the same id with the
       same taxon and label *)
Theorem extract_view_fresh_and_source :
  forall (base : Z) (r : tree),
    snd (x_view base r) = ids r /\
    ids (fst (x_view base r)) = zseq base (size r) /\
    erase (fst (x_view base r)) = erase r /\
    NoDup (ids (fst (x_view base r))) /\
    (forall a, In a (ids (fst (x_view base r))) -> base <= a).
Proof. exact x_view_props. Qed.
Print Assumptions extract_view_fresh_and_source.

Theorem extraction_source_maps_back :
  forall (sup : bool) (kl ki ke : npred) (t r : tree),
    restrictG sup kl ki ke t = Some r ->
    forall n', In n' (preorder r) ->
    exists n, In n (preorder t) /\ t_id n = t_id n' /\ t_taxon n = t_taxon n' /\ t_label n = t_label n'.
Proof. exact nodes_from_source. Qed.
Print Assumptions extraction_source_maps_back.

(* 4. agreement: prune / retain-complement / extract-with / extract-without, suppressing or not *)
Theorem four_way_agreement :
  forall (keep pruned : list Z) (ns : nspace) (sup : bool) (t : tree) (rooted : option bool) (r : tree),
    NoDup (ids t) -> leaf_taxa_only t = true ->
    (forall n a, In n (leaves t) -> t_taxon n = Some a -> memz a (map fst ns) = true) ->
    (forall n a, In n (leaves t) -> t_taxon n = Some a -> memz a pruned = negb (memz a keep)) ->
    restrict sup (keep_taxa keep) t = Some r ->
    prune_taxa pruned false sup true false (t, rooted) = IOk ([], r, rooted) /\
    retain_taxa ns keep false sup (t, rooted) = IOk ([], r, rooted) /\
    extract_tree_with_taxa keep sup t = XOk r /\
    extract_tree_without_taxa pruned sup t = XOk r.
Proof. exact four_way. Qed.
Print Assumptions four_way_agreement.

(* ... and the label variants reduce to the taxon variants when the labels name the taxa:
   for the in-place methods under the namespace's matching rule (lab_match cs), for extraction
   under exact comparison *)
Theorem retain_labels_is_retain :
  forall (ns : nspace) (cs : bool) (labels keep : list Z) (upd_bip sup : bool) (t : tree) (rooted : option bool),
    NoDup (ids t) -> leaf_taxa_only t = true ->
    (forall n a, In n (leaves t) -> t_taxon n = Some a -> memz a (map fst ns) = true) ->
    (forall n a, In n (leaves t) -> t_taxon n = Some a ->
       ((exists m lb, In m ns /\ fst m = a /\ In lb labels /\ lab_match cs (snd m) lb = true) <-> In a keep)) ->
    retain_taxa_with_labels ns cs labels upd_bip sup (t, rooted) = retain_taxa ns keep upd_bip sup (t, rooted).
Proof. exact retain_labels_spec. Qed.
Print Assumptions retain_labels_is_retain.

Theorem prune_labels_is_prune :
  forall (ns : nspace) (cs : bool) (labels pruned : list Z) (upd_bip sup : bool) (t : tree) (rooted : option bool),
    NoDup (ids t) -> leaf_taxa_only t = true ->
    (forall n a, In n (leaves t) -> t_taxon n = Some a ->
       ((exists m lb, In m ns /\ fst m = a /\ In lb labels /\ lab_match cs (snd m) lb = true) <-> In a pruned)) ->
    prune_taxa_with_labels ns cs labels upd_bip sup true false (t, rooted) =
    prune_taxa pruned upd_bip sup true false (t, rooted).
Proof. exact prune_labels_spec. Qed.
Print Assumptions prune_labels_is_prune.

Theorem extract_labels_is_extract :
  forall (ns : nspace) (labels keep : list Z) (sup : bool) (t : tree),
    NoDup (ids t) -> leaf_taxa_only t = true ->
    (forall n a, In n (leaves t) -> t_taxon n = Some a ->
       ((exists lb, tax_label ns a = Some lb /\ In lb labels) <-> In a keep)) ->
    extract_tree_with_taxa_labels ns labels sup t = extract_tree_with_taxa keep sup t.
Proof. exact extract_with_labels_spec. Qed.
Print Assumptions extract_labels_is_extract.

Theorem extract_without_labels_is_extract :
  forall (ns : nspace) (labels pruned : list Z) (sup : bool) (t : tree),
    NoDup (ids t) -> leaf_taxa_only t = true ->
    (forall n a, In n (leaves t) -> t_taxon n = Some a ->
       ((exists lb, tax_label ns a = Some lb /\ In lb labels) <-> In a pruned)) ->
    extract_tree_without_taxa_labels ns labels sup t = extract_tree_without_taxa pruned sup t.
Proof. exact extract_without_labels_spec. Qed.
Print Assumptions extract_without_labels_is_extract.

(* 5. clades of the restriction = non-empty restrictions of the original clades (as lists in leaf
      order; merged unifurcations give the same clade once) *)
Theorem clades_restrict :
  forall (sup : bool) (p : npred) (t r : tree),
    restrict sup p t = Some r ->
    forall c, In c (clades r) <-> (c <> [] /\ exists n, In n (preorder t) /\ c = kept_ids p n).
Proof. exact clades_restrict_thm. Qed.
Print Assumptions clades_restrict.

(* 6. path lengths between surviving nodes are unchanged (all lengths defined) *)
Theorem dist_preserved :
  forall (sup : bool) (p : npred) (a b : Z) (t r : tree),
    restrict sup p t = Some r -> all_len t = true -> NoDup (ids t) ->
    In a (ids r) -> In b (ids r) -> dist a b r = dist a b t.
Proof. exact (fun sup p a b t r => dist_preserved_thm sup p a b t r). Qed.
Print Assumptions dist_preserved.

(* 7. the correspondence check accepts an extraction observation only if the source dump taken
      after the call equals the source (in the functional model the source is an argument; the
      content of "extraction never alters the source" is this comparison in every case) *)
Theorem extract_pure :
  forall (c : case) (src : tree) (r : xres) (o : obs),
    check_new c src r o = true ->
    match o with
    | ONew _ _ _ src' => src' = src
    | ONewErr _ src' => src' = src
    | _ => False
    end.
Proof. exact check_new_source_unchanged. Qed.
Print Assumptions extract_pure.

(* 8. the list returned by filter_leaf_nodes / prune_leaves_without_taxa: independent of the two
      flags, duplicate-free, and exactly the nodes gone after the removal loop, whose result is
      the restriction without suppression (a suppressed unifurcation is not "removed": it is a
      node of t0 with exactly one child) *)
Theorem removed_reported :
  forall (ok : list Z) (upd_bip sup : bool) (t : tree) (rooted : option bool) (ret : list Z) (t' : tree) (r' : option bool),
    NoDup (ids t) ->
    filter_leaf_nodes ok true upd_bip sup (t, rooted) = IOk (ret, t', r') ->
    exists t0, filter_leaf_nodes ok true false false (t, rooted) = IOk (ret, t0, rooted) /\
               restrictG false (keep_ids ok) np_true (keep_ids ok) t = Some t0 /\
               NoDup ret /\ (forall a, In a ret <-> In a (ids t) /\ ~ In a (ids t0)).
Proof. exact filter_removed_list. Qed.
Print Assumptions removed_reported.

Theorem removed_reported_without_taxa :
  forall (upd_bip sup : bool) (t : tree) (rooted : option bool) (ret : list Z) (t' : tree) (r' : option bool),
    NoDup (ids t) ->
    prune_leaves_without_taxa true upd_bip sup (t, rooted) = IOk (ret, t', r') ->
    exists t0, prune_leaves_without_taxa true false false (t, rooted) = IOk (ret, t0, rooted) /\
               restrictG false has_taxon np_true has_taxon t = Some t0 /\
               NoDup ret /\ (forall a, In a ret <-> In a (ids t) /\ ~ In a (ids t0)).
Proof. exact plwt_removed_list. Qed.
Print Assumptions removed_reported_without_taxa.

(* 9. one surviving leaf: the result is that leaf (same id, taxon, label, no children) carrying the
      length accumulated from above the seed under the None rules; with all lengths defined that
      is the seed's own edge length plus the path length *)
Theorem single_survivor :
  forall (p : npred) (t a : tree),
    NoDup (ids t) -> filter (app_np p) (leaves t) = [a] ->
    exists L, restrict true p t = Some (T (t_id a) (t_taxon a) (t_label a) L []) /\
              acc_len (t_id a) t = Some L /\
              (all_len t = true -> exists d e0, rd (t_id a) t = Some d /\ t_len t = Some e0 /\ L = Some (e0 + d)).
Proof. exact single_survivor_full. Qed.
Print Assumptions single_survivor.

(* 10. suppression declined: every node with a surviving leaf below stays, with its own edge length,
       its surviving leaves and one child per non-emptied child; nothing else stays *)
Theorem suppress_declined :
  forall (p : npred) (t r : tree),
    restrict false p t = Some r ->
    (forall n', In n' (preorder r) ->
       exists n, In n (preorder t) /\ t_id n' = t_id n /\ t_taxon n' = t_taxon n /\ t_label n' = t_label n /\
                 t_len n' = t_len n /\ leaf_ids n' = kept_ids p n /\
                 length (t_kids n') = length (filter (fun k => negb (is_nil (kept_ids p k))) (t_kids n))) /\
    (forall n, In n (preorder t) -> kept_ids p n <> [] -> exists n', In n' (preorder r) /\ t_id n' = t_id n).
Proof. exact declined_keeps_nodes. Qed.
Print Assumptions suppress_declined.

(* 11. the filter-function methods, for every predicate on leaves and internal nodes *)
Theorem filter_leaf_nodes_is_restrictG :
  forall (ok : list Z) (upd_bip sup : bool) (t : tree) (rooted : option bool),
    NoDup (ids t) ->
    match restrictG sup (keep_ids ok) np_true (keep_ids ok) t with
    | Some r => exists rem,
        filter_leaf_nodes ok true upd_bip sup (t, rooted) =
        IOk (rem, fst (if upd_bip then encode_effect sup rooted r else (r, rooted)),
                  snd (if upd_bip then encode_effect sup rooted r else (r, rooted)))
    | None => filter_leaf_nodes ok true upd_bip sup (t, rooted) = IErr ESeedDel (set_kids t [])
    end.
Proof. exact filter_leaf_nodes_spec. Qed.
Print Assumptions filter_leaf_nodes_is_restrictG.

Theorem prune_leaves_without_taxa_is_restrictG :
  forall (upd_bip sup : bool) (t : tree) (rooted : option bool),
    NoDup (ids t) ->
    match restrictG sup has_taxon np_true has_taxon t with
    | Some r => exists rem,
        prune_leaves_without_taxa true upd_bip sup (t, rooted) =
        IOk (rem, fst (if upd_bip then encode_effect sup rooted r else (r, rooted)),
                  snd (if upd_bip then encode_effect sup rooted r else (r, rooted)))
    | None => prune_leaves_without_taxa true upd_bip sup (t, rooted) = IErr EAttr (set_kids t [])
    end.
Proof. exact plwt_spec. Qed.
Print Assumptions prune_leaves_without_taxa_is_restrictG.

Theorem extract_tree_is_restrictG :
  forall (flt : xfilter) (sup : bool) (t : tree),
    NoDup (ids t) ->
    extract_tree flt sup t =
    match restrictG sup
            (fun i _ => match flt with None => true | Some (lfl, _, oks) => negb (lfl && negb (memz i oks)) end)
            (fun i _ => match flt with None => true | Some (_, intl, oks) => negb (intl && negb (memz i oks)) end)
            np_false t with
    | Some r => XOk r
    | None => XErr (if x_excluded flt t then EValue else ESeedDel)
    end.
Proof. exact extract_tree_spec. Qed.
Print Assumptions extract_tree_is_restrictG.

(* prune_subtree: the subtree goes; a parent left without children STAYS (keepe = np_true) *)
Theorem prune_subtree_is_restrictG :
  forall (id : Z) (upd_bip sup : bool) (t : tree) (rooted : option bool),
    NoDup (ids t) -> t_id t <> id ->
    exists r, restrictG sup (fun i _ => negb (Z.eqb i id)) (fun i _ => negb (Z.eqb i id)) np_true t = Some r /\
              prune_subtree id upd_bip sup (t, rooted) =
              IOk ([], fst (if upd_bip then encode_effect sup rooted r else (r, rooted)),
                       snd (if upd_bip then encode_effect sup rooted r else (r, rooted))).
Proof. exact prune_subtree_spec. Qed.
Print Assumptions prune_subtree_is_restrictG.

(* 12. suppression can be declined together with update_bipartitions=True: on a rooted tree the
       result is exactly the restriction that keeps the unifurcations (cf. suppress_declined);
       through the extraction wrappers it is extract_is_restrict with sup = false *)
Theorem update_bipartitions_respects_declined :
  forall (taxa : list Z) (t r : tree),
    NoDup (ids t) -> leaf_taxa_only t = true ->
    restrict false (drop_taxa taxa) t = Some r ->
    prune_taxa taxa true false true false (t, Some true) = IOk ([], r, Some true).
Proof. exact update_respects_declined. Qed.
Print Assumptions update_bipartitions_respects_declined.

Theorem example_declined_through_wrapper :
  extract_tree_with_taxa [0; 2] false ex_tree =
  XOk (T 0 None None (Some 5120) [T 1 None None (Some 3072) [T 2 (Some 0) None (Some 1024) []];
                                  T 4 (Some 2) None (Some 4096) []]).
Proof. exact ex_extract_declined. Qed.
Print Assumptions example_declined_through_wrapper.

Theorem example_declined_with_update_bipartitions :
  prune_taxa [1] true false true false (ex_tree, Some true) =
  IOk ([], T 0 None None (Some 5120) [T 1 None None (Some 3072) [T 2 (Some 0) None (Some 1024) []];
                                      T 4 (Some 2) None (Some 4096) []], Some true).
Proof. exact ex_update_declined. Qed.
Print Assumptions example_declined_with_update_bipartitions.

(* 12b. where the library still departs from the property (witnesses replay on the implementation) *)
(* the label wrappers in their form BEFORE notes/C08_fix_c.patch (string comparison); for the repaired
   form see labels_case_agreement at the end *)
Theorem labels_case_agreement_refuted :
  exists ns t, NoDup (ids t) /\ leaf_taxa_only t = true /\
    (forall n a, In n (leaves t) -> t_taxon n = Some a -> memz a (map fst ns) = true) /\
    exists r, retain_taxa_with_labels ns false [1; 4] false true (t, Some true) = IOk ([], r, Some true) /\
              extract_tree_with_taxa_labels ns [1; 4] true t <> XOk r.
Proof. exact labels_case_refuted. Qed.
Print Assumptions labels_case_agreement_refuted.

Theorem prune_subtree_childless_parent_refuted :
  exists id t, NoDup (ids t) /\ leaf_taxa_only t = true /\ t_id t <> id /\
    exists r, restrict true (fun i _ => negb (memz i [id])) t = Some r /\
              prune_subtree id false true (t, Some true) <> IOk ([], r, Some true).
Proof. exact prune_subtree_childless_refuted. Qed.
Print Assumptions prune_subtree_childless_parent_refuted.

(* 13. non-vacuity: ((A:1,B:2):3,C:4):5 satisfies the hypotheses; concrete non-trivial outcomes *)
Theorem example_hypotheses_hold :
  NoDup (ids ex_tree) /\ leaf_taxa_only ex_tree = true /\ all_len ex_tree = true.
Proof. exact ex_tree_ok. Qed.
Print Assumptions example_hypotheses_hold.

Theorem example_prune_merges_length :
  prune_taxa [1] false true true false (ex_tree, Some true) =
  IOk ([], T 0 None None (Some 5120) [T 2 (Some 0) None (Some 4096) []; T 4 (Some 2) None (Some 4096) []], Some true).
Proof. exact ex_prune. Qed.
Print Assumptions example_prune_merges_length.

Theorem example_single_survivor :
  prune_taxa [0; 2] false true true false (ex_tree, Some true) = IOk ([], T 3 (Some 1) None (Some 10240) [], Some true)
  /\ filter (app_np (drop_taxa [0; 2])) (leaves ex_tree) = [T 3 (Some 1) None (Some 2048) []].
Proof. exact ex_single. Qed.
Print Assumptions example_single_survivor.

Theorem example_emptying_is_an_error :
  prune_taxa [0; 1; 2] false true true false (ex_tree, Some true) = IErr EAttr (T 0 None None (Some 5120) [])
  /\ extract_tree_with_taxa [] true ex_tree = XErr ESeedDel.
Proof. exact ex_empty. Qed.
Print Assumptions example_emptying_is_an_error.

Theorem example_removed_list :
  filter_leaf_nodes [4] true false false (ex_tree, Some true) =
  IOk ([2; 3; 1], T 0 None None (Some 5120) [T 4 (Some 2) None (Some 4096) []], Some true).
Proof. exact ex_filter_removed. Qed.
Print Assumptions example_removed_list.

Theorem example_distance :
  dist 2 4 ex_tree = Some 8192 /\
  dist 2 4 (T 0 None None (Some 5120) [T 2 (Some 0) None (Some 4096) []; T 4 (Some 2) None (Some 4096) []]) = Some 8192.
Proof. exact ex_dist. Qed.
Print Assumptions example_distance.

(* ======================================================================================== *)
(* second wave                                                                              *)
(* ======================================================================================== *)

(* 14. ORDER of the returned node list.  rnd bad n (Model/C08Spec2.v) is the pass in which node n
       goes: 1 for a rejected leaf, 1 + the latest pass of its children for a rejected node that
       loses all children, 0 if it stays.  The list is: pass 1, pass 2, ... and inside each pass the
       iteration (post-)order of the tree - which for the nodes of one pass is the leaf order of the
       tree at pass entry.  (removal_order bad t = flat_map (fun k => level bad k t) (seq 1 (size t)),
       level bad k t = ids of the nodes n of postorder t with rnd bad n = k.) *)
Theorem removed_reported_order :
  forall (ok : list Z) (upd_bip sup : bool) (t : tree) (rooted : option bool) (ret : list Z) (t' : tree) (r' : option bool),
    NoDup (ids t) ->
    filter_leaf_nodes ok true upd_bip sup (t, rooted) = IOk (ret, t', r') ->
    ret = flat_map (fun k => map t_id (filter (fun n => Nat.eqb (rnd (fun i _ => negb (memz i ok)) n) k) (postorder t)))
                   (seq 1 (size t)).
Proof. exact filter_removed_order. Qed.
Print Assumptions removed_reported_order.

Theorem removed_reported_order_without_taxa :
  forall (upd_bip sup : bool) (t : tree) (rooted : option bool) (ret : list Z) (t' : tree) (r' : option bool),
    NoDup (ids t) ->
    prune_leaves_without_taxa true upd_bip sup (t, rooted) = IOk (ret, t', r') ->
    ret = flat_map (fun k => map t_id (filter (fun n => Nat.eqb (rnd no_taxon n) k) (postorder t))) (seq 1 (size t)).
Proof. exact plwt_removed_order. Qed.
Print Assumptions removed_reported_order_without_taxa.

(* the first pass is exactly the rejected leaves in leaf order *)
Theorem removed_first_pass_is_leaf_order :
  forall (bad : npred) (t : tree),
    map t_id (filter (fun n => Nat.eqb (rnd bad n) 1) (postorder t)) = map t_id (filter (app_np bad) (leaves t)).
Proof. exact level_one. Qed.
Print Assumptions removed_first_pass_is_leaf_order.

Theorem example_removal_order :
  removal_order (fun i _ => negb (memz i [4])) ex_tree = [2; 3; 1].
Proof. exact ex_removal_order. Qed.
Print Assumptions example_removal_order.

(* 15. filter_leaf_nodes(recursive=False): one pass; emptied parents stay (keepe = np_true);
       the returned list is the rejected leaves in leaf order; a rejected single-node tree raises *)
Theorem filter_leaf_nodes_nonrecursive :
  forall (ok : list Z) (upd_bip sup : bool) (t : tree) (rooted : option bool),
    NoDup (ids t) ->
    filter_leaf_nodes ok false upd_bip sup (t, rooted) =
    match restrictG sup (keep_ids ok) np_true np_true t with
    | Some r => IOk (map t_id (filter (fun n => negb (memz (t_id n) ok)) (leaves t)),
                     fst (if upd_bip then encode_effect sup rooted r else (r, rooted)),
                     snd (if upd_bip then encode_effect sup rooted r else (r, rooted)))
    | None => IErr ESeedDel t
    end.
Proof. exact filter_nonrecursive_spec. Qed.
Print Assumptions filter_leaf_nodes_nonrecursive.

(* 16. Node.extract_subtree called on a node that has a parent: the restriction, unless the start
       node itself is filtered out, emptied or merged into its only child - then ValueError
       (the "TODO: find a replacement node" branch); never SeedNodeDeletionException *)
Theorem extract_subtree_on_inner_node :
  forall (flt : xfilter) (sup : bool) (t : tree),
    NoDup (ids t) ->
    extract_subtree flt sup true t =
    match restrictG sup
            (fun i _ => match flt with None => true | Some (lfl, _, oks) => negb (lfl && negb (memz i oks)) end)
            (fun i _ => match flt with None => true | Some (_, intl, oks) => negb (intl && negb (memz i oks)) end)
            np_false t with
    | Some r => if Z.eqb (t_id r) (t_id t) then XOk r else XErr EValue
    | None => XErr EValue
    end.
Proof. exact extract_subtree_inner_spec. Qed.
Print Assumptions extract_subtree_on_inner_node.

(* 17. Node.remove_child.  Plain mode: the subtree goes, nothing else (restrictG with emptied parents
       kept); errors leave the tree alone; suppressing mode = the plain result followed by a local
       repair at the node that lost the child (splice_try / root_absorb_try, Model/C08Spec2.v) *)
Theorem remove_child_plain_is_restrictG :
  forall (par : Z) (p c t : tree) (rooted : option bool),
    NoDup (ids t) -> find par t = Some p -> In c (t_kids p) ->
    remove_child par (t_id c) false (t, rooted) = IOk ([t_id c], upd_below rm_f (t_id c) t, rooted) /\
    restrictG false (fun i _ => negb (Z.eqb i (t_id c))) (fun i _ => negb (Z.eqb i (t_id c))) np_true t
    = Some (upd_below rm_f (t_id c) t).
Proof. exact remove_child_plain. Qed.
Print Assumptions remove_child_plain_is_restrictG.

Theorem remove_child_value_errors :
  forall (par id : Z) (suppress : bool) (t : tree) (rooted : option bool),
    (find par t = None \/
     exists p, find par t = Some p /\ existsb (fun k => Z.eqb (t_id k) id) (t_kids p) = false) ->
    remove_child par id suppress (t, rooted) = IErr EValue t.
Proof. exact remove_child_errors. Qed.
Print Assumptions remove_child_value_errors.

Theorem remove_child_suppressing :
  forall (par : Z) (p c t : tree) (rooted : option bool),
    NoDup (ids t) -> find par t = Some p -> In c (t_kids p) ->
    remove_child par (t_id c) true (t, rooted) =
    IOk ([t_id c],
         (if Z.eqb (t_id t) par then root_absorb_try (upd_below rm_f (t_id c) t)
          else upd_below splice_try par (upd_below rm_f (t_id c) t)),
         rooted).
Proof. exact remove_child_suppress. Qed.
Print Assumptions remove_child_suppressing.

(* 18. prune_subtree(c) is the induced subtree of the leaves outside c exactly when c's parent keeps
       another child; with an only child the two differ (the known finding's domain) *)
Theorem prune_subtree_is_restrict :
  forall (c p : tree) (upd_bip sup : bool) (t : tree) (rooted : option bool),
    NoDup (ids t) -> In p (preorder t) -> In c (t_kids p) -> (2 <= length (t_kids p))%nat ->
    exists r, restrict sup (fun i _ => negb (memz i (ids c))) t = Some r /\
              prune_subtree (t_id c) upd_bip sup (t, rooted) =
              IOk ([], fst (if upd_bip then encode_effect sup rooted r else (r, rooted)),
                       snd (if upd_bip then encode_effect sup rooted r else (r, rooted))).
Proof. exact prune_subtree_is_restrict_thm. Qed.
Print Assumptions prune_subtree_is_restrict.

Theorem prune_subtree_only_child_is_not_restrict :
  forall (sup : bool) (c p : tree), t_kids p = [c] ->
    forall t, NoDup (ids t) -> In p (preorder t) ->
    restrictG sup (fun i _ => negb (Z.eqb i (t_id c))) (fun i _ => negb (Z.eqb i (t_id c))) np_true t
    <> restrict sup (fun i _ => negb (memz i (ids c))) t.
Proof. exact prune_subtree_restrict_neq. Qed.
Print Assumptions prune_subtree_only_child_is_not_restrict.

(* 19. the lazy iterators: when the library's post-order iterator is about to expand node m - exactly
       the nodes before m's block of the post-order have been yielded and the loop body has run on
       them - the subtree of m is still what it was at loop entry, for every loop body `upd f` whose f
       only rebuilds from the subtree it is given.  Hence every child list the iterator reads is the
       original one and (Props/C15.v, postorder_iter_spec) it yields the post-order at loop entry. *)
Theorem lazy_iteration_reads_original_subtrees :
  forall (f : tree -> list tree),
    (forall n a, In a (flat_map ids (f n)) -> In a (ids n)) ->
    forall t, NoDup (ids t) ->
    forall m, In m (preorder t) ->
    exists L1 L2, post_ids t = L1 ++ post_ids m ++ L2 /\
                  In m (flat_map preorder (fold_left (fun F id => updF f id F) L1 [t])).
Proof. exact unvisited_block_intact. Qed.
Print Assumptions lazy_iteration_reads_original_subtrees.

(* 20. link to the pointer level: the heap program Model/HeapOps.v prune_subtree (C03) ends in a heap
       whose abstraction is what the C08 transcription computes, i.e. restrictG - and the induced
       subtree proper when the parent keeps another child *)
Theorem heap_prune_subtree_is_restrictG :
  forall (ub su : bool) (h : Heap.heap) (t : tree) (n : Z),
    C03Base.WF h -> Heap.abs h = Some t -> In n (ids t) -> n <> Heap.seed h ->
    exists h' t' r',
      HeapOps.prune_subtree n ub su h = Heap.HOk h' /\ C03Base.WF h' /\ Heap.abs h' = Some t' /\
      prune_subtree n ub su (t, Heap.rooted h) = IOk ([], t', r') /\
      exists r, restrictG su (fun i _ => negb (Z.eqb i n)) (fun i _ => negb (Z.eqb i n)) np_true t = Some r /\
                t' = fst (if ub then encode_effect su (Heap.rooted h) r else (r, Heap.rooted h)).
Proof. exact heap_prune_subtree_link. Qed.
Print Assumptions heap_prune_subtree_is_restrictG.

Theorem heap_prune_subtree_is_restrict :
  forall (ub su : bool) (h : Heap.heap) (t c p : tree),
    C03Base.WF h -> Heap.abs h = Some t -> In p (preorder t) -> In c (t_kids p) -> (2 <= length (t_kids p))%nat ->
    exists h' r,
      HeapOps.prune_subtree (t_id c) ub su h = Heap.HOk h' /\ C03Base.WF h' /\
      restrict su (fun i _ => negb (memz i (ids c))) t = Some r /\
      Heap.abs h' = Some (fst (if ub then encode_effect su (Heap.rooted h) r else (r, Heap.rooted h))).
Proof. exact heap_prune_subtree_restrict. Qed.
Print Assumptions heap_prune_subtree_is_restrict.

(* 21. the lazy iterator itself.  lazy_run (Model/C08Loop.v) runs the post-order machine GENERATED
       FROM THE LIBRARY SOURCE (Gen/Traversals.v, Node_postorder_iter_step) over the object graph of
       the current forest and applies the loop body to every node the moment it is yielded, before
       the machine is resumed.  For every body that is the pointer-level update `upd f` below the seed
       (f rebuilding only from the subtree it is given, keeping ids distinct) and anything at the
       seed: the machine yields the post-order of the tree AT LOOP ENTRY, does not run out of fuel
       2*size+1, and the final forest is the one the list-loop of the transcription computes. *)
Theorem lazy_postorder_loop_is_list_loop :
  forall (f : tree -> list tree) (body : list tree -> Z -> list tree) (root : Z),
    (forall n a, In a (flat_map ids (f n)) -> In a (ids n)) ->
    (forall n, NoDup (ids n) -> NoDup (flat_map ids (f n))) ->
    (forall F a, a <> root -> body F a = updF f a F) ->
    forall t, t_id t = root -> NoDup (ids t) ->
    lazy_run body (2 * size t + 1) [t] [(t_id t, false)] =
    Some (body (fold_left (fun F id => updF f id F) (flat_map post_ids (t_kids t)) [t]) root, post_ids t).
Proof. exact lazy_loop_is_list_loop. Qed.
Print Assumptions lazy_postorder_loop_is_list_loop.

(* ... instantiated for the two loops of the anchored code that mutate while iterating *)
Theorem lazy_suppress_unifurcations :
  forall t, NoDup (ids t) ->
    lazy_run su_body (2 * size t + 1) [t] [(t_id t, false)] = Some ([fst (su_run t)], post_ids t).
Proof. exact lazy_suppress_unifurcations_loop. Qed.
Print Assumptions lazy_suppress_unifurcations.

Theorem lazy_prune_taxa_first_loop :
  forall (lf intn : bool) (taxa : list Z) (t : tree), NoDup (ids t) ->
    lazy_run (p1_body lf intn taxa (t_id t)) (2 * size t + 1) [t] [(t_id t, false)] =
    Some ([ires_tree (prune_phase1 lf intn taxa t) t], post_ids t).
Proof. exact lazy_prune_taxa_loop. Qed.
Print Assumptions lazy_prune_taxa_first_loop.

(* ======================================================================================== *)
(* probed variants (the check is green before and after the two repairs)                    *)
(* ======================================================================================== *)

(* 22. notes/C08_fix_c.patch: extract_tree_with(out)_taxa_labels resolve their labels through the
       namespace (get_taxa, the namespace's case rule).  In that form extraction agrees with the
       in-place label methods for every label list, whatever its case: the same hypothesis
       ("the labels name the taxa under lab_match cs") now serves all four label variants.
       (labels_case_agreement_refuted above is about the form before the repair.) *)
Theorem labels_case_agreement :
  forall (ns : nspace) (cs : bool) (lkeep lpruned keep pruned : list Z) (sup : bool) (t : tree)
         (rooted : option bool) (r : tree),
    NoDup (ids t) -> leaf_taxa_only t = true ->
    (forall n a, In n (leaves t) -> t_taxon n = Some a -> memz a (map fst ns) = true) ->
    (forall n a, In n (leaves t) -> t_taxon n = Some a -> memz a pruned = negb (memz a keep)) ->
    (forall n a, In n (leaves t) -> t_taxon n = Some a ->
       ((exists m lb, In m ns /\ fst m = a /\ In lb lkeep /\ lab_match cs (snd m) lb = true) <-> In a keep)) ->
    (forall n a, In n (leaves t) -> t_taxon n = Some a ->
       ((exists m lb, In m ns /\ fst m = a /\ In lb lpruned /\ lab_match cs (snd m) lb = true) <-> In a pruned)) ->
    restrict sup (keep_taxa keep) t = Some r ->
    prune_taxa_with_labels ns cs lpruned false sup true false (t, rooted) = IOk ([], r, rooted) /\
    retain_taxa_with_labels ns cs lkeep false sup (t, rooted) = IOk ([], r, rooted) /\
    extract_tree_with_taxa_labels_ns ns cs lkeep sup t = XOk r /\
    extract_tree_without_taxa_labels_ns ns cs lpruned sup t = XOk r.
Proof. exact labels_four_way. Qed.
Print Assumptions labels_case_agreement.

Theorem extract_labels_ns_is_extract :
  forall (ns : nspace) (cs : bool) (labels keep : list Z) (sup : bool) (t : tree),
    NoDup (ids t) -> leaf_taxa_only t = true ->
    (forall n a, In n (leaves t) -> t_taxon n = Some a ->
       ((exists m lb, In m ns /\ fst m = a /\ In lb labels /\ lab_match cs (snd m) lb = true) <-> In a keep)) ->
    extract_tree_with_taxa_labels_ns ns cs labels sup t = extract_tree_with_taxa keep sup t.
Proof. exact extract_with_labels_ns_spec. Qed.
Print Assumptions extract_labels_ns_is_extract.

Theorem extract_without_labels_ns_is_extract :
  forall (ns : nspace) (cs : bool) (labels pruned : list Z) (sup : bool) (t : tree),
    NoDup (ids t) -> leaf_taxa_only t = true ->
    (forall n a, In n (leaves t) -> t_taxon n = Some a ->
       ((exists m lb, In m ns /\ fst m = a /\ In lb labels /\ lab_match cs (snd m) lb = true) <-> In a pruned)) ->
    extract_tree_without_taxa_labels_ns ns cs labels sup t = extract_tree_without_taxa pruned sup t.
Proof. exact extract_without_labels_ns_spec. Qed.
Print Assumptions extract_without_labels_ns_is_extract.

Theorem example_labels_case_agreement :
  exists r, retain_taxa_with_labels [(0, 0); (1, 2); (2, 4)] false [1; 4] false true (ex_tree, Some true) = IOk ([], r, Some true) /\
            extract_tree_with_taxa_labels_ns [(0, 0); (1, 2); (2, 4)] false [1; 4] true ex_tree = XOk r.
Proof. exact ex_labels_case_agree. Qed.
Print Assumptions example_labels_case_agreement.

(* 23. pruning that reaches the seed: the exception class e is what the harness probes
       (AttributeError before notes/C03_fix_1.patch, SeedNodeDeletionException after); place and tree
       left behind are the same *)
Theorem prune_is_restrict_either_exception :
  forall (e : xerr) (taxa : list Z) (upd_bip sup : bool) (t : tree) (rooted : option bool),
    NoDup (ids t) -> leaf_taxa_only t = true ->
    seed_err e (prune_taxa taxa upd_bip sup true false (t, rooted)) =
    match restrict sup (drop_taxa taxa) t with
    | Some r => IOk ([], fst (if upd_bip then encode_effect sup rooted r else (r, rooted)),
                         snd (if upd_bip then encode_effect sup rooted r else (r, rooted)))
    | None => IErr e (set_kids t [])
    end.
Proof. exact (fun e taxa u s => prune_taxa_variant e taxa u s true false). Qed.
Print Assumptions prune_is_restrict_either_exception.

Theorem prune_leaves_without_taxa_either_exception :
  forall (e : xerr) (upd_bip sup : bool) (t : tree) (rooted : option bool),
    NoDup (ids t) ->
    match restrictG sup has_taxon np_true has_taxon t with
    | Some r => exists rem,
        seed_err e (prune_leaves_without_taxa true upd_bip sup (t, rooted)) =
        IOk (rem, fst (if upd_bip then encode_effect sup rooted r else (r, rooted)),
                  snd (if upd_bip then encode_effect sup rooted r else (r, rooted)))
    | None => seed_err e (prune_leaves_without_taxa true upd_bip sup (t, rooted)) = IErr e (set_kids t [])
    end.
Proof. exact plwt_variant. Qed.
Print Assumptions prune_leaves_without_taxa_either_exception.

(* ---- 17b (wave 6). Node.remove_child(child, suppress_unifurcations=True) and path lengths.
   par is not the seed (the case in which the node that lost the child is spliced out).  Hypothesis,
   on the two merged edges ONLY: if par is left with exactly one child k, par's and k's edges carry lengths.
   Then the distance between any two remaining nodes (outside the removed subtree c, other than par,
   which disappears) is unchanged - whatever the other lengths of the tree are (a distance is None on both
   sides when an edge of the path has no length). ---- *)
Theorem remove_child_suppress_dist_preserved :
  forall (par : Z) (p c t : tree) (rooted : option bool),
  NoDup (ids t) -> find par t = Some p -> In c (t_kids p) -> t_id t <> par ->
  (forall n k, In n (preorder (upd_below rm_f (t_id c) t)) -> t_id n = par -> t_kids n = [k] ->
               t_len n <> None /\ t_len k <> None) ->
  exists t', remove_child par (t_id c) true (t, rooted) = IOk ([t_id c], t', rooted) /\
    forall a b, ~ In a (ids c) -> ~ In b (ids c) -> a <> par -> b <> par ->
      dist a b t' = dist a b t.
Proof. exact remove_child_suppress_dist. Qed.
Print Assumptions remove_child_suppress_dist_preserved.

(* which length survives the merge `try: k.edge.length += par.edge.length  except: pass`
   (try_add (len k) (len par), Props/C08.v remove_child_suppressing): the sum when both are defined; k's
   own length when par's is undefined; None when k's is undefined - par's defined length is then DROPPED *)
Theorem remove_child_merged_length : forall (k d : option Z),
  try_add k d = match k, d with
                | Some x, Some y => Some (x + y)
                | Some x, None => Some x
                | None, _ => None
                end.
Proof. exact merged_length_cases. Qed.
Print Assumptions remove_child_merged_length.

Theorem remove_child_suppress_dist_nonvacuous :
  NoDup (ids exrd) /\ find 1 exrd = Some (T 1 None None (Some 3) [T 2 (Some 10) None (Some 1) []; T 3 (Some 11) None (Some 2) []]) /\
  remove_child 1 2 true (exrd, None) =
    IOk ([2], T 0 None None None [T 3 (Some 11) None (Some 5) []; T 4 (Some 12) None (Some 4) []], None) /\
  dist 3 4 exrd = Some 9 /\
  dist 3 4 (T 0 None None None [T 3 (Some 11) None (Some 5) []; T 4 (Some 12) None (Some 4) []]) = Some 9.
Proof. exact remove_child_suppress_dist_example. Qed.
Print Assumptions remove_child_suppress_dist_nonvacuous.

(* the None cases on concrete trees: (A:1,B:None)p:3 -> B:None (3 is dropped); (A:1,B:2)p:None -> B:2 *)
Theorem remove_child_suppress_none_lengths :
  remove_child 1 2 true
    (T 0 None None None [T 1 None None (Some 3) [T 2 (Some 10) None (Some 1) []; T 3 (Some 11) None None []];
                         T 4 (Some 12) None (Some 4) []], None)
  = IOk ([2], T 0 None None None [T 3 (Some 11) None None []; T 4 (Some 12) None (Some 4) []], None) /\
  remove_child 1 2 true
    (T 0 None None None [T 1 None None None [T 2 (Some 10) None (Some 1) []; T 3 (Some 11) None (Some 2) []];
                         T 4 (Some 12) None (Some 4) []], None)
  = IOk ([2], T 0 None None None [T 3 (Some 11) None (Some 2) []; T 4 (Some 12) None (Some 4) []], None).
Proof. exact remove_child_suppress_none_cases. Qed.
Print Assumptions remove_child_suppress_none_lengths.
