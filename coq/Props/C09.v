(* C09 property theorems: statements only, each closed by `exact`.
   Models: Model/C09Model.v (FASTA, PHYLIP; characters and lines), Model/C09Nexus.v (NEXUS
   CHARACTERS/DATA block; tokens - the token layer is property C02's), Model/C09Alphabets.v
   (state tables dumped from the library on every run), predicates in Model/C09Spec.v and
   Model/C09Convert.v.  `lower` is Python's str.lower on taxon labels: an arbitrary function. *)
From Coq Require Import ZArith List Bool.
From DV Require Import Model.PyPrims Model.C09AlphaTypes Model.C09Alphabets Model.C09Model Model.C09Spec
  Model.C09Nexus Model.C09Convert Proofs.C09Text Proofs.C09Fasta Proofs.C09PhylipInst Proofs.C09NexusProofs
  Model.C09Dataset Proofs.C09NexusStd Proofs.C09Dataset Proofs.C09Main Proofs.C09Examples.
Import ListNotations.
Open Scope Z_scope.

(* Every state of every shipped alphabet (DNA, RNA, nucleotide, protein, restriction sites,
   infinite sites, standard 0-9: fundamental states, gap, missing, ambiguity codes) is written as
   one plain character; the readers' symbol map sends that character, and every synonym (the
   other-case variant of a case-insensitive alphabet, DNA X for N), back to the same state; and
   no two states share a symbol even after the alphabet's case folding.  The bound is the
   generated table itself: the obligations are re-computed when the library's tables change. *)
Theorem alphabet_lookup_roundtrip : forall a, In a all_alphabets ->
  forall s, In s (a_states a) ->
  exists ch,
    s_symbol s = [ch] /\ plain_symbol_char ch = true
    /\ symbol_of_state a (s_index s) = Some [ch]
    /\ state_of_symbol a ch = Some (s_index s)
    /\ (forall y, In y (s_synonyms s) -> tlookup y (a_fullmap a) = Some (s_index s))
    /\ (forall s', In s' (a_states a) ->
        fold_symbol a (s_symbol s') = fold_symbol a (s_symbol s) -> s' = s).
Proof. exact alphabet_lookup_roundtrip_l. Qed.
Print Assumptions alphabet_lookup_roundtrip.

(* hence any sequence of state indices of a shipped alphabet is a sequence of admissible cells *)
Theorem generated_cells_ok : forall a, In a all_alphabets ->
  forall i, valid_cell a i = true -> cell_ok a i = true.
Proof. exact generated_cells_ok_l. Qed.
Print Assumptions generated_cells_ok.

(* FASTA: for every wrap setting and width, every number of taxa and every (possibly ragged)
   non-empty sequences over the alphabet, labels that are stripped strings without "\n" and
   pairwise distinct up to case: reading what was written gives the same labels in the same
   order with the same states. *)
Theorem fasta_roundtrip : forall (lower : text -> text) (a : alphabet) (wrap : bool) (width : Z) (m : matrix),
  forallb fasta_label_ok (map fst m) = true ->
  labels_distinct lower (map fst m) = true ->
  cells_ok a m = true ->
  rows_nonempty m = true ->
  read_fasta lower a (write_fasta a wrap width m) = Ok m.
Proof. exact fasta_roundtrip_l. Qed.
Print Assumptions fasta_roundtrip.

(* PHYLIP, all four variants (strict / relaxed writer with the matching reader, sequential /
   interleaved reader), both delimiter settings and all four underscore/space conversion pairs:
   for every non-empty matrix of ntax rows and nchar >= 1 columns and labels admissible for the
   variant (`phylip_label_ok`: non-empty, stripped, at most 10 characters when strict, no blank
   resp. no run of two blanks when relaxed, restored by the reader's underscore conversion), the
   writer succeeds and the reader returns the matrix. *)
Theorem phylip_roundtrip : forall (lower : text -> text) (a : alphabet) (wo : phy_wopts) (ro : phy_ropts)
    (nchar : Z) (m : matrix),
  r_strict ro = w_strict wo ->
  m <> [] -> 1 <= nchar ->
  forallb (phylip_label_ok wo ro) (map fst m) = true ->
  labels_distinct lower (map fst m) = true ->
  cells_ok a m = true ->
  rectangular nchar m = true ->
  exists t, write_phylip (symbols_as_string a) wo m = Ok t
            /\ read_phylip lower Z (phylip_states a) ro t = Ok m.
Proof. exact phylip_roundtrip_l. Qed.
Print Assumptions phylip_roundtrip.

(* PHYLIP with continuous characters: values are abstract; `render` is str(float), `parse` is
   float(); the premises are that parse inverts render and that a rendered value is a non-empty
   string without whitespace. *)
Theorem phylip_continuous_roundtrip : forall (lower : text -> text) (V : Type) (render : V -> text)
    (parse : text -> option V),
  (forall v, parse (render v) = Some v) ->
  (forall v, render v <> [] /\ nospace (render v)) ->
  forall (wo : phy_wopts) (ro : phy_ropts) (nchar : Z) (m : list (text * list V)),
  r_strict ro = w_strict wo ->
  m <> [] -> 1 <= nchar ->
  forallb (phylip_label_ok wo ro) (map fst m) = true ->
  labels_distinct lower (map fst m) = true ->
  rectangular nchar m = true ->
  exists t, write_phylip (cont_as_string V render) wo m = Ok t
            /\ read_phylip lower V (phylip_cont V parse) ro t = Ok m.
Proof. exact phylip_continuous_roundtrip_l. Qed.
Print Assumptions phylip_continuous_roundtrip.

(* NEXUS, token level, data types DNA / RNA / NUCLEOTIDE / PROTEIN, as a DATA block (simple,
   NTAX in DIMENSIONS, empty namespace) or a CHARACTERS block (namespace and NTAX from the TAXA
   block), case-sensitive or case-insensitive taxon labels: the reader applied to the tokens the
   writer produced (BEGIN .. DIMENSIONS .. FORMAT .. MATRIX rows .. END) returns exactly one
   matrix of the same data type with the same rows, the namespace is the list of labels, and
   the three ends of line after END; are left. *)
Theorem nexus_chars_roundtrip : forall (lower : text -> text) (dt : dtype) (simple cs : bool)
    (m : matrix) (nchar : Z),
  fixed_dtype dt = true ->
  m <> [] -> 1 <= nchar ->
  forallb label_token_ok (map fst m) = true ->
  NoDup (map (keyf lower cs) (map fst m)) ->
  cells_ok (alphabet_of_dtype dt) m = true ->
  rectangular nchar m = true ->
  exists toks st',
    write_chars_block dt [alphabet_of_dtype dt] [] (mkNW simple None None) m = Ok toks
    /\ read_chars_block lower keep_ns
         (if simple then nx_init [] None cs else nx_init (map fst m) (Some (len m)) cs) toks
       = Ok (st', [mkBR dt (alphabet_of_dtype dt) m (map fst m) None None], [EOL; EOL; EOL]).
Proof. exact nexus_chars_roundtrip_l. Qed.
Print Assumptions nexus_chars_roundtrip.

(* NEXUS, token level, the data types written as DATATYPE=STANDARD SYMBOLS="..." (standard,
   restriction sites, infinite sites).  `sym_order` is the order in which the writer's Python set
   of fundamental symbols is iterated (hash dependent): ANY duplicate-free enumeration of them.
   The reader builds a new alphabet b from SYMBOLS, GAP and MISSING; state indices differ from
   the writer's alphabet a, so the conclusion is the property's own: the same taxa in the same
   order, each with the same sequence of states BY SYMBOL (str(state)). *)
Theorem nexus_chars_roundtrip_standard : forall (lower : text -> text) (dt : dtype) (a : alphabet)
    (sym_order : list text) (simple cs : bool) (m : matrix) (nchar : Z),
  std_dtype dt = true -> std_alphabet_ok a = true ->
  same_set sym_order (fundamental_symbols [a]) = true -> texts_distinct sym_order = true ->
  m <> [] -> 1 <= nchar ->
  forallb label_token_ok (map fst m) = true ->
  NoDup (map (keyf lower cs) (map fst m)) ->
  forallb (fun r => forallb (valid_cell a) (snd r)) m = true ->
  rectangular nchar m = true ->
  exists toks st' b rows',
    write_chars_block dt [a] sym_order (mkNW simple None None) m = Ok toks
    /\ read_chars_block lower keep_ns
         (if simple then nx_init [] None cs else nx_init (map fst m) (Some (len m)) cs) toks
       = Ok (st', [mkBR DtStandard b rows' (map fst m) None None], [EOL; EOL; EOL])
    /\ map fst rows' = map fst m
    /\ map (fun r => map (state_str b) (snd r)) rows' = map (fun r => map (state_str a) (snd r)) m.
Proof. exact nexus_standard_roundtrip_l. Qed.
Print Assumptions nexus_chars_roundtrip_standard.

(* the three shipped alphabets written that way satisfy the hypothesis (finite, re-computed) *)
Theorem standard_alphabets_ok :
  forallb std_alphabet_ok [alpha_standard; alpha_restriction; alpha_infinite] = true.
Proof. exact standard_alphabets_ok_l. Qed.
Print Assumptions standard_alphabets_ok.

(* Conversion: writing an admissible matrix to any of the modelled formats (FASTA with any
   wrapping, any PHYLIP variant, NEXUS DATA or CHARACTERS block), reading it back and writing
   the result to any other of them and reading that back gives the original (labels, states). *)
Theorem convert_preserves : forall (lower : text -> text) (dt : dtype) (nchar : Z) (f1 f2 : format) (m : matrix),
  admissible lower dt nchar f1 m = true -> admissible lower dt nchar f2 m = true ->
  (do m1 <- through lower dt f1 m ;; through lower dt f2 m1) = Ok m.
Proof. exact convert_preserves_l. Qed.
Print Assumptions convert_preserves.

(* Data sets with several taxon namespaces, NEXUS, token level (PARTIAL).
   `nss` is the reader's table of namespaces after the TAXA blocks: (title, taxon labels) in
   document order; titles pairwise different after .upper() (what NexusReader compares).  A
   CHARACTERS block of a matrix over the i-th namespace, written with its own TITLE and
   LINK TAXA = <title of namespace i>, and read with the data-set resolver
   (NexusReader._get_taxon_namespace), comes back as exactly that matrix attached to a namespace
   carrying exactly its own labels; NTAX left by the last TAXA block (`nt`, any non-zero value)
   and the namespace the reader held before (`ns0`) do not matter.
   Missing for the full statement: reading the TAXA blocks' tokens into `nss` and the payload of
   TREES blocks are the token-level tree reader's (C02; a TREES block resolves its LINK through
   the same function); the STANDARD-family data types; NeXML (oracle only). *)
Theorem multi_namespace_roundtrip_partial : forall (lower : text -> text) (nss : list (tok * list text))
    (i : nat) (title : tok) (dt : dtype) (cs : bool) (m : matrix) (nchar nt : Z) (ct : tok) (ns0 : list text),
  NoDup (map ucase (map fst nss)) ->
  nth_error nss i = Some (title, map fst m) ->
  fixed_dtype dt = true ->
  m <> [] -> 1 <= nchar -> nt <> 0 ->
  is_eol ct = false -> is_eol title = false ->
  forallb label_token_ok (map fst m) = true ->
  NoDup (map (keyf lower cs) (map fst m)) ->
  cells_ok (alphabet_of_dtype dt) m = true ->
  rectangular nchar m = true ->
  exists toks st',
    write_chars_block dt [alphabet_of_dtype dt] [] (mkNW false (Some ct) (Some title)) m = Ok toks
    /\ read_chars_block lower (resolve_in (tab_of nss)) (nx_init ns0 (Some nt) cs) toks
       = Ok (st', [mkBR dt (alphabet_of_dtype dt) m (map fst m) (Some ct) (Some title)], [EOL; EOL; EOL]).
Proof. exact multi_namespace_roundtrip_l. Qed.
Print Assumptions multi_namespace_roundtrip_partial.

(* the (escaped) titles the writer hands out have pairwise different KEYS, whatever the escaping
   function and the key function `norm`: the uniqueness loop tests the key of the escaped title
   against the keys of the titles given so far. With norm = upper-casing (the writer after the
   repair notes/C09_fix_1.patch) this is: pairwise different up to case ... *)
Theorem block_titles_distinct : forall (esc : tok -> text) (norm : text -> text) labels used ts, NoDup used ->
  assign_titles esc norm labels used = Ok ts -> NoDup (used ++ map norm ts).
Proof. exact assign_titles_distinct. Qed.
Print Assumptions block_titles_distinct.

(* ... which is what the reader needs: it compares titles after .upper(), and every title then
   resolves to exactly its own namespace (`taxa x`: the taxon labels of the namespace titled x).
   The text written as TITLE is taken as the title the reader sees (unquoting: token layer, C02). *)
Theorem multi_namespace_titles_resolve : forall (esc : tok -> text) (labels : list tok) (ts : list text)
    (taxa : text -> list text) (i : nat) (t : text) (ns0 : list text),
  assign_titles esc ucase labels [] = Ok ts ->
  nth_error ts i = Some t ->
  resolve_in (tab_of (map (fun x => (x, taxa x)) ts)) (Some t) ns0 = Ok (taxa t).
Proof. exact titles_resolve_l. Qed.
Print Assumptions multi_namespace_titles_resolve.

(* With keys = the titles themselves (norm = identity: the writer before the repair) pairwise
   different is not enough: namespaces labelled "ns" and "NS" get different titles and neither
   LINK resolves (the defect; replayed on the implementation by the harness as long as the
   source compares titles exactly). *)
Theorem multi_namespace_title_case_refuted :
  exists labels titles, assign_titles (fun t => t) (fun t => t) labels [] = Ok titles /\ NoDup titles
    /\ exists t, In t titles /\ resolve_in (tab_of (map (fun x => (x, @nil text)) titles)) (Some t) [] = Err ParseErr.
Proof. exact title_case_refuted_l. Qed.
Print Assumptions multi_namespace_title_case_refuted.
