(* C12 translator tie: statements only, each closed by `exact`.
   coq/Gen/CopyGen.v is regenerated on every run by py/dv/gen_copy.py from the CURRENT Python source
   (Annotable.__deepcopy__, Annotable.deep_copy_annotations_from, AnnotationSet.__deepcopy__, Taxon.__deepcopy__,
   TaxonNamespace.__deepcopy__, TaxonNamespace.populate_memo_for_taxon_namespace_scoped_copy: compiled statement by
   statement; the constructors and __copy__ of TreeList / CharacterMatrix, DataObject.clone, Tree.__copy__ and the
   scoped-copy plumbing, the three _clone_from, the copy construction of TaxonNamespace: facts extracted from the
   AST).  These theorems tie it to the hand model of coq/Model/C12Model.v / C12Shallow.v; an edit of the Python
   changes CopyGen.v and breaks them.
   copy.deepcopy's own dispatch and the reconstruction of built-in containers stay hand-modelled
   (Model/C12GenDispatch.v: dc_step_gen); the run-time library of the generated code is Model/C12GenPrims.v.
   "sim": equal on heap, memo and None-flag, i.e. up to the ghost record that only the hand model writes. *)
From Coq Require Import String ZArith List Bool.
From DV Require Import Model.PyPrims Model.C12Model Model.C12Spec2 Model.C12Shallow Model.C12GenPrims Gen.CopyGen
  Model.C12GenDispatch Proofs.C12GenSim Proofs.C12GenFacts Model.C12Classes Proofs.C12GenClasses.
Import ListNotations.
Open Scope Z_scope.

(* Annotable.deep_copy_annotations_from, as translated, is the model's deep_copy_annotations_from (self allocated) *)
Theorem gen_deep_copy_annotations_from_is_model : forall r1 r2 s t self other, RecSim r1 r2 -> sim s t ->
  (exists d, hget (sh t) self = Some d) ->
  rsim_s (py_Annotable_deep_copy_annotations_from r1 s self other) (deep_copy_annotations_from r2 t self other).
Proof. exact sim_gen_dcaf. Qed.
Print Assumptions gen_deep_copy_annotations_from_is_model.

(* Annotable.__deepcopy__ is the KAnnotable branch of dc_step *)
Theorem gen_annotable_deepcopy_is_model : forall r1 r2, RecSim r1 r2 -> RecLen r2 ->
  forall s t x ob, sim s t -> alookup x (sm t) = None -> hget (sh t) x = Some ob ->
  rsim_v (py_Annotable_deepcopy r1 s x)
         (let '(s1, y) := new_copy t x ob in
          do s2 <- annotable_fields r2 s1 y (obody ob) ;;
          do s3 <- deep_copy_annotations_from r2 s2 y x ;; Ok (s3, R y)).
Proof. exact sim_gen_annotable. Qed.
Print Assumptions gen_annotable_deepcopy_is_model.

(* Taxon.__deepcopy__ is the KTaxon branch *)
Theorem gen_taxon_deepcopy_is_model : forall r1 r2, RecSim r1 r2 -> RecLen r2 ->
  forall s t x ob, sim s t -> alookup x (sm t) = None -> hget (sh t) x = Some ob ->
  rsim_v (py_Taxon_deepcopy r1 s x)
         (let '(s1, y) := new_copy t x ob in
          do s2 <- plain_fields r2 [NM_ANN] s1 y (obody ob) ;;
          do s3 <- deep_copy_annotations_from r2 s2 y x ;; Ok (s3, R y)).
Proof. exact sim_gen_taxon. Qed.
Print Assumptions gen_taxon_deepcopy_is_model.

(* AnnotationSet.__deepcopy__ is the KAnnSet branch *)
Theorem gen_annotationset_deepcopy_is_model : forall r1 r2, RecSim r1 r2 ->
  forall s t x ob, sim s t -> hget (sh t) x = Some ob ->
  rsim_v (py_AnnotationSet_deepcopy r1 s x)
         (match bget (obody ob) NM_TARGET with
          | None => Err AttrErr
          | Some tg =>
            do tg' <- (match tg with
                       | R t0 => match alookup t0 (sm t) with Some t' => Ok (R t') | None => Err KeyErr end
                       | P 0 => if snone t then Ok PNone else Err KeyErr
                       | P _ => Err KeyErr
                       end) ;;
            let '(s1, o) := new_annset t (ocls ob) tg' in
            let s2 := note (memo_set s1 x o) x o in
            match bget (obody ob) NM_ILIST with
            | Some (R lx) => do s5 <- annset_items r2 s2 o (values (body_of s2 lx)) ;; Ok (s5, R o)
            | _ => Err AttrErr
            end
          end).
Proof. exact sim_gen_annset. Qed.
Print Assumptions gen_annotationset_deepcopy_is_model.

(* TaxonNamespace.__deepcopy__ is the KNamespace branch *)
Theorem gen_namespace_deepcopy_is_model : forall r1 r2, RecSim r1 r2 -> RecLen r2 ->
  forall s t x ob, sim s t -> hget (sh t) x = Some ob ->
  rsim_v (py_TaxonNamespace_deepcopy r1 s x)
         (let '(s1, y) := new_copy t x ob in
          match bget (obody ob) NM_TAXA with
          | Some (R lt) =>
            let '(s2, l) := alloc s1 (mkObj CLS_LIST KList []) in
            let s3 := note (memo_set (put s2 y NM_TAXA (R l)) lt l) lt l in
            do s4 <- copy_append r2 s3 l 0 (values (body_of s3 lt)) ;;
            do s5 <- plain_fields r2 [NM_ANN; NM_TAXA] s4 y (obody ob) ;;
            do s6 <- deep_copy_annotations_from r2 s5 y x ;; Ok (s6, R y)
          | Some (P _) => Err TypeErr
          | None => Err AttrErr
          end).
Proof. exact sim_gen_namespace. Qed.
Print Assumptions gen_namespace_deepcopy_is_model.

(* one level of copy.deepcopy with the generated overrides is the model's dc_step *)
Theorem gen_deepcopy_step_is_model : forall r1 r2, RecSim r1 r2 -> RecLen r2 -> RecSim (dc_step_gen r1) (dc_step r2).
Proof. exact sim_dc_step. Qed.
Print Assumptions gen_deepcopy_step_is_model.

(* copy.deepcopy on the generated overrides is the model's dc, for every fuel, state and value *)
Theorem gen_deepcopy_is_model : forall f, RecSim (dc_gen f) (dc f).
Proof. exact dc_gen_sim. Qed.
Print Assumptions gen_deepcopy_is_model.

(* ... so every route built on it computes the heap, memo and result of the model: the theorems of Props/C12.v
   about run_seeded hold of the generated code *)
Theorem gen_run_is_model : forall nf fuel h seeds root,
  match run_seeded_gen nf fuel h seeds root, run_seeded nf fuel h seeds root with
  | Ok (s, v), Ok (t, w) => sh s = sh t /\ sm s = sm t /\ snone s = snone t /\ v = w
  | Err e, Err e' => e = e'
  | OutOfFuel, OutOfFuel => True
  | _, _ => False
  end.
Proof. exact run_seeded_gen_eq. Qed.
Print Assumptions gen_run_is_model.

(* e.g. deepcopy_extends_and_fresh, of the generated code *)
Theorem gen_deepcopy_extends_and_fresh : forall nf h seeds root fuel s' y,
  wf_heap h seeds = true -> 0 <= root < hlen h -> (length h < fuel)%nat ->
  run_seeded_gen nf fuel h seeds root = Ok (s', R y) ->
  (forall o, o < hlen h -> hget (sh s') o = hget h o)
  /\ hlen h <= hlen (sh s')
  /\ (forall o, reach (sh s') y o ->
        hlen h <= o < hlen (sh s') \/ exists b, (In b seeds \/ is_atomic h b = true) /\ reach h b o).
Proof. exact gen_deepcopy_extends_and_fresh_l. Qed.
Print Assumptions gen_deepcopy_extends_and_fresh.

(* the attribute templates computed from TreeList / CharacterMatrix construction and __copy__ *)
Theorem gen_copy_templates_are_model :
  gen_treelist_template = treelist_template
  /\ gen_matrix_template = matrix_template
  /\ gen_cont_matrix_template = cont_matrix_template.
Proof. exact gen_templates_eq. Qed.
Print Assumptions gen_copy_templates_are_model.

(* populate_memo_for_taxon_namespace_scoped_copy from the empty memo builds the seeded memo of the model's scoped
   route (as a map) and changes nothing else *)
Theorem gen_populate_memo_is_model_seeds : forall rec nf h ns ob lt,
  hget h ns = Some ob -> bget (obody ob) NM_TAXA = Some (R lt) ->
  Forall (fun v => exists a, v = R a) (values (body_of (init_st nf h []) lt)) ->
  exists s', py_populate_memo rec (init_st nf h []) ns = Ok s' /\ sh s' = h /\ snone s' = nf /\ sc s' = []
    /\ forall k, alookup k (sm s') = alookup k (sm (init_st nf h (ns_seeds h ns))).
Proof. exact gen_populate_memo_is_seed_memo. Qed.
Print Assumptions gen_populate_memo_is_model_seeds.

(* DataObject.clone(depth) and the route plumbing *)
Theorem gen_clone_routes_are_model : forall d,
  gen_clone_route d = if Z.eqb d 0 then Some CloneShallow else if Z.eqb d 1 then Some CloneScoped
                      else if Z.eqb d 2 then Some CloneDeep else None.
Proof. exact gen_clone_route_eq. Qed.
Print Assumptions gen_clone_routes_are_model.

Theorem gen_route_plumbing_is_model :
  gen_tree_copy_is_scoped_copy = true /\ gen_scoped_copy_is_populate_then_annotable_deepcopy = true
  /\ gen_scoped_copy_of_namespace_is_self = true /\ gen_clone_from_is_scoped_deepcopy_then_dict_takeover = true
  /\ gen_namespace_copy_construction_is_seeded_deepcopy = true.
Proof. exact gen_route_facts. Qed.
Print Assumptions gen_route_plumbing_is_model.

(* wave 7: WHICH copier copy.deepcopy dispatches to, per class of a copied structure.  The table is read off the class
   statements of the current source (method resolution order computed from the bases; the body of the __deepcopy__
   found decides: a function compiled above, a forwarder to Annotable.__deepcopy__, `return self`, the
   OrderedCaselessDict loop, or - no __deepcopy__, no pickling hook, no __slots__ - the default reconstruction); a
   class that gains a __deepcopy__, or one whose body changes, makes the translator fail closed.  It is the table the
   hand model assumes (Model/C12Classes.v); the harness compares it with what the running library resolves for every
   class of every dumped object. *)
Theorem gen_class_dispatch_is_model :
  gen_class_kinds = class_kinds /\ gen_deepcopy_definers = deepcopy_definers.
Proof. exact (conj gen_class_kinds_eq gen_deepcopy_definers_eq). Qed.
Print Assumptions gen_class_dispatch_is_model.

(* Bipartition has no __deepcopy__ (plain reconstruction, frozen or not: never handed back as the same object);
   Annotation has none of its own (Annotable.__deepcopy__: the (owner, attribute) pair of a bound annotation is
   deep-copied, owner included) *)
Theorem gen_bipartition_and_annotation_have_no_deepcopy :
  class_kind gen_class_kinds "Bipartition" = Some KPlain
  /\ class_kind gen_class_kinds "Annotation" = Some KAnnotable
  /\ In ("Bipartition"%string, ""%string) gen_deepcopy_resolves_to
  /\ In ("Annotation"%string, "Annotable"%string) gen_deepcopy_resolves_to
  /\ ~ In "Bipartition"%string gen_deepcopy_definers /\ ~ In "Annotation"%string gen_deepcopy_definers.
Proof. exact gen_bipartition_annotation_resolution. Qed.
Print Assumptions gen_bipartition_and_annotation_have_no_deepcopy.

(* the only classes whose instances copy.deepcopy hands back as they are: the three value classes *)
Theorem gen_atomic_classes_are_the_value_classes : forall c k,
  In (c, k) gen_class_kinds -> (k = KAtomic <-> In c value_classes).
Proof. exact gen_atomic_classes_are_value_classes. Qed.
Print Assumptions gen_atomic_classes_are_the_value_classes.
