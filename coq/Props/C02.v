(* C02 property theorems: statements only, each closed by `exact`.
   Model: Model/Tokenizer.v (Tokenizer.__next__ as configured by NexusTokenizer), Model/Newick.v
   (escape_nexus_token, NewickWriter, NexusTaxonSymbolMapper, NewickReader), character classes from
   Gen/CharClasses.v (regenerated from the source on every run). Spec definitions: Model/C02Spec.v. *)
From Coq Require Import ZArith List Bool.
From DV Require Import Model.PyPrims Gen.CharClasses Model.Tokenizer Model.Newick Model.C02Spec Model.C02ListSpec
     Model.C02Nexus Model.C02NexusSpec
     Model.C02Nexml Model.C02FlagsSpec
     Proofs.C02Escape Proofs.C02Main Proofs.C02ListMain Proofs.C02NexusDoc Proofs.C02NexusRead Proofs.C02NexusMain
     Proofs.C02Nexml Proofs.C02NexmlMain Proofs.C02Flags.
Import ListNotations.
Open Scope Z_scope.

(* Generated obligation: every captured delimiter, quote character and comment-begin character of
   the NexusTokenizer is in the protected class of NewickWriter._render_node_tag; every uncaptured
   delimiter is in that class, or is the blank (escape_nexus_token quotes or converts blanks by its
   own rule), or lies outside the property's label alphabet (carriage return). *)
Theorem delims_protected : forall c : Z,
  (In c tok_captured_delimiters \/ In c tok_quote_chars \/ In c tok_comment_begin ->
     zmem c newick_writer_protect = true) /\
  (In c tok_uncaptured_delimiters ->
     zmem c newick_writer_protect = true \/ c = SPACE \/ admissible c = false).
Proof. exact delims_protected_l. Qed.
Print Assumptions delims_protected.

(* The same for the default class of escape_nexus_token (NEXUS TAXLABELS / TRANSLATE labels). *)
Theorem delims_protected_default : forall c : Z,
  (In c tok_captured_delimiters \/ In c tok_quote_chars \/ In c tok_comment_begin ->
     zmem c escape_default_protect = true) /\
  (In c tok_uncaptured_delimiters ->
     zmem c escape_default_protect = true \/ c = SPACE \/ admissible c = false).
Proof. exact delims_protected_default_l. Qed.
Print Assumptions delims_protected_default.

(* A label written by escape_nexus_token (writer class) in front of a captured delimiter or the end
   of the text is read back by Tokenizer.__next__ as exactly that label, with exactly the rest
   remaining, for every admissible label and every consistent option pair. *)
Theorem escape_tokenize_roundtrip : forall (pu ps uu : bool) (l r : str),
  good_label l = true ->
  match r with [] => True | c :: _ => zmem c tok_captured_delimiters = true end ->
  consistent_opts uu pu ps l = true ->
  next_token (nexus_cfg pu) (escape_token newick_writer_protect ps (negb uu) l ++ r)
  = TTok l (escape_quotes newick_writer_protect ps (negb uu) l) [] r.
Proof. exact escape_tokenize_roundtrip_p. Qed.
Print Assumptions escape_tokenize_roundtrip.

(* The tokenizer model is total: the fuel artefacts are never produced and every token consumes
   input (used by the readers' termination arguments). *)
Theorem tokenizer_total : forall (cfg : tok_cfg) (s : str),
  next_token cfg s <> TFuel /\ snd (tokenize cfg s) <> EndFuel /\
  (forall t q cs rest, next_token cfg s = TTok t q cs rest -> (length rest < length s)%nat).
Proof. exact tokenizer_total_l. Qed.
Print Assumptions tokenizer_total.

(* Newick round trip, all rose trees.  Writing a tree with NewickWriter (default label options,
   any unquoted_underscores / preserve_spaces / suppress_rooting) and reading the text with
   NewickReader (matching preserve_underscores, rooting directive, suppress_internal_node_taxa)
   into a new namespace delivers: one tree, the written rooting state, no comments, the tree
   `expect t 0` whose taxa are numbered in token order, over the namespace `taxa_order t`; and
   reading the numbers back as labels gives `norm t` = t without the node labels of leaves (the
   only attribute the default writer options suppress): same topology, child order, taxon on every
   node, internal labels, edge lengths.
   Domain (wf_tree): any arity incl. unifurcations and the single node; every written label is
   good_label, consistent with the option pair, and not a single structural character (F5, see
   escape_single_punct_refuted); no anonymous leaf without edge length (see
   trailing_blank_leaf_refuted); internal nodes carry only the attribute Newick can express (label,
   or taxon in taxon mode).  Taxa of the tree are distinct up to str.lower.
   Edge-length numerals are abstract: the two premises on render_len / parse_len. *)
Theorem newick_roundtrip :
  forall (L : Type) (render_len : L -> str) (parse_len : str -> option L) (lower : str -> str),
    (forall x, parse_len (render_len x) = Some x) ->
    (forall x, render_len x <> [] /\ forallb numeral_char (render_len x) = true) ->
  forall (o : rt_opts) (r : option bool) (t : ntree L),
    wf_tree L o t = true ->
    NoDup (map lower (taxa_order L o t)) ->
    rooting_consistent o r = true ->
    read_newick L parse_len lower (rt_ropts o) [] (write_tree_list L render_len (rt_wopts o) [(r, t)])
      = Ok ([mkPR r [] (fst (expect L o t 0))], taxa_order L o t)
    /\ resolve L (taxa_order L o t) (fst (expect L o t 0)) = Some (norm L t).
Proof. exact newick_roundtrip_l. Qed.
Print Assumptions newick_roundtrip.

(* F5.  The full-strength statement (newick_roundtrip without `negb (is_struct1 l)` in label_ok) is
   false on the faithful model: the admissible label ":" is written as ':' (quoted) and
   NewickReader._parse_tree_node_description, which ignores is_token_quoted, takes it for the
   edge-length separator; the reader raises a parse error.  (wf_tree rejects the tree only because
   of the F5 exclusion.) *)
Theorem escape_single_punct_refuted :
  exists t : ntree str,
    good_label [COLON] = true /\
    wf_tree str rt_default t = false /\
    read_newick str parse_num (fun s => s) (rt_ropts rt_default) []
                (write_tree_list str (fun x => x) (rt_wopts rt_default) [(Some true, t)])
    = Err ParseErr.
Proof. exact escape_single_punct_refuted_l. Qed.
Print Assumptions escape_single_punct_refuted.

(* F5, silent variant: the label "," comes back as two anonymous leaves, without any error. *)
Theorem escape_single_punct_silent_refuted :
  exists t : ntree str,
    good_label [COMMA] = true /\
    read_newick str parse_num (fun s => s) (rt_ropts rt_default) []
                (write_tree_list str (fun x => x) (rt_wopts rt_default) [(Some true, t)])
    = Ok ([mkPR (Some true) []
             (PN None None None [] [PN None None None [] []; PN None None (Some [49]) [] [];
                                    PN (Some 0%nat) None (Some [49]) [] []])],
          [[122; 122]]).
Proof. exact escape_single_punct_silent_refuted_l. Qed.
Print Assumptions escape_single_punct_silent_refuted.

(* Tree lists.  A non-empty list of trees over a shared namespace, written as one Newick document
   (_write_tree_list: one statement per line), is read back by NewickReader into a new namespace as
   the same list: one result per tree, in order, each with the written rooting state, no comments,
   and a tree whose taxon numbers name the written labels (resolve ... = norm t); the namespace
   holds the taxon labels of the document in order of first occurrence (first_occurrences), and a
   taxon used by several trees is the same member in all of them (expect_trees numbers a repeated
   label by the position of its first occurrence).
   Premises: every tree in the domain of newick_roundtrip (wf_tree), the taxa of each tree distinct
   up to str.lower, the reader's rooting directive consistent with every tree's rooting state, and
   the property's label condition "distinct from the other labels up to letter case": labels of the
   document that are equal up to case are equal (case_consistent).
   The empty list is excluded: it is written as the empty document, which the reader rejects
   (Proofs/C02ListMain.v empty_treelist). *)
Theorem treelist_roundtrip :
  forall (L : Type) (render_len : L -> str) (parse_len : str -> option L) (lower : str -> str),
    (forall x, parse_len (render_len x) = Some x) ->
    (forall x, render_len x <> [] /\ forallb numeral_char (render_len x) = true) ->
  forall (o : rt_opts) (r : option bool) (t : ntree L) (ts : list (option bool * ntree L)),
    let doc := (r, t) :: ts in
    forallb (fun rt => wf_tree L o (snd rt)) doc = true ->
    Forall (fun rt => NoDup (map lower (taxa_order L o (snd rt)))) doc ->
    Forall (fun rt => rooting_consistent o (fst rt) = true) doc ->
    case_consistent lower (doc_taxa L o doc) ->
    let ns := first_occurrences lower (doc_taxa L o doc) in
    read_newick L parse_len lower (rt_ropts o) [] (write_tree_list L render_len (rt_wopts o) doc)
      = Ok (fst (expect_trees L lower o doc []), ns)
    /\ Forall2 (fun rt pr => pr_is_rooted pr = fst rt /\ pr_comments pr = [] /\
                             resolve L ns (pr_tree pr) = Some (norm L (snd rt)))
               doc (fst (expect_trees L lower o doc [])).
Proof. exact treelist_roundtrip_l. Qed.
Print Assumptions treelist_roundtrip.

(* Suppressing writer options.  With any of suppress_edge_lengths, suppress_leaf_taxon_labels,
   suppress_internal_taxon_labels, suppress_internal_node_labels set (sflags), the document is the
   one the default options write for the trees with exactly those attributes erased (erase), so the
   list read back is the erased list: nothing else is lost.  (with_flags keeps suppress_rooting,
   unquoted_underscores, preserve_spaces of rt_wopts o; suppress_leaf_node_labels stays True.)
   Not covered: suppress_leaf_node_labels=False (label and taxon joined into one token),
   store_tree_weights ([&W ...]), the reader's suppress_edge_lengths. *)
Theorem treelist_roundtrip_suppressed :
  forall (L : Type) (render_len : L -> str) (parse_len : str -> option L) (lower : str -> str),
    (forall x, parse_len (render_len x) = Some x) ->
    (forall x, render_len x <> [] /\ forallb numeral_char (render_len x) = true) ->
  forall (o : rt_opts) (f : sflags) (r : option bool) (t : ntree L) (ts : list (option bool * ntree L)),
    let doc := map (fun rt => (fst rt, erase L f (snd rt))) ((r, t) :: ts) in
    forallb (fun rt => wf_tree L o (snd rt)) doc = true ->
    Forall (fun rt => NoDup (map lower (taxa_order L o (snd rt)))) doc ->
    Forall (fun rt => rooting_consistent o (fst rt) = true) doc ->
    case_consistent lower (doc_taxa L o doc) ->
    let ns := first_occurrences lower (doc_taxa L o doc) in
    read_newick L parse_len lower (rt_ropts o) [] (write_tree_list L render_len (with_flags (rt_wopts o) f) ((r, t) :: ts))
      = Ok (fst (expect_trees L lower o doc []), ns)
    /\ Forall2 (fun rt pr => pr_is_rooted pr = fst rt /\ pr_comments pr = [] /\
                             resolve L ns (pr_tree pr) = Some (norm L (snd rt)))
               doc (fst (expect_trees L lower o doc [])).
Proof. exact treelist_roundtrip_suppressed_l. Qed.
Print Assumptions treelist_roundtrip_suppressed.

(* NEXUS.  A non-empty tree list over a namespace ns, written by NexusWriter as TAXA block + TREES
   block (Model/C02Nexus.v write_nexus_acc; with or without a TRANSLATE statement,
   translate_tree_taxa), is read back by NexusReader as: the one namespace with the labels of the TAXA block in the same
   order, and one tree list over it holding, per tree, the written rooting state, no comments, and
   the tree in which every taxon-bearing node refers to the POSITION of its label in ns
   (expectF (pos ns)); resolving the positions gives `norm t`.
   This includes labels that look like taxon numbers, also a label equal to ANOTHER taxon's 1-based
   position, with and without TRANSLATE: the symbol mapper looks a tree token up as TRANSLATE token,
   then as label, and only then as number (Proofs/C02NexusMap.v lookup_plain / lookup_translate), and
   every tree token the writer emits is found by the first (TRANSLATE) resp. second (label) rule.
   ns is the namespace in its CURRENT member order (the order of TAXLABELS); accs are the members'
   accession indices in that order, any duplicate-free list: the TRANSLATE token of member i is
   accs[i] + 1, so a namespace that was sorted, reversed or had members removed and re-added after
   its taxa were created is covered (accs = 0,1,2,... gives write_nexus, Proofs/C02NexusMain.v
   write_nexus_acc_seq).
   Premises - the exact admissibility condition the code needs:
   * the namespace labels are admissible labels consistent with the option pair (nlabel_ok),
     pairwise distinct up to str.lower, and none is a single structural character (F5: a TAXLABELS
     entry ";" or a TRANSLATE label "," is read as structure);
   * with TRANSLATE the namespace is not empty ("Translate ;" is rejected, known finding
     nexus-translate-empty-namespace, see nexus_translate_empty_namespace_refuted);
   * the tree list is not empty; every tree is in the domain of newick_roundtrip, all its taxa are
     members of ns and distinct; the reader's rooting directive fits the rooting states;
   * str.lower leaves digit strings alone, str.upper leaves strings without a-z alone and maps
     "Translate" to "TRANSLATE" (true of Python; premises because lower/upper are abstract);
     the two premises on edge-length numerals as in newick_roundtrip. *)
Theorem nexus_trees_roundtrip :
  forall (L : Type) (render_len : L -> str) (parse_len : str -> option L) (lower upper : str -> str),
    (forall x, parse_len (render_len x) = Some x) ->
    (forall x, render_len x <> [] /\ forallb numeral_char (render_len x) = true) ->
    (forall n, lower (dec_of_nat n) = dec_of_nat n) ->
    (forall s, forallb up_fixed s = true -> upper s = s) ->
    upper wd_Translate = kw_TRANSLATE ->
  forall (o : rt_opts) (tr : bool) (ns : list str) (accs : list nat) (ts : list (option bool * ntree L)),
    length accs = length ns -> NoDup accs ->
    ts <> [] ->
    NoDup (map lower ns) -> forallb (nlabel_ok o) ns = true -> (forall l, In l ns -> is_struct1 l = false) ->
    (tr = true -> ns <> []) ->
    forallb (fun rt => wf_tree L o (snd rt)) ts = true ->
    (forall l, In l (doc_taxa L o ts) -> In l ns) ->
    Forall (fun rt => NoDup (map lower (taxa_order L o (snd rt)))) ts ->
    Forall (fun rt => rooting_consistent o (fst rt) = true) ts ->
    read_nexus L parse_len lower upper (rt_ropts o) (write_nexus_acc L render_len (rt_wopts o) tr ns accs ts)
      = NOk ([ns], [(O, map (fun rt => mkPR (fst rt) [] (expectF L o (pos ns) (snd rt))) ts)])
    /\ Forall (fun rt => resolve L ns (expectF L o (pos ns) (snd rt)) = Some (norm L (snd rt))) ts.
Proof. exact nexus_trees_roundtrip_l. Qed.
Print Assumptions nexus_trees_roundtrip.

(* Known finding nexus-translate-empty-namespace on the model: with TRANSLATE and an empty
   namespace the written document is rejected by the reader. *)
Theorem nexus_translate_empty_namespace_refuted :
  read_nexus str parse_num (fun s => s) ascii_upper (rt_ropts rt_default)
             (write_nexus str (fun x => x) (rt_wopts rt_default) true [] [(None, Nd None None (Some [49]) [])])
  = NErr ParseErr.
Proof. exact nexus_translate_empty_ns. Qed.
Print Assumptions nexus_translate_empty_namespace_refuted.

(* NeXML, element level (partial: the XML text layer - Python's xml library, quoteattr, the "d<k>"
   rendering of ids, str(float)/float() - is trusted, and tree / tree-list / namespace labels,
   annotations and int-typed trees are not modelled).  For a tree list over a non-empty namespace ns
   whose trees only use taxa of ns (tin), NexmlWriter produces an element document d (otu, node,
   edge and rootedge records with the ids handed out by _get_nexml_id) and NexmlReader rebuilds from
   d: the namespace labels in order, and per tree the same topology and child order, on every node
   the position of its taxon in ns (idx), every node label (also on leaves; an empty label reads
   as none), every edge length including the root edge's (a missing length stays missing), and
   rooting True for a rooted tree, False for an unrooted one and for an UNDEFINED rooting state
   (the normalisation the property allows). *)
Theorem nexml_trees_roundtrip_partial : forall (L : Type) (ns : list str) (ts : list (option bool * ntree L)),
  ns <> [] -> forallb (fun rt => tin L ns (snd rt)) ts = true ->
  exists d, write_nexml L ns ts = Some d /\
    read_nexml L d
    = XOk (map (fun l => truthy_label (Some l)) ns,
           map (fun rt => mkPR (Some (match fst rt with Some true => true | _ => false end)) []
                               (xexpect L ns (snd rt))) ts).
Proof. exact nexml_trees_roundtrip_partial_l. Qed.
Print Assumptions nexml_trees_roundtrip_partial.

(* Known finding nexml-empty-namespace on the model: an empty namespace is written as an empty
   <otus>, which the reader treats as missing (`if not taxon_namespace`). *)
Theorem nexml_empty_namespace_refuted :
  option_map (read_nexml str) (write_nexml str [] [(None, Nd None None (Some [49]) [])]) = Some (XErr OtherErr).
Proof. exact nexml_empty_namespace. Qed.
Print Assumptions nexml_empty_namespace_refuted.

(* Repaired in the library (e32b705e); kept as a statement about the FORMER form of the reader, which the
   model still carries as ro_blank_after_comma = false (rt_default): a trailing anonymous leaf
   without edge length after a named sibling, written "(a,)", was re-read with one child.  The
   harness selects the form the working tree has by replaying "(a,);"; newick_roundtrip and
   treelist_roundtrip hold for both forms (rt_bc arbitrary). *)
Theorem trailing_blank_leaf_refuted :
  exists t : ntree str,
    write_tree_list str (fun x => x) (rt_wopts rt_default) [(None, t)] = [40; 97; 44; 41; 59; 10] /\
    read_newick str parse_num (fun s => s) (rt_ropts rt_default) []
                (write_tree_list str (fun x => x) (rt_wopts rt_default) [(None, t)])
    = Ok ([mkPR None [] (PN None None None [] [PN (Some 0%nat) None None [] []])], [[97]]).
Proof. exact trailing_blank_leaf_refuted_l. Qed.
Print Assumptions trailing_blank_leaf_refuted.
