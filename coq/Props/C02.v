(* C02 property theorems: statements only, each closed by `exact`.
   Model: Model/Tokenizer.v (Tokenizer.__next__ as configured by NexusTokenizer), Model/Newick.v
   (escape_nexus_token, NewickWriter, NexusTaxonSymbolMapper, NewickReader), character classes from
   Gen/CharClasses.v (regenerated from the source on every run). Spec definitions: Model/C02Spec.v. *)
From Coq Require Import ZArith List Bool.
From DV Require Import Model.PyPrims Gen.CharClasses Model.Tokenizer Model.Newick Model.C02Spec Model.C02ListSpec
     Model.C02Nexus Model.C02NexusSpec
     Model.C02Nexml Model.C02FlagsSpec
     Proofs.C02Escape Proofs.C02Main Proofs.C02ListMain Proofs.C02NexusDoc Proofs.C02NexusRead Proofs.C02NexusMain
     Proofs.C02Nexml Proofs.C02NexmlMain Proofs.C02Flags
     Model.C02GenPrims Gen.NewickGen Model.C02GenSpec Proofs.C02GenEsc Proofs.C02GenTok Proofs.C02GenWriter Proofs.C02GenReader
     Model.C02Meta Model.C02MetaSpec Proofs.C02MetaMain Model.C02MetaAnn Model.C02MetaAnnSpec Proofs.C02MetaAnn
     Gen.NewickMeta Proofs.C02GenMeta.
Import ListNotations.
Open Scope Z_scope.

(* Generated obligation: every captured delimiter, quote character and comment-begin character of
   the NexusTokenizer is in the protected class of NewickWriter._render_node_tag; every uncaptured
   delimiter is in that class, or is the blank (escape_nexus_token quotes or converts blanks by its
   own rule), or lies outside the property's label alphabet (carriage return). *)
Theorem delims_protected : forall c : Z,
  (In c tok_captured_delimiters \/ In c tok_quote_chars \/ In c tok_comment_begin ->
     zmem c newick_writer_protect = true) /\
  (In c tok_uncaptured_delimiters ->
     zmem c newick_writer_protect = true \/ c = SPACE \/ admissible c = false).
Proof. exact delims_protected_l. Qed.
Print Assumptions delims_protected.

(* The same for the default class of escape_nexus_token (NEXUS TAXLABELS / TRANSLATE labels). *)
Theorem delims_protected_default : forall c : Z,
  (In c tok_captured_delimiters \/ In c tok_quote_chars \/ In c tok_comment_begin ->
     zmem c escape_default_protect = true) /\
  (In c tok_uncaptured_delimiters ->
     zmem c escape_default_protect = true \/ c = SPACE \/ admissible c = false).
Proof. exact delims_protected_default_l. Qed.
Print Assumptions delims_protected_default.

(* A label written by escape_nexus_token (writer class) in front of a captured delimiter or the end
   of the text is read back by Tokenizer.__next__ as exactly that label, with exactly the rest
   remaining, for every admissible label and every consistent option pair. *)
Theorem escape_tokenize_roundtrip : forall (pu ps uu : bool) (l r : str),
  good_label l = true ->
  match r with [] => True | c :: _ => zmem c tok_captured_delimiters = true end ->
  consistent_opts uu pu ps l = true ->
  next_token (nexus_cfg pu) (escape_token newick_writer_protect ps (negb uu) l ++ r)
  = TTok l (escape_quotes newick_writer_protect ps (negb uu) l) [] r.
Proof. exact escape_tokenize_roundtrip_p. Qed.
Print Assumptions escape_tokenize_roundtrip.

(* The tokenizer model is total: the fuel artefacts are never produced and every token consumes
   input (used by the readers' termination arguments). *)
Theorem tokenizer_total : forall (cfg : tok_cfg) (s : str),
  next_token cfg s <> TFuel /\ snd (tokenize cfg s) <> EndFuel /\
  (forall t q cs rest, next_token cfg s = TTok t q cs rest -> (length rest < length s)%nat).
Proof. exact tokenizer_total_l. Qed.
Print Assumptions tokenizer_total.

(* Newick round trip, all rose trees.  Writing a tree with NewickWriter (default label options,
   any unquoted_underscores / preserve_spaces / suppress_rooting) and reading the text with
   NewickReader (matching preserve_underscores, rooting directive, suppress_internal_node_taxa)
   into a new namespace delivers: one tree, the written rooting state, no comments, the tree
   `expect t 0` whose taxa are numbered in token order, over the namespace `taxa_order t`; and
   reading the numbers back as labels gives `norm t` = t without the node labels of leaves (the
   only attribute the default writer options suppress): same topology, child order, taxon on every
   node, internal labels, edge lengths.
   Domain (wf_tree): any arity incl. unifurcations and the single node; every written label is
   good_label, consistent with the option pair, and not a single structural character (F5, see
   escape_single_punct_refuted); no anonymous leaf without edge length (see
   trailing_blank_leaf_refuted); internal nodes carry only the attribute Newick can express (label,
   or taxon in taxon mode).  Taxa of the tree are distinct up to str.lower.
   Edge-length numerals are abstract: the two premises on render_len / parse_len. *)
Theorem newick_roundtrip :
  forall (L : Type) (render_len : L -> str) (parse_len : str -> option L) (lower : str -> str),
    (forall x, parse_len (render_len x) = Some x) ->
    (forall x, render_len x <> [] /\ forallb numeral_char (render_len x) = true) ->
  forall (o : rt_opts) (r : option bool) (t : ntree L),
    wf_tree L o t = true ->
    NoDup (map lower (taxa_order L o t)) ->
    rooting_consistent o r = true ->
    read_newick L parse_len lower (rt_ropts o) [] (write_tree_list L render_len (rt_wopts o) [(r, t)])
      = Ok ([mkPR r [] (fst (expect L o t 0))], taxa_order L o t)
    /\ resolve L (taxa_order L o t) (fst (expect L o t 0)) = Some (norm L t).
Proof. exact newick_roundtrip_l. Qed.
Print Assumptions newick_roundtrip.

(* F5.  The full-strength statement (newick_roundtrip without `negb (is_struct1 l)` in label_ok) is
   false on the faithful model: the admissible label ":" is written as ':' (quoted) and
   NewickReader._parse_tree_node_description, which ignores is_token_quoted, takes it for the
   edge-length separator; the reader raises a parse error.  (wf_tree rejects the tree only because
   of the F5 exclusion.) *)
Theorem escape_single_punct_refuted :
  exists t : ntree str,
    good_label [COLON] = true /\
    wf_tree str rt_default t = false /\
    read_newick str parse_num (fun s => s) (rt_ropts rt_default) []
                (write_tree_list str (fun x => x) (rt_wopts rt_default) [(Some true, t)])
    = Err ParseErr.
Proof. exact escape_single_punct_refuted_l. Qed.
Print Assumptions escape_single_punct_refuted.

(* F5, silent variant: the label "," comes back as two anonymous leaves, without any error. *)
Theorem escape_single_punct_silent_refuted :
  exists t : ntree str,
    good_label [COMMA] = true /\
    read_newick str parse_num (fun s => s) (rt_ropts rt_default) []
                (write_tree_list str (fun x => x) (rt_wopts rt_default) [(Some true, t)])
    = Ok ([mkPR (Some true) []
             (PN None None None [] [PN None None None [] []; PN None None (Some [49]) [] [];
                                    PN (Some 0%nat) None (Some [49]) [] []])],
          [[122; 122]]).
Proof. exact escape_single_punct_silent_refuted_l. Qed.
Print Assumptions escape_single_punct_silent_refuted.

(* Tree lists.  A non-empty list of trees over a shared namespace, written as one Newick document
   (_write_tree_list: one statement per line), is read back by NewickReader into a new namespace as
   the same list: one result per tree, in order, each with the written rooting state, no comments,
   and a tree whose taxon numbers name the written labels (resolve ... = norm t); the namespace
   holds the taxon labels of the document in order of first occurrence (first_occurrences), and a
   taxon used by several trees is the same member in all of them (expect_trees numbers a repeated
   label by the position of its first occurrence).
   Premises: every tree in the domain of newick_roundtrip (wf_tree), the taxa of each tree distinct
   up to str.lower, the reader's rooting directive consistent with every tree's rooting state, and
   the property's label condition "distinct from the other labels up to letter case": labels of the
   document that are equal up to case are equal (case_consistent).
   The empty list is excluded: it is written as the empty document, which the reader rejects
   (Proofs/C02ListMain.v empty_treelist). *)
Theorem treelist_roundtrip :
  forall (L : Type) (render_len : L -> str) (parse_len : str -> option L) (lower : str -> str),
    (forall x, parse_len (render_len x) = Some x) ->
    (forall x, render_len x <> [] /\ forallb numeral_char (render_len x) = true) ->
  forall (o : rt_opts) (r : option bool) (t : ntree L) (ts : list (option bool * ntree L)),
    let doc := (r, t) :: ts in
    forallb (fun rt => wf_tree L o (snd rt)) doc = true ->
    Forall (fun rt => NoDup (map lower (taxa_order L o (snd rt)))) doc ->
    Forall (fun rt => rooting_consistent o (fst rt) = true) doc ->
    case_consistent lower (doc_taxa L o doc) ->
    let ns := first_occurrences lower (doc_taxa L o doc) in
    read_newick L parse_len lower (rt_ropts o) [] (write_tree_list L render_len (rt_wopts o) doc)
      = Ok (fst (expect_trees L lower o doc []), ns)
    /\ Forall2 (fun rt pr => pr_is_rooted pr = fst rt /\ pr_comments pr = [] /\
                             resolve L ns (pr_tree pr) = Some (norm L (snd rt)))
               doc (fst (expect_trees L lower o doc [])).
Proof. exact treelist_roundtrip_l. Qed.
Print Assumptions treelist_roundtrip.

(* Suppressing writer options.  With any of suppress_edge_lengths, suppress_leaf_taxon_labels,
   suppress_internal_taxon_labels, suppress_internal_node_labels set (sflags), the document is the
   one the default options write for the trees with exactly those attributes erased (erase), so the
   list read back is the erased list: nothing else is lost.  (with_flags keeps suppress_rooting,
   unquoted_underscores, preserve_spaces of rt_wopts o; suppress_leaf_node_labels stays True.)
   Not covered: suppress_leaf_node_labels=False (label and taxon joined into one token),
   store_tree_weights ([&W ...]), the reader's suppress_edge_lengths. *)
Theorem treelist_roundtrip_suppressed :
  forall (L : Type) (render_len : L -> str) (parse_len : str -> option L) (lower : str -> str),
    (forall x, parse_len (render_len x) = Some x) ->
    (forall x, render_len x <> [] /\ forallb numeral_char (render_len x) = true) ->
  forall (o : rt_opts) (f : sflags) (r : option bool) (t : ntree L) (ts : list (option bool * ntree L)),
    let doc := map (fun rt => (fst rt, erase L f (snd rt))) ((r, t) :: ts) in
    forallb (fun rt => wf_tree L o (snd rt)) doc = true ->
    Forall (fun rt => NoDup (map lower (taxa_order L o (snd rt)))) doc ->
    Forall (fun rt => rooting_consistent o (fst rt) = true) doc ->
    case_consistent lower (doc_taxa L o doc) ->
    let ns := first_occurrences lower (doc_taxa L o doc) in
    read_newick L parse_len lower (rt_ropts o) [] (write_tree_list L render_len (with_flags (rt_wopts o) f) ((r, t) :: ts))
      = Ok (fst (expect_trees L lower o doc []), ns)
    /\ Forall2 (fun rt pr => pr_is_rooted pr = fst rt /\ pr_comments pr = [] /\
                             resolve L ns (pr_tree pr) = Some (norm L (snd rt)))
               doc (fst (expect_trees L lower o doc [])).
Proof. exact treelist_roundtrip_suppressed_l. Qed.
Print Assumptions treelist_roundtrip_suppressed.

(* NEXUS.  A non-empty tree list over a namespace ns, written by NexusWriter as TAXA block + TREES
   block (Model/C02Nexus.v write_nexus_acc; with or without a TRANSLATE statement,
   translate_tree_taxa), is read back by NexusReader as: the one namespace with the labels of the TAXA block in the same
   order, and one tree list over it holding, per tree, the written rooting state, no comments, and
   the tree in which every taxon-bearing node refers to the POSITION of its label in ns
   (expectF (pos ns)); resolving the positions gives `norm t`.
   This includes labels that look like taxon numbers, also a label equal to ANOTHER taxon's 1-based
   position, with and without TRANSLATE: the symbol mapper looks a tree token up as TRANSLATE token,
   then as label, and only then as number (Proofs/C02NexusMap.v lookup_plain / lookup_translate), and
   every tree token the writer emits is found by the first (TRANSLATE) resp. second (label) rule.
   ns is the namespace in its CURRENT member order (the order of TAXLABELS); accs are the members'
   accession indices in that order, any duplicate-free list: the TRANSLATE token of member i is
   accs[i] + 1, so a namespace that was sorted, reversed or had members removed and re-added after
   its taxa were created is covered (accs = 0,1,2,... gives write_nexus, Proofs/C02NexusMain.v
   write_nexus_acc_seq).
   Premises - the exact admissibility condition the code needs:
   * the namespace labels are admissible labels consistent with the option pair (nlabel_ok),
     pairwise distinct up to str.lower, and none is a single structural character (F5: a TAXLABELS
     entry ";" or a TRANSLATE label "," is read as structure);
   * with TRANSLATE the namespace is not empty ("Translate ;" is rejected, known finding
     nexus-translate-empty-namespace, see nexus_translate_empty_namespace_refuted);
   * the tree list is not empty; every tree is in the domain of newick_roundtrip, all its taxa are
     members of ns and distinct; the reader's rooting directive fits the rooting states;
   * str.lower leaves digit strings alone, str.upper leaves strings without a-z alone and maps
     "Translate" to "TRANSLATE" (true of Python; premises because lower/upper are abstract);
     the two premises on edge-length numerals as in newick_roundtrip. *)
Theorem nexus_trees_roundtrip :
  forall (L : Type) (render_len : L -> str) (parse_len : str -> option L) (lower upper : str -> str),
    (forall x, parse_len (render_len x) = Some x) ->
    (forall x, render_len x <> [] /\ forallb numeral_char (render_len x) = true) ->
    (forall n, lower (dec_of_nat n) = dec_of_nat n) ->
    (forall s, forallb up_fixed s = true -> upper s = s) ->
    upper wd_Translate = kw_TRANSLATE ->
  forall (o : rt_opts) (tr : bool) (ns : list str) (accs : list nat) (ts : list (option bool * ntree L)),
    length accs = length ns -> NoDup accs ->
    ts <> [] ->
    NoDup (map lower ns) -> forallb (nlabel_ok o) ns = true -> (forall l, In l ns -> is_struct1 l = false) ->
    (tr = true -> ns <> []) ->
    forallb (fun rt => wf_tree L o (snd rt)) ts = true ->
    (forall l, In l (doc_taxa L o ts) -> In l ns) ->
    Forall (fun rt => NoDup (map lower (taxa_order L o (snd rt)))) ts ->
    Forall (fun rt => rooting_consistent o (fst rt) = true) ts ->
    read_nexus L parse_len lower upper (rt_ropts o) (write_nexus_acc L render_len (rt_wopts o) tr ns accs ts)
      = NOk ([ns], [(O, map (fun rt => mkPR (fst rt) [] (expectF L o (pos ns) (snd rt))) ts)])
    /\ Forall (fun rt => resolve L ns (expectF L o (pos ns) (snd rt)) = Some (norm L (snd rt))) ts.
Proof. exact nexus_trees_roundtrip_l. Qed.
Print Assumptions nexus_trees_roundtrip.

(* Known finding nexus-translate-empty-namespace on the model: with TRANSLATE and an empty
   namespace the written document is rejected by the reader. *)
Theorem nexus_translate_empty_namespace_refuted :
  read_nexus str parse_num (fun s => s) ascii_upper (rt_ropts rt_default)
             (write_nexus str (fun x => x) (rt_wopts rt_default) true [] [(None, Nd None None (Some [49]) [])])
  = NErr ParseErr.
Proof. exact nexus_translate_empty_ns. Qed.
Print Assumptions nexus_translate_empty_namespace_refuted.

(* NeXML, element level (partial: the XML text layer - Python's xml library, quoteattr, the "d<k>"
   rendering of ids, str(float)/float() - is trusted, and tree / tree-list / namespace labels,
   annotations and int-typed trees are not modelled).  For a tree list over a non-empty namespace ns
   whose trees only use taxa of ns (tin), NexmlWriter produces an element document d (otu, node,
   edge and rootedge records with the ids handed out by _get_nexml_id) and NexmlReader rebuilds from
   d: the namespace labels in order, and per tree the same topology and child order, on every node
   the position of its taxon in ns (idx), every node label (also on leaves; an empty label reads
   as none), every edge length including the root edge's (a missing length stays missing), and
   rooting True for a rooted tree, False for an unrooted one and for an UNDEFINED rooting state
   (the normalisation the property allows). *)
Theorem nexml_trees_roundtrip_partial : forall (L : Type) (ns : list str) (ts : list (option bool * ntree L)),
  ns <> [] -> forallb (fun rt => tin L ns (snd rt)) ts = true ->
  exists d, write_nexml L ns ts = Some d /\
    read_nexml L d
    = XOk (map (fun l => truthy_label (Some l)) ns,
           map (fun rt => mkPR (Some (match fst rt with Some true => true | _ => false end)) []
                               (xexpect L ns (snd rt))) ts).
Proof. exact nexml_trees_roundtrip_partial_l. Qed.
Print Assumptions nexml_trees_roundtrip_partial.

(* Known finding nexml-empty-namespace on the model: an empty namespace is written as an empty
   <otus>, which the reader treats as missing (`if not taxon_namespace`). *)
Theorem nexml_empty_namespace_refuted :
  option_map (read_nexml str) (write_nexml str [] [(None, Nd None None (Some [49]) [])]) = Some (XErr OtherErr).
Proof. exact nexml_empty_namespace. Qed.
Print Assumptions nexml_empty_namespace_refuted.

(* Repaired in the library (e32b705e); kept as a statement about the FORMER form of the reader, which the
   model still carries as ro_blank_after_comma = false (rt_default): a trailing anonymous leaf
   without edge length after a named sibling, written "(a,)", was re-read with one child.  The
   harness selects the form the working tree has by replaying "(a,);"; newick_roundtrip and
   treelist_roundtrip hold for both forms (rt_bc arbitrary). *)
Theorem trailing_blank_leaf_refuted :
  exists t : ntree str,
    write_tree_list str (fun x => x) (rt_wopts rt_default) [(None, t)] = [40; 97; 44; 41; 59; 10] /\
    read_newick str parse_num (fun s => s) (rt_ropts rt_default) []
                (write_tree_list str (fun x => x) (rt_wopts rt_default) [(None, t)])
    = Ok ([mkPR None [] (PN None None None [] [PN (Some 0%nat) None None [] []])], [[97]]).
Proof. exact trailing_blank_leaf_refuted_l. Qed.
Print Assumptions trailing_blank_leaf_refuted.

(* ------------------------------------------------------------------------------------------------ *)
(* TRANSLATOR TIE.  Gen/NewickGen.v is regenerated from the Python source on every run by
   py/dv/gen_newick.py (statement-by-statement compilation over Model/C02GenPrims.v).  The theorems
   below state that the generated functions equal the hand-written model functions used by all
   theorems above, so those theorems hold of the generated code by rewriting. *)

(* escape_nexus_token(label, preserve_spaces, quote_underscores, protect_regex) for a str label;
   re.search(protect_regex, .) is the membership test in the character class `protect`. *)
Theorem gen_escape_nexus_token_eq :
  forall protect ps qu label,
    py_escape_nexus_token tt (Some label) ps qu protect = MRet (Some (escape_token protect ps qu label)) tt.
Proof. exact py_escape_nexus_token_eq. Qed.
Print Assumptions gen_escape_nexus_token_eq.

(* Tokenizer.__next__ (with _scan_token, _skip_to_significant_char, _handle_comment, _get_next_char)
   from any state the tokenizer can be in (tk_wf: _cur_char is None, "" at the end of the source, or
   one character): token, quoting flag, comments captured during the call and remaining stream are
   those of the model's next_token on the state's stream; StopIteration / UnterminatedQuoteError
   likewise.  The loops' fuel (tk_fuel) never runs out. *)
Theorem gen_tokenizer_next_eq :
  forall cfg o, tk_wf o -> tok_view o (py_tk_next cfg o) = next_token cfg (tk_stream o).
Proof. exact py_tk_next_eq. Qed.
Print Assumptions gen_tokenizer_next_eq.

(* Iterating the generated __next__ over a text from Tokenizer.__init__'s state, recording after
   each token is_token_quoted, the new captured comments and is_eof(), is the model's `tokenize`. *)
Theorem gen_tokenize_eq :
  forall cfg text, py_tokens cfg (S (length text)) (tk_init text) = tokenize cfg text.
Proof. exact py_tokenize_eq. Qed.
Print Assumptions gen_tokenize_eq.

(* NexusTaxonSymbolMapper: add_translate_token, and require_taxon_for_symbol = lookup_taxon_symbol
   with creation: TRANSLATE token, then label, then (if enabled) taxon number, then a new taxon. *)
Theorem gen_add_translate_token_eq :
  forall lower m token taxon,
    py_map_add_translate_token lower m token taxon = MRet tt (add_translate_token lower m token taxon).
Proof. exact py_map_add_translate_token_eq. Qed.
Print Assumptions gen_add_translate_token_eq.

Theorem gen_require_taxon_for_symbol_eq :
  forall lower m symbol,
    py_map_require_taxon_for_symbol lower m symbol
    = MRet (Some (fst (require_taxon_for_symbol lower m symbol))) (snd (require_taxon_for_symbol lower m symbol)).
Proof. exact py_map_require_taxon_for_symbol_eq. Qed.
Print Assumptions gen_require_taxon_for_symbol_eq.

(* NewickWriter (options outside the model fixed as listed in Gen/NewickGen.v).  A node is handed to
   the callbacks as (subtree, number of children of its parent or None, own position). *)
Theorem gen_render_node_tag_eq :
  forall L render_len wo out t p i,
    py_wr_render_node_tag L render_len wo out (mkWnode t p i) = MRet (Some (render_node_tag L wo t)) out.
Proof. exact py_wr_render_node_tag_eq. Qed.
Print Assumptions gen_render_node_tag_eq.

Theorem gen_write_node_body_eq :
  forall L render_len wo out t p i,
    py_wr_write_node_body L render_len wo out (mkWnode t p i) = MRet tt (out ++ write_node_body L render_len wo t).
Proof. exact py_wr_write_node_body_eq. Qed.
Print Assumptions gen_write_node_body_eq.

(* _write_tree: rooting token, then Node.apply with _write_node_open / _write_node_close / _write_leaf
   (the bracket structure of apply is C15's apply_brackets, here the primitive apply_node), then ";" *)
Theorem gen_write_tree_eq :
  forall L render_len wo out r t,
    py_wr_write_tree L render_len wo out (mkWtree r t) = MRet tt (out ++ write_tree L render_len wo r t).
Proof. exact py_wr_write_tree_eq. Qed.
Print Assumptions gen_write_tree_eq.

Theorem gen_write_tree_list_eq :
  forall L render_len wo out ts,
    py_wr_write_tree_list L render_len wo out (map (fun rt => mkWtree (fst rt) (snd rt)) ts)
    = MRet tt (out ++ write_tree_list L render_len wo ts).
Proof. exact py_wr_write_tree_list_eq. Qed.
Print Assumptions gen_write_tree_list_eq.

(* NewickReader (options outside the model fixed as listed in Gen/NewickGen.v).  The object state is
   Model/Newick.v pstate (token-level view of the tokenizer + reader fields + symbol mapper); nodes and
   trees under construction are values (copy-in / copy-out, see Model/C02GenPrims.v). *)
Theorem gen_parse_tree_rooting_state_eq :
  forall L parse_len lower ro fuel st c,
    py_rd_parse_tree_rooting_state L parse_len lower ro fuel st (Some c) = MRet (parse_tree_rooting_state ro c) st.
Proof. exact py_rd_parse_tree_rooting_state_eq. Qed.
Print Assumptions gen_parse_tree_rooting_state_eq.

(* _process_tree_comments on the comments pulled from the tokenizer (None when there are none) *)
Theorem gen_process_tree_comments_eq :
  forall L parse_len lower ro fuel st tree cs,
    py_rd_process_tree_comments L parse_len lower ro fuel st tree (to_olist cs)
    = MRet (mkRtree (fst (process_tree_comments ro cs))
                    (snd (process_tree_comments_loop ro cs None (rt_comments tree))) (rt_seed tree)) st.
Proof. exact py_rd_process_tree_comments_eq. Qed.
Print Assumptions gen_process_tree_comments_eq.

(* _parse_tree_node_description (the children loop `for count in it.count()`, the comma loop, the
   label / length / terminator loop, the recursion): whenever the model's parse_node returns a result
   with fuel f, the generated function returns the same node and state (resp. an exception of the
   same class) for every fuel g >= f.  Preconditions, both established by _parse_tree_statement: a
   current token exists, and the level counts an opening parenthesis the node starts with.
   ro_blank_after_comma = true selects the repaired reader form (e32b705e); the CURRENT source is
   proved equal to that variant only - the model variant `false` describes the former code. *)
Theorem gen_parse_tree_node_description_eq :
  forall L parse_len lower ro, ro_blank_after_comma ro = true ->
  forall g f st pre isint, (f <= g)%nat -> ps_cur st <> None -> (cur_is st LPAREN = true -> 1 <= ps_nesting st) ->
  match parse_node L parse_len lower ro f st isint pre with
  | Ok (t, st') => py_rd_parse_tree_node_description L parse_len lower ro g st (PN None None None pre []) isint = MRet t st'
  | Err e => exists x o, py_rd_parse_tree_node_description L parse_len lower ro g st (PN None None None pre []) isint = MExc x o
                         /\ exc_err x = e
  | OutOfFuel => True
  end.
Proof. exact node_gen_expanded. Qed.
Print Assumptions gen_parse_tree_node_description_eq.

(* _parse_tree_statement: skipping of ";" and comments, rooting / tree comments, the seed node, the
   completeness check and the trailing ";" loop. *)
Theorem gen_parse_tree_statement_eq :
  forall L parse_len lower ro, ro_blank_after_comma ro = true -> forall fuel st,
  match parse_tree_statement L parse_len lower ro fuel st with
  | Ok (None, st') => py_rd_parse_tree_statement L parse_len lower ro fuel st = MRet None st'
  | Ok (Some pr, st') =>
    py_rd_parse_tree_statement L parse_len lower ro fuel st = MRet (Some (mkRtree (pr_is_rooted pr) (pr_comments pr) (pr_tree pr))) st'
  | Err e => exists x o, py_rd_parse_tree_statement L parse_len lower ro fuel st = MExc x o /\ exc_err x = e
  | OutOfFuel => True
  end.
Proof. exact statement_gen_expanded. Qed.
Print Assumptions gen_parse_tree_statement_eq.

(* ------------------------------------------------------------------------------------------------ *)
(* METADATA: rooting state, tree weight, annotations and comments (Model/C02Meta.v on top of
   Model/Newick.v; spec definitions Model/C02MetaSpec.v). *)

(* Newick round trip of a tree that carries a rooting state, a weight, annotations and comments on
   the tree, and annotations and comments on every node and edge.  Writer: NewickWriter with
   store_tree_weights = mo_sw, suppress_annotations = mo_sa, suppress_item_comments = mo_sic and the
   label / rooting options of newick_roundtrip; reader: NewickReader with the same store_tree_weights,
   extract_comment_metadata = mo_ex, default_tree_weight = dw.  The reader delivers one tree with
   * the written rooting state;
   * weight: untouched (None) without store_tree_weights; with it the value of the written expression
     ("[&W x] " -> float(x), "[&W n/d] " for a Fraction -> float(n)/float(d) = wdiv n d), and
     default_tree_weight for a tree that has no weight (expected_weight);
   * on the tree the comment texts written in front of the statement (tcm: the annotation comment
     "&k=v,..." then tree.comments in order), passed through process_comments_for_item (pc);
   * the node structure of newick_roundtrip (cexpect: same topology, child order, taxa numbered in
     token order, internal labels, edge lengths; resolve ... = norm of the undecorated tree), every node
     carrying the comment texts written for it IN ORDER: node annotation comment, edge annotation
     comment, node.comments, edge.comments (the Newick reader gives all of them to the node: edge
     comments come back as node comments), again passed through process_comments_for_item.
   Third conjunct (the statement for plain comments): when no written comment text is taken for
   metadata (plain_mtree: extract_comment_metadata=False or the text does not start with "&"), the
   tree and every node carry exactly the written comments, and no annotations.
   Domain (mwf) - boolean admissibility predicates:
   * cwf: the undecorated tree is in the domain of newick_roundtrip, and every comment text written
     inside the statement is bracket_free: Tokenizer._handle_comment counts nested brackets and drops
     them from the captured text (comment_bracket_refuted);
   * tree_comment_ok on the texts in front of the statement: bracket free, and the stripped text is not
     a rooting comment (&R &r &U &u) nor, under store_tree_weights, starts with "&W " / "&w ":
     _process_tree_comments would take it for one (tree_comment_directive_refuted);
   * root_ok: a single-node tree carries no comment text on the tree (other than rooting / weight) and
     none on the node: its statement starts with the label token, which captures both kinds
     (single_node_comments_refuted, single_node_quoted_refuted);
   * weight_ok: the quotient of a Fraction weight is defined; rooting_consistent as in newick_roundtrip.
   Premises on the abstract numerals: the two of newick_roundtrip; weight numerals contain no bracket,
   "/" or whitespace; float() ignores a leading blank (the expression is the text after "&W"). *)
Theorem newick_meta_roundtrip :
  forall (L : Type) (render_len : L -> str) (parse_len : str -> option L) (lower : str -> str)
         (wdiv : L -> L -> option L) (RA : Type) (parse_md : str -> list RA),
    (forall x, parse_len (render_len x) = Some x) ->
    (forall x, render_len x <> [] /\ forallb numeral_char (render_len x) = true) ->
    (forall x, forallb weight_char (render_len x) = true) ->
    (forall s, parse_len (SPACE :: s) = parse_len s) ->
  forall (mo : mt_opts) (dw : L) (t : mtree L),
    mwf L wdiv mo t = true ->
    NoDup (map lower (taxa_order L (mo_rt mo) (strip L (mt_root L t)))) ->
    let ns := taxa_order L (mo_rt mo) (strip L (mt_root L t)) in
    let p := fst (cexpect L mo (mt_root L t) 0) in
    let pc := process_comments RA parse_md (mo_ex mo) (tcm L mo t) in
    read_newick_m L parse_len lower wdiv RA parse_md (mo_ropts L mo dw) []
                  (cwrite_tree_list L render_len (mo_wopts mo) [t])
      = Ok ([mkMR (mt_rooted L t) (expected_weight L wdiv mo dw t) (fst pc) (snd pc)
                  (process_ptree L RA parse_md (mo_ex mo) p)], ns)
    /\ resolve L ns p = Some (norm L (strip L (mt_root L t)))
    /\ (plain_mtree L mo t = true ->
        fst pc = [] /\ snd pc = tcm L mo t /\ process_ptree L RA parse_md (mo_ex mo) p = as_plain p).
Proof. exact newick_meta_roundtrip_l. Qed.
Print Assumptions newick_meta_roundtrip.

(* non-vacuity: a rooted tree with weight 1/2, two tree comments, node and edge comments, a quoted
   label, in the domain *)
Theorem newick_meta_roundtrip_example :
  mwf str sym_div mo_ex1 ex_mtree = true /\ plain_mtree str mo_ex1 ex_mtree = true.
Proof. exact ex_mtree_wf. Qed.
Print Assumptions newick_meta_roundtrip_example.

(* Outside bracket_free: the comment "x[y]z" is written "[x[y]z]" and read back as "xyz". *)
Theorem comment_bracket_refuted :
  mwf str sym_div mo_ex1 bracket_mtree = false /\
  exists p,
  read_newick_m str parse_num_ws (fun s => s) sym_div unit no_md (mo_ropts str mo_ex1 [49; 46; 48]) []
                (cwrite_tree_list str (fun x => x) (mo_wopts mo_ex1) [bracket_mtree])
  = Ok ([mkMR None (Some [49; 46; 48]) [] [[120; 121; 122]] p], [[97]; [98]]).
Proof. exact comment_bracket_refuted_l. Qed.
Print Assumptions comment_bracket_refuted.

(* Outside root_ok: the single-node tree "a" with tree comment "tc" and node comment "nc" is written
   "[tc]a[nc];" and read back with BOTH comments on the tree and none on the node. *)
Theorem single_node_comments_refuted :
  mwf str sym_div mo_ex1 single_mtree = false /\
  read_newick_m str parse_num_ws (fun s => s) sym_div unit no_md (mo_ropts str mo_ex1 [49; 46; 48]) []
                (cwrite_tree_list str (fun x => x) (mo_wopts mo_ex1) [single_mtree])
  = Ok ([mkMR None (Some [49; 46; 48]) [] [[116; 99]; [110; 99]] (MPN (Some 0%nat) None None [] [] [])], [[97]]).
Proof. exact single_node_comments_refuted_l. Qed.
Print Assumptions single_node_comments_refuted.

(* Outside root_ok: the single-node tree "a(" (written quoted) with a tree comment, "[tc]'a(';", is
   rejected by the reader: after a comment the unquoted-token loop takes the quote for a plain
   character. *)
Theorem single_node_quoted_refuted :
  mwf str sym_div mo_ex1 single_quoted_mtree = false /\
  read_newick_m str parse_num_ws (fun s => s) sym_div unit no_md (mo_ropts str mo_ex1 [49; 46; 48]) []
                (cwrite_tree_list str (fun x => x) (mo_wopts mo_ex1) [single_quoted_mtree])
  = Err ParseErr.
Proof. exact single_node_quoted_refuted_l. Qed.
Print Assumptions single_node_quoted_refuted.

(* Outside tree_comment_ok: the tree comments " &R" and "&w 3" of an unrooted tree without weight come
   back as rooting state True and weight 3. *)
Theorem tree_comment_directive_refuted :
  mwf str sym_div mo_ex1 rooting_comment_mtree = false /\
  exists p,
  read_newick_m str parse_num_ws (fun s => s) sym_div unit no_md (mo_ropts str mo_ex1 [49; 46; 48]) []
                (cwrite_tree_list str (fun x => x) (mo_wopts mo_ex1) [rooting_comment_mtree])
  = Ok ([mkMR (Some true) (Some [51]) [] [] p], [[97]; [98]]).
Proof. exact tree_comment_directive_refuted_l. Qed.
Print Assumptions tree_comment_directive_refuted.

(* The enumerated options alone (rooting token, store_tree_weights; the writer's defaults
   suppress_annotations = suppress_item_comments = True): no comment text is written besides the rooting
   and weight tokens, each of which ends in a blank, so the domain of newick_meta_roundtrip is exactly
   the domain of newick_roundtrip plus weight_ok - single-node trees with quoted labels included
   (the situation of single_node_quoted_refuted needs a comment written WITHOUT a blank, i.e.
   suppress_item_comments=False or suppress_annotations=False). *)
Theorem newick_weights_domain : forall (L : Type) (wdiv : L -> L -> option L) (mo : mt_opts) (t : mtree L),
  mo_sa mo = true -> mo_sic mo = true ->
  mwf L wdiv mo t = wf_tree L (mo_rt mo) (strip L (mt_root L t)) && weight_ok L wdiv mo t
                    && rooting_consistent (mo_rt mo) (mt_rooted L t).
Proof. exact mwf_default_comments. Qed.
Print Assumptions newick_weights_domain.

(* the single-node tree "a(" (written quoted), rooted, weight 1/2, store_tree_weights=True:
   "[&R] [&W 1/2] 'a(';" is in the domain and reads back with rooting, weight 1/2 and the taxon *)
Theorem newick_weights_single_node_example :
  mwf str sym_div mo_weights single_quoted_weighted = true /\
  cwrite_tree_list str (fun x => x) (mo_wopts mo_weights) [single_quoted_weighted]
  = [91; 38; 82; 93; 32; 91; 38; 87; 32; 49; 47; 50; 93; 32; 39; 97; 40; 39; 59; 10] /\
  read_newick_m str parse_num_ws (fun s => s) sym_div unit no_md (mo_ropts str mo_weights [49; 46; 48]) []
                (cwrite_tree_list str (fun x => x) (mo_wopts mo_weights) [single_quoted_weighted])
  = Ok ([mkMR (Some true) (Some [49; 47; 50]) [] [] (MPN (Some 0%nat) None None [] [] [])], [[97; 40]]).
Proof. exact single_quoted_weighted_ok. Qed.
Print Assumptions newick_weights_single_node_example.

(* METADATA COMMENTS.  The reader's parse_comment_metadata_to_annotations (Model/C02MetaAnn.v: the
   backtracking semantics of the two regular expressions with re.findall, strip, and the value
   interpretation) inverts the writer's format_item_annotations_as_comments: the comment text
   "&k1=v1,k2=v2,..." written for a non-empty list of annotations is parsed back into the annotations
   in order, every value as the reader represents it (expected_rval: a str as itself, an int as the
   STRING of its digits - the reader has no value types -, a bool as a bool, a list as the list of its
   elements' strings).  Admissibility (annots_ok, boolean, Model/C02MetaAnnSpec.v):
   * names: non-empty, no "=", no newline, no leading/trailing whitespace; the first not starting with "&";
   * scalar value texts: non-empty, no ",", no newline, no leading/trailing whitespace, not starting with
     "{", not enclosed in double quotes, not true/false in any letter case (see the _refuted theorems);
   * lists: at least two elements, element texts non-empty without "," "}" newline.
   Premises on the abstract str.lower: "True" -> "true", "False" -> "false".
   The annotations pass through a Python set hashed by id(): the order in which they are ADDED to the item
   is not determined; the model (and this statement) deliver match order, the correspondence compares
   up to permutation.  With newick_meta_roundtrip (whose result is stated through process_comments on
   the written comment texts) this gives the round trip of annotations on trees and nodes:
   process_annotation_comment below. *)
Theorem metadata_comment_roundtrip :
  forall (lower : str -> str), lower str_True = str_true -> lower str_False = str_false ->
  forall anns : list annot, anns <> [] -> annots_ok lower anns = true ->
    parse_md lower (AMP :: join_with COMMA (map render_annot anns)) = map expected_rannot anns.
Proof. exact md_roundtrip. Qed.
Print Assumptions metadata_comment_roundtrip.

(* process_comments_for_item on the comment texts of an item written with suppress_annotations=False:
   the annotation comment becomes the annotations, the remaining comments are processed as before. *)
Theorem metadata_item_roundtrip :
  forall (lower : str -> str), lower str_True = str_true -> lower str_False = str_false ->
  forall (anns : list annot) (cs : list str), anns <> [] -> annots_ok lower anns = true ->
  process_comments rannot (parse_md lower) true (annotation_texts anns ++ cs)
  = (map expected_rannot anns ++ fst (process_comments rannot (parse_md lower) true cs),
     snd (process_comments rannot (parse_md lower) true cs)).
Proof. exact process_annotation_comment. Qed.
Print Assumptions metadata_item_roundtrip.

Theorem metadata_comment_roundtrip_example : annots_ok ascii_lower ex_annots = true.
Proof. exact ex_annots_ok. Qed.
Print Assumptions metadata_comment_roundtrip_example.

(* A "," in a string value is written unprotected: k="a,b", j="z" is written "&k=a,b,j=z" and parsed as
   k="a" plus an annotation NAMED "b,j" with value "z". *)
Theorem metadata_value_comma_refuted :
  annots_ok ascii_lower [([107], VAtom (AStr [97; 44; 98])); ([106], VAtom (AStr [122]))] = false /\
  parse_md ascii_lower (AMP :: join_with COMMA (map render_annot [([107], VAtom (AStr [97; 44; 98])); ([106], VAtom (AStr [122]))]))
  = [([107], RStr [97]); ([98; 44; 106], RStr [122])].
Proof. exact md_comma_refuted_l. Qed.
Print Assumptions metadata_value_comma_refuted.

(* A one-element list in front of another list annotation: k=["a"], j=["x","y"] is written
   "&k={a},j={x,y}" and parsed as the single annotation k = ["a}", "j={x", "y"]. *)
Theorem metadata_single_item_list_refuted :
  annots_ok ascii_lower [([107], VList [AStr [97]]); ([106], VList [AStr [120]; AStr [121]])] = false /\
  parse_md ascii_lower (AMP :: join_with COMMA (map render_annot [([107], VList [AStr [97]]); ([106], VList [AStr [120]; AStr [121]])]))
  = [([107], RList [[97; 125]; [106; 61; 123; 120]; [121]])].
Proof. exact md_single_item_list_refuted_l. Qed.
Print Assumptions metadata_single_item_list_refuted.

(* The string value "true" comes back as the bool True. *)
Theorem metadata_true_string_refuted :
  annots_ok ascii_lower [([107], VAtom (AStr [116; 114; 117; 101]))] = false /\
  parse_md ascii_lower (AMP :: join_with COMMA (map render_annot [([107], VAtom (AStr [116; 114; 117; 101]))]))
  = [([107], RBool true)].
Proof. exact md_true_string_refuted_l. Qed.
Print Assumptions metadata_true_string_refuted.

(* TRANSLATOR TIE for the metadata model (facts level).  Gen/NewickMeta.v is regenerated from the Python
   source on every run by py/dv/gen_newickmeta.py (fail closed: the generator accepts only the statement
   shapes and the regular-expression shape the model implements).  The model uses exactly the generated
   weight token, comment brackets, annotation prefix / separator / suffix, the generated ORDER of the pieces
   written by _write_tree and _write_node_body, the generated weight prefixes and quotient operand order of
   _process_tree_comments, and the generated prefix chain of parse_comment_metadata_to_annotations.
   (Control flow beyond these facts is tied by the metadata correspondence stage.) *)
Theorem gen_meta_weight_token_eq : writer_weight_open = gen_weight_open /\ writer_weight_close = gen_weight_close.
Proof. exact gen_weight_token_eq_l. Qed.
Print Assumptions gen_meta_weight_token_eq.

Theorem gen_meta_comment_bracket_eq : forall c, bracket c = gen_comment_open ++ c ++ gen_comment_close.
Proof. exact gen_comment_bracket_eq_l. Qed.
Print Assumptions gen_meta_comment_bracket_eq.

Theorem gen_meta_annotation_comment_eq : forall anns, anns <> [] ->
  flat_map bracket (annotation_texts anns)
  = gen_ann_prefix ++ join_with gen_ann_separator (map render_annot anns) ++ gen_ann_suffix.
Proof. exact gen_annotation_comment_eq_l. Qed.
Print Assumptions gen_meta_annotation_comment_eq.

Theorem gen_meta_write_tree_order_eq : forall L render_len o t,
  cwrite_tree L render_len o t
  = flat_map (tree_piece L render_len o t) gen_tree_order ++ cwrite_node L render_len o true (mt_root L t) ++ [SEMI].
Proof. exact gen_write_tree_order_eq_l. Qed.
Print Assumptions gen_meta_write_tree_order_eq.

Theorem gen_meta_write_node_body_order_eq : forall L render_len o t,
  cwrite_node_body L render_len o t = flat_map (body_piece L render_len o t) gen_body_order.
Proof. exact gen_write_node_body_order_eq_l. Qed.
Print Assumptions gen_meta_write_node_body_order_eq.

Theorem gen_meta_weight_prefixes_eq : reader_weight_prefixes = gen_weight_prefixes.
Proof. exact gen_weight_prefixes_eq_l. Qed.
Print Assumptions gen_meta_weight_prefixes_eq.

Theorem gen_meta_weight_quotient_eq : forall L parse_len wdiv we a b x y,
  split_on SLASH we = [a; b] -> parse_len a = Some x -> parse_len b = Some y ->
  parse_weight L parse_len wdiv we
  = match wdiv (nth (fst gen_weight_quotient) [x; y] x) (nth (snd gen_weight_quotient) [x; y] x) with
    | Some q => Ok q
    | None => Err OtherErr
    end.
Proof. exact gen_weight_quotient_eq_l. Qed.
Print Assumptions gen_meta_weight_quotient_eq.

Theorem gen_meta_md_chain_eq : forall lower c,
  parse_md lower c
  = map (fun kv => (py_strip (fst kv), conv_val lower (py_strip (snd kv))))
        (match find (fun e => starts_with (fst (fst e)) c) gen_md_chain with
         | Some e => findall (snd e) (S (length c)) (skipn (snd (fst e)) c)
         | None => []
         end).
Proof. exact gen_md_chain_eq_l. Qed.
Print Assumptions gen_meta_md_chain_eq.

(* ================================================================================================================
   Wave 7: read-back ROUTES and reading HISTORIES.  Object level (Model/C02MapObj.v): the three look-up containers of
   every NexusTaxonSymbolMapper are objects in a heap; a lazy tree iterator keeps its mapper alive while other readers
   create and use theirs.  Generated on every run from the source (py/dv/gen_c02mapobj.py -> Gen/C02MapObjGen.v):
   the class-level bindings of the tables, the effects of __init__ on them along every path, the effects of every
   other method, and the look-up-by-number switch each Newick entry point passes to the mapper it creates. *)
From DV Require Import Model.C02Model Model.C02MapObj Gen.C02MapObjGen Model.C02Routes Proofs.C02MapObj Proofs.C02MapObjGen.
Open Scope nat_scope.

(* the class body binds none of the tables, and along every path of the constructor that does not raise, every table is
   bound to a newly created container before anything is changed in place *)
Theorem gen_mapobj_class_tables : gen_class_tables = [].
Proof. exact gen_class_tables_l. Qed.
Print Assumptions gen_mapobj_class_tables.

Theorem gen_mapobj_init_ok : forallb init_ok gen_init_paths = true.
Proof. exact gen_init_ok_l. Qed.
Print Assumptions gen_mapobj_init_ok.

Theorem gen_mapobj_constructor_ok : forall table (init : list (eff table)),
  In (map (shape_of table) init) gen_init_paths -> init_ok (map (shape_of table) init) = true.
Proof. exact gen_constructor_ok_l. Qed.
Print Assumptions gen_mapobj_constructor_ok.

(* every Newick entry point (NewickReader._read behind TreeList.get/.read, Tree.get, DataSet.get; the Newick tree iterator
   behind Tree.yield_from_files and TreeArray.read; the NEXUS iterator's Newick fall-back), with the switch it passes to
   its mapper, is the reader of newick_roundtrip / treelist_roundtrip *)
Theorem newick_routes_agree : forall L parse_len lower r o ns text,
  read_newick_route L parse_len lower r o ns text = read_newick L parse_len lower o ns text.
Proof. exact newick_routes_agree_l. Qed.
Print Assumptions newick_routes_agree.

(* ... and it matters: with look-up by taxon number the text "(b,1);" does not read back as the taxa b and 1 *)
Theorem newick_by_number_refuted :
  read_result_eqb (read_newick_with str (fun _ => None) (fun s => s) true bn_opts [] bn_text)
                  (read_newick str (fun _ => None) (fun s => s) bn_opts [] bn_text) = false
  /\ exists ts, read_newick str (fun _ => None) (fun s => s) bn_opts [] bn_text = Ok (ts, [[98%Z]; [49%Z]]).
Proof. exact newick_by_number_refuted_l. Qed.
Print Assumptions newick_by_number_refuted.

(* no_table_shared + object_level_refines_value_level, over ALL histories: from a world without mappers (whatever the class
   level holds), after any sequence of mapper creations (constructor effects init_ok) and method calls on live mappers
   (ANY effects: binding newly created containers, changing the own ones in place), the history runs without error, no
   container is reached by two mappers or through two fields, none is a class-level one, and every mapper sees in every
   field exactly what the value-level model computes for it alone *)
Theorem mapper_histories_separated : forall table (w0 : world table) l,
  start_ok _ w0 -> hist_ok _ 0 l ->
  exists w', run_ops _ w0 l = Some w'
    /\ sep _ w' /\ all_complete _ w'
    /\ length (vrun_ops _ [] l) = length (w_objs _ w')
    /\ (forall j v, nth_error (vrun_ops _ [] l) j = Some v -> forall g, view _ w' j g = v g)
    /\ (forall i j oi oj f g a, nth_error (w_objs _ w') i = Some oi -> nth_error (w_objs _ w') j = Some oj ->
          resolve _ w' oi f = Some a -> resolve _ w' oj g = Some a ->
          (i = j /\ f = g) /\ (forall h, oget (w_cls _ w') h <> Some a)).
Proof. exact history_from_start_l. Qed.
Print Assumptions mapper_histories_separated.

(* multi_object_frame: one operation (a new mapper, or any method of mapper i) leaves what every OTHER mapper sees
   unchanged, and changes mapper i's view as the value-level model says *)
Theorem mapper_frame : forall table (w : world table) o,
  sep _ w -> all_complete _ w ->
  (match o with ONew init => init_ok (map (shape_of _) init) = true | OCall i _ => i < length (w_objs _ w) end) ->
  exists w', run_op _ w o = Some w' /\ sep _ w' /\ all_complete _ w'
    /\ (forall j g, j < length (w_objs _ w) -> (match o with OCall i _ => j <> i | ONew _ => True end) -> view _ w' j g = view _ w j g)
    /\ (match o with
        | ONew init => length (w_objs _ w') = S (length (w_objs _ w))
                       /\ forall g, view _ w' (length (w_objs _ w)) g = vrun_effs _ (fun _ => None) init g
        | OCall i l => length (w_objs _ w') = length (w_objs _ w)
                       /\ forall g, view _ w' i g = vrun_effs _ (view _ w i) l g
        end).
Proof. exact frame_l. Qed.
Print Assumptions mapper_frame.

Theorem mapper_history_example :
  start_ok _ ex_world /\ hist_ok _ 0 ex_hist /\ In (map (shape_of nat) ex_init) gen_init_paths
  /\ (match run_ops _ ex_world ex_hist with
      | Some w => (view _ w 0 FTok, view _ w 1 FTok, view _ w 1 FLab)
      | None => (None, None, None)
      end) = (Some 7, Some 0, Some 10).
Proof. exact history_example_l. Qed.
Print Assumptions mapper_history_example.

(* with class-level tables and a constructor that changes them in place (not init_ok) the statement is false *)
Theorem class_level_tables_refuted :
  start_ok _ bad_world /\ init_ok (map (shape_of nat) bad_init) = false
  /\ exists w1 w2, run_ops _ bad_world [ONew bad_init; ONew bad_init] = Some w1
       /\ run_op _ w1 (OCall 1 [EMut FTok (fun t => t + 7)]) = Some w2
       /\ view _ w1 0 FTok = Some 0 /\ view _ w2 0 FTok = Some 7.
Proof. exact class_level_tables_refuted_l. Qed.
Print Assumptions class_level_tables_refuted.
