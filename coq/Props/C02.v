(* C02 property theorems: statements only, each closed by `exact`.
   Model: Model/Tokenizer.v (Tokenizer.__next__ as configured by NexusTokenizer), Model/Newick.v
   (escape_nexus_token, NewickWriter, NexusTaxonSymbolMapper, NewickReader), character classes from
   Gen/CharClasses.v (regenerated from the source on every run). Spec definitions: Model/C02Spec.v. *)
From Coq Require Import ZArith List Bool.
From DV Require Import Model.PyPrims Gen.CharClasses Model.Tokenizer Model.Newick Model.C02Spec
     Proofs.C02Escape Proofs.C02Main.
Import ListNotations.
Open Scope Z_scope.

(* Generated obligation: every captured delimiter, quote character and comment-begin character of
   the NexusTokenizer is in the protected class of NewickWriter._render_node_tag; every uncaptured
   delimiter is in that class, or is the blank (escape_nexus_token quotes or converts blanks by its
   own rule), or lies outside the property's label alphabet (carriage return). *)
Theorem delims_protected : forall c : Z,
  (In c tok_captured_delimiters \/ In c tok_quote_chars \/ In c tok_comment_begin ->
     zmem c newick_writer_protect = true) /\
  (In c tok_uncaptured_delimiters ->
     zmem c newick_writer_protect = true \/ c = SPACE \/ admissible c = false).
Proof. exact delims_protected_l. Qed.
Print Assumptions delims_protected.

(* The same for the default class of escape_nexus_token (NEXUS TAXLABELS / TRANSLATE labels). *)
Theorem delims_protected_default : forall c : Z,
  (In c tok_captured_delimiters \/ In c tok_quote_chars \/ In c tok_comment_begin ->
     zmem c escape_default_protect = true) /\
  (In c tok_uncaptured_delimiters ->
     zmem c escape_default_protect = true \/ c = SPACE \/ admissible c = false).
Proof. exact delims_protected_default_l. Qed.
Print Assumptions delims_protected_default.

(* A label written by escape_nexus_token (writer class) in front of a captured delimiter or the end
   of the text is read back by Tokenizer.__next__ as exactly that label, with exactly the rest
   remaining, for every admissible label and every consistent option pair. *)
Theorem escape_tokenize_roundtrip : forall (pu ps uu : bool) (l r : str),
  good_label l = true ->
  match r with [] => True | c :: _ => zmem c tok_captured_delimiters = true end ->
  consistent_opts uu pu ps l = true ->
  next_token (nexus_cfg pu) (escape_token newick_writer_protect ps (negb uu) l ++ r)
  = TTok l (escape_quotes newick_writer_protect ps (negb uu) l) [] r.
Proof. exact escape_tokenize_roundtrip_p. Qed.
Print Assumptions escape_tokenize_roundtrip.

(* The tokenizer model is total: the fuel artefacts are never produced and every token consumes
   input (used by the readers' termination arguments). *)
Theorem tokenizer_total : forall (cfg : tok_cfg) (s : str),
  next_token cfg s <> TFuel /\ snd (tokenize cfg s) <> EndFuel /\
  (forall t q cs rest, next_token cfg s = TTok t q cs rest -> (length rest < length s)%nat).
Proof. exact tokenizer_total_l. Qed.
Print Assumptions tokenizer_total.

(* Newick round trip, all rose trees.  Writing a tree with NewickWriter (default label options,
   any unquoted_underscores / preserve_spaces / suppress_rooting) and reading the text with
   NewickReader (matching preserve_underscores, rooting directive, suppress_internal_node_taxa)
   into a new namespace delivers: one tree, the written rooting state, no comments, the tree
   `expect t 0` whose taxa are numbered in token order, over the namespace `taxa_order t`; and
   reading the numbers back as labels gives `norm t` = t without the node labels of leaves (the
   only attribute the default writer options suppress): same topology, child order, taxon on every
   node, internal labels, edge lengths.
   Domain (wf_tree): any arity incl. unifurcations and the single node; every written label is
   good_label, consistent with the option pair, and not a single structural character (F5, see
   escape_single_punct_refuted); no anonymous leaf without edge length (see
   trailing_blank_leaf_refuted); internal nodes carry only the attribute Newick can express (label,
   or taxon in taxon mode).  Taxa of the tree are distinct up to str.lower.
   Edge-length numerals are abstract: the two premises on render_len / parse_len. *)
Theorem newick_roundtrip :
  forall (L : Type) (render_len : L -> str) (parse_len : str -> option L) (lower : str -> str),
    (forall x, parse_len (render_len x) = Some x) ->
    (forall x, render_len x <> [] /\ forallb numeral_char (render_len x) = true) ->
  forall (o : rt_opts) (r : option bool) (t : ntree L),
    wf_tree L o t = true ->
    NoDup (map lower (taxa_order L o t)) ->
    rooting_consistent o r = true ->
    read_newick L parse_len lower (rt_ropts o) [] (write_tree_list L render_len (rt_wopts o) [(r, t)])
      = Ok ([mkPR r [] (fst (expect L o t 0))], taxa_order L o t)
    /\ resolve L (taxa_order L o t) (fst (expect L o t 0)) = Some (norm L t).
Proof. exact newick_roundtrip_l. Qed.
Print Assumptions newick_roundtrip.

(* F5.  The full-strength statement (newick_roundtrip without `negb (is_struct1 l)` in label_ok) is
   false on the faithful model: the admissible label ":" is written as ':' (quoted) and
   NewickReader._parse_tree_node_description, which ignores is_token_quoted, takes it for the
   edge-length separator; the reader raises a parse error.  (wf_tree rejects the tree only because
   of the F5 exclusion.) *)
Theorem escape_single_punct_refuted :
  exists t : ntree str,
    good_label [COLON] = true /\
    wf_tree str rt_default t = false /\
    read_newick str parse_num (fun s => s) (rt_ropts rt_default) []
                (write_tree_list str (fun x => x) (rt_wopts rt_default) [(Some true, t)])
    = Err ParseErr.
Proof. exact escape_single_punct_refuted_l. Qed.
Print Assumptions escape_single_punct_refuted.

(* F5, silent variant: the label "," comes back as two anonymous leaves, without any error. *)
Theorem escape_single_punct_silent_refuted :
  exists t : ntree str,
    good_label [COMMA] = true /\
    read_newick str parse_num (fun s => s) (rt_ropts rt_default) []
                (write_tree_list str (fun x => x) (rt_wopts rt_default) [(Some true, t)])
    = Ok ([mkPR (Some true) []
             (PN None None None [] [PN None None None [] []; PN None None (Some [49]) [] [];
                                    PN (Some 0%nat) None (Some [49]) [] []])],
          [[122; 122]]).
Proof. exact escape_single_punct_silent_refuted_l. Qed.
Print Assumptions escape_single_punct_silent_refuted.

(* New finding.  A trailing anonymous leaf without edge length after a named sibling is written as
   "(a,)" and re-read with one child: the reader creates the node for `,)` only when no node was
   created before. *)
Theorem trailing_blank_leaf_refuted :
  exists t : ntree str,
    write_tree_list str (fun x => x) (rt_wopts rt_default) [(None, t)] = [40; 97; 44; 41; 59; 10] /\
    read_newick str parse_num (fun s => s) (rt_ropts rt_default) []
                (write_tree_list str (fun x => x) (rt_wopts rt_default) [(None, t)])
    = Ok ([mkPR None [] (PN None None None [] [PN (Some 0%nat) None None [] []])], [[97]]).
Proof. exact trailing_blank_leaf_refuted_l. Qed.
Print Assumptions trailing_blank_leaf_refuted.
