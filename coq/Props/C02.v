(* C02 property theorems: statements only, each closed by `exact`.
   Model: Model/Tokenizer.v (Tokenizer.__next__ as configured by NexusTokenizer), Model/Newick.v
   (escape_nexus_token, NewickWriter, NexusTaxonSymbolMapper, NewickReader), character classes from
   Gen/CharClasses.v (regenerated from the source on every run). Spec definitions: Model/C02Spec.v. *)
From Coq Require Import ZArith List Bool.
From DV Require Import Model.PyPrims Gen.CharClasses Model.Tokenizer Model.Newick Model.C02Spec Model.C02ListSpec
     Model.C02Nexus Model.C02NexusSpec
     Model.C02Nexml Model.C02FlagsSpec
     Proofs.C02Escape Proofs.C02Main Proofs.C02ListMain Proofs.C02NexusDoc Proofs.C02NexusRead Proofs.C02NexusMain
     Proofs.C02Nexml Proofs.C02NexmlMain Proofs.C02Flags
     Model.C02GenPrims Gen.NewickGen Model.C02GenSpec Proofs.C02GenEsc Proofs.C02GenTok Proofs.C02GenWriter Proofs.C02GenReader.
Import ListNotations.
Open Scope Z_scope.

(* Generated obligation: every captured delimiter, quote character and comment-begin character of
   the NexusTokenizer is in the protected class of NewickWriter._render_node_tag; every uncaptured
   delimiter is in that class, or is the blank (escape_nexus_token quotes or converts blanks by its
   own rule), or lies outside the property's label alphabet (carriage return). *)
Theorem delims_protected : forall c : Z,
  (In c tok_captured_delimiters \/ In c tok_quote_chars \/ In c tok_comment_begin ->
     zmem c newick_writer_protect = true) /\
  (In c tok_uncaptured_delimiters ->
     zmem c newick_writer_protect = true \/ c = SPACE \/ admissible c = false).
Proof. exact delims_protected_l. Qed.
Print Assumptions delims_protected.

(* The same for the default class of escape_nexus_token (NEXUS TAXLABELS / TRANSLATE labels). *)
Theorem delims_protected_default : forall c : Z,
  (In c tok_captured_delimiters \/ In c tok_quote_chars \/ In c tok_comment_begin ->
     zmem c escape_default_protect = true) /\
  (In c tok_uncaptured_delimiters ->
     zmem c escape_default_protect = true \/ c = SPACE \/ admissible c = false).
Proof. exact delims_protected_default_l. Qed.
Print Assumptions delims_protected_default.

(* A label written by escape_nexus_token (writer class) in front of a captured delimiter or the end
   of the text is read back by Tokenizer.__next__ as exactly that label, with exactly the rest
   remaining, for every admissible label and every consistent option pair. *)
Theorem escape_tokenize_roundtrip : forall (pu ps uu : bool) (l r : str),
  good_label l = true ->
  match r with [] => True | c :: _ => zmem c tok_captured_delimiters = true end ->
  consistent_opts uu pu ps l = true ->
  next_token (nexus_cfg pu) (escape_token newick_writer_protect ps (negb uu) l ++ r)
  = TTok l (escape_quotes newick_writer_protect ps (negb uu) l) [] r.
Proof. exact escape_tokenize_roundtrip_p. Qed.
Print Assumptions escape_tokenize_roundtrip.

(* The tokenizer model is total: the fuel artefacts are never produced and every token consumes
   input (used by the readers' termination arguments). *)
Theorem tokenizer_total : forall (cfg : tok_cfg) (s : str),
  next_token cfg s <> TFuel /\ snd (tokenize cfg s) <> EndFuel /\
  (forall t q cs rest, next_token cfg s = TTok t q cs rest -> (length rest < length s)%nat).
Proof. exact tokenizer_total_l. Qed.
Print Assumptions tokenizer_total.

(* Newick round trip, all rose trees.  Writing a tree with NewickWriter (default label options,
   any unquoted_underscores / preserve_spaces / suppress_rooting) and reading the text with
   NewickReader (matching preserve_underscores, rooting directive, suppress_internal_node_taxa)
   into a new namespace delivers: one tree, the written rooting state, no comments, the tree
   `expect t 0` whose taxa are numbered in token order, over the namespace `taxa_order t`; and
   reading the numbers back as labels gives `norm t` = t without the node labels of leaves (the
   only attribute the default writer options suppress): same topology, child order, taxon on every
   node, internal labels, edge lengths.
   Domain (wf_tree): any arity incl. unifurcations and the single node; every written label is
   good_label, consistent with the option pair, and not a single structural character (F5, see
   escape_single_punct_refuted); no anonymous leaf without edge length (see
   trailing_blank_leaf_refuted); internal nodes carry only the attribute Newick can express (label,
   or taxon in taxon mode).  Taxa of the tree are distinct up to str.lower.
   Edge-length numerals are abstract: the two premises on render_len / parse_len. *)
Theorem newick_roundtrip :
  forall (L : Type) (render_len : L -> str) (parse_len : str -> option L) (lower : str -> str),
    (forall x, parse_len (render_len x) = Some x) ->
    (forall x, render_len x <> [] /\ forallb numeral_char (render_len x) = true) ->
  forall (o : rt_opts) (r : option bool) (t : ntree L),
    wf_tree L o t = true ->
    NoDup (map lower (taxa_order L o t)) ->
    rooting_consistent o r = true ->
    read_newick L parse_len lower (rt_ropts o) [] (write_tree_list L render_len (rt_wopts o) [(r, t)])
      = Ok ([mkPR r [] (fst (expect L o t 0))], taxa_order L o t)
    /\ resolve L (taxa_order L o t) (fst (expect L o t 0)) = Some (norm L t).
Proof. exact newick_roundtrip_l. Qed.
Print Assumptions newick_roundtrip.

(* F5.  The full-strength statement (newick_roundtrip without `negb (is_struct1 l)` in label_ok) is
   false on the faithful model: the admissible label ":" is written as ':' (quoted) and
   NewickReader._parse_tree_node_description, which ignores is_token_quoted, takes it for the
   edge-length separator; the reader raises a parse error.  (wf_tree rejects the tree only because
   of the F5 exclusion.) *)
Theorem escape_single_punct_refuted :
  exists t : ntree str,
    good_label [COLON] = true /\
    wf_tree str rt_default t = false /\
    read_newick str parse_num (fun s => s) (rt_ropts rt_default) []
                (write_tree_list str (fun x => x) (rt_wopts rt_default) [(Some true, t)])
    = Err ParseErr.
Proof. exact escape_single_punct_refuted_l. Qed.
Print Assumptions escape_single_punct_refuted.

(* F5, silent variant: the label "," comes back as two anonymous leaves, without any error. *)
Theorem escape_single_punct_silent_refuted :
  exists t : ntree str,
    good_label [COMMA] = true /\
    read_newick str parse_num (fun s => s) (rt_ropts rt_default) []
                (write_tree_list str (fun x => x) (rt_wopts rt_default) [(Some true, t)])
    = Ok ([mkPR (Some true) []
             (PN None None None [] [PN None None None [] []; PN None None (Some [49]) [] [];
                                    PN (Some 0%nat) None (Some [49]) [] []])],
          [[122; 122]]).
Proof. exact escape_single_punct_silent_refuted_l. Qed.
Print Assumptions escape_single_punct_silent_refuted.

(* Tree lists.  A non-empty list of trees over a shared namespace, written as one Newick document
   (_write_tree_list: one statement per line), is read back by NewickReader into a new namespace as
   the same list: one result per tree, in order, each with the written rooting state, no comments,
   and a tree whose taxon numbers name the written labels (resolve ... = norm t); the namespace
   holds the taxon labels of the document in order of first occurrence (first_occurrences), and a
   taxon used by several trees is the same member in all of them (expect_trees numbers a repeated
   label by the position of its first occurrence).
   Premises: every tree in the domain of newick_roundtrip (wf_tree), the taxa of each tree distinct
   up to str.lower, the reader's rooting directive consistent with every tree's rooting state, and
   the property's label condition "distinct from the other labels up to letter case": labels of the
   document that are equal up to case are equal (case_consistent).
   The empty list is excluded: it is written as the empty document, which the reader rejects
   (Proofs/C02ListMain.v empty_treelist). *)
Theorem treelist_roundtrip :
  forall (L : Type) (render_len : L -> str) (parse_len : str -> option L) (lower : str -> str),
    (forall x, parse_len (render_len x) = Some x) ->
    (forall x, render_len x <> [] /\ forallb numeral_char (render_len x) = true) ->
  forall (o : rt_opts) (r : option bool) (t : ntree L) (ts : list (option bool * ntree L)),
    let doc := (r, t) :: ts in
    forallb (fun rt => wf_tree L o (snd rt)) doc = true ->
    Forall (fun rt => NoDup (map lower (taxa_order L o (snd rt)))) doc ->
    Forall (fun rt => rooting_consistent o (fst rt) = true) doc ->
    case_consistent lower (doc_taxa L o doc) ->
    let ns := first_occurrences lower (doc_taxa L o doc) in
    read_newick L parse_len lower (rt_ropts o) [] (write_tree_list L render_len (rt_wopts o) doc)
      = Ok (fst (expect_trees L lower o doc []), ns)
    /\ Forall2 (fun rt pr => pr_is_rooted pr = fst rt /\ pr_comments pr = [] /\
                             resolve L ns (pr_tree pr) = Some (norm L (snd rt)))
               doc (fst (expect_trees L lower o doc [])).
Proof. exact treelist_roundtrip_l. Qed.
Print Assumptions treelist_roundtrip.

(* Suppressing writer options.  With any of suppress_edge_lengths, suppress_leaf_taxon_labels,
   suppress_internal_taxon_labels, suppress_internal_node_labels set (sflags), the document is the
   one the default options write for the trees with exactly those attributes erased (erase), so the
   list read back is the erased list: nothing else is lost.  (with_flags keeps suppress_rooting,
   unquoted_underscores, preserve_spaces of rt_wopts o; suppress_leaf_node_labels stays True.)
   Not covered: suppress_leaf_node_labels=False (label and taxon joined into one token),
   store_tree_weights ([&W ...]), the reader's suppress_edge_lengths. *)
Theorem treelist_roundtrip_suppressed :
  forall (L : Type) (render_len : L -> str) (parse_len : str -> option L) (lower : str -> str),
    (forall x, parse_len (render_len x) = Some x) ->
    (forall x, render_len x <> [] /\ forallb numeral_char (render_len x) = true) ->
  forall (o : rt_opts) (f : sflags) (r : option bool) (t : ntree L) (ts : list (option bool * ntree L)),
    let doc := map (fun rt => (fst rt, erase L f (snd rt))) ((r, t) :: ts) in
    forallb (fun rt => wf_tree L o (snd rt)) doc = true ->
    Forall (fun rt => NoDup (map lower (taxa_order L o (snd rt)))) doc ->
    Forall (fun rt => rooting_consistent o (fst rt) = true) doc ->
    case_consistent lower (doc_taxa L o doc) ->
    let ns := first_occurrences lower (doc_taxa L o doc) in
    read_newick L parse_len lower (rt_ropts o) [] (write_tree_list L render_len (with_flags (rt_wopts o) f) ((r, t) :: ts))
      = Ok (fst (expect_trees L lower o doc []), ns)
    /\ Forall2 (fun rt pr => pr_is_rooted pr = fst rt /\ pr_comments pr = [] /\
                             resolve L ns (pr_tree pr) = Some (norm L (snd rt)))
               doc (fst (expect_trees L lower o doc [])).
Proof. exact treelist_roundtrip_suppressed_l. Qed.
Print Assumptions treelist_roundtrip_suppressed.

(* NEXUS.  A non-empty tree list over a namespace ns, written by NexusWriter as TAXA block + TREES
   block (Model/C02Nexus.v write_nexus_acc; with or without a TRANSLATE statement,
   translate_tree_taxa), is read back by NexusReader as: the one namespace with the labels of the TAXA block in the same
   order, and one tree list over it holding, per tree, the written rooting state, no comments, and
   the tree in which every taxon-bearing node refers to the POSITION of its label in ns
   (expectF (pos ns)); resolving the positions gives `norm t`.
   This includes labels that look like taxon numbers, also a label equal to ANOTHER taxon's 1-based
   position, with and without TRANSLATE: the symbol mapper looks a tree token up as TRANSLATE token,
   then as label, and only then as number (Proofs/C02NexusMap.v lookup_plain / lookup_translate), and
   every tree token the writer emits is found by the first (TRANSLATE) resp. second (label) rule.
   ns is the namespace in its CURRENT member order (the order of TAXLABELS); accs are the members'
   accession indices in that order, any duplicate-free list: the TRANSLATE token of member i is
   accs[i] + 1, so a namespace that was sorted, reversed or had members removed and re-added after
   its taxa were created is covered (accs = 0,1,2,... gives write_nexus, Proofs/C02NexusMain.v
   write_nexus_acc_seq).
   Premises - the exact admissibility condition the code needs:
   * the namespace labels are admissible labels consistent with the option pair (nlabel_ok),
     pairwise distinct up to str.lower, and none is a single structural character (F5: a TAXLABELS
     entry ";" or a TRANSLATE label "," is read as structure);
   * with TRANSLATE the namespace is not empty ("Translate ;" is rejected, known finding
     nexus-translate-empty-namespace, see nexus_translate_empty_namespace_refuted);
   * the tree list is not empty; every tree is in the domain of newick_roundtrip, all its taxa are
     members of ns and distinct; the reader's rooting directive fits the rooting states;
   * str.lower leaves digit strings alone, str.upper leaves strings without a-z alone and maps
     "Translate" to "TRANSLATE" (true of Python; premises because lower/upper are abstract);
     the two premises on edge-length numerals as in newick_roundtrip. *)
Theorem nexus_trees_roundtrip :
  forall (L : Type) (render_len : L -> str) (parse_len : str -> option L) (lower upper : str -> str),
    (forall x, parse_len (render_len x) = Some x) ->
    (forall x, render_len x <> [] /\ forallb numeral_char (render_len x) = true) ->
    (forall n, lower (dec_of_nat n) = dec_of_nat n) ->
    (forall s, forallb up_fixed s = true -> upper s = s) ->
    upper wd_Translate = kw_TRANSLATE ->
  forall (o : rt_opts) (tr : bool) (ns : list str) (accs : list nat) (ts : list (option bool * ntree L)),
    length accs = length ns -> NoDup accs ->
    ts <> [] ->
    NoDup (map lower ns) -> forallb (nlabel_ok o) ns = true -> (forall l, In l ns -> is_struct1 l = false) ->
    (tr = true -> ns <> []) ->
    forallb (fun rt => wf_tree L o (snd rt)) ts = true ->
    (forall l, In l (doc_taxa L o ts) -> In l ns) ->
    Forall (fun rt => NoDup (map lower (taxa_order L o (snd rt)))) ts ->
    Forall (fun rt => rooting_consistent o (fst rt) = true) ts ->
    read_nexus L parse_len lower upper (rt_ropts o) (write_nexus_acc L render_len (rt_wopts o) tr ns accs ts)
      = NOk ([ns], [(O, map (fun rt => mkPR (fst rt) [] (expectF L o (pos ns) (snd rt))) ts)])
    /\ Forall (fun rt => resolve L ns (expectF L o (pos ns) (snd rt)) = Some (norm L (snd rt))) ts.
Proof. exact nexus_trees_roundtrip_l. Qed.
Print Assumptions nexus_trees_roundtrip.

(* Known finding nexus-translate-empty-namespace on the model: with TRANSLATE and an empty
   namespace the written document is rejected by the reader. *)
Theorem nexus_translate_empty_namespace_refuted :
  read_nexus str parse_num (fun s => s) ascii_upper (rt_ropts rt_default)
             (write_nexus str (fun x => x) (rt_wopts rt_default) true [] [(None, Nd None None (Some [49]) [])])
  = NErr ParseErr.
Proof. exact nexus_translate_empty_ns. Qed.
Print Assumptions nexus_translate_empty_namespace_refuted.

(* NeXML, element level (partial: the XML text layer - Python's xml library, quoteattr, the "d<k>"
   rendering of ids, str(float)/float() - is trusted, and tree / tree-list / namespace labels,
   annotations and int-typed trees are not modelled).  For a tree list over a non-empty namespace ns
   whose trees only use taxa of ns (tin), NexmlWriter produces an element document d (otu, node,
   edge and rootedge records with the ids handed out by _get_nexml_id) and NexmlReader rebuilds from
   d: the namespace labels in order, and per tree the same topology and child order, on every node
   the position of its taxon in ns (idx), every node label (also on leaves; an empty label reads
   as none), every edge length including the root edge's (a missing length stays missing), and
   rooting True for a rooted tree, False for an unrooted one and for an UNDEFINED rooting state
   (the normalisation the property allows). *)
Theorem nexml_trees_roundtrip_partial : forall (L : Type) (ns : list str) (ts : list (option bool * ntree L)),
  ns <> [] -> forallb (fun rt => tin L ns (snd rt)) ts = true ->
  exists d, write_nexml L ns ts = Some d /\
    read_nexml L d
    = XOk (map (fun l => truthy_label (Some l)) ns,
           map (fun rt => mkPR (Some (match fst rt with Some true => true | _ => false end)) []
                               (xexpect L ns (snd rt))) ts).
Proof. exact nexml_trees_roundtrip_partial_l. Qed.
Print Assumptions nexml_trees_roundtrip_partial.

(* Known finding nexml-empty-namespace on the model: an empty namespace is written as an empty
   <otus>, which the reader treats as missing (`if not taxon_namespace`). *)
Theorem nexml_empty_namespace_refuted :
  option_map (read_nexml str) (write_nexml str [] [(None, Nd None None (Some [49]) [])]) = Some (XErr OtherErr).
Proof. exact nexml_empty_namespace. Qed.
Print Assumptions nexml_empty_namespace_refuted.

(* Repaired in the library (e32b705e); kept as a statement about the FORMER form of the reader, which the
   model still carries as ro_blank_after_comma = false (rt_default): a trailing anonymous leaf
   without edge length after a named sibling, written "(a,)", was re-read with one child.  The
   harness selects the form the working tree has by replaying "(a,);"; newick_roundtrip and
   treelist_roundtrip hold for both forms (rt_bc arbitrary). *)
Theorem trailing_blank_leaf_refuted :
  exists t : ntree str,
    write_tree_list str (fun x => x) (rt_wopts rt_default) [(None, t)] = [40; 97; 44; 41; 59; 10] /\
    read_newick str parse_num (fun s => s) (rt_ropts rt_default) []
                (write_tree_list str (fun x => x) (rt_wopts rt_default) [(None, t)])
    = Ok ([mkPR None [] (PN None None None [] [PN (Some 0%nat) None None [] []])], [[97]]).
Proof. exact trailing_blank_leaf_refuted_l. Qed.
Print Assumptions trailing_blank_leaf_refuted.

(* ------------------------------------------------------------------------------------------------ *)
(* TRANSLATOR TIE.  Gen/NewickGen.v is regenerated from the Python source on every run by
   py/dv/gen_newick.py (statement-by-statement compilation over Model/C02GenPrims.v).  The theorems
   below state that the generated functions equal the hand-written model functions used by all
   theorems above, so those theorems hold of the generated code by rewriting. *)

(* escape_nexus_token(label, preserve_spaces, quote_underscores, protect_regex) for a str label;
   re.search(protect_regex, .) is the membership test in the character class `protect`. *)
Theorem gen_escape_nexus_token_eq :
  forall protect ps qu label,
    py_escape_nexus_token tt (Some label) ps qu protect = MRet (Some (escape_token protect ps qu label)) tt.
Proof. exact py_escape_nexus_token_eq. Qed.
Print Assumptions gen_escape_nexus_token_eq.

(* Tokenizer.__next__ (with _scan_token, _skip_to_significant_char, _handle_comment, _get_next_char)
   from any state the tokenizer can be in (tk_wf: _cur_char is None, "" at the end of the source, or
   one character): token, quoting flag, comments captured during the call and remaining stream are
   those of the model's next_token on the state's stream; StopIteration / UnterminatedQuoteError
   likewise.  The loops' fuel (tk_fuel) never runs out. *)
Theorem gen_tokenizer_next_eq :
  forall cfg o, tk_wf o -> tok_view o (py_tk_next cfg o) = next_token cfg (tk_stream o).
Proof. exact py_tk_next_eq. Qed.
Print Assumptions gen_tokenizer_next_eq.

(* Iterating the generated __next__ over a text from Tokenizer.__init__'s state, recording after
   each token is_token_quoted, the new captured comments and is_eof(), is the model's `tokenize`. *)
Theorem gen_tokenize_eq :
  forall cfg text, py_tokens cfg (S (length text)) (tk_init text) = tokenize cfg text.
Proof. exact py_tokenize_eq. Qed.
Print Assumptions gen_tokenize_eq.

(* NexusTaxonSymbolMapper: add_translate_token, and require_taxon_for_symbol = lookup_taxon_symbol
   with creation: TRANSLATE token, then label, then (if enabled) taxon number, then a new taxon. *)
Theorem gen_add_translate_token_eq :
  forall lower m token taxon,
    py_map_add_translate_token lower m token taxon = MRet tt (add_translate_token lower m token taxon).
Proof. exact py_map_add_translate_token_eq. Qed.
Print Assumptions gen_add_translate_token_eq.

Theorem gen_require_taxon_for_symbol_eq :
  forall lower m symbol,
    py_map_require_taxon_for_symbol lower m symbol
    = MRet (Some (fst (require_taxon_for_symbol lower m symbol))) (snd (require_taxon_for_symbol lower m symbol)).
Proof. exact py_map_require_taxon_for_symbol_eq. Qed.
Print Assumptions gen_require_taxon_for_symbol_eq.

(* NewickWriter (options outside the model fixed as listed in Gen/NewickGen.v).  A node is handed to
   the callbacks as (subtree, number of children of its parent or None, own position). *)
Theorem gen_render_node_tag_eq :
  forall L render_len wo out t p i,
    py_wr_render_node_tag L render_len wo out (mkWnode t p i) = MRet (Some (render_node_tag L wo t)) out.
Proof. exact py_wr_render_node_tag_eq. Qed.
Print Assumptions gen_render_node_tag_eq.

Theorem gen_write_node_body_eq :
  forall L render_len wo out t p i,
    py_wr_write_node_body L render_len wo out (mkWnode t p i) = MRet tt (out ++ write_node_body L render_len wo t).
Proof. exact py_wr_write_node_body_eq. Qed.
Print Assumptions gen_write_node_body_eq.

(* _write_tree: rooting token, then Node.apply with _write_node_open / _write_node_close / _write_leaf
   (the bracket structure of apply is C15's apply_brackets, here the primitive apply_node), then ";" *)
Theorem gen_write_tree_eq :
  forall L render_len wo out r t,
    py_wr_write_tree L render_len wo out (mkWtree r t) = MRet tt (out ++ write_tree L render_len wo r t).
Proof. exact py_wr_write_tree_eq. Qed.
Print Assumptions gen_write_tree_eq.

Theorem gen_write_tree_list_eq :
  forall L render_len wo out ts,
    py_wr_write_tree_list L render_len wo out (map (fun rt => mkWtree (fst rt) (snd rt)) ts)
    = MRet tt (out ++ write_tree_list L render_len wo ts).
Proof. exact py_wr_write_tree_list_eq. Qed.
Print Assumptions gen_write_tree_list_eq.

(* NewickReader (options outside the model fixed as listed in Gen/NewickGen.v).  The object state is
   Model/Newick.v pstate (token-level view of the tokenizer + reader fields + symbol mapper); nodes and
   trees under construction are values (copy-in / copy-out, see Model/C02GenPrims.v). *)
Theorem gen_parse_tree_rooting_state_eq :
  forall L parse_len lower ro fuel st c,
    py_rd_parse_tree_rooting_state L parse_len lower ro fuel st (Some c) = MRet (parse_tree_rooting_state ro c) st.
Proof. exact py_rd_parse_tree_rooting_state_eq. Qed.
Print Assumptions gen_parse_tree_rooting_state_eq.

(* _process_tree_comments on the comments pulled from the tokenizer (None when there are none) *)
Theorem gen_process_tree_comments_eq :
  forall L parse_len lower ro fuel st tree cs,
    py_rd_process_tree_comments L parse_len lower ro fuel st tree (to_olist cs)
    = MRet (mkRtree (fst (process_tree_comments ro cs))
                    (snd (process_tree_comments_loop ro cs None (rt_comments tree))) (rt_seed tree)) st.
Proof. exact py_rd_process_tree_comments_eq. Qed.
Print Assumptions gen_process_tree_comments_eq.

(* _parse_tree_node_description (the children loop `for count in it.count()`, the comma loop, the
   label / length / terminator loop, the recursion): whenever the model's parse_node returns a result
   with fuel f, the generated function returns the same node and state (resp. an exception of the
   same class) for every fuel g >= f.  Preconditions, both established by _parse_tree_statement: a
   current token exists, and the level counts an opening parenthesis the node starts with.
   ro_blank_after_comma = true selects the repaired reader form (e32b705e); the CURRENT source is
   proved equal to that variant only - the model variant `false` describes the former code. *)
Theorem gen_parse_tree_node_description_eq :
  forall L parse_len lower ro, ro_blank_after_comma ro = true ->
  forall g f st pre isint, (f <= g)%nat -> ps_cur st <> None -> (cur_is st LPAREN = true -> 1 <= ps_nesting st) ->
  match parse_node L parse_len lower ro f st isint pre with
  | Ok (t, st') => py_rd_parse_tree_node_description L parse_len lower ro g st (PN None None None pre []) isint = MRet t st'
  | Err e => exists x o, py_rd_parse_tree_node_description L parse_len lower ro g st (PN None None None pre []) isint = MExc x o
                         /\ exc_err x = e
  | OutOfFuel => True
  end.
Proof. exact node_gen_expanded. Qed.
Print Assumptions gen_parse_tree_node_description_eq.

(* _parse_tree_statement: skipping of ";" and comments, rooting / tree comments, the seed node, the
   completeness check and the trailing ";" loop. *)
Theorem gen_parse_tree_statement_eq :
  forall L parse_len lower ro, ro_blank_after_comma ro = true -> forall fuel st,
  match parse_tree_statement L parse_len lower ro fuel st with
  | Ok (None, st') => py_rd_parse_tree_statement L parse_len lower ro fuel st = MRet None st'
  | Ok (Some pr, st') =>
    py_rd_parse_tree_statement L parse_len lower ro fuel st = MRet (Some (mkRtree (pr_is_rooted pr) (pr_comments pr) (pr_tree pr))) st'
  | Err e => exists x o, py_rd_parse_tree_statement L parse_len lower ro fuel st = MExc x o /\ exc_err x = e
  | OutOfFuel => True
  end.
Proof. exact statement_gen_expanded. Qed.
Print Assumptions gen_parse_tree_statement_eq.
