(* C14 property theorems: statements only, each closed by `exact`.

   Model: coq/Model/C14Model.v (transcription of PhylogeneticDistanceMatrix, Tree.mrca,
   treemeasure.patristic_distance, nj_tree, upgma_tree).  Specification functions (structural
   recursion on the rose tree): coq/Model/C14Spec.v --
     has a t        some leaf of t carries taxon a
     down a t       (sum of edge lengths, number of edges) from the root of t down to a's leaf
     lca a b t      the deepest node of t below which both a and b are found
     dist / steps   sum / count over the path a .. lca .. b
     deepest s t    the deepest node of t whose leaves include every taxon of s
     good_leaves t  every leaf carries a taxon and no taxon sits on two leaves
   Lengths are integers in units of 2^-10 (None = Python None, counted as 0). *)
From Coq Require Import ZArith QArith List Bool.
From DV Require Import Model.PyPrims Model.Tree Model.C14Model Model.C14Spec Model.C14Spec2 Model.C14Spec3 Model.C14Csv Proofs.C14Proofs Proofs.C14Means Proofs.C14Clu Proofs.C14Upgma Proofs.C14Nj Proofs.C14Ultra Proofs.C14Uniq Proofs.C14UpgmaFull Proofs.C14CsvProofs Proofs.C14Qcrit Proofs.C14FourPoint Proofs.C14NjQ Proofs.C14NjTree Proofs.C14SplitTree Proofs.C14SplitFormula Proofs.C14NjUniq Proofs.C14NjUniqEx Proofs.C14NjPoly.
From DV Require Import Model.C14Hist Model.C14ObjPrims Model.C14ObjModel Proofs.C14Dict Proofs.C14ObjProofs.
Import ListNotations.
Open Scope Z_scope.

(* ---------------------------------------------------------------------------------------- *)
(* For every tree (any shape: polytomies, unifurcations; any lengths incl. None) whose leaves
   carry pairwise distinct taxa, tree.phylogenetic_distance_matrix() succeeds and, for EVERY pair of
   leaf taxa (a = b included): the stored distance is the sum of the edge lengths on the path, the
   stored step count is the number of edges on it, the stored common ancestor is the node where the
   path turns, and the accessors return exactly these.  Nothing else is stored.  In the pairing loop
   each unordered pair of distinct leaf taxa is assigned exactly once (also at polytomies), and only
   such pairs are assigned; the set of distinct pairs therefore never saw a repeat.  The mapped taxa
   are exactly the leaf taxa; edge count and tree length are those of the tree. *)
Theorem pdm_exact : forall t : tree,
  good_leaves t -> t_kids t <> [] ->
  exists p, compile_from_tree t = Ok p /\
    (forall a b, In (Some a) (leaf_taxa t) -> In (Some b) (leaf_taxa t) ->
       exists r d s,
         lca a b t = Some r /\ dist t a b = Some d /\ steps t a b = Some s /\
         tget2 a b (p_dist p) = Some d /\ tget2 a b (p_steps p) = Some s /\
         tget2 a b (p_mrca p) = Some (t_id r) /\
         patristic_distance p a b = Ok d /\ path_edge_count p a b = Ok s /\ pdm_mrca p a b = Ok (t_id r)) /\
    (forall a b, ~ (In (Some a) (leaf_taxa t) /\ In (Some b) (leaf_taxa t)) ->
       tget2 a b (p_dist p) = None /\ tget2 a b (p_steps p) = None /\ tget2 a b (p_mrca p) = None) /\
    (forall a b, In (Some a) (leaf_taxa t) -> In (Some b) (leaf_taxa t) -> a <> b ->
       (count_occ zz_dec (p_log p) (a, b) + count_occ zz_dec (p_log p) (b, a) = 1)%nat) /\
    (forall a b, In (a, b) (p_log p) -> In (Some a) (leaf_taxa t) /\ In (Some b) (leaf_taxa t) /\ a <> b) /\
    p_pairs p = p_log p /\
    NoDup (p_mapped p) /\ (forall a, In a (p_mapped p) <-> In (Some a) (leaf_taxa t)) /\
    p_num_edges p = Z.of_nat (size t) /\ p_tree_length p = total_length t.
Proof. exact pdm_exact_p. Qed.
Print Assumptions pdm_exact.

(* The three dictionaries are symmetric (for all keys, present or not). *)
Theorem pdm_sym : forall t p, good_leaves t -> t_kids t <> [] -> compile_from_tree t = Ok p ->
  forall a b, tget2 a b (p_dist p) = tget2 b a (p_dist p) /\
              tget2 a b (p_steps p) = tget2 b a (p_steps p) /\
              tget2 a b (p_mrca p) = tget2 b a (p_mrca p).
Proof. exact pdm_sym_p. Qed.
Print Assumptions pdm_sym.

(* Zero self-distance, zero self-steps, and the leaf itself as its own common ancestor. *)
Theorem pdm_zero_diag : forall t p, good_leaves t -> t_kids t <> [] -> compile_from_tree t = Ok p ->
  forall a, In (Some a) (leaf_taxa t) ->
    tget2 a a (p_dist p) = Some 0 /\ tget2 a a (p_steps p) = Some 0 /\
    patristic_distance p a a = Ok 0 /\ path_edge_count p a a = Ok 0 /\
    exists leaf, lca a a t = Some leaf /\ t_kids leaf = [] /\ t_taxon leaf = Some a /\
                 tget2 a a (p_mrca p) = Some (t_id leaf).
Proof. exact pdm_zero_diag_p. Qed.
Print Assumptions pdm_zero_diag.

(* The excluded shape: a tree that is a single node gives an empty matrix (the code initialises a
   taxon's row when it is first seen from its parent). *)
Theorem pdm_single_node : forall i x lb e,
  exists p, compile_from_tree (T i x lb e []) = Ok p /\
    p_dist p = [] /\ p_steps p = [] /\ p_mrca p = [] /\ p_mapped p = [] /\ p_pairs p = [] /\
    p_num_edges p = 1 /\ p_tree_length p = total_length (T i x lb e []).
Proof. exact pdm_single_node_p. Qed.
Print Assumptions pdm_single_node.

(* The error branch: below an internal root, a leaf without a taxon makes compile_from_tree raise
   AssertionError (`assert desc1.taxon is not None`), whatever the rest of the tree looks like
   (no KeyError can come first: a taxon's row is created before it is paired). *)
Theorem pdm_untaxoned_leaf : forall t,
  t_kids t <> [] -> In None (leaf_taxa t) -> compile_from_tree t = Err AssertErr.
Proof. exact Proofs.C14Pdm.untaxoned_leaf_fails. Qed.
Print Assumptions pdm_untaxoned_leaf.

(* mean_pairwise_distance(filter_fn, is_weighted_edge_distances, is_normalize_by_tree_size): the
   average, over the unordered pairs of distinct leaf taxa that both pass the filter, of the path
   length (weighted: in real units) or step count, divided by the normalisation factor (tree length
   incl. the root edge / number of nodes, or 1).  NullAssemblageException (a ValueError) when no
   pair passes, ZeroDivisionError when normalising by a zero tree length.  Q-valued: `==`. *)
Theorem mean_pairwise_spec : forall t p filt w n,
  good_leaves t -> t_kids t <> [] -> compile_from_tree t = Ok p ->
  let prs := filter (fun ab => passes filt (fst ab) && passes filt (snd ab)) (ordered_pairs (taxa_of t)) in
  let ds := map (fun ab => dval t w (fst ab) (snd ab)) prs in
  match mean_pairwise_distance p filt w n with
  | Ok q => prs <> [] /\ ~ (nfac t w n == 0)%Q /\
            (q == qsum ds / nfac t w n / inject_Z (Z.of_nat (length prs)))%Q
  | Err e => (prs = [] /\ e = ValueErr) \/ (prs <> [] /\ (nfac t w n == 0)%Q /\ e = OtherErr)
  | OutOfFuel => False
  end.
Proof. exact mean_pairwise_spec_p. Qed.
Print Assumptions mean_pairwise_spec.

(* mean_nearest_taxon_distance: the average, over the leaf taxa a that pass the filter and have at
   least one other passing taxon, of the minimum over those other taxa b of the entry (a, b). *)
Theorem mntd_spec : forall t p filt w n,
  good_leaves t -> t_kids t <> [] -> compile_from_tree t = Ok p ->
  let taxa := taxa_of t in
  let rows := filter (fun a => match others_of filt taxa a with [] => false | _ => true end)
                     (filter (passes filt) taxa) in
  let mins := map (fun a => qmin_list (map (dval t w a) (others_of filt taxa a))) rows in
  match mean_nearest_taxon_distance p filt w n with
  | Ok q => rows <> [] /\ ~ (nfac t w n == 0)%Q /\
            (q == qsum mins / nfac t w n / inject_Z (Z.of_nat (length rows)))%Q
  | Err e => (rows = [] /\ e = ValueErr) \/ (rows <> [] /\ (nfac t w n == 0)%Q /\ e = OtherErr)
  | OutOfFuel => False
  end.
Proof. exact mntd_spec_p. Qed.
Print Assumptions mntd_spec.

(* qmin_list is the minimum: a lower bound that is attained *)
Theorem qmin_list_is_min : forall l, l <> [] ->
  In (qmin_list l) l /\ forall x, In x l -> (qmin_list l <= x)%Q.
Proof. exact (fun l H => conj (qmin_list_in l H) (qmin_list_le l)). Qed.
Print Assumptions qmin_list_is_min.

(* the hypotheses of pdm_exact are satisfiable by a tree with a polytomy, a unifurcation and a None length *)
Example pdm_exact_nonvacuous : good_leaves ex_tree /\ t_kids ex_tree <> [].
Proof. exact ex_good. Qed.
Print Assumptions pdm_exact_nonvacuous.

(* ---------------------------------------------------------------------------------------- *)
(* Tree.mrca(taxa=S, start_node=start, is_bipartitions_updated=updated) on the tree object
   (t, rooted, enc): enc is the leafset bitmask stored on every node's edge (0 = never encoded).
   `ee` says whether the working tree's loop has the early exit `if cm == leafset_bitmask` (it does at
   the time of writing; the harness observes it; the theorem holds either way).

   The call refreshes the encoding when the start node's stored mask is 0 or updated = False.  A
   refresh is encode_bipartitions(suppress_unifurcations=False), which on a tree NOT flagged rooted
   first collapses a basal bifurcation: the tree after the call is `tree_after t rooted refresh`
   (same leaves, see mrca_refresh_keeps_leaves; identical to t when rooted = Some true).

   Provided the encoding is current or a refresh happens, the call returns the deepest node, below
   the start node, of the tree as it is after the call whose leaves include every taxon of S, and
   None when the start node's leaves do not include S.  Without a refresh the tree object is
   unchanged. *)
Theorem tree_mrca_deepest :
  forall (ee : bool) (ns : nspace) (t : tree) (rooted : option bool) (enc : dict Z) (S : list Z)
         (start : option Z) (updated : bool),
  ns_inj ns -> (forall a, In a S -> member ns a) -> S <> [] ->
  let sid := match start with Some i => i | None => t_id t end in
  let refresh := Z.eqb (enc_get enc sid) 0 || negb updated in
  let t' := tree_after t rooted refresh in
  good_leaves t' -> members_ok ns t' -> NoDup (ids t') ->
  (refresh = true \/ current ns enc t) ->
  forall st, find_node sid t' = Some st ->
  exists mt', tree_mrca ee ns (mkMt t rooted enc) (ByTaxa S) start updated
              = (Ok (option_map t_id (deepest S st)), mt')
              /\ mt_tree mt' = t' /\ (refresh = false -> mt' = mkMt t rooted enc).
Proof. exact tree_mrca_deepest_p. Qed.
Print Assumptions tree_mrca_deepest.

Example tree_mrca_nonvacuous :
  ns_inj ex_ns /\ (forall a, In a [2; 3] -> member ex_ns a) /\ members_ok ex_ns ex_tree /\ NoDup (ids ex_tree)
  /\ find_node 0 (tree_after ex_tree None true) = Some ex_tree.
Proof. exact ex_mrca_hyps. Qed.
Print Assumptions tree_mrca_nonvacuous.

Theorem mrca_refresh_keeps_leaves : forall t rooted refresh,
  leaf_taxa (tree_after t rooted refresh) = leaf_taxa t /\ tree_after t (Some true) refresh = t.
Proof. exact (fun t rooted refresh => conj (tree_after_leaves t rooted refresh) (tree_after_rooted t refresh)). Qed.
Print Assumptions mrca_refresh_keeps_leaves.

(* The hypothesis "every leaf carries a taxon" cannot be dropped: beside a leaf WITHOUT a taxon the
   descent stops as soon as a node's bitmask equals the query (`if cm == leafset_bitmask`: it only
   steps down unifurcations) although a deeper node has the same leaves.  On
   (-, (t1, t0)) with a taxon-less first leaf, mrca(taxa=[t0, t1]) returns the root (node 0) while
   the deepest node whose leaves include both is node 3; without the early exit (ee = false) the
   loop returns node 3.  (Finding, replayed on the implementation by the harness's fixed probe case;
   key tree-mrca-beside-taxonless-leaf.) *)
Theorem tree_mrca_taxonless_leaf_refuted :
  NoDup (leaf_taxa bad_tree) /\ NoDup (ids bad_tree) /\
  fst (tree_mrca true bad_ns (mkMt bad_tree (Some true) []) (ByTaxa [0; 1]) None true) = Ok (Some 0) /\
  fst (tree_mrca false bad_ns (mkMt bad_tree (Some true) []) (ByTaxa [0; 1]) None true) = Ok (Some 3) /\
  option_map t_id (deepest [0; 1] bad_tree) = Some 3.
Proof. exact tree_mrca_taxonless_leaf_refuted_p. Qed.
Print Assumptions tree_mrca_taxonless_leaf_refuted.

(* the other argument forms: taxon_labels= resolves the labels in the namespace (every member with
   one of the labels, no repeats) and raises KeyError unless that gives exactly as many taxa as
   labels; leafset_bitmask= of the OR of the members' bits is the same query *)
Theorem tree_mrca_forms : forall ee ns mt start updated,
  (forall ls, tree_mrca ee ns mt (ByLabels ls) start updated =
              if Nat.eqb (length (get_taxa ns ls)) (length ls)
              then tree_mrca ee ns mt (ByTaxa (get_taxa ns ls)) start updated
              else (Err KeyErr, mt)) /\
  (forall S, (forall a, In a S -> member ns a) ->
             tree_mrca ee ns mt (ByMask (mask_of (bitf ns) S)) start updated
             = tree_mrca ee ns mt (ByTaxa S) start updated).
Proof. exact (fun ee ns mt start updated => conj (fun ls => Proofs.C14Mrca.tree_mrca_labels ee ns mt ls start updated)
                                             (fun S H => Proofs.C14Mrca.tree_mrca_mask ee ns mt S start updated H)). Qed.
Print Assumptions tree_mrca_forms.

(* error branches: empty taxon list / zero mask -> ValueError, no argument -> TypeError, a taxon
   that is not in the namespace -> KeyError; the tree object is untouched *)
Theorem tree_mrca_errors : forall ee ns mt start updated,
  tree_mrca ee ns mt (ByTaxa []) start updated = (Err ValueErr, mt) /\
  tree_mrca ee ns mt (ByMask 0) start updated = (Err ValueErr, mt) /\
  tree_mrca ee ns mt NoArg start updated = (Err TypeErr, mt) /\
  (forall S a, In a S -> ns_bit ns a = None -> tree_mrca ee ns mt (ByTaxa S) start updated = (Err KeyErr, mt)).
Proof. exact tree_mrca_errors_p. Qed.
Print Assumptions tree_mrca_errors.

(* ---------------------------------------------------------------------------------------- *)
(* UPGMA, one iteration of the while loop on a well-formed pool (uwf: distinct nodes, all mutual
   distances stored, non-empty clusters; qdef = the stored distance):
   the pair joined is the first pair in pool order at the smallest stored distance d; the new node
   gets the two joined nodes as children with edge lengths d/2 - (their distance from the tips), its
   own distance from the tips is d/2, its cluster size the sum; every other node keeps its subtree,
   size, tip distance and all stored distances, and gains the entry for the new node = the
   size-weighted average of its distances to the two joined nodes (stored in both directions); the
   new pool is well-formed again.  SOUNDNESS: whenever the two joined nodes are equidistant from a
   node k (as sibling clusters of an ultrametric tree are), the reduced distance to k is exactly that
   common distance, i.e. the reduced matrix is the ultrametric of the tree with the pair contracted,
   and the two new edge lengths are the height of the join minus the heights of the children. *)
Theorem upgma_step_sound : forall pool next,
  uwf pool -> (2 <= length pool)%nat -> ~ In next (uids pool) ->
  exists j0 j1 rest newn,
    upgma_step pool next = Ok (rest ++ [newn]) /\
    In (j0, j1) (pairs_of pool) /\
    (forall a b, In (a, b) (pairs_of pool) -> (qdef (u_d j0) (u_id j1) <= qdef (u_d a) (u_id b))%Q) /\
    (exists l0 l1,
       u_tree newn = QT next None None [q_setlen (u_tree j0) l0; q_setlen (u_tree j1) l1] /\
       (l0 == qdef (u_d j0) (u_id j1) / 2 - u_tip j0)%Q /\ (l1 == qdef (u_d j0) (u_id j1) / 2 - u_tip j1)%Q) /\
    (u_tip newn == qdef (u_d j0) (u_id j1) / 2)%Q /\ u_size newn = u_size j0 + u_size j1 /\
    map u_id rest = map u_id (remove_id u_id (u_id j1) (remove_id u_id (u_id j0) pool)) /\
    (forall k', In k' rest -> exists k,
        In k pool /\ u_id k <> u_id j0 /\ u_id k <> u_id j1 /\
        u_id k' = u_id k /\ u_tree k' = u_tree k /\ u_size k' = u_size k /\ u_tip k' = u_tip k /\
        (forall b, b <> next -> dget b (u_d k') = dget b (u_d k)) /\
        exists w, dget next (u_d k') = Some w /\ dget (u_id k) (u_d newn) = Some w /\
                  (w == (qdef (u_d j0) (u_id k) * inject_Z (u_size j0) + qdef (u_d j1) (u_id k) * inject_Z (u_size j1))
                        / inject_Z (u_size j0 + u_size j1))%Q /\
                  ((qdef (u_d j0) (u_id k) == qdef (u_d j1) (u_id k))%Q -> (w == qdef (u_d j0) (u_id k))%Q)) /\
    uwf (rest ++ [newn]).
Proof. exact upgma_step_sound_l. Qed.
Print Assumptions upgma_step_sound.

(* NJ, one iteration of the while loop on a well-formed pool (jwf: distinct nodes, all mutual
   distances stored and symmetric, and _nj_xsub of every node = the sum of its distances to the
   others; jd = the stored distance; n = len(pool)):
   the pair joined is the first pair in pool order minimising (n-2) d(a,b) - xsub a - xsub b; the new
   node gets the pair as children, the two edge lengths add up to d(j0,j1) (each d/2 in the final
   join of two nodes); every other node keeps its subtree and its distances to the other nodes and
   gains d(k,new) = (d(k,j0) + d(k,j1) - d(j0,j1)) / 2, stored in both directions; and the invariant
   holds again -- in particular the INCREMENTALLY UPDATED ROW SUMS are the true row sums of the
   reduced matrix.  SOUNDNESS: if the joined pair is a cherry of an additive metric (is_cherry:
   pendant lengths a0, a1 and distances mv from the attachment point), then the reduced matrix is the
   tree metric of the contracted tree (d(k,new) = mv k) and the two new edge lengths are exactly a0
   and a1. *)
Theorem nj_step_sound : forall pool n next,
  jwf pool -> n = Z.of_nat (length pool) -> (2 <= length pool)%nat -> ~ In next (jids pool) ->
  exists j0 j1 rest newn l0 l1,
    nj_step pool n next = Ok (rest ++ [newn]) /\
    In (j0, j1) (pairs_of pool) /\
    (forall a b, In (a, b) (pairs_of pool) -> (qvalue n j0 j1 <= qvalue n a b)%Q) /\
    j_tree newn = QT next None None [q_setlen (j_tree j0) l0; q_setlen (j_tree j1) l1] /\
    (n = 2 -> (l0 == jd j0 j1 / 2)%Q /\ (l1 == jd j0 j1 / 2)%Q) /\
    (l0 + l1 == jd j0 j1)%Q /\
    let others := remove_id j_id (j_id j1) (remove_id j_id (j_id j0) pool) in
    map j_id rest = map j_id others /\ map j_tree rest = map j_tree others /\
    (forall k, In k others -> exists k', In k' rest /\ j_id k' = j_id k /\
        (forall v v', In v others -> In v' rest -> j_id v' = j_id v -> j_id v <> j_id k -> jd k' v' = jd k v) /\
        (jd k' newn == (jd k j0 + jd k j1 - jd j0 j1) / 2)%Q /\ jd newn k' = jd k' newn) /\
    jwf (rest ++ [newn]) /\
    (forall a0 a1 mv, is_cherry others j0 j1 a0 a1 mv ->
       (forall k k', In k others -> In k' rest -> j_id k' = j_id k -> (jd k' newn == mv k)%Q) /\
       (2 < n -> (l0 == a0)%Q /\ (l1 == a1)%Q)).
Proof. exact nj_step_sound_l. Qed.
Print Assumptions nj_step_sound.

(* The loops stay inside their fuel and never fail: on a matrix that has an entry for every ordered
   pair of the (distinct, at least one) taxa iterated, symmetric for NJ, nj_tree and upgma_tree return
   a tree; the invariants uwf / jwf of the step theorems hold initially (proved in
   Proofs/C14Clu.v: nj_init_wf, upgma_init_wf) and after every step, so the soundness clauses
   apply at every iteration.  With no taxa at all both raise IndexError (node_pool[0]). *)
Theorem clustering_total : forall M order,
  NoDup order -> order <> [] -> mcomplete M order ->
  (msymmetric M order -> exists T, nj_tree M order = Ok T) /\
  (exists T, upgma_tree M order = Ok T) /\
  nj_tree M [] = Err IndexErr /\ upgma_tree M [] = Err IndexErr.
Proof.
  exact (fun M order N Ne C =>
           conj (fun S => nj_tree_total_l M order N Ne C S)
                (conj (upgma_tree_total_l M order N Ne C) (conj eq_refl eq_refl))).
Qed.
Print Assumptions clustering_total.

(* in particular on the distance (or step-count) matrix of every tree, in any iteration order *)
Theorem clustering_total_on_trees : forall t p w order,
  good_leaves t -> t_kids t <> [] -> compile_from_tree t = Ok p ->
  NoDup order -> order <> [] -> (forall a, In a order -> In (Some a) (leaf_taxa t)) ->
  (exists T, nj_tree (qtable p w) order = Ok T) /\ (exists T, upgma_tree (qtable p w) order = Ok T).
Proof. exact clustering_total_p. Qed.
Print Assumptions clustering_total_on_trees.

(* ---------------------------------------------------------------------------------------- *)
(* UPGMA INVERTS ULTRAMETRIC DISTANCES (full proof, any number of taxa, any iteration order of the
   id()-hashed taxon set, any tie-breaks): on a complete symmetric matrix satisfying the three-point
   condition, upgma_tree returns a tree T in which the path distance (qdist: sum of the edge lengths
   on the path, structural recursion in Model/C14Spec.v) between ANY two taxa is exactly the matrix
   entry, and every taxon is at the same distance from the root (T is ultrametric).
   Proof: invariant over the iterations (Proofs/C14Upgma.v, UI): the pool's reduced matrix is a
   symmetric ultrametric; each pool node's subtree has all its leaves at the node's recorded height
   and realises the matrix on its leaves; the matrix entry of two leaves in different pool nodes is
   the nodes' reduced distance.  Key lemma closest_equidistant: the closest pair under an
   ultrametric is equidistant from every other node (it is a cherry), so upgma_step_sound applies
   with its soundness clause at every iteration.
   The tree-level form (the matrix of a rose tree whose leaves are equidistant from the root satisfies
   the three-point condition, tree_three_point in Proofs/C14Ultra.v) is the next theorem. *)
Theorem upgma_recovers_ultrametric_partial : forall M order,
  NoDup order -> order <> [] -> mcomplete M order -> msymmetric M order -> ultrametric3 M order ->
  exists T, upgma_tree M order = Ok T /\
    (forall a b, In a order -> In b order -> a <> b ->
       exists q, qdist T a b = Some q /\ (q == mval M a b)%Q) /\
    (exists H, forall a, In a order -> exists q, qdown a T = Some q /\ (q == H)%Q).
Proof. exact upgma_realizes_ultrametric_l. Qed.
Print Assumptions upgma_recovers_ultrametric_partial.

(* UPGMA applied to the distances of an ultrametric tree: for every rose tree t (any shape, incl.
   polytomies and unifurcations) with distinct leaf taxa, non-negative lengths and all leaves at the
   same distance h from the root, and every iteration order of (any non-empty subset of) its taxa,
   upgma_tree on t's distance matrix returns an ultrametric tree T whose path distance between any
   two taxa is exactly t's (dist t a b, in real units) -- PDM(UPGMA(PDM t)) = PDM t.
   `_partial`: what is NOT proved is the last step from "same leaf-to-leaf distances" to "the same
   rooted tree up to child order, with its edge lengths" (uniqueness of the dendrogram of an
   ultrametric, which needs positive internal edge lengths and a binary t); that step is checked by
   the correspondence oracle (rooted clades + lengths of the output against the generating tree). *)
Theorem upgma_recovers_ultrametric_tree_partial : forall t p h order,
  good_leaves t -> t_kids t <> [] -> nonneg_lengths t -> equidistant h t -> compile_from_tree t = Ok p ->
  NoDup order -> order <> [] -> (forall a, In a order -> In (Some a) (leaf_taxa t)) ->
  exists T, upgma_tree (qtable p true) order = Ok T /\
    (forall a b, In a order -> In b order -> a <> b ->
       exists q d, qdist T a b = Some q /\ dist t a b = Some d /\ (q == uq d)%Q) /\
    (exists H, forall a, In a order -> exists q, qdown a T = Some q /\ (q == H)%Q).
Proof. exact upgma_on_ultrametric_tree_l. Qed.
Print Assumptions upgma_recovers_ultrametric_tree_partial.

Example ultrametric_tree_nonvacuous :
  good_leaves ex_ultra /\ t_kids ex_ultra <> [] /\ nonneg_lengths ex_ultra /\ equidistant 3072 ex_ultra.
Proof. exact ex_ultra_ok. Qed.
Print Assumptions ultrametric_tree_nonvacuous.

(* ---------------------------------------------------------------------------------------- *)
(* NJ INVERTS ADDITIVE DISTANCES, GIVEN THE Q-CRITERION.  Full statement wanted
   (nj_recovers_additive): for the distance matrix M of a tree with positive internal edge lengths,
   nj_tree M returns that unrooted tree with its edge lengths.
   Proved here: for ANY class P of pools for which (qcrit_cherry) every pair minimising
   (n-2) d(a,b) - xsub a - xsub b is a cherry of the pool's stored distances and (qcrit_closed) P is
   kept by nj_step, and which contains the initial pool: nj_tree M returns a tree T in which the path
   distance between ANY two taxa is exactly the matrix entry -- PDM(NJ(M)) = M entrywise; the edge
   lengths assigned at every join are the exact pendant lengths (nj_step_sound).
   Proof: invariant over the iterations (Proofs/C14Nj.v, NI): every pool node's subtree realises
   the matrix on its leaves, and for leaves a, b in different pool nodes u, v:
   M a b = depth of a below u + stored d(u,v) + depth of b below v.
   The Q-criterion lemma itself -- for P := four_point_strict, "the stored distances are those of a
   tree with positive internal edge lengths": qcrit_cherry P (Saitou-Nei 1987, Studier-Keppler 1988)
   and qcrit_closed P -- is proved for every number of nodes at the end of this file (q_criterion),
   which makes the statement unconditional (nj_recovers_additive, nj_recovers_tree).
   The uniqueness of the unrooted tree realising a metric, and with it "NJ's output has the generating
   tree's splits and lengths", is proved in the sixth wave at the end of this file (tree_metric_unique,
   nj_returns_tree_of_matrix, nj_returns_generating_tree). *)
Theorem nj_recovers_additive_partial : forall M order (P : list jnode -> Prop),
  NoDup order -> order <> [] -> mcomplete M order -> msymmetric M order ->
  qcrit_cherry P -> qcrit_closed P -> (forall pool, nj_init M order = Ok pool -> P pool) ->
  exists T, nj_tree M order = Ok T /\
    forall a b, In a order -> In b order -> a <> b -> exists q, qdist T a b = Some q /\ (q == mval M a b)%Q.
Proof. exact nj_realizes_additive_l. Qed.
Print Assumptions nj_recovers_additive_partial.

(* the hypotheses of nj_recovers_additive_partial are satisfiable: with at most three nodes every
   pair is a cherry, so the class of pools with at most three nodes satisfies both parts of the
   Q-criterion; hence, unconditionally, NJ realises every complete symmetric matrix on at most three
   taxa *)
Theorem nj_exact_up_to_three_taxa : forall M order,
  NoDup order -> order <> [] -> (length order <= 3)%nat -> mcomplete M order -> msymmetric M order ->
  exists T, nj_tree M order = Ok T /\
    forall a b, In a order -> In b order -> a <> b -> exists q, qdist T a b = Some q /\ (q == mval M a b)%Q.
Proof. exact nj_exact_small_l. Qed.
Print Assumptions nj_exact_up_to_three_taxa.

Example qcriterion_nonvacuous :
  qcrit_cherry (fun pool => (length pool <= 3)%nat) /\ qcrit_closed (fun pool => (length pool <= 3)%nat).
Proof. exact small_pools_qcrit. Qed.
Print Assumptions qcriterion_nonvacuous.

(* ======================================================================================== *)
(* SECOND WAVE                                                                              *)
(* ======================================================================================== *)
(* Uniqueness of dendrograms (Model/C14Spec2.v: dendro strict h t = t is a rooted binary tree, all
   leaves carrying taxa and lying at distance h below the root, non-negative edge lengths, and -- when
   strict -- a positive edge above every internal child).  A strict dendrogram is determined, up to
   node ids, child order and the representation of the rationals (qsame), by its leaf-to-leaf path
   distances: any dendrogram T2 (strict or not) on the same taxa with the same distances is the same
   tree, and has the same height.  Proof: the two root subtrees are the two classes of "distance below
   twice the height"; recurse. *)
Theorem dendrogram_unique : forall T1 T2 h1 h2,
  dendro true h1 T1 -> dendro false h2 T2 -> NoDup (qtaxa T1) -> NoDup (qtaxa T2) ->
  (forall x, qhas x T1 = qhas x T2) ->
  (forall x y, qhas x T1 = true -> qhas y T1 = true -> x <> y ->
     exists q1 q2, qdist T1 x y = Some q1 /\ qdist T2 x y = Some q2 /\ (q1 == q2)%Q) ->
  qsame (q_unroot T1) (q_unroot T2) /\ (h1 == h2)%Q.
Proof. exact (fun T1 T2 h1 h2 => dendro_unique (qsize T1) T1 (le_n _) T2 h1 h2). Qed.
Print Assumptions dendrogram_unique.

(* The tree UPGMA returns on a non-negative three-point matrix is a dendrogram on exactly the taxa
   iterated, realising the matrix (for a polytomous generating tree it is a BINARY RESOLUTION: some
   internal edges have length zero, see upgma_polytomy_example; what is proved for polytomies is
   this theorem and upgma_recovers_ultrametric_tree_partial -- same taxa, same distances, ultrametric,
   binary, non-negative lengths -- not that contracting the zero-length edges gives the polytomy) *)
Theorem upgma_output_is_dendrogram : forall M order,
  NoDup order -> order <> [] -> mcomplete M order -> msymmetric M order -> ultrametric3 M order ->
  mnonneg M order ->
  exists T H, upgma_tree M order = Ok T /\ dendro false H T /\ NoDup (qtaxa T) /\
    (forall a, qhas a T = true <-> In a order) /\
    (forall a b, In a order -> In b order -> a <> b ->
       exists q, qdist T a b = Some q /\ (q == mval M a b)%Q).
Proof. exact upgma_dendrogram_l. Qed.
Print Assumptions upgma_output_is_dendrogram.

Example upgma_polytomy_example :
  (do p <- compile_from_tree ex_star ;; upgma_tree (qtable p true) [0; 1; 2])
  = Ok (QT 4 None None
           [QT 2 (Some 2) (Some 1%Q) [];
            QT 3 None (Some 0%Q) [QT 0 (Some 0) (Some 1%Q) []; QT 1 (Some 1) (Some 1%Q) []]]).
Proof. exact ex_star_upgma. Qed.
Print Assumptions upgma_polytomy_example.

(* UPGMA RECOVERS THE ROOTED TREE (full): for every BINARY rose tree t with distinct leaf taxa,
   non-negative lengths, a positive edge above every internal node other than the root, and all
   leaves at the same distance from the root, and for every iteration order of its taxa, upgma_tree
   applied to t's distance matrix returns t itself -- up to node ids, the order of the two children
   of each node, the representation of the rational lengths (missing lengths counting as zero) and
   the length stored on the root (tq t = t with lengths in real units). *)
Theorem upgma_recovers_ultrametric : forall t p h order,
  rbin t -> good_leaves t -> t_kids t <> [] -> positive_internal t -> nonneg_lengths t -> equidistant h t ->
  compile_from_tree t = Ok p ->
  NoDup order -> (forall a, In a order <-> In (Some a) (leaf_taxa t)) ->
  exists T, upgma_tree (qtable p true) order = Ok T /\ qsame_rooted (tq t) T.
Proof. exact upgma_recovers_ultrametric_l. Qed.
Print Assumptions upgma_recovers_ultrametric.

Example upgma_recovers_nonvacuous :
  rbin ex_ultra /\ positive_internal ex_ultra /\
  good_leaves ex_ultra /\ t_kids ex_ultra <> [] /\ nonneg_lengths ex_ultra /\ equidistant 3072 ex_ultra.
Proof. exact (conj (proj1 ex_ultra_binary) (conj (proj2 ex_ultra_binary) ex_ultra_ok)). Qed.
Print Assumptions upgma_recovers_nonvacuous.

(* ---------------------------------------------------------------------------------------- *)
(* CSV round trip (Model/C14Csv.v: line-level model of write_csv and from_csv with the default
   header options, any delimiter d; strings = lists of code points; `cell a b` is the string written
   for the entry (a, b), `val a b` the number it denotes; `lower` is str.lower).
   If no label and no cell contains the delimiter, a quote, CR or LF, none has leading or trailing
   blanks, every cell is a decimal numeral, and the labels are pairwise different ignoring case (the
   reader's namespace is case-insensitive), then from_csv applied to the lines produced by write_csv
   succeeds, yields the taxa in the order written (taxon i = i-th row) and the dictionary whose entry
   (i, j) is: 0 on the diagonal, the written entry (row i, column j) above it, and its mirror image
   below -- i.e. exactly the written table whenever that is symmetric with a zero diagonal, as every
   table compiled from a tree is (pdm_sym, pdm_zero_diag).  The column header line is not compared
   with the row names by the reader (positions decide). *)
Theorem csv_roundtrip : forall (d : Z) (label : Z -> str) (cell : Z -> Z -> str) (val : Z -> Z -> Q)
                               (lower : str -> str) (order : list Z),
  (d =? 34) || (d =? 13) || (d =? 10) = false ->
  (forall a, In a order -> ~ In d (label a) /\ has_quote (label a) = false /\ strip_sp (label a) = label a) ->
  (forall a b, In a order -> In b order ->
     (~ In d (cell a b) /\ has_quote (cell a b) = false /\ strip_sp (cell a b) = cell a b) /\
     parse_float (cell a b) = Some (val a b)) ->
  NoDup (map (fun a => lower (label a)) order) ->
  order <> [] ->
  exists T, from_csv lower d (write_csv d label cell order) = Ok (map label order, T) /\
    forall i j, (i < length order)%nat -> (j < length order)%nat ->
      tget2 (Z.of_nat i) (Z.of_nat j) T =
      Some (if Nat.eqb i j then 0%Q
            else if Nat.ltb i j then val (nth i order 0) (nth j order 0) else val (nth j order 0) (nth i order 0)).
Proof. exact csv_roundtrip_l. Qed.
Print Assumptions csv_roundtrip.

Theorem csv_roundtrip_no_taxa : forall lower d label cell,
  from_csv lower d (write_csv d label cell []) = Ok ([], []).
Proof. exact csv_roundtrip_empty. Qed.
Print Assumptions csv_roundtrip_no_taxa.

Example csv_roundtrip_example :
  from_csv (fun x => x) 44 (write_csv 44 ex_lab ex_cell [2; 0; 1])
  = Ok ([[67]; [65]; [66]],
        [(0, [(0, 0%Q); (1, 7 # 2); (2, 9 # 2)]);
         (1, [(1, 0%Q); (2, 5 # 2); (0, 7 # 2)]);
         (2, [(2, 0%Q); (0, 9 # 2); (1, 5 # 2)])]).
Proof. exact ex_csv. Qed.
Print Assumptions csv_roundtrip_example.

(* ---------------------------------------------------------------------------------------- *)
(* THE Q-CRITERION, up to five nodes.  Class P5 of pools: at most five nodes whose stored distances
   satisfy the strictly resolved four-point condition (four_point_strict: in every quartet one of the
   three pairings has the strictly smallest sum and the other two sums are equal -- a tree metric
   whose internal edges are positive).  For this class both halves of the Q-criterion hold:
   every pair minimising Q is a cherry (n = 3: any pair; n = 4, 5: by exhaustive analysis of the
   quartet resolutions, linear arithmetic), and joining it leaves a pool of the class (the reduced
   distances are the old ones shifted by the pendant length, so every quartet keeps its resolution --
   this half is proved without the size bound, given the first half). *)
Theorem q_criterion_up_to_five : qcrit_cherry P5 /\ qcrit_closed P5.
Proof. exact (conj P5_cherry P5_closed). Qed.
Print Assumptions q_criterion_up_to_five.

(* Hence, UNCONDITIONALLY for at most five taxa: on every complete symmetric matrix satisfying the
   strictly resolved four-point condition, in every iteration order and with every tie-break,
   nj_tree returns a tree whose path distance between any two taxa is the matrix entry
   (PDM(NJ(M)) = M; the lengths assigned at each join are the exact pendant lengths by
   nj_step_sound).  (Superseded by nj_recovers_additive below, which has no size bound; kept as the
   exhaustive small-case analysis.)  That a tree is determined by its (unrooted) metric -- recovery of the
   unrooted splits with their lengths -- is proved at the end of this file (sixth wave).
   (That the matrix of a binary rose tree with positive internal edge lengths satisfies
   mfour_point_strict IS proved: tree_matrix_four_point_strict below.) *)
Theorem nj_recovers_additive_up_to_five_taxa : forall M order,
  NoDup order -> order <> [] -> (length order <= 5)%nat ->
  mcomplete M order -> msymmetric M order -> mfour_point_strict M order ->
  exists T, nj_tree M order = Ok T /\
    forall a b, In a order -> In b order -> a <> b -> exists q, qdist T a b = Some q /\ (q == mval M a b)%Q.
Proof. exact nj_recovers_small_l. Qed.
Print Assumptions nj_recovers_additive_up_to_five_taxa.

(* ---------------------------------------------------------------------------------------- *)
(* The distance matrix of a binary rose tree (every node has no or two children) with non-negative
   lengths and positive lengths above its internal nodes satisfies the strictly resolved four-point
   condition; hence neighbor joining realises the distances of every such tree with at most five
   leaves, in every iteration order, unconditionally. *)
Theorem tree_matrix_four_point_strict : forall t p order,
  rbin t -> good_leaves t -> t_kids t <> [] -> positive_internal t -> nonneg_lengths t ->
  compile_from_tree t = Ok p -> (forall a, In a order -> In (Some a) (leaf_taxa t)) ->
  mfour_point_strict (qtable p true) order.
Proof. exact Proofs.C14FourPoint.tree_matrix_four_point_strict. Qed.
Print Assumptions tree_matrix_four_point_strict.

Theorem nj_recovers_tree_up_to_five_leaves : forall t p order,
  rbin t -> good_leaves t -> t_kids t <> [] -> positive_internal t -> nonneg_lengths t ->
  compile_from_tree t = Ok p ->
  NoDup order -> order <> [] -> (length order <= 5)%nat -> (forall a, In a order -> In (Some a) (leaf_taxa t)) ->
  exists T, nj_tree (qtable p true) order = Ok T /\
    forall a b, In a order -> In b order -> a <> b ->
      exists q d, qdist T a b = Some q /\ dist t a b = Some d /\ (q == uq d)%Q.
Proof. exact nj_recovers_tree_small. Qed.
Print Assumptions nj_recovers_tree_up_to_five_leaves.

(* ======================================================================================== *)
(* THE Q-CRITERION FOR EVERY NUMBER OF NODES (Saitou-Nei 1987, Studier-Keppler 1988)          *)
(* ======================================================================================== *)
(* Proofs/C14NjQ.v, in exact rational arithmetic and from the four-point condition alone (no tree):
   for EVERY well-formed pool (any size) whose stored distances satisfy the strictly resolved
   four-point condition, (1) every pair minimising (n-2) d(a,b) - xsub a - xsub b -- in particular the
   first minimal pair in pool order, which nj_step joins -- is a cherry, and (2) joining it leaves a
   pool satisfying the condition again.
   Proof of (1): Q_uv = -2 d_uv - sum_w (d_uw + d_vw - d_uv), so
     Q_ij - Q_yz = sum over w outside {i,j,y,z} of [(d_yw + d_zw - d_yz) - (d_iw + d_jw - d_ij)]
   (twice: distance of w from the path y..z minus its distance from the path i..j).  If (i, j) is not
   a cherry, two other nodes attach at different points of the path i..j; the attachment classes are
   disjoint, so one class A holds at most half of the other nodes (the lighter side).  If A = {y}, then
   (i, y) or (y, j) has a strictly smaller Q (every term of the difference is >= 0, one is > 0).
   Otherwise take y, z in A with the largest Gromov product seen from the path: every w outside A
   contributes at least c > 0 and every w in A at least -c, and A minus {y, z} is smaller than the
   rest: Q_yz < Q_ij.  Either way (i, j) does not minimise Q. *)
Theorem q_criterion : qcrit_cherry four_point_strict /\ qcrit_closed four_point_strict.
Proof. exact (conj fp_cherry fp_closed). Qed.
Print Assumptions q_criterion.

(* the identity behind it, for any well-formed pool (no four-point condition needed): the difference
   of the Q-values of two disjoint pairs is a sum over the remaining nodes *)
Theorem q_criterion_identity : forall pool i j y z,
  jwf pool -> In i pool -> In j pool -> In y pool -> In z pool ->
  j_id i <> j_id j -> j_id i <> j_id y -> j_id i <> j_id z ->
  j_id j <> j_id y -> j_id j <> j_id z -> j_id y <> j_id z ->
  (qvalue (Z.of_nat (length pool)) i j - qvalue (Z.of_nat (length pool)) y z ==
   qsum (map (fun w => (jd y w + jd z w - jd y z) - (jd i w + jd j w - jd i j))
             (filter (fun w => negb (existsb (Z.eqb (j_id w)) [j_id i; j_id j; j_id y; j_id z])) pool)))%Q.
Proof. exact (fun pool i j y z W => q_diff4 pool W i j y z). Qed.
Print Assumptions q_criterion_identity.

(* NJ INVERTS ADDITIVE DISTANCES (unconditional form of nj_recovers_additive_partial): on every
   complete symmetric matrix satisfying the strictly resolved four-point condition -- any number of
   taxa, every iteration order, every tie-break -- nj_tree returns a tree whose path distance
   between any two taxa is exactly the matrix entry: PDM(NJ(M)) = M; the edge lengths assigned at
   each join are the exact pendant lengths (nj_step_sound, whose cherry clause applies at every
   iteration by q_criterion). *)
Theorem nj_recovers_additive : forall M order,
  NoDup order -> order <> [] ->
  mcomplete M order -> msymmetric M order -> mfour_point_strict M order ->
  exists T, nj_tree M order = Ok T /\
    forall a b, In a order -> In b order -> a <> b -> exists q, qdist T a b = Some q /\ (q == mval M a b)%Q.
Proof. exact nj_recovers_additive_l. Qed.
Print Assumptions nj_recovers_additive.

(* Hence, for every binary rose tree t (every node has no or two children) with distinct leaf taxa,
   non-negative lengths and positive lengths above its internal nodes, with ANY number of leaves, and
   every iteration order of (any non-empty subset of) its taxa: nj_tree applied to t's distance matrix
   returns a tree whose path distance between any two taxa is exactly t's -- PDM(NJ(PDM t)) = PDM t.
   That an unrooted tree is determined by its metric, so that NJ's output IS t up to rooting, is
   nj_returns_generating_tree at the end of this file (sixth wave). *)
Theorem nj_recovers_tree : forall t p order,
  rbin t -> good_leaves t -> t_kids t <> [] -> positive_internal t -> nonneg_lengths t ->
  compile_from_tree t = Ok p ->
  NoDup order -> order <> [] -> (forall a, In a order -> In (Some a) (leaf_taxa t)) ->
  exists T, nj_tree (qtable p true) order = Ok T /\
    forall a b, In a order -> In b order -> a <> b ->
      exists q d, qdist T a b = Some q /\ dist t a b = Some d /\ (q == uq d)%Q.
Proof. exact nj_recovers_tree_l. Qed.
Print Assumptions nj_recovers_tree.

(* non-vacuity beyond the exhaustively analysed sizes: a seven-leaf tree that is not ultrametric,
   ((A:1,B:3):2,((C:2,(D:1,E:4):1):3,(F:2,G:5):1):2), satisfies the hypotheses, and on it the model
   (computed) returns a tree with d(A, G) = 11 *)
Example nj_recovers_tree_nonvacuous :
  rbin ex_nj7 /\ good_leaves ex_nj7 /\ t_kids ex_nj7 <> [] /\ positive_internal ex_nj7 /\ nonneg_lengths ex_nj7 /\
  (exists p, compile_from_tree ex_nj7 = Ok p) /\
  NoDup [3; 0; 6; 2; 5; 1; 4] /\ (forall a, In a [3; 0; 6; 2; 5; 1; 4] -> In (Some a) (leaf_taxa ex_nj7)).
Proof. exact ex_nj7_ok. Qed.
Print Assumptions nj_recovers_tree_nonvacuous.

Example nj_recovers_tree_example :
  exists p T, compile_from_tree ex_nj7 = Ok p /\ nj_tree (qtable p true) [3; 0; 6; 2; 5; 1; 4] = Ok T /\
    option_map Qred (qdist T 0 6) = Some (11 # 1)%Q /\ dist ex_nj7 0 6 = Some (11 * 1024).
Proof. exact ex_nj7_runs. Qed.
Print Assumptions nj_recovers_tree_example.

(* ======================================================================================== *)
(* SIXTH WAVE: A TREE IS DETERMINED BY ITS METRIC (Buneman / Zaretskii); NJ RETURNS THE TREE   *)
(* ======================================================================================== *)
(* Model/C14Spec3.v: qnodes T = the nodes of T other than the root (each as the subtree below it; the edge
   above m has length qlen0 m); qcl m = "taxon x is below m" = one side of the split induced by that edge;
   same_split L s c = s and c are the same bipartition of the taxa L (equal or complementary on L);
   split_len T s = total length of the edges of T inducing the bipartition s of T's taxa -- the two edges
   at a root with two children, and the edges around a node with one child, induce the same bipartition and
   are counted together, so this is the length of the edge of the UNROOTED tree with unifurcations
   suppressed (0 when s is not a split of T); split_nonneg T = no split has negative total length (implied
   by "no edge has negative length": nonneg_edges_nonneg_splits).

   UNIQUENESS.  Two trees -- ANY shape: polytomies, unifurcations anywhere, root of any degree; every leaf
   carrying a taxon, no taxon twice -- on the same taxa, with no negative split and with equal leaf-to-leaf
   path distances carry, on EVERY bipartition of the taxa into two non-empty parts, the same total length:
   the same set of (positive-length) unrooted splits with the same lengths, and the same pendant lengths
   (s = a single taxon against the rest).  They are equal as unrooted weighted trees (up to zero-length
   edges, which a metric cannot see).  Positive internal lengths are not needed for this form.
   Proof (Proofs/C14Split.v, C14SplitTree.v): d(x,y) = sum over the non-root nodes m of
   [x below m xor y below m] * length; the clusters of a rooted tree are laminar (nested or disjoint), hence
   d(a,b) + d(a',b') - d(a,a') - d(b,b') = 2 (weight separating aa'|bb') - 2 (weight separating ab|a'b'),
   with at most one of the two kinds present.  Every node has a TIGHT quartet (separated only by the nodes
   inducing the same split: chosen through a largest proper sub-cluster and a smallest proper
   super-cluster); a bipartition all of whose quartets are separated by some node is a split (rooted
   triples determine a cluster: chains of clusters through a common point).  Evaluating the tight quartet
   of one tree in the other gives <= in both directions. *)
Theorem tree_metric_unique : forall T1 T2,
  qleaves_ok T1 -> qleaves_ok T2 -> NoDup (qtaxa T1) -> NoDup (qtaxa T2) ->
  (forall x, qhas x T1 = qhas x T2) ->
  (forall x y, qhas x T1 = true -> qhas y T1 = true -> x <> y ->
     exists q1 q2, qdist T1 x y = Some q1 /\ qdist T2 x y = Some q2 /\ (q1 == q2)%Q) ->
  split_nonneg T1 -> split_nonneg T2 ->
  forall s, proper_split (qtaxa T1) s -> (split_len T1 s == split_len T2 s)%Q.
Proof. exact Proofs.C14SplitTree.tree_metric_unique. Qed.
Print Assumptions tree_metric_unique.

Theorem nonneg_edges_nonneg_splits : forall T,
  (forall m, In m (qnodes T) -> (0 <= qlen0 m)%Q) -> split_nonneg T.
Proof. exact nodes_nonneg_split_nonneg. Qed.
Print Assumptions nonneg_edges_nonneg_splits.

(* a split of positive length is induced by an edge (so equal lengths on all bipartitions = equal split sets) *)
Theorem positive_split_is_edge : forall T s,
  (0 < split_len T s)%Q -> exists m, In m (qnodes T) /\ same_split (qtaxa T) s (qcl m) = true.
Proof. exact split_present. Qed.
Print Assumptions positive_split_is_edge.

(* non-vacuity: the unrooted tree A-1-u, B-2-u, u-3-v, C-1-v, D-3-v rooted on the edge u..v (two root
   edges 1 + 2) and rooted at u (a root with three children): all hypotheses hold, and AB|CD has length 3 in
   both *)
Example tree_metric_unique_nonvacuous :
  qleaves_ok ex_u1 /\ qleaves_ok ex_u2 /\ NoDup (qtaxa ex_u1) /\ NoDup (qtaxa ex_u2) /\
  (forall x, qhas x ex_u1 = qhas x ex_u2) /\
  (forall x y, qhas x ex_u1 = true -> qhas y ex_u1 = true -> x <> y ->
     exists q1 q2, qdist ex_u1 x y = Some q1 /\ qdist ex_u2 x y = Some q2 /\ (q1 == q2)%Q) /\
  split_nonneg ex_u1 /\ split_nonneg ex_u2 /\
  proper_split (qtaxa ex_u1) (fun x => x <? 2) /\
  Qred (split_len ex_u1 (fun x => x <? 2)) = 3%Q /\ Qred (split_len ex_u2 (fun x => x <? 2)) = 3%Q.
Proof. exact ex_u_ok. Qed.
Print Assumptions tree_metric_unique_nonvacuous.

(* THE SPLIT LENGTHS ARE AN EXPLICIT FUNCTION OF THE METRIC (qd = qdist as a total function, qpos = positive
   part): twice the length of the split s is the minimum, over the quartets a, a' in s, b, b' outside
   (a = a', b = b' allowed -- for the pendant edge of x: min over y, z of d(x,y) + d(x,z) - d(y,z)), of the
   positive part of d(a,b) + d(a',b') - d(a,a') - d(b,b'): a lower bound that is attained.  Hence: s is an
   edge of positive length iff every quartet across it satisfies the strict four-point inequality. *)
Theorem split_len_formula : forall T s,
  qleaves_ok T -> NoDup (qtaxa T) -> split_nonneg T -> proper_split (qtaxa T) s ->
  let L := qtaxa T in
  let e := fun a a' b b' => (qd T a b + qd T a' b' - qd T a a' - qd T b b')%Q in
  (forall a a' b b', In a L -> In a' L -> In b L -> In b' L -> s a = true -> s a' = true -> s b = false -> s b' = false ->
     (2 * split_len T s <= qpos (e a a' b b'))%Q) /\
  (exists a a' b b', In a L /\ In a' L /\ In b L /\ In b' L /\ s a = true /\ s a' = true /\ s b = false /\ s b' = false /\
     (qpos (e a a' b b') == 2 * split_len T s)%Q).
Proof. exact Proofs.C14SplitFormula.split_len_formula. Qed.
Print Assumptions split_len_formula.

Theorem split_iff_four_point : forall T s,
  qleaves_ok T -> NoDup (qtaxa T) -> split_nonneg T -> proper_split (qtaxa T) s ->
  ((0 < split_len T s)%Q <->
   forall a a' b b', In a (qtaxa T) -> In a' (qtaxa T) -> In b (qtaxa T) -> In b' (qtaxa T) ->
     s a = true -> s a' = true -> s b = false -> s b' = false ->
     (qd T a a' + qd T b b' < qd T a b + qd T a' b')%Q).
Proof. exact Proofs.C14SplitFormula.split_iff_four_point. Qed.
Print Assumptions split_iff_four_point.

(* ---------------------------------------------------------------------------------------- *)
(* NJ RETURNS THE TREE OF THE MATRIX.  On every complete symmetric matrix with non-negative entries, the
   triangle inequality and the strictly resolved four-point condition -- any number of taxa, every
   iteration order, every tie-break -- nj_tree returns a tree T that: realises the matrix; has exactly the
   taxa iterated, each on one leaf, every leaf carrying a taxon (shape invariant over all iterations);
   has no negative split and strictly positive internal splits (derived from the metric: the tight
   quartet of an internal split evaluates to twice its length and is strictly resolved); and carries on
   every bipartition the same length as ANY tree T' (any shape) on these taxa with no negative split that
   realises the matrix.  So T IS the tree of the matrix, as an unrooted tree with edge lengths. *)
Theorem nj_returns_tree_of_matrix : forall M order,
  NoDup order -> order <> [] -> mcomplete M order -> msymmetric M order ->
  mfour_point_strict M order -> mtriangle M order -> mnonneg M order ->
  exists T, nj_tree M order = Ok T /\
    (forall a b, In a order -> In b order -> a <> b -> exists q, qdist T a b = Some q /\ (q == mval M a b)%Q) /\
    qleaves_ok T /\ NoDup (qtaxa T) /\ (forall a, qhas a T = true <-> In a order) /\
    split_nonneg T /\
    (forall m, In m (qnodes T) ->
       (exists x x', x <> x' /\ qcl m x = true /\ qcl m x' = true) ->
       (exists y y', y <> y' /\ In y order /\ In y' order /\ qcl m y = false /\ qcl m y' = false) ->
       (0 < split_len T (qcl m))%Q) /\
    forall T', qleaves_ok T' -> NoDup (qtaxa T') -> (forall a, qhas a T' = true <-> In a order) -> split_nonneg T' ->
      (forall a b, In a order -> In b order -> a <> b -> exists q, qdist T' a b = Some q /\ (q == mval M a b)%Q) ->
      forall s, proper_split order s -> (split_len T s == split_len T' s)%Q.
Proof. exact nj_unique_l. Qed.
Print Assumptions nj_returns_tree_of_matrix.

(* the matrix compiled from any rose tree with distinct leaf taxa and non-negative lengths (any shape) is
   complete, symmetric, non-negative, satisfies the triangle inequality, and is realised by the tree itself
   (tq t = t with lengths in real units) *)
Theorem tree_matrix_is_metric : forall t p order,
  good_leaves t -> t_kids t <> [] -> nonneg_lengths t -> compile_from_tree t = Ok p ->
  (forall a, In a order -> In (Some a) (leaf_taxa t)) ->
  mcomplete (qtable p true) order /\ msymmetric (qtable p true) order /\
  mnonneg (qtable p true) order /\ mtriangle (qtable p true) order /\
  (forall a b, In a order -> In b order -> a <> b ->
     exists q, qdist (tq t) a b = Some q /\ (q == mval (qtable p true) a b)%Q).
Proof. exact tree_matrix_facts. Qed.
Print Assumptions tree_matrix_is_metric.

Example nj_returns_tree_of_matrix_nonvacuous :
  exists p, compile_from_tree ex_nj7 = Ok p /\
    mcomplete (qtable p true) [3; 0; 6; 2; 5; 1; 4] /\ msymmetric (qtable p true) [3; 0; 6; 2; 5; 1; 4] /\
    mfour_point_strict (qtable p true) [3; 0; 6; 2; 5; 1; 4] /\ mtriangle (qtable p true) [3; 0; 6; 2; 5; 1; 4] /\
    mnonneg (qtable p true) [3; 0; 6; 2; 5; 1; 4].
Proof. exact ex_nj7_matrix. Qed.
Print Assumptions nj_returns_tree_of_matrix_nonvacuous.

(* NJ RETURNS THE GENERATING TREE (the property's sentence, full): for every binary rose tree t with
   distinct leaf taxa, non-negative lengths and positive lengths above its internal nodes -- any number of
   leaves -- and every iteration order of its taxa, nj_tree applied to t's distance matrix returns a tree T
   on exactly t's taxa such that
     - on EVERY bipartition s of the taxa, T and t carry the same total length: the same unrooted splits
       with the same lengths (the two edges at t's root counted as the one unrooted edge they form; also T's
       two root edges), the same pendant lengths;
     - every internal edge of t has positive split length and is (induces the same split as) an edge of T;
     - every internal split of T has positive length and is an edge of t.
   T equals t up to rooting, child order, node ids and the representation of the rationals. *)
Theorem nj_returns_generating_tree : forall t p order,
  rbin t -> good_leaves t -> t_kids t <> [] -> positive_internal t -> nonneg_lengths t ->
  compile_from_tree t = Ok p ->
  NoDup order -> (forall a, In a order <-> In (Some a) (leaf_taxa t)) ->
  exists T, nj_tree (qtable p true) order = Ok T /\
    qleaves_ok T /\ NoDup (qtaxa T) /\ (forall a, qhas a T = true <-> In a order) /\
    (forall s, proper_split order s -> (split_len T s == split_len (tq t) s)%Q) /\
    (forall m, In m (qnodes (tq t)) -> q_kids m <> [] -> proper_split order (qcl m) ->
       (0 < split_len (tq t) (qcl m))%Q /\
       exists m', In m' (qnodes T) /\ same_split order (qcl m) (qcl m') = true) /\
    (forall m', In m' (qnodes T) ->
       (exists x x', x <> x' /\ qcl m' x = true /\ qcl m' x' = true) ->
       (exists y y', y <> y' /\ In y order /\ In y' order /\ qcl m' y = false /\ qcl m' y' = false) ->
       (0 < split_len T (qcl m'))%Q /\
       exists m, In m (qnodes (tq t)) /\ same_split order (qcl m') (qcl m) = true).
Proof. exact nj_returns_generating_tree_l. Qed.
Print Assumptions nj_returns_generating_tree.

(* non-vacuity: the seven-leaf witness ((A:1,B:3):2,((C:2,(D:1,E:4):1):3,(F:2,G:5):1):2) with all its taxa
   iterated satisfies the hypotheses (with nj_recovers_tree_nonvacuous), and on it (computed) NJ's output
   carries AB|CDEFG with length 2 + 2 (the two root edges of the generating tree, as there), DE|ABCFG with
   length 1 and the pendant edge of G with length 5 *)
Example nj_returns_generating_tree_nonvacuous :
  (forall a, In a [3; 0; 6; 2; 5; 1; 4] <-> In (Some a) (leaf_taxa ex_nj7)) /\
  exists p T, compile_from_tree ex_nj7 = Ok p /\ nj_tree (qtable p true) [3; 0; 6; 2; 5; 1; 4] = Ok T /\
    Qred (split_len T (fun x => x <? 2)) = 4%Q /\ Qred (split_len (tq ex_nj7) (fun x => x <? 2)) = 4%Q /\
    Qred (split_len T (fun x => (x =? 3) || (x =? 4))) = 1%Q /\
    Qred (split_len T (fun x => x =? 6)) = 5%Q /\
    proper_split [3; 0; 6; 2; 5; 1; 4] (fun x => x <? 2).
Proof. exact (conj ex_nj7_all ex_nj7_splits). Qed.
Print Assumptions nj_returns_generating_tree_nonvacuous.

(* ---------------------------------------------------------------------------------------- *)
(* GENERATING TREES WITH POLYTOMIES (four-point condition not strictly resolved), partial.  By the
   uniqueness theorem, which needs no strictness: ANY tree T that realises the leaf distances of a rose tree
   t (any shape, non-negative lengths) and has no negative split carries on every bipartition the length
   it has in t; in particular every edge of T that induces no split of t has (together with the edges
   parallel to it) length 0: T is a refinement of t with zero-length extra edges.
   NOT proved: that nj_tree's output on such a matrix realises the distances and has no negative split, for
   every tie-break (the Q-criterion proof of Proofs/C14NjQ.v uses strictly resolved quartets).  Computed on
   the witness ((A:1,B:2,C:3):2,D:1,E:2): nj_tree returns ((A:1,B:2):0,(C:3,(D:1,E:2):2):0), which satisfies
   every hypothesis; AB|CDE -- an edge of the output, not of the generating tree -- has length 0 in both,
   DE|ABC length 2 in both. *)
Theorem realising_tree_refines_partial : forall t T,
  good_leaves t -> nonneg_lengths t ->
  qleaves_ok T -> NoDup (qtaxa T) -> (forall a, qhas a T = true <-> In (Some a) (leaf_taxa t)) -> split_nonneg T ->
  (forall a b, In (Some a) (leaf_taxa t) -> In (Some b) (leaf_taxa t) -> a <> b ->
     exists q d, qdist T a b = Some q /\ dist t a b = Some d /\ (q == uq d)%Q) ->
  (forall s, proper_split (qtaxa T) s -> (split_len T s == split_len (tq t) s)%Q) /\
  (forall m, In m (qnodes T) -> proper_split (qtaxa T) (qcl m) ->
     (forall n, In n (qnodes (tq t)) -> same_split (qtaxa T) (qcl m) (qcl n) = false) ->
     (split_len T (qcl m) == 0)%Q).
Proof. exact realising_tree_refines_l. Qed.
Print Assumptions realising_tree_refines_partial.

Example nj_polytomy_example :
  (do p <- compile_from_tree ex_poly ;; nj_tree (qtable p true) [0; 1; 2; 3; 4]) = Ok ex_poly_nj /\
  good_leaves ex_poly /\ nonneg_lengths ex_poly /\
  qleaves_ok ex_poly_nj /\ NoDup (qtaxa ex_poly_nj) /\
  (forall a, qhas a ex_poly_nj = true <-> In (Some a) (leaf_taxa ex_poly)) /\ split_nonneg ex_poly_nj /\
  (forall a b, In (Some a) (leaf_taxa ex_poly) -> In (Some b) (leaf_taxa ex_poly) -> a <> b ->
     exists q d, qdist ex_poly_nj a b = Some q /\ dist ex_poly a b = Some d /\ (q == uq d)%Q) /\
  proper_split (qtaxa ex_poly_nj) (fun x => x <? 2) /\
  Qred (split_len ex_poly_nj (fun x => x <? 2)) = 0%Q /\ Qred (split_len (tq ex_poly) (fun x => x <? 2)) = 0%Q /\
  Qred (split_len ex_poly_nj (fun x => 3 <=? x)) = 2%Q /\ Qred (split_len (tq ex_poly) (fun x => 3 <=? x)) = 2%Q.
Proof. exact (conj ex_poly_runs ex_poly_ok). Qed.
Print Assumptions nj_polytomy_example.

(* ------------------------------------------------------------------------------------------------ *)
(* SEVENTH WAVE: several matrix objects (Model/C14ObjPrims.v, Model/C14ObjModel.v, Proofs/C14ObjProofs.v).
   A world = a store of container objects (sets, outer dicts) + matrix objects holding container ids;
   run_mops ops world_empty = the world after a history of  PhylogeneticDistanceMatrix() / clone (copy.copy) /
   compile_from_tree / compile_from_dict / clear  on named objects;  abs w j = the value (tables dereferenced)
   of object j, from which every query on j is computed. *)

(* independence: in every reachable world every object is fully formed and NO container is referred to
   twice - not by two matrix objects, not by two attributes of one *)
Theorem multi_object_independence :
  forall (ops : list mop) (w : world), run_mops ops world_empty = Ok w ->
  (forall j o a, dget j (w_objs w) = Some o ->
     exists c v, get_c a o = Some c /\ 0 <= c < w_next w /\ hget w c = Some v /\ kind_ok a v) /\
  (forall j k oj ok a b c,
     dget j (w_objs w) = Some oj -> dget k (w_objs w) = Some ok ->
     get_c a oj = Some c -> get_c b ok = Some c -> j = k /\ a = b).
Proof. exact multi_object_independence_top. Qed.
Print Assumptions multi_object_independence.

(* frame: an operation called on one object (or creating a new one) leaves every other object's
   attributes and value - hence every query result - unchanged *)
Theorem multi_object_frame :
  forall (ops : list mop) (w : world) (op : mop) (w' : world) (j : oid) (oj : obj),
  run_mops ops world_empty = Ok w -> apply_mop op w = Ok w' ->
  dget j (w_objs w) = Some oj -> target op <> Some j ->
  dget j (w_objs w') = Some oj /\ abs w' j = abs w j.
Proof. exact multi_object_frame_top. Qed.
Print Assumptions multi_object_frame.

(* compile_from_tree on a named object: its value becomes the value-level compile_from_tree (to which
   pdm_exact, pdm_sym, mean_pairwise_spec, ... apply), whatever the object held before and whatever other
   objects exist; an exception of the value-level model is the exception of the call *)
Theorem compile_from_tree_on_object :
  forall (ops : list mop) (w w' : world) (i : oid) (t : tree) (p : pdm),
  run_mops ops world_empty = Ok w -> apply_mop (MTree i t) w = Ok w' -> compile_from_tree t = Ok p ->
  abs w' i = Ok (mkPdm (p_tree_length p) (p_num_edges p) (p_dist p) (p_steps p) (p_mrca p) (p_mapped p) (p_pairs p) []).
Proof. exact compile_from_tree_on_object_top. Qed.
Print Assumptions compile_from_tree_on_object.

(* clone: a NEW object whose value is the original's at clone time (tables that are dicts: no repeated key) *)
Theorem clone_has_value_of_original :
  forall (ops : list mop) (w w' : world) (i n : oid) (p : pdm),
  run_mops ops world_empty = Ok w -> o_clone i w = Ok (w', n) -> abs w i = Ok p ->
  (NoDup (dkeys (p_dist p)) /\ forall k r, dget k (p_dist p) = Some r -> NoDup (dkeys r)) ->
  (NoDup (dkeys (p_steps p)) /\ forall k r, dget k (p_steps p) = Some r -> NoDup (dkeys r)) ->
  (NoDup (dkeys (p_mrca p)) /\ forall k r, dget k (p_mrca p) = Some r -> NoDup (dkeys r)) ->
  n = w_onext w /\ dget n (w_objs w) = None /\ abs w' n = Ok p.
Proof. exact clone_has_value_of_original_top. Qed.
Print Assumptions clone_has_value_of_original.

(* the hypotheses are satisfiable and the statements say something: matrix, clone, the original
   recompiled on the pruned tree - the clone still has the first tree's value (6 pairs), the original the
   second's (3 pairs), and their mean pairwise distances differ *)
Example multi_object_example :
  exists w p1 p2, run_mops ex_ops world_empty = Ok w /\
    compile_from_tree ex_t1 = Ok p1 /\ compile_from_tree ex_t2 = Ok p2 /\
    abs w 1 = Ok (mkPdm (p_tree_length p1) (p_num_edges p1) (p_dist p1) (p_steps p1) (p_mrca p1) (p_mapped p1) (p_pairs p1) []) /\
    abs w 0 = Ok (mkPdm (p_tree_length p2) (p_num_edges p2) (p_dist p2) (p_steps p2) (p_mrca p2) (p_mapped p2) (p_pairs p2) []) /\
    length (p_pairs p1) = 6%nat /\ length (p_pairs p2) = 3%nat /\
    mean_pairwise_distance p1 None true false <> mean_pairwise_distance p2 None true false.
Proof. exact ex_history. Qed.
Print Assumptions multi_object_example.

(* ---------------------------------------------------------------------------------------- *)
(* WAVE 9: the table well-formedness invariant, and the clone theorem without hypotheses on the tables *)
From DV Require Import Proofs.C14W9Wf.

(* whatever tree / `distances` dict is given, a successful compile_from_tree / compile_from_dict leaves
   three tables that are dicts of dicts: no repeated key in the outer dict, none in any row
   (_mirror_lookups included) *)
Theorem compile_results_have_wf_tables :
  (forall t p, compile_from_tree t = Ok p ->
     (NoDup (dkeys (p_dist p)) /\ forall k r, dget k (p_dist p) = Some r -> NoDup (dkeys r)) /\
     (NoDup (dkeys (p_steps p)) /\ forall k r, dget k (p_steps p) = Some r -> NoDup (dkeys r)) /\
     (NoDup (dkeys (p_mrca p)) /\ forall k r, dget k (p_mrca p) = Some r -> NoDup (dkeys r))) /\
  (forall d p, compile_from_dict d = Ok p ->
     (NoDup (dkeys (p_dist p)) /\ forall k r, dget k (p_dist p) = Some r -> NoDup (dkeys r)) /\
     (NoDup (dkeys (p_steps p)) /\ forall k r, dget k (p_steps p) = Some r -> NoDup (dkeys r)) /\
     (NoDup (dkeys (p_mrca p)) /\ forall k r, dget k (p_mrca p) = Some r -> NoDup (dkeys r))).
Proof. exact compile_results_wf_top. Qed.
Print Assumptions compile_results_have_wf_tables.

(* in every world reachable by a history of PhylogeneticDistanceMatrix() / clone / compile_from_tree /
   compile_from_dict / clear, the three tables of every object are well formed *)
Theorem reachable_tables_wf :
  forall (ops : list mop) (w : world) (j : oid) (p : pdm),
  run_mops ops world_empty = Ok w -> abs w j = Ok p ->
  (NoDup (dkeys (p_dist p)) /\ forall k r, dget k (p_dist p) = Some r -> NoDup (dkeys r)) /\
  (NoDup (dkeys (p_steps p)) /\ forall k r, dget k (p_steps p) = Some r -> NoDup (dkeys r)) /\
  (NoDup (dkeys (p_mrca p)) /\ forall k r, dget k (p_mrca p) = Some r -> NoDup (dkeys r)).
Proof. exact reachable_tables_wf_top. Qed.
Print Assumptions reachable_tables_wf.

(* clone_has_value_of_original with the three NoDup hypotheses discharged: in EVERY reachable world, clone
   on an object returns a NEW object whose value is the original's at clone time *)
Theorem clone_has_value_of_original_unconditional :
  forall (ops : list mop) (w w' : world) (i n : oid) (p : pdm),
  run_mops ops world_empty = Ok w -> o_clone i w = Ok (w', n) -> abs w i = Ok p ->
  n = w_onext w /\ dget n (w_objs w) = None /\ abs w' n = Ok p.
Proof. exact clone_value_unconditional_top. Qed.
Print Assumptions clone_has_value_of_original_unconditional.

(* its hypotheses hold of every existing object of every reachable world: clone does not fail there and
   the object has a value *)
Theorem clone_total_on_reachable_worlds :
  forall (ops : list mop) (w : world) (i : oid) (o : obj),
  run_mops ops world_empty = Ok w -> dget i (w_objs w) = Some o ->
  exists w' n p, o_clone i w = Ok (w', n) /\ abs w i = Ok p /\ abs w' n = Ok p /\ dget n (w_objs w) = None.
Proof. exact clone_total_top. Qed.
Print Assumptions clone_total_on_reachable_worlds.

(* a concrete instance: in the world of multi_object_example, the clone (object 1) cloned again *)
Example clone_unconditional_satisfiable :
  exists w w' n p, run_mops ex_ops world_empty = Ok w /\ o_clone 1 w = Ok (w', n) /\ abs w 1 = Ok p /\
                   n = 2 /\ abs w' n = Ok p /\ length (p_pairs p) = 6%nat.
Proof. exact clone_unconditional_example. Qed.
Print Assumptions clone_unconditional_satisfiable.

(* ---------------------------------------------------------------------------------------- *)
(* WAVE 10: NEIGHBOR JOINING UNDER THE NON-STRICT FOUR-POINT CONDITION (polytomous generating trees).
   Closes the partial above (realising_tree_refines_partial / nj_polytomy_example): what was computed
   on one witness is now proved for every matrix, any number of taxa, any iteration order, any
   Q-minimal pair.  four_point_ns / mfour_point_ns (Proofs/C14W10Q.v): in every quartet the two largest
   of the three sums are equal (fp3w), nothing strict.  A Q-minimal pair need not be a cherry of the
   generating tree but is a cherry of the stored pseudo-metric: whenever two attachment points on the
   path i..j differ, the quartets involved ARE strictly resolved, and the only new case (a position
   class whose largest Gromov product is 0) gets its strict term from a node at another position. *)
From DV Require Import Proofs.C14W10Q Proofs.C14W10R Proofs.C14W10B Proofs.C14W10Ex.

(* (a) the Q-criterion: in a pool with the non-strict four-point condition EVERY pair minimising Q is a
   metric cherry, and joining it (whichever Q-minimal pair nj_step picks) leaves a pool with the
   non-strict four-point condition (symmetry, completeness and row sums are in jwf, kept by
   nj_step_sound) *)
Theorem q_criterion_nonstrict : qcrit_cherry four_point_ns /\ qcrit_closed four_point_ns.
Proof. exact (conj fp_cherry_ns fp_closed_ns). Qed.
Print Assumptions q_criterion_nonstrict.

(* the strict condition implies the non-strict one, quartet by quartet *)
Theorem strict_four_point_is_nonstrict : forall a b c, fp3 a b c -> fp3w a b c.
Proof. exact fp3_fp3w. Qed.
Print Assumptions strict_four_point_is_nonstrict.

(* (a'), (b) with the triangle inequality and non-negative entries added (tm_pool: the stored distances
   are a tree pseudo-metric): the class is closed under the reduction for any Q-minimal pair, and the
   two lengths nj_step gives to the joined nodes are >= 0 (TN: every edge length inside the pool's
   trees is >= 0; pools of two nodes included) *)
Theorem nj_step_keeps_tree_metric_and_nonneg_lengths :
  qcrit_cherry tm_pool /\ qcrit_closed tm_pool /\
  forall pool next pool', jwf pool -> tm_pool pool -> TN pool -> (2 <= length pool)%nat -> ~ In next (jids pool) ->
    nj_step pool (Z.of_nat (length pool)) next = Ok pool' -> TN pool'.
Proof. exact (conj tm_cherry (conj tm_closed tn_step)). Qed.
Print Assumptions nj_step_keeps_tree_metric_and_nonneg_lengths.

(* (c) nj_tree's output realises EVERY matrix with the non-strict four-point condition *)
Theorem nj_realises_nonstrict : forall M order,
  NoDup order -> order <> [] ->
  mcomplete M order -> msymmetric M order -> mfour_point_ns M order ->
  exists T, nj_tree M order = Ok T /\
    forall a b, In a order -> In b order -> a <> b -> exists q, qdist T a b = Some q /\ (q == mval M a b)%Q.
Proof. exact nj_realises_nonstrict_l. Qed.
Print Assumptions nj_realises_nonstrict.

(* ... and with the triangle inequality and non-negative entries: the output is a tree on exactly the
   taxa iterated, without negative split, equal on every proper split to ANY tree realising the matrix
   without negative split; and every single edge length of the output is >= 0 *)
Theorem nj_unique_nonstrict : forall M order,
  NoDup order -> order <> [] -> mcomplete M order -> msymmetric M order ->
  mfour_point_ns M order -> mtriangle M order -> mnonneg M order ->
  exists T, nj_tree M order = Ok T /\
    (forall a b, In a order -> In b order -> a <> b -> exists q, qdist T a b = Some q /\ (q == mval M a b)%Q) /\
    qleaves_ok T /\ NoDup (qtaxa T) /\ (forall a, qhas a T = true <-> In a order) /\
    split_nonneg T /\
    forall T', qleaves_ok T' -> NoDup (qtaxa T') -> (forall a, qhas a T' = true <-> In a order) -> split_nonneg T' ->
      (forall a b, In a order -> In b order -> a <> b -> exists q, qdist T' a b = Some q /\ (q == mval M a b)%Q) ->
      forall s, proper_split order s -> (split_len T s == split_len T' s)%Q.
Proof. exact nj_unique_nonstrict_l. Qed.
Print Assumptions nj_unique_nonstrict.

Theorem nj_edge_lengths_nonneg_nonstrict : forall M order,
  NoDup order -> order <> [] -> mcomplete M order -> msymmetric M order ->
  mfour_point_ns M order -> mtriangle M order -> mnonneg M order ->
  exists T, nj_tree M order = Ok T /\ forall m, In m (qnodes T) -> (0 <= qlen0 m)%Q.
Proof. exact nj_lengths_nonneg_l. Qed.
Print Assumptions nj_edge_lengths_nonneg_nonstrict.

(* the matrix compiled from ANY rose tree with distinct leaf taxa and non-negative lengths (polytomies,
   unifurcations, zero-length edges) satisfies the non-strict four-point condition *)
Theorem tree_matrix_four_point_nonstrict : forall t p order,
  good_leaves t -> t_kids t <> [] -> nonneg_lengths t -> compile_from_tree t = Ok p ->
  (forall a, In a order -> In (Some a) (leaf_taxa t)) ->
  mfour_point_ns (qtable p true) order.
Proof. exact tree_matrix_four_point_ns. Qed.
Print Assumptions tree_matrix_four_point_nonstrict.

(* NJ ON THE MATRIX OF A POLYTOMOUS TREE RETURNS A REFINEMENT OF IT, for every such tree, every order:
   the output is a tree on exactly the leaf taxa that realises the tree's distances, has no negative
   split, carries on every split the length the split has in the generating tree; every positive-length
   edge of the generating tree is an edge of the output, and every edge of the output that is not an
   edge of the generating tree has (with the edges in series with it) length 0 *)
Theorem nj_refines_polytomous_tree : forall t p order,
  good_leaves t -> t_kids t <> [] -> nonneg_lengths t ->
  compile_from_tree t = Ok p ->
  NoDup order -> (forall a, In a order <-> In (Some a) (leaf_taxa t)) ->
  exists T, nj_tree (qtable p true) order = Ok T /\
    qleaves_ok T /\ NoDup (qtaxa T) /\ (forall a, qhas a T = true <-> In a order) /\
    (forall a b, In a order -> In b order -> a <> b ->
       exists q q', qdist T a b = Some q /\ qdist (tq t) a b = Some q' /\ (q == q')%Q) /\
    split_nonneg T /\
    (forall s, proper_split order s -> (split_len T s == split_len (tq t) s)%Q) /\
    (forall m, In m (qnodes (tq t)) -> proper_split order (qcl m) -> (0 < split_len (tq t) (qcl m))%Q ->
       exists m', In m' (qnodes T) /\ same_split order (qcl m) (qcl m') = true) /\
    (forall m', In m' (qnodes T) -> proper_split order (qcl m') ->
       (forall m, In m (qnodes (tq t)) -> same_split order (qcl m') (qcl m) = false) ->
       (split_len T (qcl m') == 0)%Q).
Proof. exact nj_refines_polytomous_tree_l. Qed.
Print Assumptions nj_refines_polytomous_tree.

(* the hypotheses of the three theorems above hold of the polytomous witness ((A:1,B:2,C:3):2,D:1,E:2),
   whose matrix is NOT strictly resolved (so the strict theorems do not apply to it) *)
Example nonstrict_hypotheses_satisfiable :
  exists p, compile_from_tree ex_poly = Ok p /\
    good_leaves ex_poly /\ t_kids ex_poly <> [] /\ nonneg_lengths ex_poly /\
    NoDup [0; 1; 2; 3; 4] /\ [0; 1; 2; 3; 4] <> [] /\
    (forall a, In a [0; 1; 2; 3; 4] <-> In (Some a) (leaf_taxa ex_poly)) /\
    mcomplete (qtable p true) [0; 1; 2; 3; 4] /\ msymmetric (qtable p true) [0; 1; 2; 3; 4] /\
    mfour_point_ns (qtable p true) [0; 1; 2; 3; 4] /\ mtriangle (qtable p true) [0; 1; 2; 3; 4] /\
    mnonneg (qtable p true) [0; 1; 2; 3; 4] /\
    ~ mfour_point_strict (qtable p true) [0; 1; 2; 3; 4].
Proof. exact ex_poly_nonstrict_hyps. Qed.
Print Assumptions nonstrict_hypotheses_satisfiable.
