(* C14 property theorems: statements only, each closed by `exact`.

   Model: coq/Model/C14Model.v (transcription of PhylogeneticDistanceMatrix, Tree.mrca,
   treemeasure.patristic_distance, nj_tree, upgma_tree).  Specification functions (structural
   recursion on the rose tree): coq/Model/C14Spec.v --
     has a t        some leaf of t carries taxon a
     down a t       (sum of edge lengths, number of edges) from the root of t down to a's leaf
     lca a b t      the deepest node of t below which both a and b are found
     dist / steps   sum / count over the path a .. lca .. b
     deepest s t    the deepest node of t whose leaves include every taxon of s
     good_leaves t  every leaf carries a taxon and no taxon sits on two leaves
   Lengths are integers in units of 2^-10 (None = Python None, counted as 0). *)
From Coq Require Import ZArith QArith List Bool.
From DV Require Import Model.PyPrims Model.Tree Model.C14Model Model.C14Spec Proofs.C14Proofs.
Import ListNotations.
Open Scope Z_scope.

(* ---------------------------------------------------------------------------------------- *)
(* For every tree (any shape: polytomies, unifurcations; any lengths incl. None) whose leaves
   carry pairwise distinct taxa, tree.phylogenetic_distance_matrix() succeeds and, for EVERY pair of
   leaf taxa (a = b included): the stored distance is the sum of the edge lengths on the path, the
   stored step count is the number of edges on it, the stored common ancestor is the node where the
   path turns, and the accessors return exactly these.  Nothing else is stored.  In the pairing loop
   each unordered pair of distinct leaf taxa is assigned exactly once (also at polytomies), and only
   such pairs are assigned; the set of distinct pairs therefore never saw a repeat.  The mapped taxa
   are exactly the leaf taxa; edge count and tree length are those of the tree. *)
Theorem pdm_exact : forall t : tree,
  good_leaves t -> t_kids t <> [] ->
  exists p, compile_from_tree t = Ok p /\
    (forall a b, In (Some a) (leaf_taxa t) -> In (Some b) (leaf_taxa t) ->
       exists r d s,
         lca a b t = Some r /\ dist t a b = Some d /\ steps t a b = Some s /\
         tget2 a b (p_dist p) = Some d /\ tget2 a b (p_steps p) = Some s /\
         tget2 a b (p_mrca p) = Some (t_id r) /\
         patristic_distance p a b = Ok d /\ path_edge_count p a b = Ok s /\ pdm_mrca p a b = Ok (t_id r)) /\
    (forall a b, ~ (In (Some a) (leaf_taxa t) /\ In (Some b) (leaf_taxa t)) ->
       tget2 a b (p_dist p) = None /\ tget2 a b (p_steps p) = None /\ tget2 a b (p_mrca p) = None) /\
    (forall a b, In (Some a) (leaf_taxa t) -> In (Some b) (leaf_taxa t) -> a <> b ->
       (count_occ zz_dec (p_log p) (a, b) + count_occ zz_dec (p_log p) (b, a) = 1)%nat) /\
    (forall a b, In (a, b) (p_log p) -> In (Some a) (leaf_taxa t) /\ In (Some b) (leaf_taxa t) /\ a <> b) /\
    p_pairs p = p_log p /\
    NoDup (p_mapped p) /\ (forall a, In a (p_mapped p) <-> In (Some a) (leaf_taxa t)) /\
    p_num_edges p = Z.of_nat (size t) /\ p_tree_length p = total_length t.
Proof. exact pdm_exact_p. Qed.
Print Assumptions pdm_exact.

(* The three dictionaries are symmetric (for all keys, present or not). *)
Theorem pdm_sym : forall t p, good_leaves t -> t_kids t <> [] -> compile_from_tree t = Ok p ->
  forall a b, tget2 a b (p_dist p) = tget2 b a (p_dist p) /\
              tget2 a b (p_steps p) = tget2 b a (p_steps p) /\
              tget2 a b (p_mrca p) = tget2 b a (p_mrca p).
Proof. exact pdm_sym_p. Qed.
Print Assumptions pdm_sym.

(* Zero self-distance, zero self-steps, and the leaf itself as its own common ancestor. *)
Theorem pdm_zero_diag : forall t p, good_leaves t -> t_kids t <> [] -> compile_from_tree t = Ok p ->
  forall a, In (Some a) (leaf_taxa t) ->
    tget2 a a (p_dist p) = Some 0 /\ tget2 a a (p_steps p) = Some 0 /\
    patristic_distance p a a = Ok 0 /\ path_edge_count p a a = Ok 0 /\
    exists leaf, lca a a t = Some leaf /\ t_kids leaf = [] /\ t_taxon leaf = Some a /\
                 tget2 a a (p_mrca p) = Some (t_id leaf).
Proof. exact pdm_zero_diag_p. Qed.
Print Assumptions pdm_zero_diag.

(* The excluded shape: a tree that is a single node gives an empty matrix (the code initialises a
   taxon's row when it is first seen from its parent). *)
Theorem pdm_single_node : forall i x lb e,
  exists p, compile_from_tree (T i x lb e []) = Ok p /\
    p_dist p = [] /\ p_steps p = [] /\ p_mrca p = [] /\ p_mapped p = [] /\ p_pairs p = [] /\
    p_num_edges p = 1 /\ p_tree_length p = total_length (T i x lb e []).
Proof. exact pdm_single_node_p. Qed.
Print Assumptions pdm_single_node.
