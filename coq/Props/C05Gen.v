(* C05, translator tie, wave 5: the TreeArray functions that RETURN a tree.
   Gen/SplitDistTa.v is regenerated on every run from the AST of treecollectionmodel.py (and one
   fact from treemodel/_tree.py) by py/dv/gen_splitdist_ta.py (fail closed).  The theorems state
   that the generated functions equal the hand model Model/C05Model3.v (itself written over
   ta_scores / summarize_tree / consensus of Model/C05Model.v), and restate the property for the
   generated code.  Trusted: the primitives of Model/C05GenPrims3.v (the object
   Tree.from_split_bitmasks returns, py_rtree_target: which split bitmask each of its nodes
   carries when it is summarised with is_bipartitions_updated=True; index by None; dict(zip)).
   sd_ok: the split dictionaries have distinct keys and at least one tree was counted. *)
From Coq Require Import ZArith QArith Qabs List Bool String.
From DV Require Import Model.PyPrims Gen.BitFns Gen.Consts Model.C05Model Model.C05Spec Model.C05Model2
     Model.C05GenPrims Model.C05GenPrims2 Model.C05GenPrims3 Model.C05Model3 Gen.SplitDist Gen.SplitDistTa
     Proofs.C05Lists Proofs.C05Laminar Proofs.C05GenTa Proofs.C05GenTa2.
Import ListNotations.
Open Scope Z_scope.

(* SplitDistribution.summarize_splits_on_tree: configure the decorator with the keyword options and
   run SplitDistributionSummarizer.summarize_splits_on_tree (translated in Gen/SplitDist.v) *)
Theorem gen_sd_summarize_splits_on_tree_is_summarizer :
  forall (c : config) (x : sdx) (t : stree) (b : bool) (o : sopts),
  gen_sd_summarize_splits_on_tree c x t b o = gen_summarize_splits_on_tree c o x t b.
Proof. exact gen_sd_summarize_splits_on_tree_eq. Qed.
Print Assumptions gen_sd_summarize_splits_on_tree_is_summarizer.

(* TreeArray.restore_tree(index, summarize_splits_on_tree=b, **o): index None raises TypeError, an
   index past the end IndexError; otherwise the tree from_split_bitmasks builds from the stored
   splits (edge lengths keyed by split unless the array ignores them), summarised when asked *)
Theorem gen_restore_tree_is_model :
  forall (c : config) (a : ta) (all : Z) (bits : list Z) (i : nat) (b : bool) (o : sopts),
  NoDup (map fst (counts (ta_sd a))) /\ NoDup (map fst (elens (ta_sd a))) /\
  NoDup (map fst (nages (ta_sd a))) /\ total (ta_sd a) <> 0 ->
  gen_restore_tree c a all bits (Some (Z.of_nat i)) b o
  = restore_tree fsb_bipartition_passes_is_rooted c a all bits i b o.
Proof. exact gen_restore_tree_eq. Qed.
Print Assumptions gen_restore_tree_is_model.

Theorem gen_restore_tree_index_none :
  forall (c : config) (a : ta) (all : Z) (bits : list Z) (b : bool) (o : sopts),
  gen_restore_tree c a all bits None b o = Err TypeErr.
Proof. exact gen_restore_tree_none. Qed.
Print Assumptions gen_restore_tree_index_none.

(* maximum_product_of_split_support_tree / maximum_sum_of_split_support_tree: value or error of
   the model *)
Theorem gen_maximum_split_support_trees_are_model :
  forall (c : config) (a : ta) (all : Z) (bits : list Z) (ext summ : bool) (o : sopts),
  NoDup (map fst (counts (ta_sd a))) /\ NoDup (map fst (elens (ta_sd a))) /\
  NoDup (map fst (nages (ta_sd a))) /\ total (ta_sd a) <> 0 ->
  gen_maximum_product_of_split_support_tree c a all bits ext summ o
  = mcc_tree fsb_bipartition_passes_is_rooted true c a all bits ext summ o /\
  gen_maximum_sum_of_split_support_tree c a all bits ext summ o
  = mcc_tree fsb_bipartition_passes_is_rooted false c a all bits ext summ o.
Proof.
  exact (fun c a all bits ext summ o OK =>
           conj (gen_maximum_product_of_split_support_tree_eq c a all bits ext summ o OK)
                (gen_maximum_sum_of_split_support_tree_eq c a all bits ext summ o OK)).
Qed.
Print Assumptions gen_maximum_split_support_trees_are_model.

(* THE PROPERTY, of the generated code: the returned tree is the restored tree of the FIRST index
   attaining the maximum of the score list the array itself reports (no index scores higher, no
   earlier index scores as high), carries that score as its attribute, has that tree's clades
   (ta_restore: mcc_topology of Props/C05.v applies) and the array's rooting; without
   summarisation nothing else is written and the array's distribution only gains its frequency
   cache.  (Product scores: exact products, see the log-accumulator convention.) *)
Theorem gen_mcc_tree_is_argmax :
  forall (product : bool) (c : config) (a : ta) (all : Z) (bits : list Z) (ext summ : bool) (o : sopts)
         (a' : ta) (t : mtree),
  NoDup (map fst (counts (ta_sd a))) /\ NoDup (map fst (elens (ta_sd a))) /\
  NoDup (map fst (nages (ta_sd a))) /\ total (ta_sd a) <> 0 ->
  (if product then gen_maximum_product_of_split_support_tree c a all bits ext summ o
   else gen_maximum_sum_of_split_support_tree c a all bits ext summ o) = Ok (a', t) ->
  let scores := fst (snd (if product then gen_calculate_log_product_of_split_supports c a ext
                          else gen_calculate_sum_of_split_supports c a ext)) in
  exists i : nat,
    (i < List.length scores)%nat /\
    (forall k, (k < List.length scores)%nat -> (nth k scores 0%Q <= nth i scores 0%Q)%Q) /\
    (forall k, (k < i)%nat -> (nth k scores 0%Q < nth i scores 0%Q)%Q) /\
    mt_score t = Some (nth i scores 0%Q) /\
    rt_clades (mt_tree t) = ta_restore a all i /\
    rt_tree (mt_tree t) = fsb_tree all bits (truthy (ta_rooting a)) (nth i (ta_splits a) []) /\
    rt_rooting (mt_tree t) = ta_rooting a /\
    (summ = false -> mt_nodes t = None /\ ta_sd a' = fst (get_freqs (ta_sd a))).
Proof. exact gen_mcc_tree_is_argmax_l. Qed.
Print Assumptions gen_mcc_tree_is_argmax.

(* with summarize_splits (the default) every node of the returned tree carries the exact frequency
   (x100 under support_as_percentages) of the split bitmask its edge's Bipartition holds; which
   bitmask that is, is py_rtree_target (next theorem for rooted arrays) *)
Theorem gen_mcc_tree_support :
  forall (product : bool) (c : config) (ts : list tree_in) (a : ta) (all : Z) (bits : list Z) (ext : bool)
         (o : sopts) (a' : ta) (t : mtree) (nodes : list nodev),
  ta_sd a = count_trees c sd_empty ts ->
  (forall t0, In t0 ts -> NoDup (splits_of t0)) ->
  ignore_len c = false -> ignore_ages c = false ->
  NoDup (map fst (counts (ta_sd a))) /\ NoDup (map fst (elens (ta_sd a))) /\
  NoDup (map fst (nages (ta_sd a))) /\ total (ta_sd a) <> 0 ->
  (if product then gen_maximum_product_of_split_support_tree c a all bits ext true o
   else gen_maximum_sum_of_split_support_tree c a all bits ext true o) = Ok (a', t) ->
  mt_nodes t = Some nodes ->
  Forall2 (fun node v =>
             nv_split v = sn_split node /\
             exists q, nv_support v = Some q /\
                       (q == (if o_percent o then 100 else 1) * exact_freq c ts (sn_split node))%Q)
          (st_preorder (py_rtree_target fsb_bipartition_passes_is_rooted all (mt_tree t))) nodes.
Proof. exact gen_mcc_tree_support_l. Qed.
Print Assumptions gen_mcc_tree_support.

(* support annotations of the maximum-credibility tree of a ROOTED array, decided by the fact read
   off Tree.from_split_bitmasks: when the inserted nodes' bipartitions are built with the tree's
   rooting, every node (listed by clade mask, preorder) carries the exact frequency of its clade
   (x100 under support_as_percentages); when they are not (the working tree before repair
   1507fc88), three copies of (((a,b),c),(d,e)) give the node of clade {a,b} (frequency 1) the
   bitmask 28 = {c,d,e} and support 0: known finding mcc-rooted-support-normalized-split *)
Theorem gen_mcc_rooted_support :
  if fsb_bipartition_passes_is_rooted
  then forall (product : bool) (c : config) (ts : list tree_in) (a : ta) (all : Z) (bits : list Z) (ext : bool)
              (o : sopts) (a' : ta) (t : mtree) (nodes : list nodev),
      ta_sd a = count_trees c sd_empty ts ->
      (forall t0, In t0 ts -> NoDup (splits_of t0)) ->
      ignore_len c = false -> ignore_ages c = false ->
      NoDup (map fst (counts (ta_sd a))) /\ NoDup (map fst (elens (ta_sd a))) /\
      NoDup (map fst (nages (ta_sd a))) /\ total (ta_sd a) <> 0 ->
      ta_rooting a = Some true ->
      (if product then gen_maximum_product_of_split_support_tree c a all bits ext true o
       else gen_maximum_sum_of_split_support_tree c a all bits ext true o) = Ok (a', t) ->
      mt_nodes t = Some nodes ->
      Forall2 (fun (clade : Z) v =>
                 nv_split v = clade /\
                 exists q, nv_support v = Some q /\
                           (q == (if o_percent o then 100 else 1) * exact_freq c ts clade)%Q)
              (ct_masks (rt_tree (mt_tree t))) nodes
  else forall product : bool,
      exists a' t,
        (if product then gen_maximum_product_of_split_support_tree wit_cfg wit_ta 31 wit_bits false true wit_opts
         else gen_maximum_sum_of_split_support_tree wit_cfg wit_ta 31 wit_bits false true wit_opts) = Ok (a', t) /\
        ct_masks (rt_tree (mt_tree t)) = [31; 7; 4; 3; 1; 2; 24; 8; 16] /\
        node_view t = [(31, Some 1%Q); (24, Some 1%Q); (4, Some 1%Q); (28, Some 0%Q); (1, Some 1%Q); (2, Some 1%Q);
                       (24, Some 1%Q); (8, Some 1%Q); (16, Some 1%Q)] /\
        Qeq_bool (exact_freq wit_cfg [wit_tree; wit_tree; wit_tree] 3) 1 = true.
Proof.
  generalize mcc_rooted_support_exact mcc_rooted_support_refuted.
  destruct fsb_bipartition_passes_is_rooted; intros E R; [exact (E eq_refl) | exact (R eq_refl)].
Qed.
Print Assumptions gen_mcc_rooted_support.

(* TreeArray.consensus_tree: the distribution's consensus_tree with is_rooted = the array's
   rooting (is_rooted_trees is the plain property of _is_rooted_trees: checked by the translator) *)
Theorem gen_ta_consensus_tree_is_model :
  forall (c : config) (a : ta) (all : Z) (bits : list Z) (mf : option Q) (b : bool) (o : sopts),
  NoDup (map fst (counts (ta_sd a))) ->
  (forall tbl, freqs (ta_sd a) = Some tbl -> NoDup (map fst tbl)) ->
  gen_ta_consensus_tree c a all bits mf b o = Ok (ta_consensus a all bits mf).
Proof. exact gen_ta_consensus_tree_eq. Qed.
Print Assumptions gen_ta_consensus_tree_is_model.
