(* C05, translator tie, wave 5: the TreeArray functions that RETURN a tree.
   Gen/SplitDistTa.v is regenerated on every run from the AST of treecollectionmodel.py (and one
   fact from treemodel/_tree.py) by py/dv/gen_splitdist_ta.py (fail closed).  The theorems state
   that the generated functions equal the hand model Model/C05Model3.v (itself written over
   ta_scores / summarize_tree / consensus of Model/C05Model.v), and restate the property for the
   generated code.  Trusted: the primitives of Model/C05GenPrims3.v (the object
   Tree.from_split_bitmasks returns, py_rtree_target: which split bitmask each of its nodes
   carries when it is summarised with is_bipartitions_updated=True; index by None; dict(zip)).
   sd_ok: the split dictionaries have distinct keys and at least one tree was counted. *)
From Coq Require Import ZArith QArith Qabs List Bool String.
From DV Require Import Model.PyPrims Gen.BitFns Gen.Consts Model.C05Model Model.C05Spec Model.C05Model2
     Model.C05GenPrims Model.C05GenPrims2 Model.C05GenPrims3 Model.C05Model3 Gen.SplitDist Gen.SplitDistTa
     Proofs.C05Lists Proofs.C05Laminar Proofs.C05GenTa Proofs.C05GenTa2.
From DV Require Import Model.C05GenPrims4 Model.C05Model4 Gen.SplitDistDeco Model.C05Merge
     Proofs.C05GenDeco Proofs.C05DecoProps Proofs.C05DecoModes Proofs.C05MergeProofs.
Import ListNotations.
Open Scope Z_scope.

(* SplitDistribution.summarize_splits_on_tree: configure the decorator with the keyword options and
   run SplitDistributionSummarizer.summarize_splits_on_tree (translated in Gen/SplitDist.v) *)
Theorem gen_sd_summarize_splits_on_tree_is_summarizer :
  forall (c : config) (x : sdx) (t : stree) (b : bool) (o : sopts),
  gen_sd_summarize_splits_on_tree c x t b o = gen_summarize_splits_on_tree c o x t b.
Proof. exact gen_sd_summarize_splits_on_tree_eq. Qed.
Print Assumptions gen_sd_summarize_splits_on_tree_is_summarizer.

(* TreeArray.restore_tree(index, summarize_splits_on_tree=b, **o): index None raises TypeError, an
   index past the end IndexError; otherwise the tree from_split_bitmasks builds from the stored
   splits (edge lengths keyed by split unless the array ignores them), summarised when asked *)
Theorem gen_restore_tree_is_model :
  forall (c : config) (a : ta) (all : Z) (bits : list Z) (i : nat) (b : bool) (o : sopts),
  NoDup (map fst (counts (ta_sd a))) /\ NoDup (map fst (elens (ta_sd a))) /\
  NoDup (map fst (nages (ta_sd a))) /\ total (ta_sd a) <> 0 ->
  gen_restore_tree c a all bits (Some (Z.of_nat i)) b o
  = restore_tree fsb_bipartition_passes_is_rooted c a all bits i b o.
Proof. exact gen_restore_tree_eq. Qed.
Print Assumptions gen_restore_tree_is_model.

Theorem gen_restore_tree_index_none :
  forall (c : config) (a : ta) (all : Z) (bits : list Z) (b : bool) (o : sopts),
  gen_restore_tree c a all bits None b o = Err TypeErr.
Proof. exact gen_restore_tree_none. Qed.
Print Assumptions gen_restore_tree_index_none.

(* maximum_product_of_split_support_tree / maximum_sum_of_split_support_tree: value or error of
   the model *)
Theorem gen_maximum_split_support_trees_are_model :
  forall (c : config) (a : ta) (all : Z) (bits : list Z) (ext summ : bool) (o : sopts),
  NoDup (map fst (counts (ta_sd a))) /\ NoDup (map fst (elens (ta_sd a))) /\
  NoDup (map fst (nages (ta_sd a))) /\ total (ta_sd a) <> 0 ->
  gen_maximum_product_of_split_support_tree c a all bits ext summ o
  = mcc_tree fsb_bipartition_passes_is_rooted true c a all bits ext summ o /\
  gen_maximum_sum_of_split_support_tree c a all bits ext summ o
  = mcc_tree fsb_bipartition_passes_is_rooted false c a all bits ext summ o.
Proof.
  exact (fun c a all bits ext summ o OK =>
           conj (gen_maximum_product_of_split_support_tree_eq c a all bits ext summ o OK)
                (gen_maximum_sum_of_split_support_tree_eq c a all bits ext summ o OK)).
Qed.
Print Assumptions gen_maximum_split_support_trees_are_model.

(* THE PROPERTY, of the generated code: the returned tree is the restored tree of the FIRST index
   attaining the maximum of the score list the array itself reports (no index scores higher, no
   earlier index scores as high), carries that score as its attribute, has that tree's clades
   (ta_restore: mcc_topology of Props/C05.v applies) and the array's rooting; without
   summarisation nothing else is written and the array's distribution only gains its frequency
   cache.  (Product scores: exact products, see the log-accumulator convention.) *)
Theorem gen_mcc_tree_is_argmax :
  forall (product : bool) (c : config) (a : ta) (all : Z) (bits : list Z) (ext summ : bool) (o : sopts)
         (a' : ta) (t : mtree),
  NoDup (map fst (counts (ta_sd a))) /\ NoDup (map fst (elens (ta_sd a))) /\
  NoDup (map fst (nages (ta_sd a))) /\ total (ta_sd a) <> 0 ->
  (if product then gen_maximum_product_of_split_support_tree c a all bits ext summ o
   else gen_maximum_sum_of_split_support_tree c a all bits ext summ o) = Ok (a', t) ->
  let scores := fst (snd (if product then gen_calculate_log_product_of_split_supports c a ext
                          else gen_calculate_sum_of_split_supports c a ext)) in
  exists i : nat,
    (i < List.length scores)%nat /\
    (forall k, (k < List.length scores)%nat -> (nth k scores 0%Q <= nth i scores 0%Q)%Q) /\
    (forall k, (k < i)%nat -> (nth k scores 0%Q < nth i scores 0%Q)%Q) /\
    mt_score t = Some (nth i scores 0%Q) /\
    rt_clades (mt_tree t) = ta_restore a all i /\
    rt_tree (mt_tree t) = fsb_tree all bits (truthy (ta_rooting a)) (nth i (ta_splits a) []) /\
    rt_rooting (mt_tree t) = ta_rooting a /\
    (summ = false -> mt_nodes t = None /\ ta_sd a' = fst (get_freqs (ta_sd a))).
Proof. exact gen_mcc_tree_is_argmax_l. Qed.
Print Assumptions gen_mcc_tree_is_argmax.

(* with summarize_splits (the default) every node of the returned tree carries the exact frequency
   (x100 under support_as_percentages) of the split bitmask its edge's Bipartition holds; which
   bitmask that is, is py_rtree_target (next theorem for rooted arrays) *)
Theorem gen_mcc_tree_support :
  forall (product : bool) (c : config) (ts : list tree_in) (a : ta) (all : Z) (bits : list Z) (ext : bool)
         (o : sopts) (a' : ta) (t : mtree) (nodes : list nodev),
  ta_sd a = count_trees c sd_empty ts ->
  (forall t0, In t0 ts -> NoDup (splits_of t0)) ->
  ignore_len c = false -> ignore_ages c = false ->
  NoDup (map fst (counts (ta_sd a))) /\ NoDup (map fst (elens (ta_sd a))) /\
  NoDup (map fst (nages (ta_sd a))) /\ total (ta_sd a) <> 0 ->
  (if product then gen_maximum_product_of_split_support_tree c a all bits ext true o
   else gen_maximum_sum_of_split_support_tree c a all bits ext true o) = Ok (a', t) ->
  mt_nodes t = Some nodes ->
  Forall2 (fun node v =>
             nv_split v = sn_split node /\
             exists q, nv_support v = Some q /\
                       (q == (if o_percent o then 100 else 1) * exact_freq c ts (sn_split node))%Q)
          (st_preorder (py_rtree_target fsb_bipartition_passes_is_rooted all (mt_tree t))) nodes.
Proof. exact gen_mcc_tree_support_l. Qed.
Print Assumptions gen_mcc_tree_support.

(* support annotations of the maximum-credibility tree of a ROOTED array, decided by the fact read
   off Tree.from_split_bitmasks: when the inserted nodes' bipartitions are built with the tree's
   rooting, every node (listed by clade mask, preorder) carries the exact frequency of its clade
   (x100 under support_as_percentages); when they are not (the working tree before repair
   1507fc88), three copies of (((a,b),c),(d,e)) give the node of clade {a,b} (frequency 1) the
   bitmask 28 = {c,d,e} and support 0: known finding mcc-rooted-support-normalized-split *)
Theorem gen_mcc_rooted_support :
  if fsb_bipartition_passes_is_rooted
  then forall (product : bool) (c : config) (ts : list tree_in) (a : ta) (all : Z) (bits : list Z) (ext : bool)
              (o : sopts) (a' : ta) (t : mtree) (nodes : list nodev),
      ta_sd a = count_trees c sd_empty ts ->
      (forall t0, In t0 ts -> NoDup (splits_of t0)) ->
      ignore_len c = false -> ignore_ages c = false ->
      NoDup (map fst (counts (ta_sd a))) /\ NoDup (map fst (elens (ta_sd a))) /\
      NoDup (map fst (nages (ta_sd a))) /\ total (ta_sd a) <> 0 ->
      ta_rooting a = Some true ->
      (if product then gen_maximum_product_of_split_support_tree c a all bits ext true o
       else gen_maximum_sum_of_split_support_tree c a all bits ext true o) = Ok (a', t) ->
      mt_nodes t = Some nodes ->
      Forall2 (fun (clade : Z) v =>
                 nv_split v = clade /\
                 exists q, nv_support v = Some q /\
                           (q == (if o_percent o then 100 else 1) * exact_freq c ts clade)%Q)
              (ct_masks (rt_tree (mt_tree t))) nodes
  else forall product : bool,
      exists a' t,
        (if product then gen_maximum_product_of_split_support_tree wit_cfg wit_ta 31 wit_bits false true wit_opts
         else gen_maximum_sum_of_split_support_tree wit_cfg wit_ta 31 wit_bits false true wit_opts) = Ok (a', t) /\
        ct_masks (rt_tree (mt_tree t)) = [31; 7; 4; 3; 1; 2; 24; 8; 16] /\
        node_view t = [(31, Some 1%Q); (24, Some 1%Q); (4, Some 1%Q); (28, Some 0%Q); (1, Some 1%Q); (2, Some 1%Q);
                       (24, Some 1%Q); (8, Some 1%Q); (16, Some 1%Q)] /\
        Qeq_bool (exact_freq wit_cfg [wit_tree; wit_tree; wit_tree] 3) 1 = true.
Proof.
  generalize mcc_rooted_support_exact mcc_rooted_support_refuted.
  destruct fsb_bipartition_passes_is_rooted; intros E R; [exact (E eq_refl) | exact (R eq_refl)].
Qed.
Print Assumptions gen_mcc_rooted_support.

(* TreeArray.consensus_tree: the distribution's consensus_tree with is_rooted = the array's
   rooting (is_rooted_trees is the plain property of _is_rooted_trees: checked by the translator) *)
Theorem gen_ta_consensus_tree_is_model :
  forall (c : config) (a : ta) (all : Z) (bits : list Z) (mf : option Q) (b : bool) (o : sopts),
  NoDup (map fst (counts (ta_sd a))) ->
  (forall tbl, freqs (ta_sd a) = Some tbl -> NoDup (map fst tbl)) ->
  gen_ta_consensus_tree c a all bits mf b o = Ok (ta_consensus a all bits mf).
Proof. exact gen_ta_consensus_tree_eq. Qed.
Print Assumptions gen_ta_consensus_tree_is_model.

(* ====================================================================================== *)
(* wave 6: SplitDistributionSummarizer.configure / _decorate / the decoration statements of
   summarize_splits_on_tree (Gen/SplitDistDeco.v, regenerated from the AST on every run by
   py/dv/gen_splitdist_deco.py, fail closed) and the set_edge_lengths modes.
   Trusted: the primitives of Model/C05GenPrims4.v (setattr / annotations.drop / add_bound_attribute /
   add_new on an object, "{}".format, the fixed-point format with its rounding round_half_even,
   kwargs.pop, getattr on the summarizer, dict.get on a summary).  Floats are exact rationals. *)

(* configure: the generated function is the model's record of options ... *)
Theorem gen_configure_is_model : forall kw : skw, gen_configure kw = configure kw.
Proof. exact gen_configure_eq. Qed.
Print Assumptions gen_configure_is_model.

(* ... and the DEFAULTS (no keyword given), read off the AST: no edge lengths set, support as
   attribute AND annotation, no label, age / length summaries as attributes and annotations, 4 label
   decimals, proportions not percentages, no compose function, the statistics field names, the
   no-data values, every field written under its own name as a dynamically bound annotation, no
   minimum edge length, negative edge lengths tolerated *)
Theorem gen_configure_defaults :
  let o := gen_configure skw_empty in
  d_set_edge_lengths o = ELNone /\
  d_add_support_as_node_attribute o = true /\ d_add_support_as_node_annotation o = true /\
  d_set_support_as_node_label o = None /\
  d_add_node_age_summaries_as_node_attributes o = true /\ d_add_node_age_summaries_as_node_annotations o = true /\
  d_add_edge_length_summaries_as_edge_attributes o = true /\ d_add_edge_length_summaries_as_edge_annotations o = true /\
  d_support_label_decimals o = 4 /\ d_support_as_percentages o = false /\ d_support_label_compose_fn o = None /\
  d_summary_stats_fieldnames o = ["mean"; "median"; "sd"; "hpd95"; "quant_5_95"; "range"]%string /\
  d_no_data_values o = [("hpd95", DEmptyList); ("quant_5_95", DEmptyList); ("range", DEmptyList)]%string /\
  d_node_age_summaries_fieldnames o = ["age_mean"; "age_median"; "age_sd"; "age_hpd95"; "age_quant_5_95"; "age_range"]%string /\
  d_edge_length_summaries_fieldnames o
    = ["length_mean"; "length_median"; "length_sd"; "length_hpd95"; "length_quant_5_95"; "length_range"]%string /\
  (forall f, In f (d_fieldnames o) ->
             py_getattr_str o (py_format1 "{}_attr_name" f) = Ok f /\
             py_getattr_str o (py_format1 "{}_annotation_name" f) = Ok f /\
             py_getattr_truth o (py_format1 "is_{}_annotation_dynamic" f) = Ok true) /\
  d_minimum_edge_length o = None /\ d_error_on_negative_edge_lengths o = false.
Proof.
  cbv zeta. repeat (split; [reflexivity|]). split; [|split; reflexivity].
  intros f I. vm_compute in I.
  repeat (destruct I as [<- | I]; [vm_compute; repeat split |]). contradiction.
Qed.
Print Assumptions gen_configure_defaults.

(* _decorate: the names are looked up on the summarizer; set_attribute -> setattr(target, attr, value);
   set_annotation -> every annotation of that name is dropped and ONE is added: bound to the attribute
   when the attribute was set and the field is dynamic, else carrying the value; neither flag: nothing *)
Theorem gen_decorate_is_model :
  forall (o : dopts) (t : deco) (f : string) (v : dval) (sa sn : bool),
  gen_decorate o t f v sa sn
  = bind (py_getattr_str o (py_format1 "{}_attr_name" f)) (fun a =>
    bind (py_getattr_str o (py_format1 "{}_annotation_name" f)) (fun n =>
    if sa && sn
    then bind (py_getattr_truth o (py_format1 "is_{}_annotation_dynamic" f)) (fun d =>
         Ok (if d then py_add_bound_attribute (py_annotations_drop (py_setattr t a v) n) a n
             else py_add_new (py_annotations_drop (py_setattr t a v) n) n v))
    else Ok (if sa then py_setattr t a v
             else if sn then py_add_new (py_annotations_drop t n) n v else t))).
Proof.
  intros. rewrite gen_decorate_eq. unfold decorate.
  destruct (py_getattr_str o (py_format1 "{}_attr_name" f)) as [a| |]; cbn [bind]; try reflexivity.
  destruct (py_getattr_str o (py_format1 "{}_annotation_name" f)) as [n| |]; cbn [bind]; try reflexivity.
  destruct sa, sn; reflexivity.
Qed.
Print Assumptions gen_decorate_is_model.

(* the decoration statements of summarize_splits_on_tree, EVERY option setting (custom names included):
   value or error of the model Model/C05Model4.deco_tree; the distribution only gains its caches *)
Theorem gen_decoration_view_is_model :
  forall (c : config) (o : dopts) (x : sdx) (t : list dnode) (b : bool),
  NoDup (map fst (counts (x_sd x))) -> NoDup (map fst (elens (x_sd x))) -> NoDup (map fst (nages (x_sd x))) ->
  x_counted_for_summ x <> total (x_sd x) ->
  match snd (deco_tree (x_sd x) o t) with
  | Ok outs => exists x', gen_decoration_view c o x t b = Ok (x', outs) /\ x_sd x' = fst (deco_tree (x_sd x) o t)
  | Err e => gen_decoration_view c o x t b = Err e
  | OutOfFuel => False
  end.
Proof. exact gen_decoration_view_eq. Qed.
Print Assumptions gen_decoration_view_is_model.

(* THE PROPERTY on the generated code (default field names, every other option free): for every node
   of the target tree, in preorder,
     - sup = the exact (weighted) frequency of ITS split over the counted trees, x100 under
       support_as_percentages;
     - for EVERY attribute name k: the node object's attribute k afterwards is the age_<stat> value of
       the split's summary when k is such a name, add_node_age_summaries_as_node_attributes is set and
       some split has an age summary; DFloat sup when k = "support" and add_support_as_node_attribute;
       otherwise WHAT IT WAS BEFORE (frame) - likewise the edge object with length_<stat>,
       add_edge_length_summaries_as_edge_attributes; the edge never receives support / age_*, the
       node never length_*;
     - for EVERY annotation name k: the annotations called k afterwards are exactly one fresh
       annotation (bound to the attribute when the attribute flag is set, else carrying the value)
       when the corresponding *_annotation(s) flag asks for it, otherwise those that were there;
     - node.label is the formatted support iff set_support_as_node_label is true, else untouched. *)
Theorem gen_decorations_exact :
  forall (c : config) (ts : list tree_in) (kw : skw) (x : sdx) (t : list dnode) (b : bool) (x' : sdx) (outs : list dnode),
  kw_dyn kw = [] ->
  x_sd x = count_trees c sd_empty ts ->
  (forall t0, In t0 ts -> NoDup (splits_of t0)) ->
  ignore_len c = false -> ignore_ages c = false ->
  x_counted_for_summ x <> total (x_sd x) ->
  gen_decoration_view c (gen_configure kw) x t b = Ok (x', outs) ->
  let o := gen_configure kw in
  let lsum := calc_summaries (elens (count_trees c sd_empty ts)) in
  let asum := calc_summaries (nages (count_trees c sd_empty ts)) in
  let stat := fun (prefix k : string) =>
                find (fun st => String.eqb k (prefix ++ st)) ["mean"; "median"; "sd"; "hpd95"; "quant_5_95"; "range"]%string in
  let fresh_annot := fun (f : string) (v : dval) (attr_set : bool) =>
                       if attr_set then mkAnn f (Some f) None else mkAnn f None (Some v) in
  let named := fun (k : string) (l : list annot) => filter (fun a => String.eqb (an_name a) k) l in
  Forall2 (fun n n' =>
     dn_split n' = dn_split n /\
     exists sup : Q,
       (sup == (if d_support_as_percentages o then 100 else 1) * exact_freq c ts (dn_split n))%Q /\
       (forall k, sget k (dc_attrs (dn_node n')) =
          match (if d_add_node_age_summaries_as_node_attributes o && nonempty asum then stat "age_"%string k else None) with
          | Some st => Some (field_value asum (d_no_data_values o) (dn_split n) st)
          | None => if d_add_support_as_node_attribute o && String.eqb k "support" then Some (DFloat sup)
                    else sget k (dc_attrs (dn_node n))
          end) /\
       (forall k, named k (dc_annots (dn_node n')) =
          match (if d_add_node_age_summaries_as_node_annotations o && nonempty asum then stat "age_"%string k else None) with
          | Some st => [fresh_annot ("age_" ++ st)%string (field_value asum (d_no_data_values o) (dn_split n) st)
                                    (d_add_node_age_summaries_as_node_attributes o)]
          | None => if d_add_support_as_node_annotation o && String.eqb k "support"
                    then [fresh_annot "support"%string (DFloat sup) (d_add_support_as_node_attribute o)]
                    else named k (dc_annots (dn_node n))
          end) /\
       (forall k, sget k (dc_attrs (dn_edge n')) =
          match (if d_add_edge_length_summaries_as_edge_attributes o && nonempty lsum then stat "length_"%string k else None) with
          | Some st => Some (field_value lsum (d_no_data_values o) (dn_split n) st)
          | None => sget k (dc_attrs (dn_edge n))
          end) /\
       (forall k, named k (dc_annots (dn_edge n')) =
          match (if d_add_edge_length_summaries_as_edge_annotations o && nonempty lsum then stat "length_"%string k else None) with
          | Some st => [fresh_annot ("length_" ++ st)%string (field_value lsum (d_no_data_values o) (dn_split n) st)
                                    (d_add_edge_length_summaries_as_edge_attributes o)]
          | None => named k (dc_annots (dn_edge n))
          end) /\
       (truthy (d_set_support_as_node_label o) = false -> dn_label n' = dn_label n) /\
       (truthy (d_set_support_as_node_label o) = true ->
        exists l, dn_label n' = Some l /\
                  match d_support_label_compose_fn o with
                  | Some _ => l = LComposed sup
                  | None => exists txt, l = LStr txt /\ py_format_fixed sup (d_support_label_decimals o) = Ok txt
                  end))
    t outs.
Proof.
  intros c ts kw x t b x' outs E Ex ND IL IA NE G.
  pose proof (gen_decorations_exact_l c ts kw x t b x' outs E Ex ND IL IA NE G) as F. cbv zeta in F |- *.
  eapply Forall2_imp; [|exact F]. intros n n' [H1 [sup [H2 [H3 [H4 [H5 [H6 [H7 H8]]]]]]]].
  split; [exact H1|]. exists sup. repeat (split; [assumption|]).
  intro T. destruct (H8 T) as [l [L1 L2]]. exists l. split; [exact L2|].
  unfold label_of, py_label_format in L1. destruct (d_support_label_compose_fn (gen_configure kw)).
  - now inversion L1.
  - destruct (py_format_fixed sup (d_support_label_decimals (gen_configure kw))) as [txt| |]; inversion L1. now exists txt.
Qed.
Print Assumptions gen_decorations_exact.

(* hypotheses satisfiable and the statement not vacuous: three rooted trees, defaults, labels with 2 decimals *)
Example gen_decoration_view_example :
  exists x' outs, gen_decoration_view ex_cfg (gen_configure ex_kw) ex_x ex_target false = Ok (x', outs) /\
    map dn_label outs = [Some (LStr "1.00"); Some (LStr "0.67"); Some (LStr "1.00"); Some (LStr "1.00"); Some (LStr "1.00")] /\
    map (fun n => sget "support" (dc_attrs (dn_node n))) outs
      = [Some (DFloat 1); Some (DFloat (2 # 3)); Some (DFloat 1); Some (DFloat 1); Some (DFloat 1)] /\
    map (fun n => sget "length_mean" (dc_attrs (dn_edge n))) outs
      = [Some (DFloat 0); Some (DFloat 1); Some (DFloat 1); Some (DFloat (4 # 3)); Some (DFloat (5 # 3))].
Proof. exact ex_decoration_view. Qed.

(* the label format: fixed point with `places` digits, the scaled absolute value rounded HALF-EVEN
   (round_half_even n: |n - x| <= 1/2 and n is even at a tie); negative places raise ValueError *)
Theorem label_format_rounding :
  (forall (x : Q) (p : Z), 0 <= p ->
     py_format_fixed x p = Ok (fixed_string (Qle_bool 0 x) (round_half_even (Qabs x * inject_Z (10 ^ p))%Q) p)) /\
  (forall (x : Q) (p : Z), p < 0 -> py_format_fixed x p = Err ValueErr) /\
  (forall x : Q, let n := round_half_even x in
     2 * Z.abs (n * Zpos (Qden x) - Qnum x) <= Zpos (Qden x) /\
     (2 * Z.abs (n * Zpos (Qden x) - Qnum x) = Zpos (Qden x) -> Z.even n = true)).
Proof.
  split; [|split].
  - intros x p H. unfold py_format_fixed. apply Z.ltb_ge in H. now rewrite H.
  - intros x p H. unfold py_format_fixed. apply Z.ltb_lt in H. now rewrite H.
  - exact round_half_even_spec.
Qed.
Print Assumptions label_format_rounding.

(* the values behind length_<stat> / age_<stat>: statistics.summarize of the lengths (ages) recorded
   for the split over EXACTLY the trees containing it, in counting order (summarize_exact / median_exact
   of Props/C05.v say what mean, variance, median and range of that list are) *)
Theorem gen_decoration_length_values : forall (c : config) (ts : list tree_in) (s : Z) (xs : list Q),
  ignore_len c = false ->
  all_some (values_of (rec_len c) s ts) = Some xs -> xs <> [] ->
  exists sm, summarize xs = Ok sm /\
    forall nodata,
      let fv := field_value (calc_summaries (elens (count_trees c sd_empty ts))) nodata s in
      fv "mean"%string = DFloat (s_mean sm) /\ fv "median"%string = DFloat (s_median sm) /\
      fv "sd"%string = DSqrt (s_var sm) /\ fv "range"%string = DPair (s_min sm) (s_max sm) /\
      fv "hpd95"%string = DOpaque "hpd95" /\ fv "quant_5_95"%string = DOpaque "quant_5_95".
Proof. exact deco_length_values_l. Qed.
Print Assumptions gen_decoration_length_values.

Theorem gen_decoration_age_values : forall (c : config) (ts : list tree_in) (s : Z) (xs : list Q),
  ignore_ages c = false ->
  all_some (values_of r_age s ts) = Some xs -> xs <> [] ->
  exists sm, summarize xs = Ok sm /\
    forall nodata,
      let fv := field_value (calc_summaries (nages (count_trees c sd_empty ts))) nodata s in
      fv "mean"%string = DFloat (s_mean sm) /\ fv "median"%string = DFloat (s_median sm) /\
      fv "sd"%string = DSqrt (s_var sm) /\ fv "range"%string = DPair (s_min sm) (s_max sm) /\
      fv "hpd95"%string = DOpaque "hpd95" /\ fv "quant_5_95"%string = DOpaque "quant_5_95".
Proof. exact deco_age_values_l. Qed.
Print Assumptions gen_decoration_age_values.

(* a split no counted tree contains gets the no-data values: 0.0 for mean / median / sd, [] for the rest *)
Theorem gen_decoration_no_data_values : forall (c : config) (ts : list tree_in) (s : Z) (kw : skw),
  ignore_len c = false -> values_of (rec_len c) s ts = [] ->
  let fv := field_value (calc_summaries (elens (count_trees c sd_empty ts))) (d_no_data_values (gen_configure kw)) s in
  fv "mean"%string = DFloat 0 /\ fv "median"%string = DFloat 0 /\ fv "sd"%string = DFloat 0 /\
  fv "range"%string = DEmptyList /\ fv "hpd95"%string = DEmptyList /\ fv "quant_5_95"%string = DEmptyList.
Proof. exact deco_no_data_values_l. Qed.
Print Assumptions gen_decoration_no_data_values.

(* set_edge_lengths, the non-age modes, on the generated summarize_splits_on_tree of Gen/SplitDist.v: per
   node, None / "keep" leave the length, "clear" removes it, "support" writes the support,
   "mean-length" / "median-length" the mean / median of the split's LENGTH summary (0.0 without one),
   each raised to minimum_edge_length; node.age is never written *)
Theorem gen_set_edge_lengths_nonage :
  forall (c : config) (o : sopts) (x : sdx) (t : stree) (b : bool) (x' : sdx) (outs : list nodev),
  NoDup (map fst (counts (x_sd x))) -> NoDup (map fst (elens (x_sd x))) -> NoDup (map fst (nages (x_sd x))) ->
  x_counted_for_summ x <> total (x_sd x) ->
  is_age_mode (o_mode o) = false ->
  gen_summarize_splits_on_tree c o x t b = Ok (x', outs) ->
  let lsum := calc_summaries (elens (x_sd x)) in
  Forall2 (fun node v =>
     nv_split v = sn_split node /\ nv_age v = None /\
     nv_len v = match o_mode o with
                | ELNone | ELKeep => sn_len node
                | ELClear => None
                | ELSupport => Some (clamp_min (o_min_len o) (support_of (snd (get_freqs (x_sd x))) o (sn_split node)))
                | ELMeanLen => Some (clamp_min (o_min_len o)
                                       (match aget (sn_split node) lsum with Some sm => s_mean sm | None => 0%Q end))
                | ELMedianLen => Some (clamp_min (o_min_len o)
                                         (match aget (sn_split node) lsum with Some sm => s_median sm | None => 0%Q end))
                | ELMeanAge | ELMedianAge => sn_len node
                end)
    (st_preorder t) outs.
Proof. exact gen_lengths_nonage_l. Qed.
Print Assumptions gen_set_edge_lengths_nonage.

(* "mean-age" / "median-age": every node gets node.age = mean / median of the split's AGE summary (not of
   its lengths), every non-seed node the length parent.age - node.age raised to minimum_edge_length
   (st_pre_pa pairs each node in preorder with its parent's split) *)
Theorem gen_set_edge_lengths_age :
  forall (c : config) (o : sopts) (x : sdx) (t : stree) (b : bool) (x' : sdx) (outs : list nodev),
  NoDup (map fst (counts (x_sd x))) -> NoDup (map fst (elens (x_sd x))) -> NoDup (map fst (nages (x_sd x))) ->
  x_counted_for_summ x <> total (x_sd x) ->
  is_age_mode (o_mode o) = true ->
  gen_summarize_splits_on_tree c o x t b = Ok (x', outs) ->
  let asum := calc_summaries (nages (x_sd x)) in
  let age := fun s : Z => match o_mode o with
                          | ELMedianAge => match aget s asum with Some sm => s_median sm | None => 0%Q end
                          | _ => match aget s asum with Some sm => s_mean sm | None => 0%Q end
                          end in
  Forall2 (fun pn v =>
     nv_split v = sn_split (snd pn) /\
     nv_age v = Some (age (sn_split (snd pn))) /\
     nv_len v = match fst pn with
                | None => sn_len (snd pn)
                | Some p => Some (clamp_min (o_min_len o) (qminus (age p) (age (sn_split (snd pn)))))
                end)
    (st_pre_pa None t) outs.
Proof. exact gen_lengths_age_l. Qed.
Print Assumptions gen_set_edge_lengths_age.

(* ====================================================================================== *)
(* wave 6: merging collections.  Model/C05Merge.v: the per-split lists of split_edge_lengths /
   split_node_ages are OBJECTS in a heap; a distribution maps a split to the identity of its list.
   own me b t: the dict (distribution me, attribute b) has one entry per key and every entry holds the
   list that entry created. *)

(* SplitDistribution.update between two different distributions whose dicts own their lists: the
   target becomes C05Model.update of the abstractions; of the SOURCE every count, total, rooting
   set and cache field is unchanged and its two list tables only gain keys with EMPTY lists (the
   defaultdict read); every object of every third distribution is untouched *)
Theorem merge_update_refines :
  forall (hp : heap) (d o : hsd) (hp' : heap) (d' o' : hsd),
  h_self d <> h_self o ->
  own (h_self d) true (h_elens d) /\ own (h_self d) false (h_nages d) ->
  own (h_self o) true (h_elens o) /\ own (h_self o) false (h_nages o) ->
  hupdate hp d o = (hp', d', o') ->
  abs hp' d' = update (abs hp d) (abs hp o) /\
  (total (abs hp' o') = total (abs hp o) /\ sum_w (abs hp' o') = sum_w (abs hp o) /\
   rootings (abs hp' o') = rootings (abs hp o) /\ counts (abs hp' o') = counts (abs hp o) /\
   freqs (abs hp' o') = freqs (abs hp o) /\ counted_for_freqs (abs hp' o') = counted_for_freqs (abs hp o) /\
   (exists extra, elens (abs hp' o') = elens (abs hp o) ++ extra /\ Forall (fun kv => snd kv = []) extra) /\
   (exists extra, nages (abs hp' o') = nages (abs hp o) ++ extra /\ Forall (fun kv => snd kv = []) extra)) /\
  (own (h_self d') true (h_elens d') /\ own (h_self d') false (h_nages d')) /\
  (own (h_self o') true (h_elens o') /\ own (h_self o') false (h_nages o')) /\
  h_self d' = h_self d /\ h_self o' = h_self o /\
  (forall x : oid, fst (fst x) <> h_self d -> fst (fst x) <> h_self o -> hp' x = hp x).
Proof. exact hupdate_refines. Qed.
Print Assumptions merge_update_refines.

(* what that means for everything one can READ off the source: the frequency table, both summary
   tables and every per-split list are literally the same *)
Theorem merge_source_observables : forall a b : sd,
  (total b = total a /\ sum_w b = sum_w a /\ rootings b = rootings a /\ counts b = counts a /\
   freqs b = freqs a /\ counted_for_freqs b = counted_for_freqs a /\
   (exists extra, elens b = elens a ++ extra /\ Forall (fun kv => snd kv = []) extra) /\
   (exists extra, nages b = nages a ++ extra /\ Forall (fun kv => snd kv = []) extra)) ->
  snd (get_freqs b) = snd (get_freqs a) /\
  calc_summaries (elens b) = calc_summaries (elens a) /\
  calc_summaries (nages b) = calc_summaries (nages a) /\
  (forall s, aget_d s [] (elens b) = aget_d s [] (elens a)) /\
  (forall s, aget_d s [] (nages b) = aget_d s [] (nages a)).
Proof. intros a b H. exact (proj2 (src_same_observables a b H)). Qed.
Print Assumptions merge_source_observables.

(* any history of new distributions / count_splits_on_tree / update between different
   distributions keeps the ownership invariant (no list is ever shared), and each operation acts on
   the abstractions as the functional model: counting touches only its distribution, an update
   changes only its target (and nothing observable of its source) *)
Theorem merge_history_step : forall (c : config) (w : mworld) (op : mop),
  (forall i d, nth_error (mw_dists w) i = Some d ->
               h_self d = i /\ own (h_self d) true (h_elens d) /\ own (h_self d) false (h_nages d)) ->
  let w' := mstep c w op in
  (forall i d, nth_error (mw_dists w') i = Some d ->
               h_self d = i /\ own (h_self d) true (h_elens d) /\ own (h_self d) false (h_nages d)) /\
  match op with
  | MNew => mabs w' (List.length (mw_dists w)) = sd_empty /\
            forall k, (k < List.length (mw_dists w))%nat -> mabs w' k = mabs w k
  | MCount i t => (i < List.length (mw_dists w))%nat ->
                  mabs w' i = fst (count_tree c (mabs w i) t) /\ forall k, k <> i -> mabs w' k = mabs w k
  | MUpdate i j => i <> j -> (i < List.length (mw_dists w))%nat -> (j < List.length (mw_dists w))%nat ->
                   mabs w' i = update (mabs w i) (mabs w j) /\
                   src_same (mabs w j) (mabs w' j) /\
                   forall k, k <> i -> k <> j -> mabs w' k = mabs w k
  end.
Proof. exact mstep_spec. Qed.
Print Assumptions merge_history_step.

Theorem merge_history_invariant : forall (c : config) (ops : list mop) (i : nat) (d : hsd),
  nth_error (mw_dists (mrun c mw_empty ops)) i = Some d ->
  h_self d = i /\ own (h_self d) true (h_elens d) /\ own (h_self d) false (h_nages d).
Proof. intros c ops. exact (mrun_wok c ops mw_empty wok_empty). Qed.
Print Assumptions merge_history_invariant.

(* merge = collecting all trees into a fresh distribution: a distribution updated from the
   distributions of ts1 and of ts2 has the tree count, the weight sum, every frequency and - per
   split - the very list of edge lengths / node ages (hence every summary) of a fresh distribution
   that counted ts1 ++ ts2 *)
Theorem merge_equals_fresh : forall (c : config) (ts1 ts2 : list tree_in),
  (forall t, In t (ts1 ++ ts2) -> NoDup (splits_of t)) ->
  let u := update (update sd_empty (count_trees c sd_empty ts1)) (count_trees c sd_empty ts2) in
  let f := count_trees c sd_empty (ts1 ++ ts2) in
  total u = total f /\ (sum_w u == sum_w f)%Q /\
  (forall s, (snd (query u s) == exact_freq c (ts1 ++ ts2) s)%Q) /\
  (forall s, (snd (query f s) == exact_freq c (ts1 ++ ts2) s)%Q) /\
  (ignore_len c = false -> forall s, aget_d s [] (elens u) = aget_d s [] (elens f)) /\
  (ignore_ages c = false -> forall s, aget_d s [] (nages u) = aget_d s [] (nages f)).
Proof. exact merge_equals_fresh_l. Qed.
Print Assumptions merge_equals_fresh.

(* a concrete history: two collections merged into a third, one more tree counted into the result:
   the sources' digests (frequencies, both summary tables) before = after, and the result's digest is
   that of a fresh collection of all four trees *)
Example merge_history_example :
  let ops1 := [MNew; MCount 0 ex_t1; MCount 0 ex_t1; MNew; MCount 1 ex_t2] in
  let w1 := mrun ex_cfg mw_empty ops1 in
  let w := mrun ex_cfg w1 [MNew; MUpdate 2 0; MUpdate 2 1; MCount 2 ex_t2;
                           MNew; MCount 3 ex_t1; MCount 3 ex_t1; MCount 3 ex_t2; MCount 3 ex_t2] in
  digest_close (digest_of (mabs w 0)) (digest_of (mabs w1 0)) = true /\
  digest_close (digest_of (mabs w 1)) (digest_of (mabs w1 1)) = true /\
  digest_close (digest_of (mabs w 2)) (digest_of (mabs w 3)) = true /\
  List.length (dg_len (digest_of (mabs w 2))) = 6%nat.
Proof. vm_compute. repeat split. Qed.

(* ---------------------------------------------------------------------------------------------
   Wave 8: exception safety of SplitDistribution.count_splits_on_tree (refused trees).
   Gen/SplitDist.v gen_count_splits_on_tree_exc is compiled from the AST: the statements that PRECEDE the
   namespace assert / the guarded tree.calc_node_ages() call give the state of `self` with which each
   refusal is reached (py/dv/c05_gen_impl.py compile_raise_points), so the order of the tallies relative
   to the raising call is part of what is proved. *)
From DV Require Import Model.C05Model5 Proofs.C05GenRefuse.

(* a tree over a foreign namespace (ns_ok = false): AssertionError, `self` exactly as it was *)
Theorem gen_count_refused_foreign_namespace :
  forall (c : config) (x : sdx) (t : tree_in) (b : bool) (dl : option Q) (ages_ok : bool),
  gen_count_splits_on_tree_exc c x t b dl false ages_ok = (x, Err AssertErr).
Proof. exact gen_count_refused_foreign_l. Qed.
Print Assumptions gen_count_refused_foreign_namespace.

(* a non-ultrametric tree offered while node ages are tracked: the UltrametricityError (a ValueError) leaves
   the weight sum, the split counts, the per-split edge-length and node-age lists, the rooting set, the
   frequency cache and the summary caches as they were; only total_trees_counted may differ, and it does not
   decrease (the working tree increments it before calc_node_ages; a tree that moves the increment after
   the call satisfies the same statement) *)
Theorem gen_count_refused_nonultrametric :
  forall (c : config) (x : sdx) (t : tree_in) (b : bool) (dl : option Q),
  ignore_ages c = false ->
  exists n : Z, total (x_sd x) <= n /\
    gen_count_splits_on_tree_exc c x t b dl true false
    = (mkSdx (mkSd n (sum_w (x_sd x)) (rootings (x_sd x)) (counts (x_sd x)) (elens (x_sd x)) (nages (x_sd x))
                   (freqs (x_sd x)) (counted_for_freqs (x_sd x)))
             (x_len_summ x) (x_age_summ x) (x_counted_for_summ x),
       Err ValueErr).
Proof. exact gen_count_refused_nonultra_l. Qed.
Print Assumptions gen_count_refused_nonultrametric.

(* every other offer (node ages ignored, or the tree is ultrametric) is the model's count_tree *)
Theorem gen_count_accepted :
  forall (c : config) (x : sdx) (t : tree_in) (b ages_ok : bool),
  ignore_ages c = true \/ ages_ok = true ->
  gen_count_splits_on_tree_exc c x t b (default_len c) true ages_ok
  = (upd_sd x (fst (count_tree c (x_sd x) t)), Ok (snd (count_tree c (x_sd x) t))).
Proof. exact gen_count_accepted_l. Qed.
Print Assumptions gen_count_accepted.

(* hypotheses satisfiable: a distribution that counted a weight-3 tree refuses it the second time and keeps
   weight sum 3, its counts and its node-age lists *)
Example gen_count_refused_satisfiable :
  let d := fst (count_tree ex_r_cfg sd_empty ex_r_tree) in
  let '(x, o) := gen_count_splits_on_tree_exc ex_r_cfg (mkSdx d None None 0) ex_r_tree false None true false in
  o = Err ValueErr /\ sum_w (x_sd x) = sum_w d /\ counts (x_sd x) = counts d /\ nages (x_sd x) = nages d
  /\ Qeq_bool (sum_w d) 3 = true.
Proof. exact gen_count_refused_example. Qed.

(* a caller offers trees one after the other (offer_all: the generated count with its error outcome, every
   refusal caught, the history continued): the distribution is the one of the ACCEPTED trees alone, up to
   total_trees_counted *)
Theorem offers_equal_accepted :
  forall (c : config) (l : list (tree_in * option refusal)),
  exists n : Z, total (count_trees c sd_empty (accepted c l)) <= n /\
    offer_all c sd_empty l =
    (let f := count_trees c sd_empty (accepted c l) in
     mkSd n (sum_w f) (rootings f) (counts f) (elens f) (nages f) (freqs f) (counted_for_freqs f)).
Proof. exact offers_equal_accepted_l. Qed.
Print Assumptions offers_equal_accepted.

(* ... and every frequency it reports afterwards is the weighted fraction of the ACCEPTED trees containing
   the split (the refused trees enter neither numerator nor normaliser) *)
Theorem refused_history_frequencies :
  forall (c : config) (l : list (tree_in * option refusal)) (s : Z),
  (forall t, In t (accepted c l) -> NoDup (splits_of t)) ->
  ~ (total_weight c (accepted c l) == 0)%Q ->
  (snd (query (offer_all c sd_empty l) s)
   == weight_containing c s (accepted c l) / total_weight c (accepted c l))%Q.
Proof. exact refused_history_frequencies_l. Qed.
Print Assumptions refused_history_frequencies.

Example refused_history_satisfiable :
  let l := [(ex_r_tree, None); (ex_r_tree, Some RNotUltrametric); (ex_r_tree, None); (ex_r_tree, Some RForeignNs);
            (ex_r_tree, None)] in
  List.length (accepted ex_r_cfg l) = 3%nat /\
  Qeq_bool (snd (query (offer_all ex_r_cfg sd_empty l) 3)) 1 = true /\
  Qeq_bool (sum_w (offer_all ex_r_cfg sd_empty l)) 9 = true.
Proof. exact refused_history_example. Qed.
