(* C09, translator tie: the functions generated from the CURRENT source by py/dv/gen_chario.py
   (coq/Gen/CharIO.v, over the primitives of Model/C09Prims.v) equal the hand-written model
   (Model/C09Model.v), so every theorem of Props/C09.v about the model holds of the generated code. *)
From Coq Require Import ZArith List Bool.
From DV Require Import Model.PyPrims Model.C09AlphaTypes Model.C09Model Model.C09Prims Gen.CharIO
  Model.C09Nexus Model.C09Dataset Model.C09TitleMode Proofs.C09GenFasta Proofs.C09GenPhylip Proofs.C09GenPhylipW Proofs.C09GenNexus.
Import ListNotations.
Open Scope Z_scope.

(* FastaWriter._write_char_matrix: what it appends to the stream is the model's FASTA text *)
Theorem gen_fasta_writer_is_model : forall (a : alphabet) (wrap : bool) (width : Z) (stream : text) (m : matrix),
  FastaWriter_write_char_matrix a wrap width stream (wm_of m) = stream ++ write_fasta a wrap width m.
Proof. exact gen_fasta_writer_eq. Qed.
Print Assumptions gen_fasta_writer_is_model.

(* FastaReader._read (the line loop): on the lines of a text, the matrix it builds - or the
   exception class - is the model's read_fasta *)
Theorem gen_fasta_reader_is_model : forall (lower : text -> text) (a : alphabet) (t : text),
  match FastaReader_read lower a (split_nl t) with
  | Ok w => Ok (to_matrix w)
  | Err e => Err e
  | OutOfFuel => OutOfFuel
  end = read_fasta lower a t.
Proof. exact gen_fasta_reader_text_eq. Qed.
Print Assumptions gen_fasta_reader_is_model.

(* PhylipReader._parse_sequence_from_line (discrete branch, ignore_invalid_chars=False): the states
   of one line are appended to the row of the current taxon *)
Theorem gen_phylip_parse_sequence_is_model : forall (a : alphabet) (line : text) (rows : matrix) (i : nat)
    (l : text) (v : list Z) (ns : tns) (proc : list taxon),
  nth_error rows i = Some (l, v) ->
  PhylipReader_parse_sequence_from_line false a ns (w_cm rows) proc i line
  = do states <- phylip_states a line ;; Ok (ns, w_cm (append_at Z i states rows), proc).
Proof. exact gen_parse_sequence. Qed.
Print Assumptions gen_phylip_parse_sequence_is_model.

(* PhylipReader._parse_taxon_from_line, for the reader objects (namespace, matrix, processed set)
   that correspond to the model's rows *)
Theorem gen_phylip_parse_taxon_is_model : forall (lower : text -> text) (strict inter multi u2s : bool)
    (ntax nchar : Z) (rows : matrix) (line : text),
  len rows <= ntax ->
  PhylipReader_parse_taxon_from_line lower strict multi u2s ntax nchar (map fst rows) (w_cm rows) (p_proc rows) line
  = match parse_taxon lower Z (mkPR strict inter multi u2s) ntax nchar rows line with
    | Ok (rows', i, rest) => Ok (map fst rows', w_cm rows', p_proc rows', i, rest)
    | Err e => Err e
    | OutOfFuel => OutOfFuel
    end.
Proof. exact gen_parse_taxon. Qed.
Print Assumptions gen_phylip_parse_taxon_is_model.

Theorem gen_phylip_parse_sequential_is_model : forall (lower : text -> text) (a : alphabet)
    (strict inter multi u2s : bool) (ntax nchar : Z) (lines : list text) (rows : matrix),
  len rows <= ntax ->
  PhylipReader_parse_sequential lower strict multi u2s ntax nchar false a (map fst rows) (w_cm rows) (p_proc rows) lines
  = match phylip_sequential lower Z (phylip_states a) (mkPR strict inter multi u2s) ntax nchar rows None lines with
    | Ok rows' => Ok (map fst rows', w_cm rows', p_proc rows')
    | Err e => Err e
    | OutOfFuel => OutOfFuel
    end.
Proof. exact gen_parse_sequential_eq. Qed.
Print Assumptions gen_phylip_parse_sequential_is_model.

Theorem gen_phylip_parse_interleaved_is_model : forall (lower : text -> text) (a : alphabet)
    (strict inter multi u2s : bool) (ntax nchar : Z) (lines : list text) (rows : matrix),
  len rows <= ntax ->
  PhylipReader_parse_interleaved lower strict multi u2s ntax nchar false a (map fst rows) (w_cm rows) (p_proc rows) lines
  = match phylip_interleaved lower Z (phylip_states a) (mkPR strict inter multi u2s) ntax nchar rows false (-1) lines with
    | Ok rows' => Ok (map fst rows', w_cm rows', p_proc rows')
    | Err e => Err e
    | OutOfFuel => OutOfFuel
    end.
Proof. exact gen_parse_interleaved_eq. Qed.
Print Assumptions gen_phylip_parse_interleaved_is_model.

(* PhylipReader._read from `lines = filesys.get_lines(stream)` on (ignore_invalid_chars=False, a
   discrete data type): the matrix it builds - or the exception class - is the model's read_phylip *)
Theorem gen_phylip_reader_is_model : forall (lower : text -> text) (a : alphabet) (strict inter multi u2s : bool) (t : text),
  match PhylipReader_read lower strict multi u2s false inter a (split_lines3 t) with
  | Ok (ns, cm, _) => Ok (to_matrix (ns, cm))
  | Err e => Err e
  | OutOfFuel => OutOfFuel
  end
  = read_phylip lower Z (phylip_states a) (mkPR strict inter multi u2s) t.
Proof. exact gen_phylip_read_eq. Qed.
Print Assumptions gen_phylip_reader_is_model.

(* PhylipWriter.get_taxon_label_map in strict mode: truncate to 10, make unique (the untranslated
   textprocessing.unique_taxon_label_map is the model's uniq_labels), pad to 10; one entry per taxon *)
Theorem gen_phylip_label_map_is_model : forall (s2u : bool) (m : matrix),
  PhylipWriter_get_taxon_label_map true s2u (wm_of m)
  = do u <- uniq_labels 10 (map (fun l => firstn 10 (conv_label (mkPW true s2u) l)) (map fst m)) [] ;;
    Ok (combine (seq 0 (length m)) (map (fun l => if len l <? 10 then ljust 10 l else l) u)).
Proof. exact gen_label_map_strict. Qed.
Print Assumptions gen_phylip_label_map_is_model.

(* PhylipWriter._write_char_matrix (force_unique_taxon_labels=False, suppress_missing_taxa=False):
   what it appends to the stream - or the exception class - is the model's PHYLIP text *)
Theorem gen_phylip_writer_is_model : forall (a : alphabet) (strict s2u : bool) (stream : text) (m : matrix),
  PhylipWriter_write_char_matrix a strict false s2u false stream (wm_of m)
  = do t <- write_phylip (symbols_as_string a) (mkPW strict s2u) m ;; Ok (stream ++ t).
Proof. exact gen_phylip_writer_eq. Qed.
Print Assumptions gen_phylip_writer_is_model.

(* NexusWriter._link_blocks (as it is after the repair of the inverted option): TITLE/LINK are written
   iff the option is False, or it is None and more than one namespace is written *)
Theorem gen_nexus_link_blocks_is_model : forall (sbt : option bool) (namespaces : list unit),
  NexusWriter_link_blocks sbt namespaces = link_blocks sbt (len namespaces).
Proof. exact gen_link_blocks_eq. Qed.
Print Assumptions gen_nexus_link_blocks_is_model.

(* NexusWriter._get_block_title: one request for the title of one block. A block is its identity
   plus its label; _block_title_map is `given`, _title_block_map the same pairs keyed by the KEY
   of the escaped title: title_norm upper = upper when the current source compares titles after
   .upper() (title_ci, read off the source on every run: after notes/C09_fix_1.patch), the title
   itself when it compares them exactly. escape_nexus_token (esc: property C02's layer),
   str.upper (upper), str(id(block)) (idstr) and the bound on the iterations of the while loop
   (fuel) are parameters of both sides. The loop is the model's uniq_title: the title is escaped
   first and the key of the ESCAPED text is tested against, and stored in, the title map. *)
Theorem gen_nexus_get_block_title_is_model : forall (upper : text -> text) (esc : bool -> bool -> text -> text)
    (idstr : nat -> text) (fuel : nat)
    (sbt : option bool) (namespaces : list unit) (preserve_spaces unquoted_underscores : bool)
    (label : option text) (given : list (nat * text)) (b : nat),
  NexusWriter_get_block_title upper esc idstr fuel sbt namespaces preserve_spaces unquoted_underscores label
    (title_block_map (title_norm upper) given) given b
  = do x <- get_block_title (esc preserve_spaces (negb unquoted_underscores)) (title_norm upper) idstr fuel
             (link_blocks sbt (len namespaces)) given b label ;;
    Ok (title_block_map (title_norm upper) (fst x), fst x, snd x).
Proof. exact gen_get_block_title_eq. Qed.
Print Assumptions gen_nexus_get_block_title_is_model.

(* different blocks, none of which has a title yet, each asking once: the titles are those of
   assign_titles (Props/C09.v block_titles_distinct: keys pairwise different;
   multi_namespace_titles_resolve: with upper-cased keys every title resolves in the reader) *)
Theorem nexus_requested_titles_are_assigned : forall (esc norm : text -> text) (idstr : nat -> text)
    (blocks : list (nat * option text)) (given : list (nat * text)),
  NoDup (map fst blocks) ->
  (forall b, In b (map fst blocks) -> title_of_block given b = None) ->
  request_titles esc norm idstr blocks given
  = assign_titles esc norm (map (fun x => title_source idstr (fst x) (snd x)) blocks) (map norm (map snd given)).
Proof. exact request_titles_assign. Qed.
Print Assumptions nexus_requested_titles_are_assigned.

(* ---- bridge to the NEXUS matrix reader generated for property C20 (Gen/NexusChars.v) ---- *)
From DV Require Model.Tokenizer Model.C20Nexus2 Gen.NexusChars Proofs.C09GenNexusRead.

(* The row-label step of the MATRIX row loop: NexusReader._get_taxon GENERATED from the source (proved equal to
   C20's skeleton in Props/C20Gen.v) against this property's hand model C09Nexus.get_taxon.  On reader states that
   describe the same namespace (same labels in the same order, same NTAX, case-insensitive labels) both deliver the
   same taxon index and related states again - the label is found, or appended while the namespace holds fewer
   than NTAX members - or both raise TooManyTaxaError (a DataParseError); the generated step leaves the matrices
   and the tokenizer position alone.  (The rest of C09's NEXUS reader model - token lists, state identities of the
   cells - has no counterpart in the generated reader, which abstracts a state to unit: see manifest/C09.json.) *)
Theorem gen_nexus_get_taxon_is_model :
  forall (lower : text -> text) (label : text) (st : C20Nexus2.nstate) (ti : nat) (x : nx_state),
  C20Nexus2.tns_labels st ti = x_ns x /\ C20Nexus2.n_ntax st = x_ntax x /\ x_cs x = false
    /\ (ti < length (C20Nexus2.n_tns st))%nat ->
  match NexusChars.NexusReader_get_taxon lower ti (Some label) st, C09Nexus.get_taxon lower x label with
  | C20Nexus2.ROk (i, st'), Ok (x', j) =>
      i = j
      /\ (C20Nexus2.tns_labels st' ti = x_ns x' /\ C20Nexus2.n_ntax st' = x_ntax x' /\ x_cs x' = false
          /\ (ti < length (C20Nexus2.n_tns st'))%nat)
      /\ C20Nexus2.n_mats st' = C20Nexus2.n_mats st /\ C20Nexus2.n_rest st' = C20Nexus2.n_rest st
  | C20Nexus2.RErr e1, Err e2 => e1 = ParseErr /\ e2 = ParseErr
  | _, _ => False
  end.
Proof. exact C09GenNexusRead.gen_get_taxon_bridge. Qed.
Print Assumptions gen_nexus_get_taxon_is_model.
