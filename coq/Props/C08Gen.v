(* C08 (generated-code tie): C08Model's transcription of Node.extract_subtree / Tree.extract_tree and
   the four extract_tree_with(out)_taxa(_labels) wrappers is what the SOURCE does.

   Node_extract_subtree, Tree_extract_tree and the Tree_extract_tree_with... functions are
   definitions of Gen/Extract.v, compiled statement by statement from
   src/dendropy/datamodel/treemodel/_node.py and _tree.py on every run (py/dv/gen_extract.py, on the
   statement compiler of py/dv/gen_mutators.py) over the object-graph interface of Model/MutPrims.v +
   Model/C08GenPrims.v; the methods they call (Node.add_child, the property getters) are the
   definitions of Gen/Mutators.v.  HX (Model/C08GenInst.v) instantiates the interface with Heap.v's
   pointer-level heap (node = id, `next` = the id the next Node() receives) plus the attribute that
   extraction stores on new nodes.

   The source heap h0 holds the tree t below `self` (rep h0 par t: every cell of t is in h0 with
   the parent pointers and child lists of t; par = self's parent), node ids are pairwise distinct
   and below `next h0`.

   xrel on h0 r m  (Proofs/C08GenFinal.v) relates the outcome r of the generated method to the
   outcome m of the model:
     m = XOk v        : r = MOk n s' (returned node n, state s') with  img on (next h0) s' n v :
                        the nodes reachable from n through the child lists of s' are all NEW
                        (id >= next h0), every child was created before its parent, parent pointers
                        and child lists agree, and NAMING EVERY NODE BY ITS EXTRACTION SOURCE gives
                        exactly the tree v (ids, taxa, labels, edge lengths, child order) - with
                        `on` (extraction_source_reference_attr_name is not None) the attribute of
                        each new node is that source id; n has no parent; h0's nodes are unchanged
     m = XErr ESeedDel: r = MErr OtherErr s' (SeedNodeDeletionException; core.exc_enum's class),
     m = XErr EValue  : r = MErr ValueErr s' (the final `raise ValueError`); h0's nodes unchanged.
   No other exception (AttributeError from `nd1.edge.length = ...` with nd1 still None,
   AssertionError from add_child, IndexError, TypeError) and no fuel exhaustion can occur.
   The statement `nd1.edge.length = children_to_add[0].edge.length` of the merge branch, which
   C08Model does not transcribe, is compiled here and PROVED to have no effect on the result (nd1,
   the node created last, is children_to_add[0] itself or a node outside every retained subtree). *)
From Coq Require Import ZArith List Bool.
From DV Require Import Model.PyPrims Model.Tree Model.Heap Model.C15Prims Model.MutPrims Gen.Mutators
     Model.C03GenInst Model.C08GenPrims Gen.Extract Model.C08GenInst Proofs.C03Base
     Proofs.C08GenBase Proofs.C08GenSim Proofs.C08GenFinal Proofs.C08GenWrap.
From DV Require Model.C08Model Proofs.C08RemoveDist Proofs.C08RemoveDistHeap.
From DV Require Model.HeapOps Proofs.C03GenPrune Proofs.C08GenPruneKeepAll.
Import ListNotations.
Open Scope Z_scope.

(* Node.extract_subtree (compiled for node_factory=None): filter_ok relates the callable
   node_filter_fn to the model's filter (the ids on which it is true), P = the arguments *)
Theorem extract_subtree_refines :
  forall (h0 : heap) (par : option Z) (t : tree) (P : xpar) (flt : C08Model.xfilter)
         (xs0 : list (Z * Z)) (xe0 : list (Z * option Z)),
    rep h0 par t -> NoDup (ids t) -> (forall i, In i (ids t) -> i < next h0) ->
    filter_ok h0 t P flt -> p_self P = t_id t ->
    xrel (p_on P) h0
      (Node_extract_subtree HX (p_self P) (p_on P) (p_fn P) (p_sup P) (p_lf P) (p_intl P) (mkX h0 xs0 xe0))
      (C08Model.extract_subtree flt (p_sup P) (py_is_some par) t).
Proof. exact gen_extract_subtree. Qed.
Print Assumptions extract_subtree_refines.

(* the generated method is the loop of the normal-form body (the bridge used above, for reference) *)
Theorem extract_subtree_loop :
  forall (P : xpar) (s : xstate),
    Node_extract_subtree HX (p_self P) (p_on P) (p_fn P) (p_sup P) (p_lf P) (p_intl P) s =
    match abs_at (xh s) (p_self P) with
    | Some t => xloop_end (mfor (xbody P) (post_ids t) (false, Some (p_self P), None, None, []) s)
    | None => MFuel
    end.
Proof. exact gen_body_eq. Qed.
Print Assumptions extract_subtree_loop.

(* Tree.extract_tree (tree_factory=None, node_factory=None): the seed node of the new tree *)
Theorem extract_tree_refines :
  forall (h0 : heap) (t : tree) (on : bool) (fn : option (xstate -> Z -> bool)) (sup lf intl : bool)
         (flt : C08Model.xfilter) (xs0 : list (Z * Z)) (xe0 : list (Z * option Z)),
    rep h0 None t -> t_id t = seed h0 -> NoDup (ids t) -> (forall i, In i (ids t) -> i < next h0) ->
    filter_ok h0 t (mkP (seed h0) on fn sup lf intl) flt ->
    xrel on h0 (Tree_extract_tree HX on fn sup lf intl (mkX h0 xs0 xe0)) (C08Model.extract_tree flt sup t).
Proof. exact gen_extract_tree. Qed.
Print Assumptions extract_tree_refines.

(* the wrappers: their lambda filters are compiled (they read nd.taxon when called) *)
Theorem extract_tree_with_taxa_refines :
  forall (h0 : heap) (t : tree) (on sup : bool) (xs0 : list (Z * Z)) (xe0 : list (Z * option Z)),
    rep h0 None t -> t_id t = seed h0 -> NoDup (ids t) -> (forall i, In i (ids t) -> i < next h0) ->
    forall taxa : list Z,
      xrel on h0 (Tree_extract_tree_with_taxa HX taxa on sup (mkX h0 xs0 xe0))
           (C08Model.extract_tree_with_taxa taxa sup t).
Proof. exact gen_extract_tree_with_taxa. Qed.
Print Assumptions extract_tree_with_taxa_refines.

Theorem extract_tree_without_taxa_refines :
  forall (h0 : heap) (t : tree) (on sup : bool) (xs0 : list (Z * Z)) (xe0 : list (Z * option Z)),
    rep h0 None t -> t_id t = seed h0 -> NoDup (ids t) -> (forall i, In i (ids t) -> i < next h0) ->
    forall taxa : list Z,
      xrel on h0 (Tree_extract_tree_without_taxa HX taxa on sup (mkX h0 xs0 xe0))
           (C08Model.extract_tree_without_taxa taxa sup t).
Proof. exact gen_extract_tree_without_taxa. Qed.
Print Assumptions extract_tree_without_taxa_refines.

(* the label wrappers resolve the labels through the namespace (get_taxa = TaxonNamespace.get_taxa(labels=...),
   C08Model.get_taxa ns cs for the model: extract_tree_with(out)_taxa_labels_ns ns cs labels is
   extract_tree_with(out)_taxa (get_taxa ns cs labels) by definition), then filter on taxon identity *)
Theorem extract_tree_with_taxa_labels_refines :
  forall (h0 : heap) (t : tree) (on sup : bool) (xs0 : list (Z * Z)) (xe0 : list (Z * option Z)),
    rep h0 None t -> t_id t = seed h0 -> NoDup (ids t) -> (forall i, In i (ids t) -> i < next h0) ->
    forall (ns : C08Model.nspace) (cs : bool) (labels : list Z),
      xrel on h0 (Tree_extract_tree_with_taxa_labels HX (C08Model.get_taxa ns cs) labels on sup (mkX h0 xs0 xe0))
           (C08Model.extract_tree_with_taxa_labels_ns ns cs labels sup t).
Proof. exact (fun h0 t on sup xs0 xe0 R S N L ns cs => gen_extract_tree_with_taxa_labels h0 t on sup xs0 xe0 R S N L (C08Model.get_taxa ns cs)). Qed.
Print Assumptions extract_tree_with_taxa_labels_refines.

Theorem extract_tree_without_taxa_labels_refines :
  forall (h0 : heap) (t : tree) (on sup : bool) (xs0 : list (Z * Z)) (xe0 : list (Z * option Z)),
    rep h0 None t -> t_id t = seed h0 -> NoDup (ids t) -> (forall i, In i (ids t) -> i < next h0) ->
    forall (ns : C08Model.nspace) (cs : bool) (labels : list Z),
      xrel on h0 (Tree_extract_tree_without_taxa_labels HX (C08Model.get_taxa ns cs) labels on sup (mkX h0 xs0 xe0))
           (C08Model.extract_tree_without_taxa_labels_ns ns cs labels sup t).
Proof. exact (fun h0 t on sup xs0 xe0 R S N L ns cs => gen_extract_tree_without_taxa_labels h0 t on sup xs0 xe0 R S N L (C08Model.get_taxa ns cs)). Qed.
Print Assumptions extract_tree_without_taxa_labels_refines.

(* ---- (wave 6) Node.remove_child(child, suppress_unifurcations=True): distance preservation at the pointer
   level and for the GENERATED method (Gen/Mutators.v Node_remove_child; Props/C03Gen.v remove_child_refines).
   h represents (Wr) a tree in which p - a node with a parent q - has the children lft ++ s :: rgt, where
   lft ++ rgt is ONE node k; p's and k's edges carry lengths e and ek (no hypothesis on other lengths).
   Removing s with suppression succeeds, the heap left represents a tree t', and every distance
   (C08Model.dist) between two remaining nodes other than p is what it was.  For the generated method:
   it returns the removed node and leaves a heap observationally equal (heq: every field of every node,
   seed, rooting flag, next id) to that heap; hypotheses of the refinement: p is not its own child, the
   live-list iterator has more fuel than any child list is long. ---- *)
Theorem heap_remove_child_su_dist :
  forall (h : heap) (c : C03Base.ctx) (q : Z) (xq lq eq : option Z) (a b : list tree) (p : Z) (x l : option Z) (e : Z)
         (lft : list tree) (s : tree) (rgt : list tree) (ki : Z) (xk lk : option Z) (ek : Z) (kk : list tree),
  lft ++ rgt = [T ki xk lk (Some ek) kk] ->
  Wr h (plug c (T q xq lq eq (a ++ T p x l (Some e) (lft ++ s :: rgt) :: b))) ->
  exists h' t',
    Heap.remove_child p (t_id s) true h = HOk h' /\ Wr h' t' /\
    forall u v, ~ In u (ids s) -> ~ In v (ids s) -> u <> p -> v <> p ->
      C08Model.dist u v t' = C08Model.dist u v (plug c (T q xq lq eq (a ++ T p x l (Some e) (lft ++ s :: rgt) :: b))).
Proof. exact C08RemoveDistHeap.heap_remove_child_su_dist_l. Qed.
Print Assumptions heap_remove_child_su_dist.

Theorem generated_remove_child_su_dist :
  forall (fuel : nat) (h : heap) (c : C03Base.ctx) (q : Z) (xq lq eq : option Z) (a b : list tree) (p : Z) (x l : option Z)
         (e : Z) (lft : list tree) (s : tree) (rgt : list tree) (ki : Z) (xk lk : option Z) (ek : Z) (kk : list tree),
  lft ++ rgt = [T ki xk lk (Some ek) kk] ->
  Wr h (plug c (T q xq lq eq (a ++ T p x l (Some e) (lft ++ s :: rgt) :: b))) ->
  Heap.memz p (kids h p) = false -> (forall z, (length (kids h z) < fuel)%nat) ->
  exists hg h' t',
    Node_remove_child HG fuel p (t_id s) true h = MOk (t_id s) hg /\
    heq hg h' /\ Wr h' t' /\
    forall u v, ~ In u (ids s) -> ~ In v (ids s) -> u <> p -> v <> p ->
      C08Model.dist u v t' = C08Model.dist u v (plug c (T q xq lq eq (a ++ T p x l (Some e) (lft ++ s :: rgt) :: b))).
Proof. exact C08RemoveDistHeap.gen_remove_child_su_dist_l. Qed.
Print Assumptions generated_remove_child_su_dist.

Theorem generated_remove_child_su_dist_nonvacuous :
  Wr (of_tree C08RemoveDist.exrd None)
    (plug C03Base.CTop
       (T 0 None None None ([] ++ T 1 None None (Some 3) ([] ++ T 2 (Some 10) None (Some 1) [] :: [T 3 (Some 11) None (Some 2) []])
                                :: [T 4 (Some 12) None (Some 4) []]))) /\
  Heap.memz 1 (kids (of_tree C08RemoveDist.exrd None) 1) = false /\
  (forall z, (length (kids (of_tree C08RemoveDist.exrd None) z) < 10)%nat).
Proof. exact C08RemoveDistHeap.gen_remove_child_su_dist_hyps. Qed.
Print Assumptions generated_remove_child_su_dist_nonvacuous.

(* ---- wave 8: the "keep all" subset through the GENERATED prune_taxa / retain_taxa ----
   Tree_prune_taxa / Tree_retain_taxa / Tree_prune_leaves_without_taxa are definitions of Gen/Mutators.v,
   compiled from _tree.py on every run.  Handed an EMPTY taxon set (prune_taxa([]); prune_taxa_with_labels
   whose labels match nothing: Tree_prune_taxa_with_labels passes `get_taxa labels` on, Props/C03Gen.v
   with_labels_delegate) prune_taxa is not a no-op but exactly prune_leaves_without_taxa(recursive=True)
   with the same flags - the pointer-level operation of HeapOps.v AND the generated method - so
   outdegree-one nodes already present are still suppressed and the encoding is still refreshed when asked;
   retain_taxa naming every member of the namespace likewise.  h: any heap whose seed spells out a tree;
   fuel: at least HeapOps.v's own loop bound.  An early return on the empty set changes Tree_prune_taxa
   and breaks Proofs/C03GenPrune.v gen_prune_taxa_e, the lemma these theorems rest on. *)
Theorem generated_prune_taxa_keep_all :
  forall (fuel : nat) (ub su ol oi : bool) (h : heap) (t : tree),
  abs_at h (seed h) = Some t -> (Heap.fuel_of h <= fuel)%nat ->
  HeapOps.run_op_v C03GenPrune.v_now (HeapOps.OPruneLeavesWithoutTaxa true ub su) h <> HFuel ->
  to_hres (Tree_prune_taxa HG fuel [] ub su ol oi h)
    = HeapOps.run_op_v C03GenPrune.v_now (HeapOps.OPruneLeavesWithoutTaxa true ub su) h /\
  to_hres (Tree_prune_taxa HG fuel [] ub su ol oi h)
    = to_hres (Tree_prune_leaves_without_taxa HG fuel true ub su h).
Proof. exact C08GenPruneKeepAll.gen_prune_taxa_keep_all_op. Qed.
Print Assumptions generated_prune_taxa_keep_all.

Theorem generated_retain_taxa_keep_all :
  forall (fuel : nat) (namespace taxa : list Z) (ub su : bool) (h : heap) (t : tree),
  (forall x, In x namespace -> Heap.memz x taxa = true) ->
  abs_at h (seed h) = Some t -> (Heap.fuel_of h <= fuel)%nat ->
  HeapOps.run_op_v C03GenPrune.v_now (HeapOps.OPruneLeavesWithoutTaxa true ub su) h <> HFuel ->
  to_hres (Tree_retain_taxa HG fuel namespace taxa ub su h)
    = HeapOps.run_op_v C03GenPrune.v_now (HeapOps.OPruneLeavesWithoutTaxa true ub su) h.
Proof. exact C08GenPruneKeepAll.gen_retain_taxa_keep_all_op. Qed.
Print Assumptions generated_retain_taxa_keep_all.

(* hypotheses satisfiable, and the pre-existing unifurcation is collapsed: ((A:1)X:2,B:1)R, rooted, empty set *)
Theorem generated_prune_taxa_keep_all_nonvacuous :
  abs_at C08GenPruneKeepAll.ka_heap (seed C08GenPruneKeepAll.ka_heap) = Some C08GenPruneKeepAll.ka_tree /\
  (Heap.fuel_of C08GenPruneKeepAll.ka_heap <= 10)%nat /\
  HeapOps.run_op_v C03GenPrune.v_now (HeapOps.OPruneLeavesWithoutTaxa true false true) C08GenPruneKeepAll.ka_heap <> HFuel.
Proof. exact C08GenPruneKeepAll.keep_all_op_hypotheses_hold. Qed.
Print Assumptions generated_prune_taxa_keep_all_nonvacuous.

Theorem generated_prune_taxa_keep_all_suppresses :
  match to_hres (Tree_prune_taxa HG 10 [] false true true false C08GenPruneKeepAll.ka_heap) with
  | HOk h' => abs_at h' (seed h')
  | _ => None
  end = Some (T 0 None None None [T 2 (Some 0) None (Some 3072) []; T 3 (Some 1) None (Some 1024) []]).
Proof. exact C08GenPruneKeepAll.keep_all_suppresses. Qed.
Print Assumptions generated_prune_taxa_keep_all_suppresses.

(* ---- wave 10: the pointer-level AND the generated prune_taxa / retain_taxa compute `restrict` ----
   Closes the gap named in wave 8: HeapOps.v's prune_taxa (post-order loop of parent.remove_child(nd) on the
   leaves carrying one of the taxa, then prune_leaves_without_taxa(recursive=True) with its while loop, then
   the suppress_unifurcations / update_bipartitions tail) is simulated step by step by C08Model's
   transcription (Proofs/C08W10Prune.v: one removal of a childless node = C03Spec.spec_prune = C08's
   upd_below rm_f; fold_sim for both removal loops; loop_sim for the while loop up to fuel; finish_spec_tail
   for the tail), and the transcription equals restrict (prune_is_restrict, Props/C08.v).  Hence on every
   well-formed heap h whose abstraction is the id-carrying rose tree t (taxa on leaves only), the heap
   program - and through C03GenPrune's gen_prune_taxa / gen_retain_taxa the method COMPILED FROM _tree.py -
   returns a well-formed heap whose abstraction is restrict su (drop_taxa taxa) t with the structural effect
   of update_bipartitions on top (with_update: basal collapse of a tree that is not rooted + suppression if
   asked, nothing if ub = false), for BOTH settings of suppress_unifurcations and trees WITH pre-existing
   unifurcations; if the restriction is empty the heap program raises.  is_apply_filter_to_internal_nodes
   = False (the default), is_apply_filter_to_leaf_nodes = True.  The generated-code fuel bound is just
   fuel_of h <= fuel (the first loop keeps the number of heap cells: phase1_fuel). *)
From DV Require Proofs.C08Prune Proofs.C08W10Prune Proofs.C08W10PruneGen.

Theorem heap_prune_taxa_is_restrict :
  forall (taxa : list Z) (ub su : bool) (h : heap) (t r : tree),
  WF h -> abs h = Some t -> C08Model.leaf_taxa_only t = true ->
  C08Model.restrict su (C08Model.drop_taxa taxa) t = Some r ->
  exists h', HeapOps.prune_taxa taxa ub su true false h = HOk h' /\ WF h' /\
             abs h' = Some (fst (C08Prune.with_update ub su (rooted h) r)).
Proof. exact C08W10Prune.heap_prune_taxa_is_restrict_l. Qed.
Print Assumptions heap_prune_taxa_is_restrict.

(* nothing survives: the heap program raises (AttributeError at the seed) and leaves a well-formed heap *)
Theorem heap_prune_taxa_empties :
  forall (taxa : list Z) (ub su : bool) (h : heap) (t : tree),
  WF h -> abs h = Some t -> C08Model.leaf_taxa_only t = true ->
  C08Model.restrict su (C08Model.drop_taxa taxa) t = None ->
  exists e h', HeapOps.prune_taxa taxa ub su true false h = HErr e h' /\ In e [AttrErr; ValueErr] /\ WF h'.
Proof. exact C08W10Prune.heap_prune_taxa_empties_l. Qed.
Print Assumptions heap_prune_taxa_empties.

(* the simulation itself, without the leaf-taxa-only hypothesis and for either value of
   is_apply_filter_to_leaf_nodes: whatever tree the transcription returns, the heap program returns a heap
   abstracting to it *)
Theorem heap_prune_taxa_refines_transcription :
  forall (taxa : list Z) (ub su ol : bool) (h : heap) (t t' : tree) (r' : option bool),
  WF h -> abs h = Some t ->
  C08Model.prune_taxa taxa ub su ol false (t, rooted h) = C08Model.IOk ([], t', r') ->
  exists h', HeapOps.prune_taxa taxa ub su ol false h = HOk h' /\ WF h' /\ abs h' = Some t'.
Proof. exact C08W10Prune.heap_prune_taxa_link. Qed.
Print Assumptions heap_prune_taxa_refines_transcription.

(* retain_taxa (complement within the namespace): the restriction to the retained taxa when every leaf
   taxon is a member of the namespace *)
Theorem heap_retain_taxa_is_restrict :
  forall (ns keep : list Z) (ub su : bool) (h : heap) (t r : tree),
  WF h -> abs h = Some t -> C08Model.leaf_taxa_only t = true ->
  (forall n a, In n (leaves t) -> t_taxon n = Some a -> C08Model.memz a ns = true) ->
  C08Model.restrict su (C08Model.keep_taxa keep) t = Some r ->
  exists h', HeapOps.retain_taxa ns keep ub su h = HOk h' /\ WF h' /\
             abs h' = Some (fst (C08Prune.with_update ub su (rooted h) r)).
Proof. exact C08W10Prune.heap_retain_taxa_is_restrict_l. Qed.
Print Assumptions heap_retain_taxa_is_restrict.

Theorem generated_prune_taxa_is_restrict :
  forall (fuel : nat) (taxa : list Z) (ub su : bool) (h : heap) (t r : tree),
  (Heap.fuel_of h <= fuel)%nat ->
  WF h -> abs h = Some t -> C08Model.leaf_taxa_only t = true ->
  C08Model.restrict su (C08Model.drop_taxa taxa) t = Some r ->
  exists h', to_hres (Tree_prune_taxa HG fuel taxa ub su true false h) = HOk h' /\ WF h' /\
             abs h' = Some (fst (C08Prune.with_update ub su (rooted h) r)).
Proof. exact C08W10PruneGen.gen_prune_taxa_is_restrict. Qed.
Print Assumptions generated_prune_taxa_is_restrict.

Theorem generated_retain_taxa_is_restrict :
  forall (fuel : nat) (ns keep : list Z) (ub su : bool) (h : heap) (t r : tree),
  (Heap.fuel_of h <= fuel)%nat ->
  WF h -> abs h = Some t -> C08Model.leaf_taxa_only t = true ->
  (forall n a, In n (leaves t) -> t_taxon n = Some a -> C08Model.memz a ns = true) ->
  C08Model.restrict su (C08Model.keep_taxa keep) t = Some r ->
  exists h', to_hres (Tree_retain_taxa HG fuel ns keep ub su h) = HOk h' /\ WF h' /\
             abs h' = Some (fst (C08Prune.with_update ub su (rooted h) r)).
Proof. exact C08W10PruneGen.gen_retain_taxa_is_restrict. Qed.
Print Assumptions generated_retain_taxa_is_restrict.

(* hypotheses satisfiable - ((A,B)X,C)R rooted, prune {A}, suppress_unifurcations=True: X becomes a
   unifurcation and is suppressed (B:1024 + X:2048 = 3072) - and the generated method run on it *)
Theorem generated_prune_taxa_is_restrict_nonvacuous :
  (Heap.fuel_of C08W10Prune.w10_heap <= 10)%nat /\
  WF C08W10Prune.w10_heap /\ abs C08W10Prune.w10_heap = Some C08W10Prune.w10_tree /\
  C08Model.leaf_taxa_only C08W10Prune.w10_tree = true /\
  C08Model.restrict true (C08Model.drop_taxa [0]) C08W10Prune.w10_tree =
    Some (T 0 None None None [T 3 (Some 1) None (Some 3072) []; T 4 (Some 2) None (Some 1024) []]).
Proof. exact C08W10PruneGen.gen_prune_taxa_is_restrict_hyps. Qed.
Print Assumptions generated_prune_taxa_is_restrict_nonvacuous.

Theorem generated_prune_taxa_is_restrict_run :
  match to_hres (Tree_prune_taxa HG 10 [0] false true true false C08W10Prune.w10_heap) with
  | HOk h' => abs h'
  | _ => None
  end = Some (T 0 None None None [T 3 (Some 1) None (Some 3072) []; T 4 (Some 2) None (Some 1024) []]).
Proof. exact C08W10PruneGen.gen_prune_taxa_w10_run. Qed.
Print Assumptions generated_prune_taxa_is_restrict_run.

(* ---- wave 11: prune_leaves_without_taxa / filter_leaf_nodes ON THEIR OWN, pointer level and generated ----
   Closes the partial named after wave 10.  HeapOps.v's prune_leaves_without_taxa(recursive=True) and
   filter_leaf_nodes(filter_fn, recursive=True) - filter_fn given, as in HeapOps.v and Props/C03Gen.v, by the list
   `keep` of the node ids on which it is true - are simulated by C08Model's transcriptions (Proofs/C08W11Leaf.v:
   C08W10Prune.fold_sim / loop_sim, loop_sim_g for an arbitrary leaf test, finish_spec_tail), which equal restrictG
   (prune_leaves_without_taxa_is_restrictG / filter_leaf_nodes_is_restrictG, Props/C08.v).  restrictG's third
   predicate (an internal node EMPTIED by the removals is tested like a leaf) is the same test, so the result is
   `restrict` exactly when no internal node passes the test: internal_untaxed t (no internal node carries a taxon),
   resp. keeps_no_internal keep t (no kept id is the id of an internal node); the _restrictG versions hold without
   these side conditions.  Result: a well-formed heap whose abstraction is the restriction with the structural
   effect of update_bipartitions on top (with_update), for both settings of suppress_unifurcations; if nothing
   survives the heap program raises at the seed (AttributeError, resp. SeedNodeDeletionException = OtherErr; the
   method compiled from the CURRENT source raises SeedNodeDeletionException in both). *)
From DV Require Proofs.C08W11Leaf Proofs.C08W11LeafGen.

Theorem heap_prune_leaves_without_taxa_is_restrict :
  forall (ub su : bool) (h : heap) (t r : tree),
  WF h -> abs h = Some t -> C08W11Leaf.internal_untaxed t = true ->
  C08Model.restrict su C08Model.has_taxon t = Some r ->
  exists h', HeapOps.prune_leaves_without_taxa true ub su h = HOk h' /\ WF h' /\
             abs h' = Some (fst (C08Prune.with_update ub su (rooted h) r)).
Proof. exact C08W11Leaf.heap_plwt_is_restrict_l. Qed.
Print Assumptions heap_prune_leaves_without_taxa_is_restrict.

Theorem heap_prune_leaves_without_taxa_empties :
  forall (ub su : bool) (h : heap) (t : tree),
  WF h -> abs h = Some t -> C08W11Leaf.internal_untaxed t = true ->
  C08Model.restrict su C08Model.has_taxon t = None ->
  exists h', HeapOps.prune_leaves_without_taxa true ub su h = HErr AttrErr h' /\ WF h'.
Proof. exact C08W11Leaf.heap_plwt_empties_l. Qed.
Print Assumptions heap_prune_leaves_without_taxa_empties.

Theorem heap_filter_leaf_nodes_is_restrict :
  forall (keep : list Z) (ub su : bool) (h : heap) (t r : tree),
  WF h -> abs h = Some t -> C08W11Leaf.keeps_no_internal keep t = true ->
  C08Model.restrict su (C08Model.keep_ids keep) t = Some r ->
  exists h', HeapOps.filter_leaf_nodes keep true ub su h = HOk h' /\ WF h' /\
             abs h' = Some (fst (C08Prune.with_update ub su (rooted h) r)).
Proof. exact C08W11Leaf.heap_filter_is_restrict_l. Qed.
Print Assumptions heap_filter_leaf_nodes_is_restrict.

Theorem heap_filter_leaf_nodes_empties :
  forall (keep : list Z) (ub su : bool) (h : heap) (t : tree),
  WF h -> abs h = Some t -> C08W11Leaf.keeps_no_internal keep t = true ->
  C08Model.restrict su (C08Model.keep_ids keep) t = None ->
  exists h', HeapOps.filter_leaf_nodes keep true ub su h = HErr OtherErr h' /\ WF h'.
Proof. exact C08W11Leaf.heap_filter_empties_l. Qed.
Print Assumptions heap_filter_leaf_nodes_empties.

(* without the side conditions (any tree, any keep list): restrictG, both outcomes *)
Theorem heap_prune_leaves_without_taxa_is_restrictG :
  forall (ub su : bool) (h : heap) (t : tree),
  WF h -> abs h = Some t ->
  match C08Model.restrictG su C08Model.has_taxon C08Model.np_true C08Model.has_taxon t with
  | Some r => exists h', HeapOps.prune_leaves_without_taxa true ub su h = HOk h' /\ WF h' /\
                         abs h' = Some (fst (C08Prune.with_update ub su (rooted h) r))
  | None => exists h', HeapOps.prune_leaves_without_taxa true ub su h = HErr AttrErr h' /\ WF h'
  end.
Proof. exact C08W11Leaf.heap_plwt_restrictG. Qed.
Print Assumptions heap_prune_leaves_without_taxa_is_restrictG.

Theorem heap_filter_leaf_nodes_is_restrictG :
  forall (keep : list Z) (ub su : bool) (h : heap) (t : tree),
  WF h -> abs h = Some t ->
  match C08Model.restrictG su (C08Model.keep_ids keep) C08Model.np_true (C08Model.keep_ids keep) t with
  | Some r => exists h', HeapOps.filter_leaf_nodes keep true ub su h = HOk h' /\ WF h' /\
                         abs h' = Some (fst (C08Prune.with_update ub su (rooted h) r))
  | None => exists h', HeapOps.filter_leaf_nodes keep true ub su h = HErr OtherErr h' /\ WF h'
  end.
Proof. exact C08W11Leaf.heap_filter_restrictG. Qed.
Print Assumptions heap_filter_leaf_nodes_is_restrictG.

(* the simulation itself, for either value of `recursive`: whatever the transcription returns, the heap program
   returns a heap abstracting to it *)
Theorem heap_prune_leaves_without_taxa_refines_transcription :
  forall (rc ub su : bool) (h : heap) (t : tree) (rem : list Z) (t' : tree) (r' : option bool),
  WF h -> abs h = Some t ->
  C08Model.prune_leaves_without_taxa rc ub su (t, rooted h) = C08Model.IOk (rem, t', r') ->
  exists h', HeapOps.prune_leaves_without_taxa rc ub su h = HOk h' /\ WF h' /\ abs h' = Some t'.
Proof. exact C08W11Leaf.heap_plwt_link. Qed.
Print Assumptions heap_prune_leaves_without_taxa_refines_transcription.

Theorem heap_filter_leaf_nodes_refines_transcription :
  forall (keep : list Z) (rc ub su : bool) (h : heap) (t : tree) (rem : list Z) (t' : tree) (r' : option bool),
  WF h -> abs h = Some t ->
  C08Model.filter_leaf_nodes keep rc ub su (t, rooted h) = C08Model.IOk (rem, t', r') ->
  exists h', HeapOps.filter_leaf_nodes keep rc ub su h = HOk h' /\ WF h' /\ abs h' = Some t'.
Proof. exact C08W11Leaf.heap_filter_link. Qed.
Print Assumptions heap_filter_leaf_nodes_refines_transcription.

(* the methods compiled from _tree.py (through Props/C03Gen.v's prune_leaves_without_taxa_refines /
   filter_leaf_nodes_refines); fuel bound fuel_of h <= fuel *)
Theorem generated_prune_leaves_without_taxa_is_restrict :
  forall (fuel : nat) (ub su : bool) (h : heap) (t r : tree),
  (Heap.fuel_of h <= fuel)%nat ->
  WF h -> abs h = Some t -> C08W11Leaf.internal_untaxed t = true ->
  C08Model.restrict su C08Model.has_taxon t = Some r ->
  exists h', to_hres (Tree_prune_leaves_without_taxa HG fuel true ub su h) = HOk h' /\ WF h' /\
             abs h' = Some (fst (C08Prune.with_update ub su (rooted h) r)).
Proof. exact C08W11LeafGen.gen_plwt_is_restrict. Qed.
Print Assumptions generated_prune_leaves_without_taxa_is_restrict.

Theorem generated_prune_leaves_without_taxa_empties :
  forall (fuel : nat) (ub su : bool) (h : heap) (t : tree),
  (Heap.fuel_of h <= fuel)%nat ->
  WF h -> abs h = Some t -> C08W11Leaf.internal_untaxed t = true ->
  C08Model.restrict su C08Model.has_taxon t = None ->
  exists h', to_hres (Tree_prune_leaves_without_taxa HG fuel true ub su h) = HErr OtherErr h' /\ WF h'.
Proof. exact C08W11LeafGen.gen_plwt_empties. Qed.
Print Assumptions generated_prune_leaves_without_taxa_empties.

Theorem generated_filter_leaf_nodes_is_restrict :
  forall (fuel : nat) (keep : list Z) (ub su : bool) (h : heap) (t r : tree),
  (Heap.fuel_of h <= fuel)%nat ->
  WF h -> abs h = Some t -> C08W11Leaf.keeps_no_internal keep t = true ->
  C08Model.restrict su (C08Model.keep_ids keep) t = Some r ->
  exists h', to_hres (Tree_filter_leaf_nodes HG fuel (fun nd => memz nd keep) true ub su h) = HOk h' /\ WF h' /\
             abs h' = Some (fst (C08Prune.with_update ub su (rooted h) r)).
Proof. exact C08W11LeafGen.gen_filter_is_restrict. Qed.
Print Assumptions generated_filter_leaf_nodes_is_restrict.

Theorem generated_filter_leaf_nodes_empties :
  forall (fuel : nat) (keep : list Z) (ub su : bool) (h : heap) (t : tree),
  (Heap.fuel_of h <= fuel)%nat ->
  WF h -> abs h = Some t -> C08W11Leaf.keeps_no_internal keep t = true ->
  C08Model.restrict su (C08Model.keep_ids keep) t = None ->
  exists h', to_hres (Tree_filter_leaf_nodes HG fuel (fun nd => memz nd keep) true ub su h) = HErr OtherErr h' /\ WF h'.
Proof. exact C08W11LeafGen.gen_filter_empties. Qed.
Print Assumptions generated_filter_leaf_nodes_empties.

Theorem generated_prune_leaves_without_taxa_is_restrictG :
  forall (fuel : nat) (ub su : bool) (h : heap) (t r : tree),
  (Heap.fuel_of h <= fuel)%nat ->
  WF h -> abs h = Some t ->
  C08Model.restrictG su C08Model.has_taxon C08Model.np_true C08Model.has_taxon t = Some r ->
  exists h', to_hres (Tree_prune_leaves_without_taxa HG fuel true ub su h) = HOk h' /\ WF h' /\
             abs h' = Some (fst (C08Prune.with_update ub su (rooted h) r)).
Proof. exact C08W11LeafGen.gen_plwt_restrictG. Qed.
Print Assumptions generated_prune_leaves_without_taxa_is_restrictG.

Theorem generated_filter_leaf_nodes_is_restrictG :
  forall (fuel : nat) (keep : list Z) (ub su : bool) (h : heap) (t r : tree),
  (Heap.fuel_of h <= fuel)%nat ->
  WF h -> abs h = Some t ->
  C08Model.restrictG su (C08Model.keep_ids keep) C08Model.np_true (C08Model.keep_ids keep) t = Some r ->
  exists h', to_hres (Tree_filter_leaf_nodes HG fuel (fun nd => memz nd keep) true ub su h) = HOk h' /\ WF h' /\
             abs h' = Some (fst (C08Prune.with_update ub su (rooted h) r)).
Proof. exact C08W11LeafGen.gen_filter_restrictG. Qed.
Print Assumptions generated_filter_leaf_nodes_is_restrictG.

(* hypotheses satisfiable - ((A,_)X,C)R rooted, the second child of X without taxon,
   suppress_unifurcations=True: the untaxed leaf goes and X is suppressed (A:1024 + X:2048 = 3072) - and the
   generated method run on it *)
Theorem generated_prune_leaves_without_taxa_is_restrict_nonvacuous :
  (Heap.fuel_of C08W11Leaf.w11_heap <= 10)%nat /\
  WF C08W11Leaf.w11_heap /\ abs C08W11Leaf.w11_heap = Some C08W11Leaf.w11_tree /\
  C08W11Leaf.internal_untaxed C08W11Leaf.w11_tree = true /\
  C08Model.restrict true C08Model.has_taxon C08W11Leaf.w11_tree =
    Some (T 0 None None None [T 2 (Some 0) None (Some 3072) []; T 4 (Some 2) None (Some 1024) []]).
Proof. exact C08W11LeafGen.gen_plwt_is_restrict_hyps. Qed.
Print Assumptions generated_prune_leaves_without_taxa_is_restrict_nonvacuous.

Theorem generated_prune_leaves_without_taxa_is_restrict_run :
  match to_hres (Tree_prune_leaves_without_taxa HG 10 true false true C08W11Leaf.w11_heap) with
  | HOk h' => abs h'
  | _ => None
  end = Some (T 0 None None None [T 2 (Some 0) None (Some 3072) []; T 4 (Some 2) None (Some 1024) []]).
Proof. exact C08W11LeafGen.gen_plwt_w11_run. Qed.
Print Assumptions generated_prune_leaves_without_taxa_is_restrict_run.

(* ((A,B)X,C)R rooted, filter_fn true exactly on the leaves B (id 3) and C (id 4), suppress_unifurcations=True *)
Theorem generated_filter_leaf_nodes_is_restrict_nonvacuous :
  (Heap.fuel_of C08W10Prune.w10_heap <= 10)%nat /\
  WF C08W10Prune.w10_heap /\ abs C08W10Prune.w10_heap = Some C08W10Prune.w10_tree /\
  C08W11Leaf.keeps_no_internal [3; 4] C08W10Prune.w10_tree = true /\
  C08Model.restrict true (C08Model.keep_ids [3; 4]) C08W10Prune.w10_tree =
    Some (T 0 None None None [T 3 (Some 1) None (Some 3072) []; T 4 (Some 2) None (Some 1024) []]).
Proof. exact C08W11LeafGen.gen_filter_is_restrict_hyps. Qed.
Print Assumptions generated_filter_leaf_nodes_is_restrict_nonvacuous.

Theorem generated_filter_leaf_nodes_is_restrict_run :
  match to_hres (Tree_filter_leaf_nodes HG 10 (fun nd => memz nd [3; 4]) true false true C08W10Prune.w10_heap) with
  | HOk h' => abs h'
  | _ => None
  end = Some (T 0 None None None [T 3 (Some 1) None (Some 3072) []; T 4 (Some 2) None (Some 1024) []]).
Proof. exact C08W11LeafGen.gen_filter_w11_run. Qed.
Print Assumptions generated_filter_leaf_nodes_is_restrict_run.

(* ---- wave 11: the label wrappers.  Tree_prune_taxa_with_labels / Tree_retain_taxa_with_labels (compiled from
   _tree.py) resolve the labels with get_taxa and call the unlabelled method (Props/C03Gen.v with_labels_delegate);
   with get_taxa := C08Model.get_taxa ns cs (TaxonNamespace.get_taxa(labels=...): the members of the namespace ns
   whose label matches one of the labels, case-sensitively iff cs) and labels that name the taxa `pruned` / `keep`
   on the leaves of t (labels_name_ns), they return the restriction. *)
From DV Require Proofs.C08Final Proofs.C08Thms Proofs.C08W11Labels.

Theorem generated_prune_taxa_with_labels_is_restrict :
  forall (fuel : nat) (ns : C08Model.nspace) (cs : bool) (labels pruned : list Z) (ub su : bool) (h : heap) (t r : tree),
  (Heap.fuel_of h <= fuel)%nat ->
  WF h -> abs h = Some t -> C08Model.leaf_taxa_only t = true ->
  C08Thms.labels_name_ns ns cs labels pruned t ->
  C08Model.restrict su (C08Model.drop_taxa pruned) t = Some r ->
  exists h', to_hres (Tree_prune_taxa_with_labels HG fuel (C08Model.get_taxa ns cs) labels ub su true false h) = HOk h' /\
             WF h' /\ abs h' = Some (fst (C08Prune.with_update ub su (rooted h) r)).
Proof. exact C08W11Labels.gen_prune_labels_is_restrict. Qed.
Print Assumptions generated_prune_taxa_with_labels_is_restrict.

Theorem generated_retain_taxa_with_labels_is_restrict :
  forall (fuel : nat) (ns : C08Model.nspace) (cs : bool) (labels keep : list Z) (ub su : bool) (h : heap) (t r : tree),
  (Heap.fuel_of h <= fuel)%nat ->
  WF h -> abs h = Some t -> C08Model.leaf_taxa_only t = true ->
  C08Final.taxa_in_ns ns t ->
  C08Thms.labels_name_ns ns cs labels keep t ->
  C08Model.restrict su (C08Model.keep_taxa keep) t = Some r ->
  exists h', to_hres (Tree_retain_taxa_with_labels HG fuel (map fst ns) (C08Model.get_taxa ns cs) labels ub su h) = HOk h' /\
             WF h' /\ abs h' = Some (fst (C08Prune.with_update ub su (rooted h) r)).
Proof. exact C08W11Labels.gen_retain_labels_is_restrict. Qed.
Print Assumptions generated_retain_taxa_with_labels_is_restrict.

(* hypotheses satisfiable - ((A,B)X,C)R rooted, namespace labels 0 2 4 (labels 2k and 2k+1 differ only in case):
   prune label 1 case-insensitively (names A); retain labels 2 and 5 (name B and C) - and the generated runs *)
Theorem generated_prune_taxa_with_labels_nonvacuous :
  (Heap.fuel_of C08W10Prune.w10_heap <= 10)%nat /\
  WF C08W10Prune.w10_heap /\ abs C08W10Prune.w10_heap = Some C08W10Prune.w10_tree /\
  C08Model.leaf_taxa_only C08W10Prune.w10_tree = true /\
  C08Thms.labels_name_ns C08W11Labels.w11_ns false [1] [0] C08W10Prune.w10_tree /\
  C08Model.restrict true (C08Model.drop_taxa [0]) C08W10Prune.w10_tree =
    Some (T 0 None None None [T 3 (Some 1) None (Some 3072) []; T 4 (Some 2) None (Some 1024) []]).
Proof. exact C08W11Labels.gen_prune_labels_hyps. Qed.
Print Assumptions generated_prune_taxa_with_labels_nonvacuous.

Theorem generated_prune_taxa_with_labels_run :
  match to_hres (Tree_prune_taxa_with_labels HG 10 (C08Model.get_taxa C08W11Labels.w11_ns false) [1] false true true false
                   C08W10Prune.w10_heap) with
  | HOk h' => abs h'
  | _ => None
  end = Some (T 0 None None None [T 3 (Some 1) None (Some 3072) []; T 4 (Some 2) None (Some 1024) []]).
Proof. exact C08W11Labels.gen_prune_labels_run. Qed.
Print Assumptions generated_prune_taxa_with_labels_run.

Theorem generated_retain_taxa_with_labels_nonvacuous :
  (Heap.fuel_of C08W10Prune.w10_heap <= 10)%nat /\
  WF C08W10Prune.w10_heap /\ abs C08W10Prune.w10_heap = Some C08W10Prune.w10_tree /\
  C08Model.leaf_taxa_only C08W10Prune.w10_tree = true /\
  C08Final.taxa_in_ns C08W11Labels.w11_ns C08W10Prune.w10_tree /\
  C08Thms.labels_name_ns C08W11Labels.w11_ns false [2; 5] [1; 2] C08W10Prune.w10_tree /\
  C08Model.restrict true (C08Model.keep_taxa [1; 2]) C08W10Prune.w10_tree =
    Some (T 0 None None None [T 3 (Some 1) None (Some 3072) []; T 4 (Some 2) None (Some 1024) []]).
Proof. exact C08W11Labels.gen_retain_labels_hyps. Qed.
Print Assumptions generated_retain_taxa_with_labels_nonvacuous.

Theorem generated_retain_taxa_with_labels_run :
  match to_hres (Tree_retain_taxa_with_labels HG 10 (map fst C08W11Labels.w11_ns)
                   (C08Model.get_taxa C08W11Labels.w11_ns false) [2; 5] false true C08W10Prune.w10_heap) with
  | HOk h' => abs h'
  | _ => None
  end = Some (T 0 None None None [T 3 (Some 1) None (Some 3072) []; T 4 (Some 2) None (Some 1024) []]).
Proof. exact C08W11Labels.gen_retain_labels_run. Qed.
Print Assumptions generated_retain_taxa_with_labels_run.

(* ---- wave 11: filter_leaf_nodes(recursive=False), pointer level and generated: one pass; an internal node
   emptied by the pass stays (third predicate np_true), as filter_leaf_nodes_nonrecursive (Props/C08.v) says of the
   transcription ---- *)
From DV Require Proofs.C08W11NonRec.

Theorem heap_filter_leaf_nodes_nonrecursive_is_restrictG :
  forall (keep : list Z) (ub su : bool) (h : heap) (t : tree),
  WF h -> abs h = Some t ->
  match C08Model.restrictG su (C08Model.keep_ids keep) C08Model.np_true C08Model.np_true t with
  | Some r => exists h', HeapOps.filter_leaf_nodes keep false ub su h = HOk h' /\ WF h' /\
                         abs h' = Some (fst (C08Prune.with_update ub su (rooted h) r))
  | None => exists h', HeapOps.filter_leaf_nodes keep false ub su h = HErr OtherErr h' /\ WF h'
  end.
Proof. exact C08W11NonRec.heap_filter_nonrec_restrictG. Qed.
Print Assumptions heap_filter_leaf_nodes_nonrecursive_is_restrictG.

Theorem generated_filter_leaf_nodes_nonrecursive_is_restrictG :
  forall (fuel : nat) (keep : list Z) (ub su : bool) (h : heap) (t r : tree),
  (Heap.fuel_of h <= fuel)%nat ->
  WF h -> abs h = Some t ->
  C08Model.restrictG su (C08Model.keep_ids keep) C08Model.np_true C08Model.np_true t = Some r ->
  exists h', to_hres (Tree_filter_leaf_nodes HG fuel (fun nd => memz nd keep) false ub su h) = HOk h' /\ WF h' /\
             abs h' = Some (fst (C08Prune.with_update ub su (rooted h) r)).
Proof. exact C08W11NonRec.gen_filter_nonrec_restrictG. Qed.
Print Assumptions generated_filter_leaf_nodes_nonrecursive_is_restrictG.

(* ((A,B)X,C)R rooted, filter_fn true on C only, one pass: A and B go, the emptied X stays as a leaf *)
Theorem generated_filter_leaf_nodes_nonrecursive_nonvacuous :
  (Heap.fuel_of C08W10Prune.w10_heap <= 10)%nat /\
  WF C08W10Prune.w10_heap /\ abs C08W10Prune.w10_heap = Some C08W10Prune.w10_tree /\
  C08Model.restrictG false (C08Model.keep_ids [4]) C08Model.np_true C08Model.np_true C08W10Prune.w10_tree =
    Some (T 0 None None None [T 1 None None (Some 2048) []; T 4 (Some 2) None (Some 1024) []]).
Proof. exact C08W11NonRec.gen_filter_nonrec_hyps. Qed.
Print Assumptions generated_filter_leaf_nodes_nonrecursive_nonvacuous.

Theorem generated_filter_leaf_nodes_nonrecursive_run :
  match to_hres (Tree_filter_leaf_nodes HG 10 (fun nd => memz nd [4]) false false false C08W10Prune.w10_heap) with
  | HOk h' => abs h'
  | _ => None
  end = Some (T 0 None None None [T 1 None None (Some 2048) []; T 4 (Some 2) None (Some 1024) []]).
Proof. exact C08W11NonRec.gen_filter_nonrec_run. Qed.
Print Assumptions generated_filter_leaf_nodes_nonrecursive_run.

(* the side condition keeps_no_internal cannot be dropped: ((A,B)X,C)R, filter_fn true on X and C - the generated
   method (and the library: replayed) keeps the emptied X as a leaf, `restrict` does not *)
From DV Require Proofs.C08W11Side.

Theorem filter_leaf_nodes_is_restrict_without_side_condition_refuted :
  C08W11Leaf.keeps_no_internal [1; 4] C08W10Prune.w10_tree = false /\
  C08Model.restrict false (C08Model.keep_ids [1; 4]) C08W10Prune.w10_tree =
    Some (T 0 None None None [T 4 (Some 2) None (Some 1024) []]) /\
  match to_hres (Tree_filter_leaf_nodes HG 10 (fun nd => memz nd [1; 4]) true false false C08W10Prune.w10_heap) with
  | HOk h' => abs h'
  | _ => None
  end = Some (T 0 None None None [T 1 None None (Some 2048) []; T 4 (Some 2) None (Some 1024) []]).
Proof. exact C08W11Side.filter_is_restrict_without_side_condition_refuted. Qed.
Print Assumptions filter_leaf_nodes_is_restrict_without_side_condition_refuted.

(* ---- wave 12: prune_leaves_without_taxa(recursive=False), specification, pointer level and generated: one pass;
   an internal node emptied by the pass stays as a taxon-less leaf (third predicate np_true).  Closes the leftover
   named after wave 11 (only the transcription-level simulation existed for recursive=False). ---- *)
From DV Require Proofs.C08W12NonRec.

Theorem prune_leaves_without_taxa_nonrecursive_is_restrictG :
  forall (upd_bip sup : bool) (t : tree) (rooted : option bool), NoDup (ids t) ->
  C08Model.prune_leaves_without_taxa false upd_bip sup (t, rooted) =
  match C08Model.restrictG sup C08Model.has_taxon C08Model.np_true C08Model.np_true t with
  | Some r => C08Model.IOk (map t_id (filter (C08Model.app_np C08Model.no_taxon) (leaves t)),
                   fst (C08Prune.with_update upd_bip sup rooted r), snd (C08Prune.with_update upd_bip sup rooted r))
  | None => C08Model.IErr C08Model.EAttr t
  end.
Proof. exact C08W12NonRec.S.plwt_nonrecursive_spec. Qed.
Print Assumptions prune_leaves_without_taxa_nonrecursive_is_restrictG.

Theorem heap_prune_leaves_without_taxa_nonrecursive_is_restrictG :
  forall (ub su : bool) (h : heap) (t : tree),
  WF h -> abs h = Some t ->
  match C08Model.restrictG su C08Model.has_taxon C08Model.np_true C08Model.np_true t with
  | Some r => exists h', HeapOps.prune_leaves_without_taxa false ub su h = HOk h' /\ WF h' /\
                         abs h' = Some (fst (C08Prune.with_update ub su (rooted h) r))
  | None => exists h', HeapOps.prune_leaves_without_taxa false ub su h = HErr AttrErr h' /\ WF h'
  end.
Proof. exact C08W12NonRec.heap_plwt_nonrec_restrictG. Qed.
Print Assumptions heap_prune_leaves_without_taxa_nonrecursive_is_restrictG.

Theorem generated_prune_leaves_without_taxa_nonrecursive_is_restrictG :
  forall (fuel : nat) (ub su : bool) (h : heap) (t r : tree),
  (Heap.fuel_of h <= fuel)%nat ->
  WF h -> abs h = Some t ->
  C08Model.restrictG su C08Model.has_taxon C08Model.np_true C08Model.np_true t = Some r ->
  exists h', to_hres (Tree_prune_leaves_without_taxa HG fuel false ub su h) = HOk h' /\ WF h' /\
             abs h' = Some (fst (C08Prune.with_update ub su (rooted h) r)).
Proof. exact C08W12NonRec.gen_plwt_nonrec_restrictG. Qed.
Print Assumptions generated_prune_leaves_without_taxa_nonrecursive_is_restrictG.

(* nothing would be left of the seed: the generated method refuses and the heap stays well formed *)
Theorem generated_prune_leaves_without_taxa_nonrecursive_refuses :
  forall (fuel : nat) (ub su : bool) (h : heap) (t : tree),
  (Heap.fuel_of h <= fuel)%nat ->
  WF h -> abs h = Some t ->
  C08Model.restrictG su C08Model.has_taxon C08Model.np_true C08Model.np_true t = None ->
  exists h', to_hres (Tree_prune_leaves_without_taxa HG fuel false ub su h) = HErr OtherErr h' /\ WF h'.
Proof. exact C08W12NonRec.gen_plwt_nonrec_refuses. Qed.
Print Assumptions generated_prune_leaves_without_taxa_nonrecursive_refuses.

(* ((_,_)X,C)R rooted, neither child of X carries a taxon: one pass removes both and the emptied X stays,
   where `restrict` (and recursive=True) removes X as well *)
Theorem generated_prune_leaves_without_taxa_nonrecursive_nonvacuous :
  (Heap.fuel_of C08W12NonRec.w12_heap <= 10)%nat /\
  WF C08W12NonRec.w12_heap /\ abs C08W12NonRec.w12_heap = Some C08W12NonRec.w12_tree /\
  C08Model.restrictG false C08Model.has_taxon C08Model.np_true C08Model.np_true C08W12NonRec.w12_tree =
    Some (T 0 None None None [T 1 None None (Some 2048) []; T 4 (Some 2) None (Some 1024) []]) /\
  C08Model.restrict false C08Model.has_taxon C08W12NonRec.w12_tree =
    Some (T 0 None None None [T 4 (Some 2) None (Some 1024) []]).
Proof. exact C08W12NonRec.gen_plwt_nonrec_hyps. Qed.
Print Assumptions generated_prune_leaves_without_taxa_nonrecursive_nonvacuous.

Theorem generated_prune_leaves_without_taxa_nonrecursive_run :
  match to_hres (Tree_prune_leaves_without_taxa HG 10 false false false C08W12NonRec.w12_heap) with
  | HOk h' => abs h'
  | _ => None
  end = Some (T 0 None None None [T 1 None None (Some 2048) []; T 4 (Some 2) None (Some 1024) []]).
Proof. exact C08W12NonRec.gen_plwt_nonrec_run. Qed.
Print Assumptions generated_prune_leaves_without_taxa_nonrecursive_run.

Theorem generated_filter_leaf_nodes_nonrecursive_refuses :
  forall (fuel : nat) (keep : list Z) (ub su : bool) (h : heap) (t : tree),
  (Heap.fuel_of h <= fuel)%nat ->
  WF h -> abs h = Some t ->
  C08Model.restrictG su (C08Model.keep_ids keep) C08Model.np_true C08Model.np_true t = None ->
  exists h', to_hres (Tree_filter_leaf_nodes HG fuel (fun nd => memz nd keep) false ub su h) = HErr OtherErr h' /\ WF h'.
Proof. exact C08W12NonRec.gen_filter_nonrec_refuses. Qed.
Print Assumptions generated_filter_leaf_nodes_nonrecursive_refuses.

(* non-vacuity of both _refuses theorems: a lone taxon-less seed; the refused calls leave the heap as it was *)
Theorem generated_nonrecursive_refuses_run :
  to_hres (Tree_prune_leaves_without_taxa HG 10 false false false C08W12NonRec.w12_lone)
    = HErr OtherErr C08W12NonRec.w12_lone /\
  to_hres (Tree_filter_leaf_nodes HG 10 (fun nd => memz nd []) false false false C08W12NonRec.w12_lone)
    = HErr OtherErr C08W12NonRec.w12_lone.
Proof. exact C08W12NonRec.w12_lone_refused. Qed.
Print Assumptions generated_nonrecursive_refuses_run.
