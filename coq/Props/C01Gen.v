(* C01, translator tie.  Gen/Bipartition.v is regenerated on every run from the AST of
   datamodel/treemodel/_tree.py, _bipartition.py and datamodel/taxonmodel.py by py/dv/gen_bipartition.py;
   the theorems below say that the generated functions equal the hand-written model of
   Model/C01Model.v on ALL inputs, so the property theorems of Props/C01.v hold of the generated code
   (two of them are restated on it directly).  Primitive semantics trusted: Model/C01GenPrims.v. *)
From Coq Require Import ZArith List Bool.
From DV Require Import Model.PyPrims Model.Tree Gen.BitFns Model.C01Model Model.C01GenPrims Gen.Bipartition
  Proofs.C01Bits Proofs.C01Enc Proofs.C01Flags Proofs.C01From Proofs.C01Gen Proofs.C01GenBip Proofs.C01GenFrom.
Import ListNotations.
Open Scope Z_scope.

(* TaxonNamespace.taxon_bitmask / all_taxa_bitmask *)
Theorem gen_taxon_bitmask_is_model : forall acc x, gen_taxon_bitmask (acc x) = taxon_bitmask acc x.
Proof. exact gen_taxon_bitmask_eq. Qed.
Print Assumptions gen_taxon_bitmask_is_model.

Theorem gen_all_taxa_bitmask_is_model : forall c, gen_all_taxa_bitmask c = all_taxa_bitmask c.
Proof. exact gen_all_taxa_bitmask_eq. Qed.
Print Assumptions gen_all_taxa_bitmask_is_model.

(* Bipartition.compile_split_bitmask (with compile_tree_leafset_bitmask / compile_leafset_bitmask) as
   encode_bipartitions calls it, on the bipartition objects it creates: the model's compile_split *)
Theorem gen_compile_split_bitmask_is_model : forall mut r tm ls,
  gen_compile_split_bitmask (mkB (Some 0) (Some ls) None None r (Some true)) None (Some tm) None (Some mut)
  = Ok (compiled_bip mut r tm ls, if Z.eqb tm 0 then None else b_split (compiled_bip mut r tm ls))
  /\ b_split (compiled_bip mut r tm ls) = Some (compile_split r tm ls)
  /\ b_leafset (compiled_bip mut r tm ls) = Some ls
  /\ b_rooted (compiled_bip mut r tm ls) = r.
Proof. intros. split; [apply gen_compile_split_fresh | apply compiled_bip_fields]. Qed.
Print Assumptions gen_compile_split_bitmask_is_model.

(* the loop body of encode_bipartitions = the model's visit *)
Theorem gen_encode_visit_is_model : forall su acc r i x l e hp rs,
  gen_encode_visit su acc r (mkNV i x l e hp (map (vc_of r) rs)) = Ok (vc_of r (enc_visit_f su acc i x l e rs)).
Proof. exact gen_encode_visit_eq. Qed.
Print Assumptions gen_encode_visit_is_model.

(* Tree.encode_bipartitions, all four flags, every tree, rooting state and accession map: the generated
   function returns exactly the model's result (structure, rooting flag, per edge in tree_edges order the
   bipartition with the model's leafset and split masks, the stored encoding) *)
Theorem gen_encode_bipartitions_is_model : forall su cb ss mut acc rooted t,
  gen_encode_bipartitions su cb ss mut acc rooted t =
  Ok (Some (mkGE (r_tree (encode_f su cb acc rooted t)) (r_rooted (encode_f su cb acc rooted t))
                 (map (fun e => (fst e, compiled_bip mut (r_rooted (encode_f su cb acc rooted t))
                                          (fst (snd (last (r_edges (encode_f su cb acc rooted t)) (0, (0, 0)))))
                                          (fst (snd e))))
                      (r_edges (encode_f su cb acc rooted t)))
                 (if ss then None
                  else Some (map (fun e => compiled_bip mut (r_rooted (encode_f su cb acc rooted t))
                                             (fst (snd (last (r_edges (encode_f su cb acc rooted t)) (0, (0, 0)))))
                                             (fst (snd e)))
                                 (r_edges (encode_f su cb acc rooted t)))))).
Proof. exact gen_encode_bipartitions_eq. Qed.
Print Assumptions gen_encode_bipartitions_is_model.

(* the property on the generated code: every edge's leafset bitmask is exactly the taxa below it and
   its split bitmask is the model's (hence, by Props/C01.v, the leafset when rooted and the leafset
   normalised against the lowest taxon bit on the tree otherwise) *)
Theorem gen_encode_masks_exact : forall su cb ss mut acc rooted t g,
  (forall x, In (Some x) (leaf_taxa t) -> 0 <= acc x) ->
  gen_encode_bipartitions su cb ss mut acc rooted t = Ok (Some g) ->
  Forall2 (fun n e =>
             fst e = t_id n /\
             (exists ls, b_leafset (snd e) = Some ls /\
                forall i, 0 <= i -> (Z.testbit ls i = true <-> exists x, In (Some x) (leaf_taxa n) /\ acc x = i)))
          (postorder (ge_tree g)) (ge_edges g)
  /\ map (fun e => (fst e, (b_leafset (snd e), b_split (snd e)))) (ge_edges g)
     = map (fun e => (fst e, (Some (fst (snd e)), Some (snd (snd e))))) (r_edges (encode_f su cb acc rooted t)).
Proof. exact gen_encode_masks_exact_l. Qed.
Print Assumptions gen_encode_masks_exact.

(* ---- Bipartition methods: construction and predicates ---------------------------------------- *)
(* full_bip s ls f r m : a compiled Bipartition object with split s, leafset ls, tree leafset f <> 0 *)

Theorem gen_init_is_model : forall a f r, f <> 0 ->
  gen_init None (Some (Some a)) (Some (Some f)) (Some r) None None
  = Ok (full_bip (snd (mk_bip a f r)) (fst (mk_bip a f r)) f r (Some true), tt).
Proof. exact gen_init_eq. Qed.
Print Assumptions gen_init_is_model.

Theorem gen_is_trivial_is_model : forall s ls f r m,
  gen_is_trivial (full_bip s ls f r m) = Ok (full_bip s ls f r m, bip_is_trivial s f).
Proof. exact gen_is_trivial_eq. Qed.
Print Assumptions gen_is_trivial_is_model.

Theorem gen_is_compatible_with_is_model : forall s1 ls1 f1 r1 m1 s2 ls2 f2 r2 m2 b,
  gen_is_compatible_with (full_bip s1 ls1 f1 r1 m1) (IsBip (full_bip s2 ls2 f2 r2 m2))
    = Ok (full_bip s1 ls1 f1 r1 m1, bip_is_compatible_with s1 s2 f1) /\
  gen_is_compatible_with (full_bip s1 ls1 f1 r1 m1) (IsInt b)
    = Ok (full_bip s1 ls1 f1 r1 m1, bip_is_compatible_with_int r1 s1 b f1).
Proof. intros. split; [apply gen_is_compatible_with_bip_eq | apply gen_is_compatible_with_int_eq]. Qed.
Print Assumptions gen_is_compatible_with_is_model.

Theorem gen_is_nested_within_is_model : forall s1 ls1 f1 r1 m1 s2 ls2 f2 r2 m2 masked,
  gen_is_nested_within (full_bip s1 ls1 f1 r1 m1) (full_bip s2 ls2 f2 r2 m2) masked
  = Ok (full_bip s1 ls1 f1 r1 m1, bip_is_nested_within r1 (ls1, s1) (ls2, s2) f1 masked).
Proof. exact gen_is_nested_within_eq. Qed.
Print Assumptions gen_is_nested_within_is_model.

Theorem gen_is_leafset_nested_within_is_model : forall s1 ls1 f1 r1 m1 s2 ls2 f2 r2 m2 b,
  gen_is_leafset_nested_within (full_bip s1 ls1 f1 r1 m1) (IsBip (full_bip s2 ls2 f2 r2 m2))
    = Ok (full_bip s1 ls1 f1 r1 m1, bip_is_leafset_nested_within ls1 ls2 f1) /\
  gen_is_leafset_nested_within (full_bip s1 ls1 f1 r1 m1) (IsInt b)
    = Ok (full_bip s1 ls1 f1 r1 m1, bip_is_leafset_nested_within ls1 b f1).
Proof. intros. split; [apply gen_is_leafset_nested_within_bip_eq | apply gen_is_leafset_nested_within_int_eq]. Qed.
Print Assumptions gen_is_leafset_nested_within_is_model.

(* Tree.is_compatible_with_bipartition (with Bipartition.__eq__) on the compiled bipartitions of one tree *)
Theorem gen_is_compatible_with_bipartition_is_model : forall f r m (enc : list (Z * Z)) s ls,
  gen_is_compatible_with_bipartition (map (fun e => full_bip (snd e) (fst e) f r m) enc) (full_bip s ls f r m)
  = Ok (tree_is_compatible_with (map snd enc) f s).
Proof. exact gen_is_compatible_with_bipartition_eq. Qed.
Print Assumptions gen_is_compatible_with_bipartition_is_model.

(* ---- Tree.from_split_bitmasks ------------------------------------------------------------------ *)

(* the filter / de-normalisation loop: all inputs *)
Theorem gen_splits_to_add_is_model : forall r all l, gen_splits_to_add r all l = splits_to_add r all l.
Proof. exact gen_splits_to_add_eq. Qed.
Print Assumptions gen_splits_to_add_is_model.

(* one iteration of the insertion loop on a well-formed working tree inside all_taxa_bitmask (root check,
   parent search test, already-there test, child gathering with its assert, the new edge's Bipartition,
   the final test, the re-grouping): the model's add_split *)
Theorem gen_from_splits_step_is_model : forall rt all t s,
  mwf t -> s <> 0 -> msubset (m_mask t) all ->
  gen_from_splits_step rt all t s = Ok (add_split t s).
Proof. exact gen_from_splits_step_eq. Qed.
Print Assumptions gen_from_splits_step_is_model.

(* the whole function (star tree through the GENERATED encode_bipartitions, filter loop, insertion
   loop): equals the model's from_splits for every namespace consistent with an injective non-negative
   accession map (>= 2 members, indices below the accession count), rooting state and split list; so
   from_splits_order_irrelevant / from_splits_rebuilds_* of Props/C01.v hold of the generated code *)
Theorem gen_from_split_bitmasks_is_model : forall acc ns count rooted l,
  (forall x, 0 <= acc x) -> (forall x y, acc x = acc y -> x = y) ->
  (NoDup (map fst ns) /\ Forall (fun p => 0 <= fst p /\ snd p = acc (fst p)) ns) ->
  (2 <= length ns)%nat -> (forall p, In p ns -> snd p < count) ->
  gen_from_split_bitmasks ns count rooted l = Ok (from_splits ns count rooted l).
Proof. exact gen_from_split_bitmasks_eq. Qed.
Print Assumptions gen_from_split_bitmasks_is_model.

(* ---- object level (wave 7): Gen/BipartitionObj.v ------------------------------------------------ *)
(* py/dv/gen_bipartition_obj.py compiles the statements of encode_bipartitions that create, bind, write to and
   return Bipartition OBJECTS (and the tail deciding which list is stored and when the lazy map is consumed)
   into operations on the object heap of Model/C01ObjModel.v; primitive semantics trusted: Model/C01ObjPrims.v.
   The theorems say that the generated functions are the hand model's, so that
   encoding_creates_fresh_bipartition_objects / saved_encoding_keeps_its_masks / no_bipartition_object_shared /
   object_level_refines_value_level of Props/C01.v hold of the generated code. *)
From DV Require Import Model.C01ObjModel Model.C01ObjPrims Gen.BipartitionObj Proofs.C01Obj Proofs.C01ObjGen
  Proofs.C01ObjGen2.

(* the loop body's object statements: a NEW object is created, bound to the edge and written in place *)
Theorem ogen_first_pass_edge_is_model : forall r h e,
  ogen_first_pass_edge r (fst (snd e)) (fst e) h = first_pass_edge r h e.
Proof. exact ogen_first_pass_edge_eq. Qed.
Print Assumptions ogen_first_pass_edge_is_model.

(* the compile helpers write to the object bound to the edge and return that same object *)
Theorem ogen_compile_edge_is_model : forall compile g nid h c b,
  oh_slot h nid = Some c -> st_get (oh_store h) c = Some b -> compile b = Ok (g b) ->
  ogen_compile_mutable_bipartition_for_edge compile nid h = Ok (oh_write c g h, c) /\
  ogen_compile_immutable_bipartition_for_edge compile nid h = Ok (oh_write c g h, c).
Proof. exact ogen_compile_edge_eq. Qed.
Print Assumptions ogen_compile_edge_is_model.

(* the tail: map(_compile_bipartition, tree_edges) is consumed to the end whatever suppress_storage is;
   None or the new list is stored *)
Theorem ogen_tail_is_model : forall ss run_map stored h h2 l,
  run_map h = Ok (h2, l) -> ogen_tail ss run_map stored h = Ok (h2, if ss then None else Some l).
Proof. exact ogen_tail_eq. Qed.
Print Assumptions ogen_tail_is_model.

(* the constructor as the object level reads it is the generated Bipartition.__init__ *)
Theorem prim_bip_new_is_generated_init : forall cb mu,
  gen_init None None None None mu cb = Ok (prim_bip_new cb mu, tt).
Proof. exact prim_bip_new_gen_init. Qed.
Print Assumptions prim_bip_new_is_generated_init.

(* encode_bipartitions at the object level with the GENERATED compile helpers, all four keywords, every state
   (any heap, any earlier encodings kept by the caller) whose encoded tree has pairwise distinct node ids *)
Theorem ogen_encode_bipartitions_is_model : forall su cb ss mut acc s,
  NoDup (map fst (r_edges (encode_f su cb acc (ot_rooted s) (ot_tree s)))) ->
  ogen_encode_bipartitions su cb ss mut acc gen_compile_mutable_bipartition_for_edge
    gen_compile_immutable_bipartition_for_edge s = Ok (obj_encode su cb ss mut acc s).
Proof. exact ogen_encode_generated_eq. Qed.
Print Assumptions ogen_encode_bipartitions_is_model.

(* wave 8: the statements of Tree.suppress_unifurcations that decide which objects stay in
   Tree.bipartition_encoding (coq/Gen/SuppObj.v, regenerated by py/dv/gen_supp_obj.py on every run: the key put into
   and looked up in bipartitions_to_delete is id(object) or the object itself, as the source says) leave exactly the
   stored list of the model obj_supp: the old list filtered by IDENTITY of the removed outdegree-one nodes' objects *)
From DV Require Import Model.C01SuppPrims Gen.SuppObj Proofs.C01SuppGen.

Theorem generated_suppress_unifurcations_is_model : forall t' r s,
  ogen_suppress_unifurcations_stored true (ot_heap s) (ot_tree s) (ot_stored s) = ot_stored (obj_supp t' r s).
Proof. intros. apply generated_suppress_is_model_l. Qed.
Print Assumptions generated_suppress_unifurcations_is_model.

Theorem generated_suppress_unifurcations_without_update : forall h t stored,
  ogen_suppress_unifurcations_stored false h t stored = stored.
Proof. exact generated_suppress_without_update_l. Qed.
Print Assumptions generated_suppress_unifurcations_without_update.
