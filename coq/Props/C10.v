(* C10 property theorems: statements only, each closed by `exact`. *)
From Coq Require Import ZArith List Bool.
From DV Require Import Model.PyPrims Model.C10Model Proofs.C10Proofs.
Import ListNotations.
Open Scope Z_scope.

(* Label lookup returns exactly the members whose label matches under the namespace's, or the
   call's, case-sensitivity setting, in membership order, and changes nothing. *)
Theorem findall_spec : forall (lower : lbl -> lbl) (w : world) (l : lbl) (cs : option bool),
  step lower w (FindAll l cs)
  = (w, OTaxa (filter (matches lower w (use_cs (w_ns w) cs) l) (taxa (w_ns w)))).
Proof. exact findall_spec_l. Qed.
Print Assumptions findall_spec.
