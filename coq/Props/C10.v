(* C10 property theorems: statements only, each closed by `exact`.
   All statements are about the executable model Model/C10Model.v (tied to taxonmodel.py by the
   correspondence run); `lower` (str.lower on label ids) is an arbitrary function.
   `Inv`, `ops_wf`, `trace` are defined in Proofs/C10Inv.v / C10Bits.v; the first theorems
   below say exactly what they mean. *)
From Coq Require Import ZArith List Bool Permutation Sorted.
From DV Require Import Model.PyPrims Model.C10Model Model.C10ModelExt Proofs.C10Proofs Proofs.C10Ext Proofs.C10ExtEx.
From DV Require Import Model.C10NsPrims Gen.Namespace Proofs.C10Gen Proofs.C10GenStep.
Import ListNotations.
Open Scope Z_scope.

(* ================= 1. the invariant ================= *)

(* what `Inv` says: members duplicate-free; member <-> has an accession index; indices in
   [0,count); index map injective; reverse map consistent; bitmask memo sound *)
Theorem inv_unfold : forall n : ns,
  Inv n <->
  NoDup (taxa n)
  /\ (forall t, In t (taxa n) <-> exists i, alookup t (acc n) = Some i)
  /\ (forall t i, alookup t (acc n) = Some i -> 0 <= i < count n)
  /\ (forall t1 t2 i, alookup t1 (acc n) = Some i -> alookup t2 (acc n) = Some i -> t1 = t2)
  /\ (forall t i, alookup i (rev n) = Some t <-> alookup t (acc n) = Some i)
  /\ (forall t m, alookup t (bm n) = Some m ->
        exists i, alookup t (acc n) = Some i /\ m = Z.shiftl 1 i)
  /\ 0 <= count n.
Proof. exact Inv_unfold_l. Qed.
Print Assumptions inv_unfold.

(* an empty namespace (any flags, any pre-existing Taxon objects) satisfies it *)
Theorem inv_initial : forall (mut cs : bool) (lab : list (tid * lbl)) (nxt : tid),
  Inv (w_ns (mkW (mkNs [] [] [] 0 [] mut cs) lab nxt))
  /\ forall t, In t (taxa (w_ns (mkW (mkNs [] [] [] 0 [] mut cs) lab nxt))) -> t < nxt.
Proof. exact inv_initial_l. Qed.
Print Assumptions inv_initial.

(* preserved by EVERY operation, including the identity-renaming deep copy *)
Theorem inv_step : forall (lower : lbl -> lbl) (w : world) (o : op),
  Inv (w_ns w) -> Inv (w_ns (fst (step lower w o))).
Proof. exact step_inv. Qed.
Print Assumptions inv_step.

(* hence in every state of every history *)
Theorem ops_inv : forall (lower : lbl -> lbl) (w : world) (ops : list op),
  Inv (w_ns w) -> Inv (w_ns (run_world lower w ops)).
Proof. exact ops_inv_l. Qed.
Print Assumptions ops_inv.

(* the same, self-contained: every state reachable from an empty namespace *)
Theorem ops_inv_reachable :
  forall (lower : lbl -> lbl) (mut cs : bool) (lab : list (tid * lbl)) (nxt : tid) (ops : list op),
  let n := w_ns (run_world lower (mkW (mkNs [] [] [] 0 [] mut cs) lab nxt) ops) in
  NoDup (taxa n)
  /\ (forall t, In t (taxa n) <-> exists i, alookup t (acc n) = Some i)
  /\ (forall t i, alookup t (acc n) = Some i -> 0 <= i < count n)
  /\ (forall t1 t2 i, alookup t1 (acc n) = Some i -> alookup t2 (acc n) = Some i -> t1 = t2)
  /\ (forall t i, alookup i (rev n) = Some t <-> alookup t (acc n) = Some i)
  /\ (forall t m, alookup t (bm n) = Some m ->
        exists i, alookup t (acc n) = Some i /\ m = Z.shiftl 1 i)
  /\ 0 <= count n.
Proof. exact ops_inv_reach_l. Qed.
Print Assumptions ops_inv_reachable.

(* `ops_wf`: add_taxon is only ever applied to Taxon objects that already exist *)
Theorem ops_wf_unfold : forall (lower : lbl -> lbl) (w : world),
  (ops_wf lower w [] <-> True)
  /\ forall o r, ops_wf lower w (o :: r) <->
       (match o with
        | AddTaxon t => t < w_next w
        | AddTaxa ts => forall t, In t ts -> t < w_next w
        | _ => True
        end)
       /\ ops_wf lower (fst (step lower w o)) r.
Proof. exact ops_wf_unfold_l. Qed.
Print Assumptions ops_wf_unfold.

(* world-level invariant: additionally every member is an existing object (id below the
   allocation counter), so that freshly created / deep-copied taxa are really new *)
Theorem ops_world_inv : forall (lower : lbl -> lbl) (w : world) (ops : list op),
  (Inv (w_ns w) /\ forall t, In t (taxa (w_ns w)) -> t < w_next w) ->
  ops_wf lower w ops ->
  Inv (w_ns (run_world lower w ops))
  /\ forall t, In t (taxa (w_ns (run_world lower w ops))) -> t < w_next (run_world lower w ops).
Proof. exact ops_winv_l. Qed.
Print Assumptions ops_world_inv.

(* ================= 2. stability of the bit ================= *)

(* one step: a taxon that is a member before and after any operation (other than replacing the
   namespace by a deep copy, which changes identities) keeps its accession index *)
Theorem bit_stable : forall (lower : lbl -> lbl) (w : world) (o : op) (t : tid) (i : Z),
  Inv (w_ns w) -> o <> DeepCopy ->
  In t (taxa (w_ns w)) -> alookup t (acc (w_ns w)) = Some i ->
  In t (taxa (w_ns (fst (step lower w o)))) ->
  alookup t (acc (w_ns (fst (step lower w o)))) = Some i.
Proof. exact bit_stable_l. Qed.
Print Assumptions bit_stable.

(* `trace` = all states a history passes through *)
Theorem trace_unfold : forall (lower : lbl -> lbl) (w : world),
  trace lower w [] = [w]
  /\ forall o r, trace lower w (o :: r) = w :: trace lower (fst (step lower w o)) r.
Proof. exact trace_unfold_l. Qed.
Print Assumptions trace_unfold.

(* histories (any operations): a taxon that is a member in every state of the run has the same
   index, and the same single-bit mask 1<<i, in every state *)
Theorem bit_stable_run :
  forall (lower : lbl -> lbl) (w : world) (ops : list op) (t : tid) (i : Z),
  (Inv (w_ns w) /\ forall t, In t (taxa (w_ns w)) -> t < w_next w) ->
  ops_wf lower w ops ->
  (forall w', In w' (trace lower w ops) -> In t (taxa (w_ns w'))) ->
  alookup t (acc (w_ns w)) = Some i ->
  forall w', In w' (trace lower w ops) ->
    alookup t (acc (w_ns w')) = Some i
    /\ exists n', taxon_bitmask (w_ns w') t = Ok (n', Z.shiftl 1 i).
Proof. exact bit_stable_run_l. Qed.
Print Assumptions bit_stable_run.

Theorem bit_stable_run_nodeep :
  forall (lower : lbl -> lbl) (w : world) (ops : list op) (t : tid) (i : Z),
  Inv (w_ns w) -> ~ In DeepCopy ops ->
  (forall w', In w' (trace lower w ops) -> In t (taxa (w_ns w'))) ->
  alookup t (acc (w_ns w)) = Some i ->
  forall w', In w' (trace lower w ops) -> alookup t (acc (w_ns w')) = Some i.
Proof. exact bit_stable_run_nodeep_l. Qed.
Print Assumptions bit_stable_run_nodeep.

(* copy.deepcopy: the k-th member t is replaced by the fresh object f t; f t has the index and
   the label of t; order, counter and flags are kept; nothing else has an index *)
Theorem deepcopy_preserves_bits : forall (lower : lbl -> lbl) (w : world),
  Inv (w_ns w) ->
  let w' := fst (step lower w DeepCopy) in
  let f := ren (fresh_map (taxa (w_ns w)) (w_next w)) in
  taxa (w_ns w') = map f (taxa (w_ns w))
  /\ (forall t, In t (taxa (w_ns w)) -> alookup (f t) (acc (w_ns w')) = alookup t (acc (w_ns w)))
  /\ (forall x i, alookup x (acc (w_ns w')) = Some i ->
        exists t, In t (taxa (w_ns w)) /\ x = f t /\ alookup t (acc (w_ns w)) = Some i)
  /\ (forall t, In t (taxa (w_ns w)) -> label_of w' (f t) = label_of w t)
  /\ (forall t, In t (taxa (w_ns w)) -> w_next w <= f t < w_next w')
  /\ (forall t1 t2, In t1 (taxa (w_ns w)) -> In t2 (taxa (w_ns w)) -> f t1 = f t2 -> t1 = t2)
  /\ count (w_ns w') = count (w_ns w)
  /\ is_mut (w_ns w') = is_mut (w_ns w) /\ is_cs (w_ns w') = is_cs (w_ns w).
Proof. exact deepcopy_preserves_bits_l. Qed.
Print Assumptions deepcopy_preserves_bits.

(* TaxonNamespace(other) / copy.copy: same Taxon objects, same order, same indices: the copy that
   replaces the namespace under observation is indistinguishable (interface lemma; the content is
   in the correspondence run, which really constructs the copy) *)
Theorem copy_preserves_bits : forall (lower : lbl -> lbl) (w : world),
  step lower w CopyConstruct = (w, OUnit).
Proof. exact copy_preserves_bits_l. Qed.
Print Assumptions copy_preserves_bits.

(* ================= 3. one bit each, never shared ================= *)

Theorem single_bit : forall (n : ns) (t : tid), Inv n -> In t (taxa n) ->
  exists n' i, taxon_bitmask n t = Ok (n', Z.shiftl 1 i)
    /\ alookup t (acc n) = Some i /\ 0 <= i < count n
    /\ (forall k, Z.testbit (Z.shiftl 1 i) k = Z.eqb i k)
    /\ 0 < Z.shiftl 1 i <= all_taxa_bitmask n
    /\ (taxa n' = taxa n /\ acc n' = acc n /\ rev n' = rev n /\ count n' = count n
        /\ is_mut n' = is_mut n /\ is_cs n' = is_cs n)
    /\ Inv n'.
Proof. exact single_bit_l. Qed.
Print Assumptions single_bit.

Theorem nonmember_no_bit : forall (n : ns) (t : tid),
  Inv n -> ~ In t (taxa n) -> taxon_bitmask n t = Err KeyErr.
Proof. exact nonmember_no_bit_l. Qed.
Print Assumptions nonmember_no_bit.

Theorem bits_distinct : forall (n : ns) (t1 t2 : tid),
  Inv n -> In t1 (taxa n) -> In t2 (taxa n) -> t1 <> t2 ->
  exists i1 i2 n1 n2,
    alookup t1 (acc n) = Some i1 /\ alookup t2 (acc n) = Some i2 /\ i1 <> i2
    /\ taxon_bitmask n t1 = Ok (n1, Z.shiftl 1 i1) /\ taxon_bitmask n t2 = Ok (n2, Z.shiftl 1 i2)
    /\ Z.shiftl 1 i1 <> Z.shiftl 1 i2 /\ Z.land (Z.shiftl 1 i1) (Z.shiftl 1 i2) = 0.
Proof. exact bits_distinct_l. Qed.
Print Assumptions bits_distinct.

(* ================= 4. taxa -> bitmask -> taxa ================= *)

(* the loop `while bitmask: ... bitmask >>= 1` terminates within the model's fuel for every
   non-negative bitmask (a negative one does not terminate in Python either) *)
Theorem bitmask_taxa_list_fuel : forall (n : ns) (m idx : Z) (got : list tid), 0 <= m ->
  bitmask_taxa_list n (bits_fuel m) m idx got <> OutOfFuel.
Proof. exact bitmask_taxa_list_fuel_l. Qed.
Print Assumptions bitmask_taxa_list_fuel.

(* any bitmask whose set bits are live indices: exactly the members with those bits, by bit *)
Theorem bitmask_taxa_list_members : forall (n : ns) (m : Z), Inv n -> 0 <= m ->
  (forall k, 0 <= k -> Z.testbit m k = true -> exists t, alookup k (rev n) = Some t) ->
  exists L, bitmask_taxa_list n (bits_fuel m) m 0 [] = Ok L
    /\ (forall t, In t L <-> exists k, alookup t (acc n) = Some k /\ Z.testbit m k = true)
    /\ StronglySorted (fun a c => match alookup a (acc n) with Some i => i | None => -1 end
                                  < match alookup c (acc n) with Some i => i | None => -1 end) L
    /\ NoDup L.
Proof. exact bitmask_taxa_list_members_l. Qed.
Print Assumptions bitmask_taxa_list_members.

Theorem taxa_bitmask_roundtrip : forall (n : ns) (S : list tid),
  Inv n -> NoDup S -> incl S (taxa n) ->
  exists n' b L,
    taxa_bitmask n S 0 = Ok (n', b)
    /\ (taxa n' = taxa n /\ acc n' = acc n /\ rev n' = rev n /\ count n' = count n
        /\ is_mut n' = is_mut n /\ is_cs n' = is_cs n)
    /\ Inv n' /\ 0 <= b
    /\ (forall k, 0 <= k -> (Z.testbit b k = true <-> exists t, In t S /\ alookup t (acc n) = Some k))
    /\ bitmask_taxa_list n' (bits_fuel b) b 0 [] = Ok L
    /\ Permutation L S
    /\ StronglySorted (fun a c => match alookup a (acc n) with Some i => i | None => -1 end
                                  < match alookup c (acc n) with Some i => i | None => -1 end) L.
Proof. exact taxa_bitmask_roundtrip_l. Qed.
Print Assumptions taxa_bitmask_roundtrip.

(* the same as two consecutive API calls: never a KeyError, never out of fuel *)
Theorem taxa_bitmask_roundtrip_steps : forall (lower : lbl -> lbl) (w : world) (S : list tid),
  Inv (w_ns w) -> NoDup S -> incl S (taxa (w_ns w)) ->
  exists w1 b L,
    step lower w (TaxaBitmask S) = (w1, OInt b)
    /\ step lower w1 (BitmaskTaxa b) = (w1, OTaxa L)
    /\ Permutation L S
    /\ StronglySorted (fun a c => match alookup a (acc (w_ns w)) with Some i => i | None => -1 end
                                  < match alookup c (acc (w_ns w)) with Some i => i | None => -1 end) L
    /\ (taxa (w_ns w1) = taxa (w_ns w) /\ acc (w_ns w1) = acc (w_ns w) /\ rev (w_ns w1) = rev (w_ns w)
        /\ count (w_ns w1) = count (w_ns w)
        /\ is_mut (w_ns w1) = is_mut (w_ns w) /\ is_cs (w_ns w1) = is_cs (w_ns w))
    /\ w_lab w1 = w_lab w /\ w_next w1 = w_next w.
Proof. exact taxa_bitmask_roundtrip_steps_l. Qed.
Print Assumptions taxa_bitmask_roundtrip_steps.

(* ================= 5. Newick rendering of a bitmask ================= *)

(* left group = labels of exactly the members whose bit (by accession index, not by list position)
   is set in m, in membership order; right group = the labels of the other members *)
Theorem newick_rendering_names_exactly : forall (lower : lbl -> lbl) (w : world) (m : Z),
  Inv (w_ns w) ->
  ((m = 0 \/ m = all_taxa_bitmask (w_ns w)) ->
     step lower w (NewickGroups m) = (w, OGroup1 (map (label_of w) (taxa (w_ns w)))))
  /\ (m <> 0 -> m <> all_taxa_bitmask (w_ns w) ->
      exists n',
        step lower w (NewickGroups m)
        = (set_ns w n',
           OGroups
             (map (label_of w)
                (filter (fun t => match alookup t (acc (w_ns w)) with
                                  | Some i => Z.testbit m i | None => false end) (taxa (w_ns w))))
             (map (label_of w)
                (filter (fun t => negb (match alookup t (acc (w_ns w)) with
                                        | Some i => Z.testbit m i | None => false end)) (taxa (w_ns w)))))
        /\ (taxa n' = taxa (w_ns w) /\ acc n' = acc (w_ns w) /\ rev n' = rev (w_ns w)
            /\ count n' = count (w_ns w)
            /\ is_mut n' = is_mut (w_ns w) /\ is_cs n' = is_cs (w_ns w))
        /\ Inv n').
Proof. exact newick_rendering_names_exactly_l. Qed.
Print Assumptions newick_rendering_names_exactly.

(* ================= 6. label lookups, require, immutability, removal by label ================= *)

(* findall: exactly the members whose label matches under the namespace's, or the call's,
   case-sensitivity setting, in membership order; nothing changes *)
Theorem findall_spec : forall (lower : lbl -> lbl) (w : world) (l : lbl) (cs : option bool),
  step lower w (FindAll l cs)
  = (w, OTaxa (filter (matches lower w (use_cs (w_ns w) cs) l) (taxa (w_ns w)))).
Proof. exact findall_spec_l. Qed.
Print Assumptions findall_spec.

(* get_taxon: the first matching member in membership order, None iff nothing matches *)
Theorem get_taxon_first : forall (lower : lbl -> lbl) (w : world) (l : lbl) (cs : option bool),
  let f := matches lower w (use_cs (w_ns w) cs) l in
  (forall t, step lower w (GetTaxon l cs) = (w, OTax (Some t)) <->
     exists pre post, taxa (w_ns w) = pre ++ t :: post
                      /\ (forall x, In x pre -> f x = false) /\ f t = true)
  /\ (step lower w (GetTaxon l cs) = (w, OTax None) <->
        forall x, In x (taxa (w_ns w)) -> f x = false)
  /\ step lower w (GetTaxon l cs) = (w, OTax (hd_error (filter f (taxa (w_ns w))))).
Proof. exact get_taxon_first_l. Qed.
Print Assumptions get_taxon_first.

Theorem has_label_spec : forall (lower : lbl -> lbl) (w : world) (l : lbl) (cs : option bool),
  exists b, step lower w (HasLabel l cs) = (w, OBool b)
    /\ (b = true <-> exists t, In t (taxa (w_ns w)) /\ matches lower w (use_cs (w_ns w) cs) l t = true).
Proof. exact has_label_spec_l. Qed.
Print Assumptions has_label_spec.

(* require_taxon: the first match and an unchanged world; or TypeError (immutable) and an
   unchanged world; or exactly one new member: a fresh object, appended last, with the old counter
   as its index, the requested label, nothing else touched *)
Theorem require_taxon_spec : forall (lower : lbl -> lbl) (w : world) (l : lbl) (cs : option bool),
  (forall t r, lookup_all lower w l cs = t :: r ->
     step lower w (RequireTaxon l cs) = (w, OTax (Some t)))
  /\ (lookup_all lower w l cs = [] -> is_mut (w_ns w) = false ->
        step lower w (RequireTaxon l cs) = (w, OErr TypeErr))
  /\ ((Inv (w_ns w) /\ forall t, In t (taxa (w_ns w)) -> t < w_next w) ->
      lookup_all lower w l cs = [] -> is_mut (w_ns w) = true ->
      exists w', step lower w (RequireTaxon l cs) = (w', OTax (Some (w_next w)))
        /\ ~ In (w_next w) (taxa (w_ns w))
        /\ taxa (w_ns w') = taxa (w_ns w) ++ [w_next w]
        /\ alookup (w_next w) (acc (w_ns w')) = Some (count (w_ns w))
        /\ count (w_ns w') = count (w_ns w) + 1
        /\ label_of w' (w_next w) = l
        /\ (forall t, t <> w_next w ->
              label_of w' t = label_of w t /\ alookup t (acc (w_ns w')) = alookup t (acc (w_ns w)))
        /\ w_next w' = w_next w + 1
        /\ is_mut (w_ns w') = true /\ is_cs (w_ns w') = is_cs (w_ns w)).
Proof. exact require_taxon_spec_l. Qed.
Print Assumptions require_taxon_spec.

(* an immutable namespace never gains a member, and stays immutable, under every operation
   except switching mutability back on / replacing the namespace by a deep copy *)
Theorem immutable_never_grows : forall (lower : lbl -> lbl) (w : world) (o : op),
  is_mut (w_ns w) = false -> (forall b, o <> SetMutable b) -> o <> DeepCopy ->
  incl (taxa (w_ns (fst (step lower w o)))) (taxa (w_ns w))
  /\ is_mut (w_ns (fst (step lower w o))) = false.
Proof. exact immutable_never_grows_l. Qed.
Print Assumptions immutable_never_grows.

Theorem immutable_run_never_grows : forall (lower : lbl -> lbl) (w : world) (ops : list op),
  is_mut (w_ns w) = false -> (forall b, ~ In (SetMutable b) ops) -> ~ In DeepCopy ops ->
  incl (taxa (w_ns (run_world lower w ops))) (taxa (w_ns w))
  /\ is_mut (w_ns (run_world lower w ops)) = false.
Proof. exact immutable_run_never_grows_l. Qed.
Print Assumptions immutable_run_never_grows.

(* remove_taxon_label: LookupError and nothing changed when nothing matches; otherwise exactly
   the first match (first_match_only) or exactly all matches are removed: order of the others,
   their indices, the counter, flags and labels unchanged *)
Theorem remove_label_spec :
  forall (lower : lbl -> lbl) (w : world) (l : lbl) (cs : option bool) (first : bool),
  (lookup_all lower w l cs = [] -> step lower w (RemoveLabel l cs first) = (w, OErr LookupErr))
  /\ (forall t r, Inv (w_ns w) -> lookup_all lower w l cs = t :: r ->
        exists w', step lower w (RemoveLabel l cs first) = (w', OUnit)
          /\ taxa (w_ns w')
             = filter (fun x => negb (memb x (if first then [t] else t :: r))) (taxa (w_ns w))
          /\ (forall x, alookup x (acc (w_ns w'))
                        = if memb x (if first then [t] else t :: r) then None
                          else alookup x (acc (w_ns w)))
          /\ count (w_ns w') = count (w_ns w)
          /\ is_mut (w_ns w') = is_mut (w_ns w) /\ is_cs (w_ns w') = is_cs (w_ns w)
          /\ w_lab w' = w_lab w /\ w_next w' = w_next w).
Proof. exact remove_label_spec_l. Qed.
Print Assumptions remove_label_spec.

Theorem discard_label_spec :
  forall (lower : lbl -> lbl) (w : world) (l : lbl) (cs : option bool) (first : bool),
  (lookup_all lower w l cs = [] -> step lower w (DiscardLabel l cs first) = (w, OUnit))
  /\ (forall t r, Inv (w_ns w) -> lookup_all lower w l cs = t :: r ->
        exists w', step lower w (DiscardLabel l cs first) = (w', OUnit)
          /\ taxa (w_ns w')
             = filter (fun x => negb (memb x (if first then [t] else t :: r))) (taxa (w_ns w))
          /\ (forall x, alookup x (acc (w_ns w'))
                        = if memb x (if first then [t] else t :: r) then None
                          else alookup x (acc (w_ns w)))
          /\ count (w_ns w') = count (w_ns w)
          /\ is_mut (w_ns w') = is_mut (w_ns w) /\ is_cs (w_ns w') = is_cs (w_ns w)
          /\ w_lab w' = w_lab w /\ w_next w' = w_next w).
Proof. exact discard_label_spec_l. Qed.
Print Assumptions discard_label_spec.

(* ================= 7. second wave: further renderings and read-only operations =================
   (Model/C10ModelExt.v: xstep extends step; a bit string is a list bool, most significant digit
   first, '1' = true; List.rev s reads it from the right) *)

(* int_as_bitstring: position k from the right is '1' iff bit k of the number is set, for every
   non-negative number and every requested length *)
Theorem int_as_bitstring_positions : forall (m len : Z) (k : nat), 0 <= m ->
  nth k (List.rev (int_as_bitstring m len)) false = Z.testbit m (Z.of_nat k).
Proof. exact int_as_bitstring_nth_l. Qed.
Print Assumptions int_as_bitstring_positions.

(* bitmask_as_bitstring / split_as_string: position k from the right is '1' iff bit k is set, so a
   member is marked iff its bit is set; the width is the accession count when the mask only uses
   allocated bits, larger when it has a bit nobody was ever given; '0' for the empty namespace *)
Theorem bitstring_names_exactly : forall (n : ns) (m : Z), Inv n -> 0 <= m ->
  let s := bitmask_as_bitstring n m in
  (forall k : nat, nth k (List.rev s) false = Z.testbit m (Z.of_nat k))
  /\ (forall t i, alookup t (acc n) = Some i -> nth (Z.to_nat i) (List.rev s) false = Z.testbit m i)
  /\ (1 <= count n -> m < 2 ^ count n -> Z.of_nat (length s) = count n)
  /\ (2 ^ count n <= m -> count n < Z.of_nat (length s))
  /\ (count n = 0 -> m = 0 -> s = [false]).
Proof. exact bitstring_names_exactly_l. Qed.
Print Assumptions bitstring_names_exactly.

(* rendering the bitmask of a list of members: '1' exactly at the positions of their indices (the
   position of a vacated index is therefore '0'), width = accession count *)
Theorem bitstring_of_taxa_bitmask : forall (n : ns) (S : list tid), Inv n -> incl S (taxa n) ->
  exists n' b, taxa_bitmask n S 0 = Ok (n', b)
    /\ (forall k : nat, nth k (List.rev (bitmask_as_bitstring n' b)) false = true
                        <-> exists t, In t S /\ alookup t (acc n) = Some (Z.of_nat k))
    /\ (1 <= count n -> Z.of_nat (length (bitmask_as_bitstring n' b)) = count n).
Proof. exact bitstring_of_taxa_bitmask_l. Qed.
Print Assumptions bitstring_of_taxa_bitmask.

(* label_taxon_map (dict or CaseInsensitiveDict by the namespace's / the call's case setting):
   looking a label up gives the LAST member whose label matches (lookup_all = what findall returns);
   every entry is a member under its own label; one entry per distinct key *)
Theorem label_taxon_map_spec : forall (lower : lbl -> lbl) (w : world) (cs : option bool),
  let c := use_cs (w_ns w) cs in
  let d := label_taxon_map lower w cs in
  xstep lower w (XLabelMap cs) = (w, YMap d)
  /\ (forall l, dict_get (key_fn lower c) l d = hd_error (List.rev (lookup_all lower w l cs)))
  /\ (forall k t, In (k, t) d -> In t (taxa (w_ns w)) /\ label_of w t = k)
  /\ NoDup (map (fun e => key_fn lower c (fst e)) d).
Proof. exact label_taxon_map_spec_l. Qed.
Print Assumptions label_taxon_map_spec.

(* taxa_bitmask(labels=...) / get_taxa_bitmask: never an error; bit k is set iff some listed label
   selects (first match | any match, under the case setting) a member with index k *)
Theorem taxa_bitmask_labels_names_exactly :
  forall (lower : lbl -> lbl) (w : world) (ls : list lbl) (cs : option bool) (first : bool),
  Inv (w_ns w) ->
  exists n' b, xstep lower w (XTaxaBitmaskLabels ls cs first) = (set_ns w n', YBase (OInt b))
    /\ (taxa n' = taxa (w_ns w) /\ acc n' = acc (w_ns w) /\ rev n' = rev (w_ns w)
        /\ count n' = count (w_ns w) /\ is_mut n' = is_mut (w_ns w) /\ is_cs n' = is_cs (w_ns w))
    /\ Inv n' /\ 0 <= b
    /\ forall k, 0 <= k ->
         (Z.testbit b k = true <->
          exists l t, In l ls
            /\ (if first then lookup_first lower w l cs = Some t else In t (lookup_all lower w l cs))
            /\ alookup t (acc (w_ns w)) = Some k).
Proof. exact taxa_bitmask_labels_names_exactly_l. Qed.
Print Assumptions taxa_bitmask_labels_names_exactly.

(* taxa_bipartition(taxa=S) on a namespace that has handed out at least one index: the leafset
   bitmask has exactly the bits of S; the tree leafset bitmask is all_taxa_bitmask; the split bitmask
   is the leafset bitmask when rooted or when bit 0 is clear, otherwise its complement within
   all_taxa_bitmask - which sets EVERY other allocated bit, vacated ones included *)
Theorem taxa_bipartition_names_exactly :
  forall (lower : lbl -> lbl) (w : world) (S : list tid) (rooted : option bool),
  Inv (w_ns w) -> incl S (taxa (w_ns w)) -> 1 <= count (w_ns w) ->
  exists n' split leaf,
    xstep lower w (XBipartition S rooted) = (set_ns w n', YBip split leaf (all_taxa_bitmask (w_ns w)))
    /\ (taxa n' = taxa (w_ns w) /\ acc n' = acc (w_ns w) /\ rev n' = rev (w_ns w)
        /\ count n' = count (w_ns w) /\ is_mut n' = is_mut (w_ns w) /\ is_cs n' = is_cs (w_ns w))
    /\ Inv n'
    /\ 0 <= leaf
    /\ (forall k, 0 <= k -> (Z.testbit leaf k = true <-> exists t, In t S /\ alookup t (acc (w_ns w)) = Some k))
    /\ ((rooted = Some true \/ Z.testbit leaf 0 = false) -> split = leaf)
    /\ (rooted <> Some true -> Z.testbit leaf 0 = true ->
        forall k, 0 <= k -> Z.testbit split k = Z.ltb k (count (w_ns w)) && negb (Z.testbit leaf k)).
Proof. exact taxa_bipartition_names_exactly_l. Qed.
Print Assumptions taxa_bipartition_names_exactly.

(* the two argument shapes on which taxa_bipartition raises TypeError instead (as observed on the
   implementation): labels= together with is_rooted=, and an unrooted bipartition of a namespace that
   never had a member *)
Theorem taxa_bipartition_errors : forall (lower : lbl -> lbl) (w : world),
  (forall ls b, xstep lower w (XBipartitionLabels ls (Some b)) = (w, YBase (OErr TypeErr)))
  /\ (count (w_ns w) = 0 -> forall rooted, rooted <> Some true ->
        xstep lower w (XBipartition [] rooted) = (set_ns w (w_ns w), YBase (OErr TypeErr))).
Proof. exact taxa_bipartition_errors_l. Qed.
Print Assumptions taxa_bipartition_errors.

(* container protocol *)
Theorem contains_spec : forall (lower : lbl -> lbl) (w : world) (t : tid), Inv (w_ns w) ->
  exists b, xstep lower w (XContains t) = (w, YBase (OBool b)) /\ (b = true <-> In t (taxa (w_ns w))).
Proof. exact contains_spec_l. Qed.
Print Assumptions contains_spec.

Theorem getitem_spec : forall (lower : lbl -> lbl) (w : world) (i : Z),
  let l := taxa (w_ns w) in let len := Z.of_nat (length l) in
  (0 <= i < len -> exists t, xstep lower w (XGetItem i) = (w, YBase (OTax (Some t)))
                             /\ nth_error l (Z.to_nat i) = Some t /\ In t l)
  /\ (- len <= i < 0 -> exists t, xstep lower w (XGetItem i) = (w, YBase (OTax (Some t)))
                             /\ nth_error l (Z.to_nat (len + i)) = Some t /\ In t l)
  /\ ((i < - len \/ len <= i) -> xstep lower w (XGetItem i) = (w, YBase (OErr IndexErr))).
Proof. exact getitem_spec_l. Qed.
Print Assumptions getitem_spec.

Theorem getslice_spec : forall (lower : lbl -> lbl) (w : world) (a b : option Z),
  exists pre post, xstep lower w (XGetSlice a b) = (w, YBase (OTaxa (py_slice (taxa (w_ns w)) a b)))
    /\ taxa (w_ns w) = pre ++ py_slice (taxa (w_ns w)) a b ++ post.
Proof. exact getslice_spec_l. Qed.
Print Assumptions getslice_spec.

(* ns["label"] names nothing (ValueError); labels() = the members' labels in membership order *)
Theorem getitem_label_and_labels : forall (lower : lbl -> lbl) (w : world),
  (forall l, xstep lower w (XGetItemLabel l) = (w, YBase (OErr ValueErr)))
  /\ xstep lower w XLabels = (w, YBase (OGroup1 (map (label_of w) (taxa (w_ns w))))).
Proof. exact getitem_label_and_labels_l. Qed.
Print Assumptions getitem_label_and_labels.

(* none of the second-wave operations changes members, indices, counter, flags, labels *)
Theorem xstep_readonly : forall (lower : lbl -> lbl) (w : world) (o : xop), Inv (w_ns w) ->
  (forall o0, o <> XBase o0) ->
  (taxa (w_ns (fst (xstep lower w o))) = taxa (w_ns w) /\ acc (w_ns (fst (xstep lower w o))) = acc (w_ns w)
   /\ rev (w_ns (fst (xstep lower w o))) = rev (w_ns w) /\ count (w_ns (fst (xstep lower w o))) = count (w_ns w)
   /\ is_mut (w_ns (fst (xstep lower w o))) = is_mut (w_ns w) /\ is_cs (w_ns (fst (xstep lower w o))) = is_cs (w_ns w))
  /\ Inv (w_ns (fst (xstep lower w o)))
  /\ w_lab (fst (xstep lower w o)) = w_lab w /\ w_next (fst (xstep lower w o)) = w_next w.
Proof. exact xstep_readonly_l. Qed.
Print Assumptions xstep_readonly.

Theorem xops_inv : forall (lower : lbl -> lbl) (w : world) (ops : list xop),
  Inv (w_ns w) -> Inv (w_ns (xrun_world lower w ops)).
Proof. exact xops_inv_l. Qed.
Print Assumptions xops_inv.

(* ================= 8. immutability, operation by operation ================= *)

(* is_mutable=False is consulted by exactly the four adding operations, and they leave the world
   untouched: TypeError - except add_taxon of a member (silent no-op) and require_taxon of a present
   label (returns the first match).  Every other operation (remove*, discard*, clear, sort, reverse,
   relabel, ...) behaves as on a mutable namespace: see immutable_never_grows, which quantifies over
   ALL operations, and Example ex_immutable_shrinks *)
Theorem immutable_adders : forall (lower : lbl -> lbl) (w : world), is_mut (w_ns w) = false ->
  (forall l, step lower w (NewTaxon l) = (w, OErr TypeErr))
  /\ (forall ls, step lower w (NewTaxa ls) = (w, OErr TypeErr))
  /\ (forall t, alookup t (acc (w_ns w)) = None -> step lower w (AddTaxon t) = (w, OErr TypeErr))
  /\ (forall t i, alookup t (acc (w_ns w)) = Some i -> step lower w (AddTaxon t) = (set_ns w (w_ns w), OUnit))
  /\ (forall l cs, lookup_all lower w l cs = [] -> step lower w (RequireTaxon l cs) = (w, OErr TypeErr))
  /\ (forall l cs t r, lookup_all lower w l cs = t :: r -> step lower w (RequireTaxon l cs) = (w, OTax (Some t))).
Proof. exact immutable_adders_l. Qed.
Print Assumptions immutable_adders.

Theorem immutable_never_grows_x : forall (lower : lbl -> lbl) (w : world) (o : xop),
  Inv (w_ns w) -> is_mut (w_ns w) = false ->
  (forall b, o <> XBase (SetMutable b)) -> o <> XBase DeepCopy ->
  incl (taxa (w_ns (fst (xstep lower w o)))) (taxa (w_ns w))
  /\ is_mut (w_ns (fst (xstep lower w o))) = false.
Proof. exact immutable_never_grows_x_l. Qed.
Print Assumptions immutable_never_grows_x.

(* bitprocessing.bit_length (hand-modelled, tied by a direct differential check): 0 for 0, the index of
   the highest set bit + 1 otherwise, sign ignored; the width of int_as_bitstring(n, len) is
   max(len, 1, bit_length n): rjust pads, never truncates *)
Theorem bit_length_spec : forall n : Z,
  (n = 0 -> bit_length n = 0)
  /\ (0 < n -> bit_length n = Z.log2 n + 1)
  /\ bit_length (- n) = bit_length n
  /\ (0 <= n -> forall len, Z.of_nat (length (int_as_bitstring n len)) = Z.max len (Z.max 1 (bit_length n))).
Proof. exact bit_length_spec_l. Qed.
Print Assumptions bit_length_spec.

From Coq Require Import String.

(* ================= 9. translator tie =================
   Gen/Namespace.v is regenerated on every run by py/dv/gen_namespace.py from the AST of the current
   taxonmodel.py / nexusprocessing.py / bitprocessing.py (primitive semantics: Model/C10NsPrims.v, trusted).
   Each generated function equals the corresponding function of the hand-written model on well-typed
   arguments; `idx_nonneg n` = no accession index is negative (a clause of Inv). *)

Theorem gen_add_taxon : forall (w : world) (t : tid),
  py_add_taxon w (VTaxon t)
  = match add_taxon (w_ns w) t with Ok n => Ok (set_ns w n, VNone) | Err e => Err e | OutOfFuel => OutOfFuel end.
Proof. exact gen_add_taxon_l. Qed.
Print Assumptions gen_add_taxon.

Theorem gen_new_taxon : forall (w : world) (l : lbl),
  py_new_taxon w (VLabel l)
  = match new_taxon w l with Ok (w', t) => Ok (w', VTaxon t) | Err e => Err e | OutOfFuel => OutOfFuel end.
Proof. exact gen_new_taxon_l. Qed.
Print Assumptions gen_new_taxon.

Theorem gen_new_taxa : forall (w : world) (ls : list lbl),
  py_new_taxa w (VList (map VLabel ls))
  = if negb (is_mut (w_ns w)) then Err TypeErr
    else match new_taxa w ls [] with
         | Ok (w', ts) => Ok (w', VList (map VTaxon ts)) | Err e => Err e | OutOfFuel => OutOfFuel
         end.
Proof. exact gen_new_taxa_l. Qed.
Print Assumptions gen_new_taxa.

Theorem gen_remove_taxon : forall (w : world) (t : tid),
  py_remove_taxon w (VTaxon t)
  = match remove_taxon (w_ns w) t with Ok n => Ok (set_ns w n, VNone) | Err e => Err e | OutOfFuel => OutOfFuel end.
Proof. exact gen_remove_taxon_l. Qed.
Print Assumptions gen_remove_taxon.

Theorem gen_clear_sort_reverse : forall (w : world) (reverse : bool),
  py_clear w = Ok (set_ns w (mkNs [] [] [] (count (w_ns w)) [] (is_mut (w_ns w)) (is_cs (w_ns w))), VNone)
  /\ py_sort w VNone (VBool reverse)
     = Ok (set_ns w (mkNs (C10Model.py_sort w reverse (taxa (w_ns w))) (acc (w_ns w)) (rev (w_ns w)) (count (w_ns w))
                          (bm (w_ns w)) (is_mut (w_ns w)) (is_cs (w_ns w))), VNone)
  /\ py_reverse w
     = Ok (set_ns w (mkNs (List.rev (taxa (w_ns w))) (acc (w_ns w)) (rev (w_ns w)) (count (w_ns w))
                          (bm (w_ns w)) (is_mut (w_ns w)) (is_cs (w_ns w))), VNone).
Proof. intros w reverse. exact (conj (gen_clear_l w) (conj (gen_sort_l w reverse) (gen_reverse_l w))). Qed.
Print Assumptions gen_clear_sort_reverse.

(* the normal form Taxon.lower_cased_label caches for a member (read off Taxon._get_lower_cased_label)
   is the one _lookup_label applies to the query (str.lower): the equalities below need this *)
Theorem gen_member_normal_form : forall (lower casefold : lbl -> lbl) (w : world) (t : tid),
  member_normal_form = SLower
  /\ py_Taxon_lower_cased_label lower casefold w (VTaxon t) = Ok (VLabel (lower (label_of w t))).
Proof. intros lower casefold w t. split; reflexivity. Qed.
Print Assumptions gen_member_normal_form.

Theorem gen_lookup_label :
  forall (lower casefold : lbl -> lbl) (w : world) (l : lbl) (cs : option bool) (first err : bool),
  py__lookup_label lower casefold w (VLabel l) (match cs with None => VNone | Some b => VBool b end) (VBool first) (VBool err)
  = match lookup_all lower w l cs with
    | [] => if err then Err LookupErr else Ok VNone
    | t :: r => if first then Ok (VTaxon t) else Ok (VList (map VTaxon (t :: r)))
    end.
Proof. exact gen_lookup_label_l. Qed.
Print Assumptions gen_lookup_label.

Theorem gen_lookups : forall (lower casefold : lbl -> lbl) (w : world) (l : lbl) (ls : list lbl) (cs : option bool) (first : bool),
  let c := match cs with None => VNone | Some b => VBool b end in
  py_findall lower casefold w (VLabel l) c = Ok (VList (map VTaxon (lookup_all lower w l cs)))
  /\ py_get_taxon lower casefold w (VLabel l) c
     = Ok (match lookup_first lower w l cs with Some t => VTaxon t | None => VNone end)
  /\ py_has_taxon_label lower casefold w (VLabel l) c
     = Ok (VBool (match lookup_first lower w l cs with Some _ => true | None => false end))
  /\ py_has_taxa_labels lower casefold w (VList (map VLabel ls)) c
     = Ok (VBool (forallb (fun l => match lookup_all lower w l cs with [] => false | _ => true end) ls))
  /\ py_get_taxa lower casefold w (VList (map VLabel ls)) c (VBool first)
     = Ok (VList (map VTaxon (get_taxa lower w ls cs first []))).
Proof.
  intros lower casefold w l ls cs first c.
  exact (conj (gen_findall_l lower casefold w l cs) (conj (gen_get_taxon_l lower casefold w l cs)
        (conj (gen_has_taxon_label_l lower casefold w l cs) (conj (gen_has_taxa_labels_l lower casefold w ls cs)
        (gen_get_taxa_l lower casefold w ls cs first))))).
Qed.
Print Assumptions gen_lookups.

Theorem gen_require_taxon : forall (lower casefold : lbl -> lbl) (w : world) (l : lbl) (cs : option bool),
  py_require_taxon lower casefold w (VLabel l) (match cs with None => VNone | Some b => VBool b end)
  = match lookup_first lower w l cs with
    | Some t => Ok (w, VTaxon t)
    | None => if negb (is_mut (w_ns w)) then Err TypeErr
              else match new_taxon w l with
                   | Ok (w', t) => Ok (w', VTaxon t) | Err e => Err e | OutOfFuel => OutOfFuel end
    end.
Proof. exact gen_require_taxon_l. Qed.
Print Assumptions gen_require_taxon.

Theorem gen_remove_discard_label :
  forall (lower casefold : lbl -> lbl) (w : world) (l : lbl) (cs : option bool) (first : bool),
  let c := match cs with None => VNone | Some b => VBool b end in
  let removal := fun strict : bool =>
    match lookup_all lower w l cs with
    | [] => if strict then Err LookupErr else Ok (w, VNone)
    | t :: r => match remove_each (w_ns w) (if first then [t] else t :: r) with
                | Ok n => Ok (set_ns w n, VNone) | Err e => Err e | OutOfFuel => OutOfFuel end
    end in
  py_remove_taxon_label lower casefold w (VLabel l) c (VBool first) = removal true
  /\ py_discard_taxon_label lower casefold w (VLabel l) c (VBool first) = removal false.
Proof.
  intros lower casefold w l cs first c removal.
  exact (conj (gen_remove_taxon_label_l lower casefold w l cs first) (gen_discard_taxon_label_l lower casefold w l cs first)).
Qed.
Print Assumptions gen_remove_discard_label.

Theorem gen_bitmasks : forall (lower casefold : lbl -> lbl) (w : world) (t : tid) (ts : list tid) (ls : list lbl)
                              (cs : option bool) (first : bool),
  (forall t i, alookup t (acc (w_ns w)) = Some i -> 0 <= i) -> 0 <= count (w_ns w) ->
  py_all_taxa_bitmask w = Ok (VInt (all_taxa_bitmask (w_ns w)))
  /\ py_taxon_bitmask w (VTaxon t)
     = match taxon_bitmask (w_ns w) t with
       | Ok (n, m) => Ok (set_ns w n, VInt m) | Err e => Err e | OutOfFuel => OutOfFuel end
  /\ py_accession_index w (VTaxon t)
     = match alookup t (acc (w_ns w)) with Some i => Ok (VInt i) | None => Err KeyErr end
  /\ py_taxa_bitmask lower casefold w (VKw [("taxa"%string, VList (map VTaxon ts))])
     = match taxa_bitmask (w_ns w) ts 0 with
       | Ok (n, m) => Ok (set_ns w n, VInt m) | Err e => Err e | OutOfFuel => OutOfFuel end
  /\ py_taxa_bitmask lower casefold w (VKw [("labels"%string, VList (map VLabel ls));
                                    ("is_case_sensitive"%string, match cs with None => VNone | Some b => VBool b end);
                                    ("first_match_only"%string, VBool first)])
     = match taxa_bitmask (w_ns w) (get_taxa lower w ls cs first []) 0 with
       | Ok (n, m) => Ok (set_ns w n, VInt m) | Err e => Err e | OutOfFuel => OutOfFuel end
  /\ (forall lsv v, py_taxa_bitmask lower casefold w (VKw [("labels"%string, lsv); ("is_rooted"%string, v)]) = Err TypeErr).
Proof.
  intros lower casefold w t ts ls cs first Hn Hc.
  exact (conj (gen_all_taxa_bitmask_l w Hc) (conj (gen_taxon_bitmask_l w t Hn) (conj (gen_accession_index_l w t)
        (conj (gen_taxa_bitmask_taxa_l lower casefold w ts Hn) (conj (gen_taxa_bitmask_labels_l lower casefold w ls cs first Hn)
        (gen_taxa_bitmask_unexpected_keyword_l lower casefold w)))))).
Qed.
Print Assumptions gen_bitmasks.

(* the generic fuel of the generated `while bitmask:` loop is the model's bits_fuel *)
Theorem gen_bitmask_taxa_list : forall (w : world) (m idx : Z),
  py_bitmask_taxa_list w (VInt m) (VInt idx)
  = match bitmask_taxa_list (w_ns w) (bits_fuel m) m idx [] with
    | Ok l => Ok (VList (map VTaxon l)) | Err e => Err e | OutOfFuel => OutOfFuel end.
Proof. exact gen_bitmask_taxa_list_l. Qed.
Print Assumptions gen_bitmask_taxa_list.

Theorem gen_labels_and_newick : forall (w : world) (m : Z) (ps qu : pyval),
  (forall t i, alookup t (acc (w_ns w)) = Some i -> 0 <= i) -> 0 <= count (w_ns w) ->
  py_labels w = Ok (VList (map VLabel (map (label_of w) (taxa (w_ns w)))))
  /\ py_bitmask_as_newick_string w (VInt m) ps qu
     = if orb (Z.eqb m 0) (Z.eqb m (all_taxa_bitmask (w_ns w)))
       then Ok (w, VOut (OGroup1 (map (label_of w) (taxa (w_ns w)))))
       else match newick_groups w (w_ns w) m (taxa (w_ns w)) [] [] with
            | Ok (n', (l, r)) => Ok (set_ns w n', VOut (OGroups l r))
            | Err e => Err e | OutOfFuel => OutOfFuel
            end.
Proof.
  intros w m ps qu Hn Hc. exact (conj (gen_labels_l w) (gen_bitmask_as_newick_string_l w m ps qu Hn Hc)).
Qed.
Print Assumptions gen_labels_and_newick.

Theorem gen_bitprocessing : forall (w : world) (n len : Z), 0 <= n ->
  (forall k, py_bit_length w (VInt k) = Ok (VInt (bit_length k)))
  /\ py_bit_length w VNone = Ok (VInt 0)
  /\ py_int_as_bitstring w (VInt n) (VInt len) VNone VNone (VBool false)
     = Ok (VStr (map (fun b : bool => if b then C1 else C0) (int_as_bitstring n len)))
  /\ py_int_as_bitstring w (VInt n) VNone VNone VNone (VBool false)
     = Ok (VStr (map (fun b : bool => if b then C1 else C0) (int_as_bitstring n (bit_length n)))).
Proof.
  intros w n len H.
  exact (conj (fun k => proj1 (gen_bit_length_l w k)) (conj (proj2 (gen_bit_length_l w n))
        (gen_int_as_bitstring_l w n len H))).
Qed.
Print Assumptions gen_bitprocessing.

(* the operation-level model assembled from generated functions only (gen_step, Proofs/C10GenStep.v)
   is `step`; so every theorem above about step / run / run_world is a theorem about the generated code *)
Theorem gen_step_eq : forall (lower casefold : lbl -> lbl) (w : world) (o : op),
  (forall t i, alookup t (acc (w_ns w)) = Some i -> 0 <= i) -> 0 <= count (w_ns w) ->
  gen_step lower casefold w o = step lower w o.
Proof. exact gen_step_eq_l. Qed.
Print Assumptions gen_step_eq.

Theorem gen_run_eq : forall (lower casefold : lbl -> lbl) (w : world) (ops : list op),
  Inv (w_ns w) -> gen_run lower casefold w ops = run lower w ops.
Proof. exact gen_run_eq_l. Qed.
Print Assumptions gen_run_eq.

From DV Require Import Model.C10CopyModel Model.C10CopyPrims Gen.NamespaceCopy Proofs.C10Copy Proofs.C10CopyGen.

(* ================= 10. several namespaces: constructors, copies, independence =================
   Model/C10CopyModel.v: the state is a collection of namespaces (handles = creation order) over
   one universe of Taxon objects; `MOn h o` applies an operation of `step` to namespace h; the
   constructor forms, copy.copy, copy.deepcopy, taxon_namespace_scoped_copy, ==, < are `mstep`
   operations of their own (transcribed from TaxonNamespace.__init__/__copy__/__deepcopy__). *)

(* 10a. the invariant of section 1 holds for EVERY namespace after every multi-namespace operation *)
Theorem multi_inv_step : forall (lower : lbl -> lbl) (mw : mworld) (o : mop),
  Forall Inv (mw_nss mw) -> Forall Inv (mw_nss (fst (mstep lower mw o))).
Proof. exact mstep_inv. Qed.
Print Assumptions multi_inv_step.

(* ... hence in every state reachable from the empty collection by any history *)
Theorem multi_inv_reachable : forall (lower : lbl -> lbl) (lab : list (tid * lbl)) (nxt : tid) (ops : list mop),
  Forall Inv (mw_nss (mrun_world lower (mkMW [] lab nxt) ops)).
Proof. intros. apply mrun_inv. constructor. Qed.
Print Assumptions multi_inv_reachable.

(* 10b. frame: only `MOn h _` can change namespace h; every other operation - on another
   namespace, a constructor, a (deep) copy of h itself, a comparison - leaves h's member list,
   index maps, counter, bitmask memo and flags exactly as they were *)
Theorem namespaces_frame_step : forall (lower : lbl -> lbl) (mw : mworld) (o : mop) (h : nat) (n : ns),
  nth_error (mw_nss mw) h = Some n -> ~ (exists o', o = MOn h o') ->
  nth_error (mw_nss (fst (mstep lower mw o))) h = Some n.
Proof. exact mstep_frame. Qed.
Print Assumptions namespaces_frame_step.

Theorem namespaces_frame_history : forall (lower : lbl -> lbl) (mw : mworld) (ops : list mop) (h : nat) (n : ns),
  nth_error (mw_nss mw) h = Some n -> Forall (fun o => ~ (exists o', o = MOn h o')) ops ->
  nth_error (mw_nss (mrun_world lower mw ops)) h = Some n.
Proof. exact mrun_frame. Qed.
Print Assumptions namespaces_frame_history.

Theorem handles_stay_valid : forall (lower : lbl -> lbl) (mw : mworld) (o : mop),
  (List.length (mw_nss mw) <= List.length (mw_nss (fst (mstep lower mw o))))%nat.
Proof. exact mstep_handles. Qed.
Print Assumptions handles_stay_valid.

(* 10c. copy.copy(ns) / TaxonNamespace(ns): the new namespace is record-equal to the source - the
   same Taxon objects in the same order, the same accession index (bit) for each, the same counter
   and bitmask memo, the source's is_mutable and is_case_sensitive; no Taxon object is created, the
   source is untouched.  The keywords is_mutable= / is_case_sensitive= of the constructor have NO
   effect on the result when the source is a namespace (they are overwritten by the source's
   values), except that is_mutable=False with a non-empty source raises TypeError *)
Theorem copy_is_exact : forall (lower : lbl -> lbl) (mw : mworld) (h : nat) (n : ns),
  Inv n -> nth_error (mw_nss mw) h = Some n ->
  mstep lower mw (MCopy h) = (mkMW (mw_nss mw ++ [n]) (mw_lab mw) (mw_next mw), MHandle (List.length (mw_nss mw)))
  /\ forall mut cs, mut <> Some false \/ taxa n = [] ->
       mstep lower mw (MConstruct (SNs h) mut cs) = mstep lower mw (MCopy h).
Proof. exact copy_exact. Qed.
Print Assumptions copy_is_exact.

Theorem construct_immutable_keyword_fails : forall (mw : mworld) (h : nat) (other : ns) (cs : option bool),
  nth_error (mw_nss mw) h = Some other -> taxa other <> [] ->
  construct mw (SNs h) (Some false) cs = Err TypeErr.
Proof. exact construct_from_ns_immutable_kw. Qed.
Print Assumptions construct_immutable_keyword_fails.

(* 10d. a copy is an independent namespace: whatever history follows the copy, as long as it does
   not address the original (resp. the copy) that namespace stays exactly the snapshot taken at
   the copy - removals, additions, sorting, clearing, flag changes, further copies of the other
   one never show *)
Theorem copy_independent_of_original : forall (lower : lbl -> lbl) (mw : mworld) (h : nat) (n : ns) (ops : list mop),
  Inv n -> nth_error (mw_nss mw) h = Some n ->
  let mw1 := fst (mstep lower mw (MCopy h)) in
  let c := List.length (mw_nss mw) in
  c <> h
  /\ nth_error (mw_nss mw1) c = Some n
  /\ (Forall (fun o => ~ (exists o', o = MOn h o')) ops -> nth_error (mw_nss (mrun_world lower mw1 ops)) h = Some n)
  /\ (Forall (fun o => ~ (exists o', o = MOn c o')) ops -> nth_error (mw_nss (mrun_world lower mw1 ops)) c = Some n).
Proof. exact copy_independent. Qed.
Print Assumptions copy_independent_of_original.

(* 10e. copy.deepcopy(ns): a new namespace whose k-th member is a fresh object f t with the index
   and label of the k-th member t of the source; same order, counter, flags; the source is untouched *)
Theorem deepcopy_is_exact : forall (lower : lbl -> lbl) (mw : mworld) (h : nat) (n : ns),
  Inv n -> nth_error (mw_nss mw) h = Some n ->
  let w := mkW n (mw_lab mw) (mw_next mw) in
  let f := ren (fresh_map (taxa n) (mw_next mw)) in
  exists n', mstep lower mw (MDeepCopy h)
             = (mkMW (mw_nss mw ++ [n']) (w_lab (deep_copy w)) (w_next (deep_copy w)), MHandle (List.length (mw_nss mw)))
  /\ Inv n'
  /\ taxa n' = map f (taxa n)
  /\ (forall t, In t (taxa n) -> alookup (f t) (acc n') = alookup t (acc n))
  /\ (forall x i, alookup x (acc n') = Some i -> exists t, In t (taxa n) /\ x = f t /\ alookup t (acc n) = Some i)
  /\ (forall t, In t (taxa n) -> label_of (deep_copy w) (f t) = label_of w t)
  /\ (forall t, In t (taxa n) -> mw_next mw <= f t < w_next (deep_copy w))
  /\ (forall t1 t2, In t1 (taxa n) -> In t2 (taxa n) -> f t1 = f t2 -> t1 = t2)
  /\ count n' = count n /\ is_mut n' = is_mut n /\ is_cs n' = is_cs n.
Proof. exact deepcopy_exact. Qed.
Print Assumptions deepcopy_is_exact.

(* 10f. sort / reverse change the iteration order of THAT namespace and nothing else: index maps,
   counter, memo, flags, labels and every other namespace are untouched *)
Theorem reorder_changes_order_only : forall (lower : lbl -> lbl) (mw : mworld) (h : nat) (n : ns) (o : op),
  nth_error (mw_nss mw) h = Some n -> (o = Reverse \/ exists r, o = Sort r) ->
  exists tx, fst (mstep lower mw (MOn h o))
             = mkMW (upd (mw_nss mw) h (mkNs tx (acc n) (rev n) (count n) (bm n) (is_mut n) (is_cs n)))
                    (mw_lab mw) (mw_next mw)
    /\ Permutation (taxa n) tx
    /\ tx = match o with Sort r => C10Model.py_sort (mkW n (mw_lab mw) (mw_next mw)) r (taxa n) | _ => List.rev (taxa n) end.
Proof. exact reorder_only_order. Qed.
Print Assumptions reorder_changes_order_only.

(* the assignments ns.is_mutable = b / ns.is_case_sensitive = b change that flag only *)
Theorem flag_setters_change_flag_only : forall (lower : lbl -> lbl) (mw : mworld) (h : nat) (n : ns) (b : bool),
  nth_error (mw_nss mw) h = Some n ->
  mstep lower mw (MOn h (SetMutable b))
  = (mkMW (upd (mw_nss mw) h (mkNs (taxa n) (acc n) (rev n) (count n) (bm n) b (is_cs n))) (mw_lab mw) (mw_next mw), MBase OUnit)
  /\ mstep lower mw (MOn h (SetCS b))
  = (mkMW (upd (mw_nss mw) h (mkNs (taxa n) (acc n) (rev n) (count n) (bm n) (is_mut n) b)) (mw_lab mw) (mw_next mw), MBase OUnit).
Proof. exact flag_setters_only_flag. Qed.
Print Assumptions flag_setters_change_flag_only.

(* 10g. per-namespace bit stability in a multi-namespace history: a taxon that is a member of
   namespace h before and after ANY operation (on h, on another namespace that shares the Taxon
   object, a copy, ...) keeps its accession index in h; (MOn h DeepCopy re-binds the handle to a
   deep copy - fresh objects - and is the one excluded operation) *)
Theorem multi_bit_stable : forall (lower : lbl -> lbl) (mw : mworld) (o : mop) (h : nat) (n n' : ns) (t : tid) (i : Z),
  Forall Inv (mw_nss mw) -> ~ (exists h', o = MOn h' DeepCopy) ->
  nth_error (mw_nss mw) h = Some n -> In t (taxa n) -> alookup t (acc n) = Some i ->
  nth_error (mw_nss (fst (mstep lower mw o))) h = Some n' -> In t (taxa n') ->
  alookup t (acc n') = Some i.
Proof. exact mbit_stable. Qed.
Print Assumptions multi_bit_stable.

(* 10h. translator tie (py/dv/gen_nscopy.py -> Gen/NamespaceCopy.v, primitives Model/C10CopyPrims.v):
   the constructor generated from TaxonNamespace.__init__ equals the model's `construct` for every
   source form and keyword combination; __copy__; taxon_namespace_scoped_copy *)
Theorem gen_init_eq : forall (mw : mworld) (src : csrc) (mut cs : option bool),
  py_TaxonNamespace_init mw
    (match src with SNone => [] | SNs h => [CNs h]
     | SItems l => [CItems (map (fun i => match i with ITaxon t => VTaxon t | ILabel l => VLabel l end) l)] end)
    ((match mut with Some b => [("is_mutable"%string, VBool b)] | None => [] end)
     ++ (match cs with Some b => [("is_case_sensitive"%string, VBool b)] | None => [] end))
  = construct mw src mut cs.
Proof. exact gen_init_eq_l. Qed.
Print Assumptions gen_init_eq.

Theorem gen_copy_eq : forall (mw : mworld) (h : nat),
  py_TaxonNamespace_copy mw h = construct mw (SNs h) None None.
Proof. exact gen_copy_eq_l. Qed.
Print Assumptions gen_copy_eq.

Theorem gen_scoped_copy : forall (h : nat) (n : ns) (m : list (tid * tid)),
  py_scoped_copy h n None = (h, None)
  /\ exists m', py_scoped_copy h n (Some m) = (h, Some m')
       /\ (forall t, In t (taxa n) -> alookup t m' = Some t)
       /\ (forall t, ~ In t (taxa n) -> alookup t m' = alookup t m).
Proof. exact gen_scoped_copy_l. Qed.
Print Assumptions gen_scoped_copy.

(* ================= 11. batch entry points: repeated objects inside ONE batch ================= *)
(* TaxonNamespace.add_taxa(iterable) is the operation `AddTaxa ts` of `step` (so every theorem above that
   quantifies over operations / histories - inv_step, ops_inv_reachable, bit_stable, the frame theorems of
   section 10, gen_run_eq - covers it); the batch may contain the SAME Taxon object several times.  The other
   bulk entry points are `NewTaxa ls` (new_taxa: repeated labels create one member each, 11e below),
   `MConstruct (SItems l)` (TaxonNamespace([...]) with repeated objects / labels, section 10) and the
   read-only HasLabels / GetTaxa / TaxaBitmask / XTaxaBitmaskLabels / XBipartition*. *)
From DV Require Import Proofs.C10Batch.

(* `batch_new mem ts`: the elements of the batch ts that are not in mem, each ONCE, in the order of
   their first occurrence *)
Theorem batch_new_unfold : forall (mem ts : list tid),
  batch_new mem [] = []
  /\ (forall t r, batch_new mem (t :: r) = if memb t mem then batch_new mem r else t :: batch_new (t :: mem) r)
  /\ NoDup (batch_new mem ts)
  /\ (forall t, In t (batch_new mem ts) <-> In t ts /\ ~ In t mem).
Proof. exact batch_new_unfold_l. Qed.
Print Assumptions batch_new_unfold.

(* 11a. add_taxa on a mutable namespace, for EVERY batch (repeats of members, of non-members, any order):
   returns None; appends exactly the distinct not-yet-member objects once each, in first-occurrence
   order; the members stay pairwise distinct; the k-th new member gets index counter+k and nothing
   else, the counter advances by the number of DISTINCT new objects - so every bit of
   all_taxa_bitmask handed out by the batch is owned by exactly one new member (forward and reverse
   map agree); old members keep their index; no Taxon object is created or relabelled *)
Theorem add_taxa_batch_spec : forall (lower : lbl -> lbl) (w : world) (ts : list tid),
  Inv (w_ns w) -> is_mut (w_ns w) = true ->
  let w' := fst (step lower w (AddTaxa ts)) in
  let new := batch_new (taxa (w_ns w)) ts in
  snd (step lower w (AddTaxa ts)) = OUnit
  /\ taxa (w_ns w') = taxa (w_ns w) ++ new
  /\ NoDup (taxa (w_ns w'))
  /\ (forall t, In t new <-> In t ts /\ ~ In t (taxa (w_ns w)))
  /\ count (w_ns w') = count (w_ns w) + Z.of_nat (List.length new)
  /\ (forall t i, alookup t (acc (w_ns w)) = Some i -> alookup t (acc (w_ns w')) = Some i)
  /\ (forall k t, nth_error new k = Some t -> alookup t (acc (w_ns w')) = Some (count (w_ns w) + Z.of_nat k))
  /\ (forall i, count (w_ns w) <= i < count (w_ns w') ->
        exists t, In t new /\ alookup t (acc (w_ns w')) = Some i /\ alookup i (rev (w_ns w')) = Some t)
  /\ w_lab w' = w_lab w /\ w_next w' = w_next w.
Proof. exact add_taxa_step_spec_l. Qed.
Print Assumptions add_taxa_batch_spec.

(* 11b. add_taxa on an immutable namespace: silent no-op when every element is a member, TypeError
   otherwise; in both cases the namespace is untouched *)
Theorem add_taxa_immutable : forall (ts : list tid) (n : ns), Inv n -> is_mut n = false ->
  ((forall t, In t ts -> In t (taxa n)) -> add_taxa n ts = Ok n)
  /\ ((exists t, In t ts /\ ~ In t (taxa n)) -> add_taxa n ts = Err TypeErr).
Proof. exact add_taxa_immutable_l. Qed.
Print Assumptions add_taxa_immutable.

(* 11c. the batch is the sequence of single additions (same resulting world, in every state, mutable
   or not), and its result is None or the TypeError raised before anything was changed *)
Theorem add_taxa_is_add_taxon_sequence : forall (lower : lbl -> lbl) (w : world) (ts : list tid),
  fst (step lower w (AddTaxa ts)) = run_world lower w (map AddTaxon ts).
Proof. exact add_taxa_is_add_taxon_sequence_l. Qed.
Print Assumptions add_taxa_is_add_taxon_sequence.

Theorem add_taxa_output : forall (lower : lbl -> lbl) (w : world) (ts : list tid),
  snd (step lower w (AddTaxa ts)) = OUnit \/
  (snd (step lower w (AddTaxa ts)) = OErr TypeErr /\ fst (step lower w (AddTaxa ts)) = w
   /\ is_mut (w_ns w) = false /\ exists t, In t ts /\ alookup t (acc (w_ns w)) = None).
Proof. exact add_taxa_output_l. Qed.
Print Assumptions add_taxa_output.

(* 11d. translator tie: the function generated from the CURRENT source of TaxonNamespace.add_taxa
   (Gen/Namespace.v py_add_taxa: its loop over the iterable, calling the generated add_taxon) equals the
   model's add_taxa on every list of Taxon objects, repeats included *)
Theorem gen_add_taxa : forall (w : world) (ts : list tid),
  py_add_taxa w (VList (map VTaxon ts)) = lift_ns_v w (add_taxa (w_ns w) ts).
Proof. exact gen_add_taxa_l. Qed.
Print Assumptions gen_add_taxa.

(* non-vacuity: members a,b; batch [x; a; y; x] with x, y new and x repeated: x and y are added once,
   bits 2 and 3, all_taxa_bitmask = 0b1111; and the immutable cases *)
Theorem add_taxa_examples :
  (Inv (w_ns bx_w) /\
   let '(w', o) := step (fun l => l) bx_w (AddTaxa [2; 0; 3; 2]) in
   o = OUnit /\ observe w' = [(0, 0); (1, 1); (2, 2); (3, 3)] /\ count (w_ns w') = 4
   /\ all_taxa_bitmask (w_ns w') = 15 /\ batch_new (taxa (w_ns bx_w)) [2; 0; 3; 2] = [2; 3])
  /\ (let w := mkW (mkNs [0; 1] [(1, 1); (0, 0)] [(1, 1); (0, 0)] 2 [] false false) (w_lab bx_w) 4 in
      step (fun l => l) w (AddTaxa [0; 1; 0]) = (w, OUnit)
      /\ step (fun l => l) w (AddTaxa [0; 2; 2]) = (w, OErr TypeErr)).
Proof. split; [exact bx_repeated_object| exact bx_immutable]. Qed.
Print Assumptions add_taxa_examples.

(* 11e. new_taxa(labels) on a mutable namespace, for EVERY batch of labels (the same label any number of
   times): returns the list of the NEW Taxon objects, one per element of the batch - fresh identities
   w_next, w_next+1, ... (`zseq`), pairwise distinct also when their labels coincide -, appended in
   order, the k-th with accession index counter+k and the k-th label; old members keep index and label *)
Theorem zseq_unfold : forall (s : Z) (n : nat),
  zseq s 0 = [] /\ zseq s (S n) = s :: zseq (s + 1) n
  /\ List.length (zseq s n) = n /\ (forall x, In x (zseq s n) <-> s <= x < s + Z.of_nat n).
Proof. exact zseq_unfold_l. Qed.
Print Assumptions zseq_unfold.

Theorem new_taxa_batch_spec : forall (lower : lbl -> lbl) (w : world) (ls : list lbl),
  (Inv (w_ns w) /\ forall t, In t (taxa (w_ns w)) -> t < w_next w) -> is_mut (w_ns w) = true ->
  let w' := fst (step lower w (NewTaxa ls)) in
  let new := zseq (w_next w) (List.length ls) in
  snd (step lower w (NewTaxa ls)) = OTaxa new
  /\ taxa (w_ns w') = taxa (w_ns w) ++ new
  /\ NoDup (taxa (w_ns w'))
  /\ w_next w' = w_next w + Z.of_nat (List.length ls)
  /\ count (w_ns w') = count (w_ns w) + Z.of_nat (List.length ls)
  /\ (forall k l, nth_error ls k = Some l ->
        alookup (w_next w + Z.of_nat k) (acc (w_ns w')) = Some (count (w_ns w) + Z.of_nat k)
        /\ label_of w' (w_next w + Z.of_nat k) = l)
  /\ (forall t i, alookup t (acc (w_ns w)) = Some i -> alookup t (acc (w_ns w')) = Some i)
  /\ (forall t, t < w_next w -> label_of w' t = label_of w t).
Proof. exact new_taxa_step_spec_l. Qed.
Print Assumptions new_taxa_batch_spec.

(* non-vacuity: the label 7 three times in one batch -> three distinct members with bits 2, 3, 5 *)
Theorem new_taxa_example :
  let '(w', o) := step (fun l => l) bx_w (NewTaxa [7; 7; 1; 7]) in
  o = OTaxa [4; 5; 6; 7] /\ observe w' = [(0, 0); (1, 1); (4, 2); (5, 3); (6, 4); (7, 5)]
  /\ map (label_of w') (taxa (w_ns w')) = [0; 1; 7; 7; 1; 7].
Proof. exact bx_repeated_labels. Qed.
Print Assumptions new_taxa_example.

(* ================= 12. batch additions that FAIL PART-WAY =================
   Model/C10AbortModel.v: `astep` extends `step` by add_taxa / new_taxa over an iterable that hands over
   the elements ts (ls) and then fails with e (a generator raising on a bad row, an iterator whose
   __next__ raises, a list whose next element is unhashable).  `base_of` maps such an operation to the
   successful batch over exactly the elements handed over. *)
From DV Require Import Model.C10AbortModel Proofs.C10Abort.

(* 12a. an exception inside the loop neither rolls back nor leaves anything half-written: the state
   after the failed batch IS the state after the successful batch of the elements handed over (hence,
   by 11c, after that many single add_taxon calls); the caller sees the namespace's own refusal if
   there is one, otherwise the iterable's error *)
Theorem abort_state_is_prefix_state : forall (lower : lbl -> lbl) (w : world) (a : aop),
  fst (astep lower w a) = fst (step lower w (base_of a))
  /\ snd (astep lower w a) =
     match a with
     | ABase o => snd (step lower w o)
     | AddTaxaAbort _ e | NewTaxaAbort _ e =>
       match snd (step lower w (base_of a)) with OErr e' => OErr e' | _ => OErr e end
     end.
Proof. exact (fun lower w a => conj (astep_world_l lower w a) (astep_output_l lower w a)). Qed.
Print Assumptions abort_state_is_prefix_state.

Theorem abort_is_add_taxon_sequence : forall (lower : lbl -> lbl) (w : world) (ts : list tid) (e : err),
  fst (astep lower w (AddTaxaAbort ts e)) = run_world lower w (map AddTaxon ts).
Proof.
  exact (fun lower w ts e => eq_trans (astep_world_l lower w (AddTaxaAbort ts e))
                                      (add_taxa_is_add_taxon_sequence_l lower w ts)).
Qed.
Print Assumptions abort_is_add_taxon_sequence.

(* 12b. the invariant (inv_unfold) and bit stability over histories that contain failing batches *)
Theorem abort_inv_step : forall (lower : lbl -> lbl) (w : world) (a : aop),
  Inv (w_ns w) -> Inv (w_ns (fst (astep lower w a))).
Proof. exact astep_inv_l. Qed.
Print Assumptions abort_inv_step.

Theorem abort_inv_history : forall (lower : lbl -> lbl) (w : world) (ops : list aop),
  Inv (w_ns w) -> Inv (w_ns (arun_world lower w ops)).
Proof. exact aops_inv_l. Qed.
Print Assumptions abort_inv_history.

Theorem abort_bit_stable : forall (lower : lbl -> lbl) (w : world) (a : aop) (t : tid) (i : Z),
  Inv (w_ns w) -> base_of a <> DeepCopy ->
  In t (taxa (w_ns w)) -> alookup t (acc (w_ns w)) = Some i ->
  In t (taxa (w_ns (fst (astep lower w a)))) ->
  alookup t (acc (w_ns (fst (astep lower w a)))) = Some i.
Proof. exact abit_stable_l. Qed.
Print Assumptions abort_bit_stable.

(* 12c. the refused batch (immutable namespace) changes nothing; when every element handed over is a
   member already the iterable's own error comes through, again with nothing changed *)
Theorem abort_refused_untouched : forall (lower : lbl -> lbl) (w : world),
  Inv (w_ns w) -> is_mut (w_ns w) = false ->
  (forall ts e, (exists t, In t ts /\ ~ In t (taxa (w_ns w))) ->
     astep lower w (AddTaxaAbort ts e) = (w, OErr TypeErr))
  /\ (forall ts e, (forall t, In t ts -> In t (taxa (w_ns w))) ->
     astep lower w (AddTaxaAbort ts e) = (w, OErr e))
  /\ (forall ls e, astep lower w (NewTaxaAbort ls e) = (w, OErr TypeErr)).
Proof. exact abort_refused_l. Qed.
Print Assumptions abort_refused_untouched.

(* 12d. add_taxa failing after ts on a mutable namespace: the iterable's error; exactly the distinct
   not-yet-member objects among ts were appended (batch_new, 11a), the k-th with index counter+k; the
   COUNTER was advanced past all of them (every member's index is below it, all_taxa_bitmask covers
   them); old members keep their index; no object created *)
Theorem add_taxa_abort_spec : forall (lower : lbl -> lbl) (w : world) (ts : list tid) (e : err),
  Inv (w_ns w) -> is_mut (w_ns w) = true ->
  let w' := fst (astep lower w (AddTaxaAbort ts e)) in
  let new := batch_new (taxa (w_ns w)) ts in
  snd (astep lower w (AddTaxaAbort ts e)) = OErr e
  /\ taxa (w_ns w') = taxa (w_ns w) ++ new
  /\ NoDup (taxa (w_ns w'))
  /\ count (w_ns w') = count (w_ns w) + Z.of_nat (List.length new)
  /\ (forall t i, alookup t (acc (w_ns w)) = Some i -> alookup t (acc (w_ns w')) = Some i)
  /\ (forall k t, nth_error new k = Some t -> alookup t (acc (w_ns w')) = Some (count (w_ns w) + Z.of_nat k))
  /\ (forall t i, In t (taxa (w_ns w')) -> alookup t (acc (w_ns w')) = Some i -> 0 <= i < count (w_ns w'))
  /\ all_taxa_bitmask (w_ns w') = Z.shiftl 1 (count (w_ns w) + Z.of_nat (List.length new)) - 1
  /\ w_lab w' = w_lab w /\ w_next w' = w_next w.
Proof. exact add_taxa_abort_spec_l. Qed.
Print Assumptions add_taxa_abort_spec.

(* 12e. new_taxa failing after ls: one fresh member per label handed over, counter advanced by as many *)
Theorem new_taxa_abort_spec : forall (lower : lbl -> lbl) (w : world) (ls : list lbl) (e : err),
  (Inv (w_ns w) /\ forall t, In t (taxa (w_ns w)) -> t < w_next w) -> is_mut (w_ns w) = true ->
  let w' := fst (astep lower w (NewTaxaAbort ls e)) in
  let new := zseq (w_next w) (List.length ls) in
  snd (astep lower w (NewTaxaAbort ls e)) = OErr e
  /\ taxa (w_ns w') = taxa (w_ns w) ++ new
  /\ NoDup (taxa (w_ns w'))
  /\ w_next w' = w_next w + Z.of_nat (List.length ls)
  /\ count (w_ns w') = count (w_ns w) + Z.of_nat (List.length ls)
  /\ (forall k l, nth_error ls k = Some l ->
        alookup (w_next w + Z.of_nat k) (acc (w_ns w')) = Some (count (w_ns w) + Z.of_nat k)
        /\ label_of w' (w_next w + Z.of_nat k) = l)
  /\ (forall t i, alookup t (acc (w_ns w)) = Some i -> alookup t (acc (w_ns w')) = Some i).
Proof. exact new_taxa_abort_spec_l. Qed.
Print Assumptions new_taxa_abort_spec.

(* 12f. the NEXT addition after any operation - in particular after a failed batch - gets the index
   `count`, which no member holds: every member keeps its own index, which is below it, and the masks
   differ *)
Theorem addition_after_abort_fresh_bit : forall (lower : lbl -> lbl) (w : world) (a : aop) (t : tid),
  Inv (w_ns w) ->
  let w1 := fst (astep lower w a) in
  ~ In t (taxa (w_ns w1)) -> is_mut (w_ns w1) = true ->
  let w2 := fst (astep lower w1 (ABase (AddTaxon t))) in
  taxa (w_ns w2) = taxa (w_ns w1) ++ [t]
  /\ alookup t (acc (w_ns w2)) = Some (count (w_ns w1))
  /\ (forall u, In u (taxa (w_ns w1)) ->
        exists i, alookup u (acc (w_ns w1)) = Some i /\ alookup u (acc (w_ns w2)) = Some i
                  /\ 0 <= i < count (w_ns w1) /\ Z.shiftl 1 i <> Z.shiftl 1 (count (w_ns w1)))
  /\ Inv (w_ns w2).
Proof. exact addition_after_abort_fresh_bit_l. Qed.
Print Assumptions addition_after_abort_fresh_bit.

(* non-vacuity: members a(0) b(1); add_taxa over an iterable yielding x, a, y, x and then raising
   ValueError leaves x(2) y(3) accessioned and the counter at 4; the next new taxon gets index 4 *)
Theorem abort_examples :
  (Inv (w_ns bx_w) /\
   let '(w1, o1) := astep (fun l => l) bx_w (AddTaxaAbort [2; 0; 3; 2] ValueErr) in
   let '(w2, o2) := astep (fun l => l) w1 (ABase (NewTaxon 7)) in
   o1 = OErr ValueErr /\ observe w1 = [(0, 0); (1, 1); (2, 2); (3, 3)] /\ count (w_ns w1) = 4
   /\ all_taxa_bitmask (w_ns w1) = 15
   /\ o2 = OTax (Some 4) /\ observe w2 = [(0, 0); (1, 1); (2, 2); (3, 3); (4, 4)])
  /\ (let '(w1, o1) := astep (fun l => l) bx_w (NewTaxaAbort [7; 7] KeyErr) in
      let '(w2, o2) := astep (fun l => l) w1 (ABase (RequireTaxon 9 None)) in
      o1 = OErr KeyErr /\ observe w1 = [(0, 0); (1, 1); (4, 2); (5, 3)]
      /\ o2 = OTax (Some 6) /\ observe w2 = [(0, 0); (1, 1); (4, 2); (5, 3); (6, 4)])
  /\ (let w := mkW (mkNs [0; 1] [(1, 1); (0, 0)] [(1, 1); (0, 0)] 2 [] false false) (w_lab bx_w) 4 in
      astep (fun l => l) w (AddTaxaAbort [0; 2; 2] ValueErr) = (w, OErr TypeErr)
      /\ astep (fun l => l) w (AddTaxaAbort [0; 1] ValueErr) = (w, OErr ValueErr)
      /\ astep (fun l => l) w (NewTaxaAbort [5] ValueErr) = (w, OErr TypeErr)).
Proof. exact (conj ax_abort_then_new (conj ax_abort_new_taxa ax_abort_immutable)). Qed.
Print Assumptions abort_examples.
