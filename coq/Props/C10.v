(* C10 property theorems: statements only, each closed by `exact`.
   All statements are about the executable model Model/C10Model.v (tied to taxonmodel.py by the
   correspondence run); `lower` (str.lower on label ids) is an arbitrary function.
   `Inv`, `ops_wf`, `trace` are defined in Proofs/C10Inv.v / C10Bits.v; the first theorems
   below say exactly what they mean. *)
From Coq Require Import ZArith List Bool Permutation Sorted.
From DV Require Import Model.PyPrims Model.C10Model Proofs.C10Proofs.
Import ListNotations.
Open Scope Z_scope.

(* ================= 1. the invariant ================= *)

(* what `Inv` says: members duplicate-free; member <-> has an accession index; indices in
   [0,count); index map injective; reverse map consistent; bitmask memo sound *)
Theorem inv_unfold : forall n : ns,
  Inv n <->
  NoDup (taxa n)
  /\ (forall t, In t (taxa n) <-> exists i, alookup t (acc n) = Some i)
  /\ (forall t i, alookup t (acc n) = Some i -> 0 <= i < count n)
  /\ (forall t1 t2 i, alookup t1 (acc n) = Some i -> alookup t2 (acc n) = Some i -> t1 = t2)
  /\ (forall t i, alookup i (rev n) = Some t <-> alookup t (acc n) = Some i)
  /\ (forall t m, alookup t (bm n) = Some m ->
        exists i, alookup t (acc n) = Some i /\ m = Z.shiftl 1 i)
  /\ 0 <= count n.
Proof. exact Inv_unfold_l. Qed.
Print Assumptions inv_unfold.

(* an empty namespace (any flags, any pre-existing Taxon objects) satisfies it *)
Theorem inv_initial : forall (mut cs : bool) (lab : list (tid * lbl)) (nxt : tid),
  Inv (w_ns (mkW (mkNs [] [] [] 0 [] mut cs) lab nxt))
  /\ forall t, In t (taxa (w_ns (mkW (mkNs [] [] [] 0 [] mut cs) lab nxt))) -> t < nxt.
Proof. exact inv_initial_l. Qed.
Print Assumptions inv_initial.

(* preserved by EVERY operation, including the identity-renaming deep copy *)
Theorem inv_step : forall (lower : lbl -> lbl) (w : world) (o : op),
  Inv (w_ns w) -> Inv (w_ns (fst (step lower w o))).
Proof. exact step_inv. Qed.
Print Assumptions inv_step.

(* hence in every state of every history *)
Theorem ops_inv : forall (lower : lbl -> lbl) (w : world) (ops : list op),
  Inv (w_ns w) -> Inv (w_ns (run_world lower w ops)).
Proof. exact ops_inv_l. Qed.
Print Assumptions ops_inv.

(* the same, self-contained: every state reachable from an empty namespace *)
Theorem ops_inv_reachable :
  forall (lower : lbl -> lbl) (mut cs : bool) (lab : list (tid * lbl)) (nxt : tid) (ops : list op),
  let n := w_ns (run_world lower (mkW (mkNs [] [] [] 0 [] mut cs) lab nxt) ops) in
  NoDup (taxa n)
  /\ (forall t, In t (taxa n) <-> exists i, alookup t (acc n) = Some i)
  /\ (forall t i, alookup t (acc n) = Some i -> 0 <= i < count n)
  /\ (forall t1 t2 i, alookup t1 (acc n) = Some i -> alookup t2 (acc n) = Some i -> t1 = t2)
  /\ (forall t i, alookup i (rev n) = Some t <-> alookup t (acc n) = Some i)
  /\ (forall t m, alookup t (bm n) = Some m ->
        exists i, alookup t (acc n) = Some i /\ m = Z.shiftl 1 i)
  /\ 0 <= count n.
Proof. exact ops_inv_reach_l. Qed.
Print Assumptions ops_inv_reachable.

(* `ops_wf`: add_taxon is only ever applied to Taxon objects that already exist *)
Theorem ops_wf_unfold : forall (lower : lbl -> lbl) (w : world),
  (ops_wf lower w [] <-> True)
  /\ forall o r, ops_wf lower w (o :: r) <->
       (match o with AddTaxon t => t < w_next w | _ => True end)
       /\ ops_wf lower (fst (step lower w o)) r.
Proof. exact ops_wf_unfold_l. Qed.
Print Assumptions ops_wf_unfold.

(* world-level invariant: additionally every member is an existing object (id below the
   allocation counter), so that freshly created / deep-copied taxa are really new *)
Theorem ops_world_inv : forall (lower : lbl -> lbl) (w : world) (ops : list op),
  (Inv (w_ns w) /\ forall t, In t (taxa (w_ns w)) -> t < w_next w) ->
  ops_wf lower w ops ->
  Inv (w_ns (run_world lower w ops))
  /\ forall t, In t (taxa (w_ns (run_world lower w ops))) -> t < w_next (run_world lower w ops).
Proof. exact ops_winv_l. Qed.
Print Assumptions ops_world_inv.

(* ================= 2. stability of the bit ================= *)

(* one step: a taxon that is a member before and after any operation (other than replacing the
   namespace by a deep copy, which changes identities) keeps its accession index *)
Theorem bit_stable : forall (lower : lbl -> lbl) (w : world) (o : op) (t : tid) (i : Z),
  Inv (w_ns w) -> o <> DeepCopy ->
  In t (taxa (w_ns w)) -> alookup t (acc (w_ns w)) = Some i ->
  In t (taxa (w_ns (fst (step lower w o)))) ->
  alookup t (acc (w_ns (fst (step lower w o)))) = Some i.
Proof. exact bit_stable_l. Qed.
Print Assumptions bit_stable.

(* `trace` = all states a history passes through *)
Theorem trace_unfold : forall (lower : lbl -> lbl) (w : world),
  trace lower w [] = [w]
  /\ forall o r, trace lower w (o :: r) = w :: trace lower (fst (step lower w o)) r.
Proof. exact trace_unfold_l. Qed.
Print Assumptions trace_unfold.

(* histories (any operations): a taxon that is a member in every state of the run has the same
   index, and the same single-bit mask 1<<i, in every state *)
Theorem bit_stable_run :
  forall (lower : lbl -> lbl) (w : world) (ops : list op) (t : tid) (i : Z),
  (Inv (w_ns w) /\ forall t, In t (taxa (w_ns w)) -> t < w_next w) ->
  ops_wf lower w ops ->
  (forall w', In w' (trace lower w ops) -> In t (taxa (w_ns w'))) ->
  alookup t (acc (w_ns w)) = Some i ->
  forall w', In w' (trace lower w ops) ->
    alookup t (acc (w_ns w')) = Some i
    /\ exists n', taxon_bitmask (w_ns w') t = Ok (n', Z.shiftl 1 i).
Proof. exact bit_stable_run_l. Qed.
Print Assumptions bit_stable_run.

Theorem bit_stable_run_nodeep :
  forall (lower : lbl -> lbl) (w : world) (ops : list op) (t : tid) (i : Z),
  Inv (w_ns w) -> ~ In DeepCopy ops ->
  (forall w', In w' (trace lower w ops) -> In t (taxa (w_ns w'))) ->
  alookup t (acc (w_ns w)) = Some i ->
  forall w', In w' (trace lower w ops) -> alookup t (acc (w_ns w')) = Some i.
Proof. exact bit_stable_run_nodeep_l. Qed.
Print Assumptions bit_stable_run_nodeep.

(* copy.deepcopy: the k-th member t is replaced by the fresh object f t; f t has the index and
   the label of t; order, counter and flags are kept; nothing else has an index *)
Theorem deepcopy_preserves_bits : forall (lower : lbl -> lbl) (w : world),
  Inv (w_ns w) ->
  let w' := fst (step lower w DeepCopy) in
  let f := ren (fresh_map (taxa (w_ns w)) (w_next w)) in
  taxa (w_ns w') = map f (taxa (w_ns w))
  /\ (forall t, In t (taxa (w_ns w)) -> alookup (f t) (acc (w_ns w')) = alookup t (acc (w_ns w)))
  /\ (forall x i, alookup x (acc (w_ns w')) = Some i ->
        exists t, In t (taxa (w_ns w)) /\ x = f t /\ alookup t (acc (w_ns w)) = Some i)
  /\ (forall t, In t (taxa (w_ns w)) -> label_of w' (f t) = label_of w t)
  /\ (forall t, In t (taxa (w_ns w)) -> w_next w <= f t < w_next w')
  /\ (forall t1 t2, In t1 (taxa (w_ns w)) -> In t2 (taxa (w_ns w)) -> f t1 = f t2 -> t1 = t2)
  /\ count (w_ns w') = count (w_ns w)
  /\ is_mut (w_ns w') = is_mut (w_ns w) /\ is_cs (w_ns w') = is_cs (w_ns w).
Proof. exact deepcopy_preserves_bits_l. Qed.
Print Assumptions deepcopy_preserves_bits.

(* TaxonNamespace(other) / copy.copy: same Taxon objects, same order, same indices: the copy that
   replaces the namespace under observation is indistinguishable (interface lemma; the content is
   in the correspondence run, which really constructs the copy) *)
Theorem copy_preserves_bits : forall (lower : lbl -> lbl) (w : world),
  step lower w CopyConstruct = (w, OUnit).
Proof. exact copy_preserves_bits_l. Qed.
Print Assumptions copy_preserves_bits.

(* ================= 3. one bit each, never shared ================= *)

Theorem single_bit : forall (n : ns) (t : tid), Inv n -> In t (taxa n) ->
  exists n' i, taxon_bitmask n t = Ok (n', Z.shiftl 1 i)
    /\ alookup t (acc n) = Some i /\ 0 <= i < count n
    /\ (forall k, Z.testbit (Z.shiftl 1 i) k = Z.eqb i k)
    /\ 0 < Z.shiftl 1 i <= all_taxa_bitmask n
    /\ (taxa n' = taxa n /\ acc n' = acc n /\ rev n' = rev n /\ count n' = count n
        /\ is_mut n' = is_mut n /\ is_cs n' = is_cs n)
    /\ Inv n'.
Proof. exact single_bit_l. Qed.
Print Assumptions single_bit.

Theorem nonmember_no_bit : forall (n : ns) (t : tid),
  Inv n -> ~ In t (taxa n) -> taxon_bitmask n t = Err KeyErr.
Proof. exact nonmember_no_bit_l. Qed.
Print Assumptions nonmember_no_bit.

Theorem bits_distinct : forall (n : ns) (t1 t2 : tid),
  Inv n -> In t1 (taxa n) -> In t2 (taxa n) -> t1 <> t2 ->
  exists i1 i2 n1 n2,
    alookup t1 (acc n) = Some i1 /\ alookup t2 (acc n) = Some i2 /\ i1 <> i2
    /\ taxon_bitmask n t1 = Ok (n1, Z.shiftl 1 i1) /\ taxon_bitmask n t2 = Ok (n2, Z.shiftl 1 i2)
    /\ Z.shiftl 1 i1 <> Z.shiftl 1 i2 /\ Z.land (Z.shiftl 1 i1) (Z.shiftl 1 i2) = 0.
Proof. exact bits_distinct_l. Qed.
Print Assumptions bits_distinct.

(* ================= 4. taxa -> bitmask -> taxa ================= *)

(* the loop `while bitmask: ... bitmask >>= 1` terminates within the model's fuel for every
   non-negative bitmask (a negative one does not terminate in Python either) *)
Theorem bitmask_taxa_list_fuel : forall (n : ns) (m idx : Z) (got : list tid), 0 <= m ->
  bitmask_taxa_list n (bits_fuel m) m idx got <> OutOfFuel.
Proof. exact bitmask_taxa_list_fuel_l. Qed.
Print Assumptions bitmask_taxa_list_fuel.

(* any bitmask whose set bits are live indices: exactly the members with those bits, by bit *)
Theorem bitmask_taxa_list_members : forall (n : ns) (m : Z), Inv n -> 0 <= m ->
  (forall k, 0 <= k -> Z.testbit m k = true -> exists t, alookup k (rev n) = Some t) ->
  exists L, bitmask_taxa_list n (bits_fuel m) m 0 [] = Ok L
    /\ (forall t, In t L <-> exists k, alookup t (acc n) = Some k /\ Z.testbit m k = true)
    /\ StronglySorted (fun a c => match alookup a (acc n) with Some i => i | None => -1 end
                                  < match alookup c (acc n) with Some i => i | None => -1 end) L
    /\ NoDup L.
Proof. exact bitmask_taxa_list_members_l. Qed.
Print Assumptions bitmask_taxa_list_members.

Theorem taxa_bitmask_roundtrip : forall (n : ns) (S : list tid),
  Inv n -> NoDup S -> incl S (taxa n) ->
  exists n' b L,
    taxa_bitmask n S 0 = Ok (n', b)
    /\ (taxa n' = taxa n /\ acc n' = acc n /\ rev n' = rev n /\ count n' = count n
        /\ is_mut n' = is_mut n /\ is_cs n' = is_cs n)
    /\ Inv n' /\ 0 <= b
    /\ (forall k, 0 <= k -> (Z.testbit b k = true <-> exists t, In t S /\ alookup t (acc n) = Some k))
    /\ bitmask_taxa_list n' (bits_fuel b) b 0 [] = Ok L
    /\ Permutation L S
    /\ StronglySorted (fun a c => match alookup a (acc n) with Some i => i | None => -1 end
                                  < match alookup c (acc n) with Some i => i | None => -1 end) L.
Proof. exact taxa_bitmask_roundtrip_l. Qed.
Print Assumptions taxa_bitmask_roundtrip.

(* the same as two consecutive API calls: never a KeyError, never out of fuel *)
Theorem taxa_bitmask_roundtrip_steps : forall (lower : lbl -> lbl) (w : world) (S : list tid),
  Inv (w_ns w) -> NoDup S -> incl S (taxa (w_ns w)) ->
  exists w1 b L,
    step lower w (TaxaBitmask S) = (w1, OInt b)
    /\ step lower w1 (BitmaskTaxa b) = (w1, OTaxa L)
    /\ Permutation L S
    /\ StronglySorted (fun a c => match alookup a (acc (w_ns w)) with Some i => i | None => -1 end
                                  < match alookup c (acc (w_ns w)) with Some i => i | None => -1 end) L
    /\ (taxa (w_ns w1) = taxa (w_ns w) /\ acc (w_ns w1) = acc (w_ns w) /\ rev (w_ns w1) = rev (w_ns w)
        /\ count (w_ns w1) = count (w_ns w)
        /\ is_mut (w_ns w1) = is_mut (w_ns w) /\ is_cs (w_ns w1) = is_cs (w_ns w))
    /\ w_lab w1 = w_lab w /\ w_next w1 = w_next w.
Proof. exact taxa_bitmask_roundtrip_steps_l. Qed.
Print Assumptions taxa_bitmask_roundtrip_steps.

(* ================= 5. Newick rendering of a bitmask ================= *)

(* left group = labels of exactly the members whose bit (by accession index, not by list position)
   is set in m, in membership order; right group = the labels of the other members *)
Theorem newick_rendering_names_exactly : forall (lower : lbl -> lbl) (w : world) (m : Z),
  Inv (w_ns w) ->
  ((m = 0 \/ m = all_taxa_bitmask (w_ns w)) ->
     step lower w (NewickGroups m) = (w, OGroup1 (map (label_of w) (taxa (w_ns w)))))
  /\ (m <> 0 -> m <> all_taxa_bitmask (w_ns w) ->
      exists n',
        step lower w (NewickGroups m)
        = (set_ns w n',
           OGroups
             (map (label_of w)
                (filter (fun t => match alookup t (acc (w_ns w)) with
                                  | Some i => Z.testbit m i | None => false end) (taxa (w_ns w))))
             (map (label_of w)
                (filter (fun t => negb (match alookup t (acc (w_ns w)) with
                                        | Some i => Z.testbit m i | None => false end)) (taxa (w_ns w)))))
        /\ (taxa n' = taxa (w_ns w) /\ acc n' = acc (w_ns w) /\ rev n' = rev (w_ns w)
            /\ count n' = count (w_ns w)
            /\ is_mut n' = is_mut (w_ns w) /\ is_cs n' = is_cs (w_ns w))
        /\ Inv n').
Proof. exact newick_rendering_names_exactly_l. Qed.
Print Assumptions newick_rendering_names_exactly.

(* ================= 6. label lookups, require, immutability, removal by label ================= *)

(* findall: exactly the members whose label matches under the namespace's, or the call's,
   case-sensitivity setting, in membership order; nothing changes *)
Theorem findall_spec : forall (lower : lbl -> lbl) (w : world) (l : lbl) (cs : option bool),
  step lower w (FindAll l cs)
  = (w, OTaxa (filter (matches lower w (use_cs (w_ns w) cs) l) (taxa (w_ns w)))).
Proof. exact findall_spec_l. Qed.
Print Assumptions findall_spec.

(* get_taxon: the first matching member in membership order, None iff nothing matches *)
Theorem get_taxon_first : forall (lower : lbl -> lbl) (w : world) (l : lbl) (cs : option bool),
  let f := matches lower w (use_cs (w_ns w) cs) l in
  (forall t, step lower w (GetTaxon l cs) = (w, OTax (Some t)) <->
     exists pre post, taxa (w_ns w) = pre ++ t :: post
                      /\ (forall x, In x pre -> f x = false) /\ f t = true)
  /\ (step lower w (GetTaxon l cs) = (w, OTax None) <->
        forall x, In x (taxa (w_ns w)) -> f x = false)
  /\ step lower w (GetTaxon l cs) = (w, OTax (hd_error (filter f (taxa (w_ns w))))).
Proof. exact get_taxon_first_l. Qed.
Print Assumptions get_taxon_first.

Theorem has_label_spec : forall (lower : lbl -> lbl) (w : world) (l : lbl) (cs : option bool),
  exists b, step lower w (HasLabel l cs) = (w, OBool b)
    /\ (b = true <-> exists t, In t (taxa (w_ns w)) /\ matches lower w (use_cs (w_ns w) cs) l t = true).
Proof. exact has_label_spec_l. Qed.
Print Assumptions has_label_spec.

(* require_taxon: the first match and an unchanged world; or TypeError (immutable) and an
   unchanged world; or exactly one new member: a fresh object, appended last, with the old counter
   as its index, the requested label, nothing else touched *)
Theorem require_taxon_spec : forall (lower : lbl -> lbl) (w : world) (l : lbl) (cs : option bool),
  (forall t r, lookup_all lower w l cs = t :: r ->
     step lower w (RequireTaxon l cs) = (w, OTax (Some t)))
  /\ (lookup_all lower w l cs = [] -> is_mut (w_ns w) = false ->
        step lower w (RequireTaxon l cs) = (w, OErr TypeErr))
  /\ ((Inv (w_ns w) /\ forall t, In t (taxa (w_ns w)) -> t < w_next w) ->
      lookup_all lower w l cs = [] -> is_mut (w_ns w) = true ->
      exists w', step lower w (RequireTaxon l cs) = (w', OTax (Some (w_next w)))
        /\ ~ In (w_next w) (taxa (w_ns w))
        /\ taxa (w_ns w') = taxa (w_ns w) ++ [w_next w]
        /\ alookup (w_next w) (acc (w_ns w')) = Some (count (w_ns w))
        /\ count (w_ns w') = count (w_ns w) + 1
        /\ label_of w' (w_next w) = l
        /\ (forall t, t <> w_next w ->
              label_of w' t = label_of w t /\ alookup t (acc (w_ns w')) = alookup t (acc (w_ns w)))
        /\ w_next w' = w_next w + 1
        /\ is_mut (w_ns w') = true /\ is_cs (w_ns w') = is_cs (w_ns w)).
Proof. exact require_taxon_spec_l. Qed.
Print Assumptions require_taxon_spec.

(* an immutable namespace never gains a member, and stays immutable, under every operation
   except switching mutability back on / replacing the namespace by a deep copy *)
Theorem immutable_never_grows : forall (lower : lbl -> lbl) (w : world) (o : op),
  is_mut (w_ns w) = false -> (forall b, o <> SetMutable b) -> o <> DeepCopy ->
  incl (taxa (w_ns (fst (step lower w o)))) (taxa (w_ns w))
  /\ is_mut (w_ns (fst (step lower w o))) = false.
Proof. exact immutable_never_grows_l. Qed.
Print Assumptions immutable_never_grows.

Theorem immutable_run_never_grows : forall (lower : lbl -> lbl) (w : world) (ops : list op),
  is_mut (w_ns w) = false -> (forall b, ~ In (SetMutable b) ops) -> ~ In DeepCopy ops ->
  incl (taxa (w_ns (run_world lower w ops))) (taxa (w_ns w))
  /\ is_mut (w_ns (run_world lower w ops)) = false.
Proof. exact immutable_run_never_grows_l. Qed.
Print Assumptions immutable_run_never_grows.

(* remove_taxon_label: LookupError and nothing changed when nothing matches; otherwise exactly
   the first match (first_match_only) or exactly all matches are removed: order of the others,
   their indices, the counter, flags and labels unchanged *)
Theorem remove_label_spec :
  forall (lower : lbl -> lbl) (w : world) (l : lbl) (cs : option bool) (first : bool),
  (lookup_all lower w l cs = [] -> step lower w (RemoveLabel l cs first) = (w, OErr LookupErr))
  /\ (forall t r, Inv (w_ns w) -> lookup_all lower w l cs = t :: r ->
        exists w', step lower w (RemoveLabel l cs first) = (w', OUnit)
          /\ taxa (w_ns w')
             = filter (fun x => negb (memb x (if first then [t] else t :: r))) (taxa (w_ns w))
          /\ (forall x, alookup x (acc (w_ns w'))
                        = if memb x (if first then [t] else t :: r) then None
                          else alookup x (acc (w_ns w)))
          /\ count (w_ns w') = count (w_ns w)
          /\ is_mut (w_ns w') = is_mut (w_ns w) /\ is_cs (w_ns w') = is_cs (w_ns w)
          /\ w_lab w' = w_lab w /\ w_next w' = w_next w).
Proof. exact remove_label_spec_l. Qed.
Print Assumptions remove_label_spec.

Theorem discard_label_spec :
  forall (lower : lbl -> lbl) (w : world) (l : lbl) (cs : option bool) (first : bool),
  (lookup_all lower w l cs = [] -> step lower w (DiscardLabel l cs first) = (w, OUnit))
  /\ (forall t r, Inv (w_ns w) -> lookup_all lower w l cs = t :: r ->
        exists w', step lower w (DiscardLabel l cs first) = (w', OUnit)
          /\ taxa (w_ns w')
             = filter (fun x => negb (memb x (if first then [t] else t :: r))) (taxa (w_ns w))
          /\ (forall x, alookup x (acc (w_ns w'))
                        = if memb x (if first then [t] else t :: r) then None
                          else alookup x (acc (w_ns w)))
          /\ count (w_ns w') = count (w_ns w)
          /\ is_mut (w_ns w') = is_mut (w_ns w) /\ is_cs (w_ns w') = is_cs (w_ns w)
          /\ w_lab w' = w_lab w /\ w_next w' = w_next w).
Proof. exact discard_label_spec_l. Qed.
Print Assumptions discard_label_spec.
