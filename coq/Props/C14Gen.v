(* C14 translator tie: theorems only.
   Gen/Pdm.v is regenerated on every run from the CURRENT
     src/dendropy/calculate/phylogeneticdistance.py  (PhylogeneticDistanceMatrix.compile_from_tree,
       _mirror_lookups, mrca, patristic_distance, path_edge_count, _calculate_mean_pairwise_distance,
       _calculate_mean_nearest_taxon_distance; the main loops and the arithmetic of nj_tree / upgma_tree)
     src/dendropy/datamodel/treemodel/_tree.py       (Tree.mrca: the descent loop)
   by py/dv/gen_pdm.py, statement by statement, over the primitives of Model/C14GenPrims.v (whose header
   states the Python semantics assumed).  Each theorem says that a generated function equals the
   corresponding function of the hand-written model Model/C14Model.v.  Hence the theorems of Props/C14.v
   about the model are theorems about the code as it is now; a semantic edit of a translated function
   changes Gen/Pdm.v and breaks the proof of its equality.

   compile_from_tree: the generated method is run on an arbitrary receiver `self` (it starts with
   self.clear()); G = the tree's seed node is the object graph for parent_node; none_key stands for None
   used as a key.  The hand model carries a ghost log (p_log) that the source does not have: the generated
   code leaves that field of its receiver untouched.  Domain: the property's (leaf taxa present and
   pairwise distinct, on leaves only) plus distinct node identities, which every Python tree has. *)
From Coq Require Import ZArith QArith List Bool.
From DV Require Import Model.PyPrims Model.Tree Model.C14Model Model.C14Spec Model.C14Spec2 Model.C14Spec3 Model.C14GenPrims Model.C14GenObj Model.C14GenMrcaPrims Gen.Pdm.
From DV Require Import Proofs.C14GenTop Proofs.C14NjGen Proofs.C14NjUniqGen.
From DV Require Import Model.C14Hist Model.C14ObjPrims Model.C14ObjModel Gen.PdmObj Proofs.C14ObjProofs Proofs.C14GenObjTie.
Import ListNotations.
Open Scope Z_scope.

Theorem gen_compile_from_tree_eq_model :
  forall (t : tree) (none_key : Z) (self : pdm),
  good_leaves t -> NoDup (ids t) ->
  match compile_from_tree t with
  | Ok p => PDM_compile_from_tree t none_key self t
            = Ok (mkPdm (p_tree_length p) (p_num_edges p) (p_dist p) (p_steps p) (p_mrca p) (p_mapped p) (p_pairs p)
                        (p_log self))
  | Err e => PDM_compile_from_tree t none_key self t = Err e
  | OutOfFuel => PDM_compile_from_tree t none_key self t = OutOfFuel
  end.
Proof. exact gen_compile_from_tree_top. Qed.
Print Assumptions gen_compile_from_tree_eq_model.

(* _mirror_lookups on tables that are dicts (no repeated keys) whose column keys are row keys - the
   tables compile_from_tree hands to it; there `for k in d` never sees the dict change size *)
Theorem gen_mirror_lookups_eq_model :
  forall s : pdm,
  (NoDup (dkeys (p_dist s)) /\ forall k r, dget k (p_dist s) = Some r -> NoDup (dkeys r)) ->
  (NoDup (dkeys (p_steps s)) /\ forall k r, dget k (p_steps s) = Some r -> NoDup (dkeys r)) ->
  (NoDup (dkeys (p_mrca s)) /\ forall k r, dget k (p_mrca s) = Some r -> NoDup (dkeys r)) ->
  (forall x y v, tget2 x y (p_dist s) = Some v -> dmem y (p_dist s) = true) ->
  (forall x y v, tget2 x y (p_steps s) = Some v -> dmem y (p_steps s) = true) ->
  (forall x y v, tget2 x y (p_mrca s) = Some v -> dmem y (p_mrca s) = true) ->
  PDM__mirror_lookups s = mirror s.
Proof. exact gen_mirror_lookups_top. Qed.
Print Assumptions gen_mirror_lookups_eq_model.

Theorem gen_pdm_mrca_eq_model :
  forall (p : pdm) (a b : Z), PDM_mrca p a b = pdm_mrca p a b.
Proof. exact Proofs.C14GenMrca.gen_pdm_mrca_eq. Qed.
Print Assumptions gen_pdm_mrca_eq_model.

Theorem gen_patristic_distance_eq_model :
  forall (p : pdm) (a b : Z) (normalize : bool), PDM_patristic_distance p a b normalize = distance p a b true normalize.
Proof. exact Proofs.C14GenMrca.gen_patristic_distance_eq. Qed.
Print Assumptions gen_patristic_distance_eq_model.

Theorem gen_path_edge_count_eq_model :
  forall (p : pdm) (a b : Z) (normalize : bool), PDM_path_edge_count p a b normalize = distance p a b false normalize.
Proof. exact Proofs.C14GenMrca.gen_path_edge_count_eq. Qed.
Print Assumptions gen_path_edge_count_eq_model.

(* _calculate_mean_pairwise_distance / _calculate_mean_nearest_taxon_distance (translated once per value of
   is_weighted_edge_distances, which selects the table and its number type; the call of
   _get_distance_matrix_and_normalization_factor is a call of its translation): the same exception as the
   hand model's kernel, or an equal rational (the source sums machine numbers and divides; the model sums
   rationals).  The model's mean_pairwise_distance / mean_nearest_taxon_distance are these kernels applied
   to the comparison regime the public method builds (second and fourth theorem). *)
Theorem gen_mean_pairwise_distance_eq_model :
  forall (p : pdm) (regime : list (Z * Z)) (n : bool),
  match PDM__calculate_mean_pairwise_distance_weighted p regime n,
        (do ds <- res_map (fun ab => dmatrix p true (fst ab) (snd ab)) regime ;; mean_of p true n ds) with
  | Ok a, Ok b => (a == b)%Q | Err e1, Err e2 => e1 = e2 | OutOfFuel, OutOfFuel => True | _, _ => False
  end /\
  match PDM__calculate_mean_pairwise_distance_unweighted p regime n,
        (do ds <- res_map (fun ab => dmatrix p false (fst ab) (snd ab)) regime ;; mean_of p false n ds) with
  | Ok a, Ok b => (a == b)%Q | Err e1, Err e2 => e1 = e2 | OutOfFuel, OutOfFuel => True | _, _ => False
  end.
Proof. exact gen_mean_pairwise_distance_top. Qed.
Print Assumptions gen_mean_pairwise_distance_eq_model.

Theorem model_mean_pairwise_distance_is_kernel :
  forall (p : pdm) (filt : option (list Z)) (w n : bool),
  mean_pairwise_distance p filt w n =
  if existsb (fun ab => Z.eqb (fst ab) (snd ab)) (p_pairs p) then Err ValueErr
  else do ds <- res_map (fun ab => dmatrix p w (fst ab) (snd ab))
                        (filter (fun ab => passes filt (fst ab) && passes filt (snd ab)) (p_pairs p)) ;;
       mean_of p w n ds.
Proof. exact model_mean_pairwise_distance_top. Qed.
Print Assumptions model_mean_pairwise_distance_is_kernel.

(* comparison_regime: a dict taxon -> list of taxa (no repeated keys); its lists are non-empty because
   the public method builds it as a defaultdict(list) by appending *)
Theorem gen_mean_nearest_taxon_distance_eq_model :
  forall (p : pdm) (cr : dict (list Z)) (n : bool),
  NoDup (dkeys cr) -> (forall a os, In (a, os) cr -> os <> []) ->
  match PDM__calculate_mean_nearest_taxon_distance_weighted p cr n,
        (do mins <- res_map (fun ao : Z * list Z =>
                               do ds <- res_map (fun b => dmatrix p true (fst ao) b) (snd ao) ;;
                               match ds with [] => Err IndexErr | d0 :: r => Ok (min_from d0 r) end) cr ;;
         mean_of p true n mins) with
  | Ok a, Ok b => (a == b)%Q | Err e1, Err e2 => e1 = e2 | OutOfFuel, OutOfFuel => True | _, _ => False
  end /\
  match PDM__calculate_mean_nearest_taxon_distance_unweighted p cr n,
        (do mins <- res_map (fun ao : Z * list Z =>
                               do ds <- res_map (fun b => dmatrix p false (fst ao) b) (snd ao) ;;
                               match ds with [] => Err IndexErr | d0 :: r => Ok (min_from d0 r) end) cr ;;
         mean_of p false n mins) with
  | Ok a, Ok b => (a == b)%Q | Err e1, Err e2 => e1 = e2 | OutOfFuel, OutOfFuel => True | _, _ => False
  end.
Proof. exact gen_mean_nearest_taxon_distance_top. Qed.
Print Assumptions gen_mean_nearest_taxon_distance_eq_model.

Theorem model_mean_nearest_taxon_distance_is_kernel :
  forall (p : pdm) (filt : option (list Z)) (w n : bool),
  mean_nearest_taxon_distance p filt w n =
  let others a := filter (fun b => negb (Z.eqb a b) && passes filt b) (p_mapped p) in
  do mins <- res_map (fun ao : Z * list Z =>
                        do ds <- res_map (fun b => dmatrix p w (fst ao) b) (snd ao) ;;
                        match ds with [] => Err IndexErr | d0 :: r => Ok (min_from d0 r) end)
                     (map (fun a => (a, others a))
                          (filter (fun a => match others a with [] => false | _ => true end)
                                  (filter (fun a => passes filt a) (p_mapped p)))) ;;
  mean_of p w n mins.
Proof. exact model_mean_nearest_taxon_distance_top. Qed.
Print Assumptions model_mean_nearest_taxon_distance_is_kernel.

(* Tree.mrca from `if (start_node...leafset_bitmask & leafset_bitmask) != leafset_bitmask: return None` to the
   end, as it is after fix 60f03821 (no early exit): the `while True` loop under try/except StopIteration,
   on fuel; enc = the leafset bitmask stored on every node's edge *)
Theorem gen_tree_mrca_descent_eq_model :
  forall (enc : dict Z) (sm : Z) (s : tree) (fuel : nat),
  sm <> 0 -> (size s <= fuel)%nat ->
  Tree_mrca_descent fuel enc sm s =
  if negb (Z.eqb (Z.land (enc_get enc (t_id s)) sm) sm) then Ok None
  else match visit false enc sm s s with Some r => Ok (Some r) | None => Ok (Some s) end.
Proof. exact gen_tree_mrca_descent_top. Qed.
Print Assumptions gen_tree_mrca_descent_eq_model.

Theorem tree_mrca_model_uses_generated_descent :
  forall (ns : nspace) (mt : mtree) (arg : mrca_arg) (start : option Z) (updated : bool)
         (sm : Z) (mt' : mtree) (s : tree) (fuel : nat),
  mrca_mask ns arg = Ok sm -> Z.eqb sm 0 = false ->
  (if Z.eqb (enc_get (mt_enc mt) (match start with Some i => i | None => t_id (mt_tree mt) end)) 0 || negb updated
   then encode ns mt else Ok mt) = Ok mt' ->
  match find_node (match start with Some i => i | None => t_id (mt_tree mt) end) (mt_tree mt') with
  | Some s => Some s
  | None => find_node (match start with Some i => i | None => t_id (mt_tree mt) end) (mt_tree mt)
  end = Some s ->
  t_id s = match start with Some i => i | None => t_id (mt_tree mt) end ->
  (size s <= fuel)%nat ->
  tree_mrca false ns mt arg start updated =
  (match Tree_mrca_descent fuel (mt_enc mt') sm s with
   | Ok o => Ok (option_map t_id o) | Err e => Err e | OutOfFuel => OutOfFuel end, mt').
Proof. exact tree_mrca_uses_generated_descent. Qed.
Print Assumptions tree_mrca_model_uses_generated_descent.

(* Tree.mrca AS A WHOLE (py/dv/c14_mrcagen.py): keyword-argument handling (leafset_bitmask / taxa / taxon_labels,
   start_node, is_bipartitions_updated), the conditional refresh through encode_bipartitions, the test of the start
   node and the descent.  The keyword arguments are a record of optional values (Model/C14GenMrcaPrims.v); the call
   forms of the hand model correspond to the records below.  Same result, same tree object afterwards, same
   exception (the tree after an exception is not reported by the generated code). *)
Theorem gen_tree_mrca_eq_model :
  forall (fuel : nat) (ns : nspace) (mt : mtree) (arg : mrca_arg) (start : option Z) (updated : bool),
  (size (mt_tree mt) <= fuel)%nat ->
  let kw := mkKw start
                 (match arg with ByMask m => Some m | _ => None end)
                 (match arg with ByTaxa l => Some l | _ => None end)
                 (match arg with ByLabels l => Some l | _ => None end)
                 (Some updated) in
  match tree_mrca false ns mt arg start updated with
  | (Ok r, mt') => Tree_mrca fuel ns mt kw = Ok (r, mt')
  | (Err e, _) => Tree_mrca fuel ns mt kw = Err e
  | (OutOfFuel, _) => True
  end.
Proof. exact gen_tree_mrca_top. Qed.
Print Assumptions gen_tree_mrca_eq_model.

(* treemeasure.patristic_distance(tree, taxon1, taxon2, is_bipartitions_updated): tree.mrca, the two
   find_node calls and the two walks `while n != mrca` (on fuel; nodes have distinct identities) *)
Theorem gen_tm_patristic_distance_eq_model :
  forall (fuel : nat) (ns : nspace) (mt : mtree) (a b : Z) (updated : bool),
  (size (mt_tree mt) < fuel)%nat ->
  match tm_patristic false ns mt a b updated with
  | (Ok d, mt') => NoDup (ids (mt_tree mt')) -> TM_patristic_distance fuel ns mt a b updated = Ok (d, mt')
  | (Err e, mt') => NoDup (ids (mt_tree mt')) -> TM_patristic_distance fuel ns mt a b updated = Err e
  | (OutOfFuel, _) => True
  end.
Proof. exact gen_tm_patristic_top. Qed.
Print Assumptions gen_tm_patristic_distance_eq_model.

(* nj_tree / upgma_tree: every arithmetic expression and comparison of the hand model's nj_step /
   upgma_step (left) is the one extracted from the source (right); Qred does not change the rational *)
Theorem gen_nj_formulas_eq_model :
  (forall n d x1 x2, (inject_Z (n - 2) * d - x1 - x2 == NJ_qvalue (inject_Z n) d x1 x2)%Q) /\
  (forall (v m : Q) (x y : option (Q * (jnode * jnode))),
      (if Qlt_le_dec v m then x else y) = if NJ_better v m then x else y) /\
  (forall a0 a1 v3, (Qred ((1 # 2) * ((0 + a0 + a1) - v3)) == NJ_dist (0 + a0 + a1) v3)%Q) /\
  (forall x dist b0 b1, (Qred (x + dist - b0 - b1) == NJ_xsub_update x dist b0 b1)%Q) /\
  (forall n v3 x0 x1,
      (Qred ((1 # 2) * v3 + (1 / inject_Z (2 * (n - 2))) * (x0 - x1)) == NJ_delta_f (inject_Z n) v3 x0 x1)%Q) /\
  (forall n v3 x0 x1, NJ_delta_g n v3 x0 x1 = (v3 - NJ_delta_f n v3 x0 x1)%Q) /\
  (forall v3, (Qred (v3 / 2) == NJ_half v3)%Q) /\
  (forall n, (1 <? n) = NJ_continue n /\ (2 <? n) = NJ_general n).
Proof. exact gen_nj_formulas_top. Qed.
Print Assumptions gen_nj_formulas_eq_model.

Theorem gen_upgma_formulas_eq_model :
  (forall (v m : Q) (x y : option (Q * (unode * unode))),
      (if Qlt_le_dec v m then x else y) = if UPGMA_better v m then x else y) /\
  (forall dmin, (Qred (dmin / 2) == UPGMA_elen dmin)%Q) /\
  (forall elen tip, (Qred (elen - tip) == UPGMA_child_len elen tip)%Q) /\
  (forall elen tip, (Qred ((elen - tip) + tip) == UPGMA_tip (UPGMA_child_len elen tip) tip)%Q) /\
  (forall d20 s0 d21 s1 count,
      (Qred ((0 + d20 * s0 + d21 * s1) / inject_Z count)
       == UPGMA_avg (UPGMA_acc (UPGMA_acc 0 d20 s0) d21 s1) (inject_Z count))%Q).
Proof. exact gen_upgma_formulas_top. Qed.
Print Assumptions gen_upgma_formulas_eq_model.

(* THE MAIN LOOPS of upgma_tree / nj_tree (everything from `node_pool = []` to `return tree`, compiled by
   py/dv/c14_objgen.py as a program over an object heap: Model/C14GenObj.v states the Python semantics assumed -
   nodes are identities allocated by tree.node_factory(), their attributes live in the heap, floats are
   rationals in canonical form).  original_dmatrix is the table the method selects, the list is
   list(self._mapped_taxa) in this process's order; the result is the seed node's identity and the heap,
   `rebuild` reads the tree off it.  Whenever the hand model's upgma_tree / nj_tree returns a tree on a
   complete matrix, the generated program returns exactly that tree (same node identities, child order,
   taxa and lengths): its loop performs the model's upgma_step / nj_step on the node pool. *)
Theorem gen_upgma_tree_eq_model :
  forall (none_key : Z) (M : tbl Q) (order : list Z) (T : qtree),
  NoDup order -> mcomplete M order -> upgma_tree M order = Ok T ->
  exists i h, PDM_upgma_tree none_key (length order) M order = Ok (i, h) /\
              forall fuel, (qdepth T <= fuel)%nat -> rebuild fuel h i = Ok T.
Proof. exact gen_upgma_tree_top. Qed.
Print Assumptions gen_upgma_tree_eq_model.

Theorem gen_nj_tree_eq_model :
  forall (none_key : Z) (M : tbl Q) (order : list Z) (T : qtree),
  NoDup order -> mcomplete M order -> nj_tree M order = Ok T ->
  exists i h, PDM_nj_tree none_key (length order) M order = Ok (i, h) /\
              forall fuel, (qdepth T <= fuel)%nat -> rebuild fuel h i = Ok T.
Proof. exact gen_nj_tree_top. Qed.
Print Assumptions gen_nj_tree_eq_model.

(* hence the recovery theorems of Props/C14.v hold of the generated code *)
Theorem gen_upgma_recovers_ultrametric :
  forall (none_key : Z) (t : tree) (p : pdm) (h : Z) (order : list Z),
  rbin t -> good_leaves t -> t_kids t <> [] -> positive_internal t -> nonneg_lengths t -> equidistant h t ->
  compile_from_tree t = Ok p ->
  NoDup order -> (forall a, In a order <-> In (Some a) (leaf_taxa t)) ->
  exists T i hp, PDM_upgma_tree none_key (length order) (qtable p true) order = Ok (i, hp) /\
                 (forall fuel, (qdepth T <= fuel)%nat -> rebuild fuel hp i = Ok T) /\
                 qsame_rooted (tq t) T.
Proof. exact gen_upgma_recovers_top. Qed.
Print Assumptions gen_upgma_recovers_ultrametric.

Theorem gen_nj_recovers_additive_up_to_five_taxa :
  forall (none_key : Z) (M : tbl Q) (order : list Z),
  NoDup order -> order <> [] -> (length order <= 5)%nat ->
  mcomplete M order -> msymmetric M order -> mfour_point_strict M order ->
  exists T i hp, PDM_nj_tree none_key (length order) M order = Ok (i, hp) /\
                 (forall fuel, (qdepth T <= fuel)%nat -> rebuild fuel hp i = Ok T) /\
                 forall a b, In a order -> In b order -> a <> b -> exists q, qdist T a b = Some q /\ (q == mval M a b)%Q.
Proof. exact gen_nj_recovers_small_top. Qed.
Print Assumptions gen_nj_recovers_additive_up_to_five_taxa.

(* and, with Props/C14.v tree_matrix_four_point_strict: the generated nj_tree realises the distances of every binary
   tree with positive internal lengths and at most five leaves *)
Theorem gen_nj_recovers_tree_up_to_five_leaves :
  forall (none_key : Z) (t : tree) (p : pdm) (order : list Z),
  rbin t -> good_leaves t -> t_kids t <> [] -> positive_internal t -> nonneg_lengths t ->
  compile_from_tree t = Ok p ->
  NoDup order -> order <> [] -> (length order <= 5)%nat -> (forall a, In a order -> In (Some a) (leaf_taxa t)) ->
  exists T i hp, PDM_nj_tree none_key (length order) (qtable p true) order = Ok (i, hp) /\
                 (forall fuel, (qdepth T <= fuel)%nat -> rebuild fuel hp i = Ok T) /\
                 forall a b, In a order -> In b order -> a <> b ->
                   exists q d, qdist T a b = Some q /\ dist t a b = Some d /\ (q == uq d)%Q.
Proof. exact gen_nj_recovers_tree_small_top. Qed.
Print Assumptions gen_nj_recovers_tree_up_to_five_leaves.

(* UNCONDITIONAL (any number of taxa; Props/C14.v q_criterion, nj_recovers_additive, nj_recovers_tree): the
   generated nj_tree program, on every complete symmetric matrix satisfying the strictly resolved
   four-point condition, in every iteration order, returns a tree (read off the heap by rebuild) whose
   path distance between any two taxa is the matrix entry; in particular on the distance matrix of every
   binary tree with positive internal edge lengths. *)
Theorem gen_nj_recovers_additive :
  forall (none_key : Z) (M : tbl Q) (order : list Z),
  NoDup order -> order <> [] ->
  mcomplete M order -> msymmetric M order -> mfour_point_strict M order ->
  exists T i hp, PDM_nj_tree none_key (length order) M order = Ok (i, hp) /\
                 (forall fuel, (qdepth T <= fuel)%nat -> rebuild fuel hp i = Ok T) /\
                 forall a b, In a order -> In b order -> a <> b -> exists q, qdist T a b = Some q /\ (q == mval M a b)%Q.
Proof. exact gen_nj_recovers_additive_top. Qed.
Print Assumptions gen_nj_recovers_additive.

Theorem gen_nj_recovers_tree :
  forall (none_key : Z) (t : tree) (p : pdm) (order : list Z),
  rbin t -> good_leaves t -> t_kids t <> [] -> positive_internal t -> nonneg_lengths t ->
  compile_from_tree t = Ok p ->
  NoDup order -> order <> [] -> (forall a, In a order -> In (Some a) (leaf_taxa t)) ->
  exists T i hp, PDM_nj_tree none_key (length order) (qtable p true) order = Ok (i, hp) /\
                 (forall fuel, (qdepth T <= fuel)%nat -> rebuild fuel hp i = Ok T) /\
                 forall a b, In a order -> In b order -> a <> b ->
                   exists q d, qdist T a b = Some q /\ dist t a b = Some d /\ (q == uq d)%Q.
Proof. exact gen_nj_recovers_tree_top. Qed.
Print Assumptions gen_nj_recovers_tree.

(* SIXTH WAVE (Props/C14.v tree_metric_unique, nj_returns_tree_of_matrix, nj_returns_generating_tree): the
   generated nj_tree program returns THE tree of the matrix -- on every complete symmetric non-negative
   matrix with the triangle inequality and the strictly resolved four-point condition, the tree read off
   the heap has exactly the taxa iterated and carries on every bipartition of them the same total edge
   length as any tree (any shape, no negative split) realising the matrix; in particular, on the distance
   matrix of a binary tree with positive internal edge lengths, the generating tree's unrooted splits with
   their lengths (definitions: Model/C14Spec3.v, explained in Props/C14.v). *)
Theorem gen_nj_returns_tree_of_matrix :
  forall (none_key : Z) (M : tbl Q) (order : list Z),
  NoDup order -> order <> [] -> mcomplete M order -> msymmetric M order ->
  mfour_point_strict M order -> mtriangle M order -> mnonneg M order ->
  exists T i hp, PDM_nj_tree none_key (length order) M order = Ok (i, hp) /\
    (forall fuel, (qdepth T <= fuel)%nat -> rebuild fuel hp i = Ok T) /\
    (forall a b, In a order -> In b order -> a <> b -> exists q, qdist T a b = Some q /\ (q == mval M a b)%Q) /\
    qleaves_ok T /\ NoDup (qtaxa T) /\ (forall a, qhas a T = true <-> In a order) /\
    split_nonneg T /\
    forall T', qleaves_ok T' -> NoDup (qtaxa T') -> (forall a, qhas a T' = true <-> In a order) -> split_nonneg T' ->
      (forall a b, In a order -> In b order -> a <> b -> exists q, qdist T' a b = Some q /\ (q == mval M a b)%Q) ->
      forall s, proper_split order s -> (split_len T s == split_len T' s)%Q.
Proof. exact gen_nj_unique_top. Qed.
Print Assumptions gen_nj_returns_tree_of_matrix.

Theorem gen_nj_returns_generating_tree :
  forall (none_key : Z) (t : tree) (p : pdm) (order : list Z),
  rbin t -> good_leaves t -> t_kids t <> [] -> positive_internal t -> nonneg_lengths t ->
  compile_from_tree t = Ok p ->
  NoDup order -> (forall a, In a order <-> In (Some a) (leaf_taxa t)) ->
  exists T i hp, PDM_nj_tree none_key (length order) (qtable p true) order = Ok (i, hp) /\
    (forall fuel, (qdepth T <= fuel)%nat -> rebuild fuel hp i = Ok T) /\
    qleaves_ok T /\ NoDup (qtaxa T) /\ (forall a, qhas a T = true <-> In a order) /\
    (forall s, proper_split order s -> (split_len T s == split_len (tq t) s)%Q) /\
    (forall m, In m (qnodes (tq t)) -> q_kids m <> [] -> proper_split order (qcl m) ->
       (0 < split_len (tq t) (qcl m))%Q /\
       exists m', In m' (qnodes T) /\ same_split order (qcl m) (qcl m') = true) /\
    (forall m', In m' (qnodes T) ->
       (exists x x', x <> x' /\ qcl m' x = true /\ qcl m' x' = true) ->
       (exists y y', y <> y' /\ In y order /\ In y' order /\ qcl m' y = false /\ qcl m' y' = false) ->
       (0 < split_len T (qcl m'))%Q /\
       exists m, In m (qnodes (tq t)) /\ same_split order (qcl m') (qcl m) = true).
Proof. exact gen_nj_returns_generating_tree_top. Qed.
Print Assumptions gen_nj_returns_generating_tree.

(* non-vacuity: a tree in the domain, both sides computed; the generated descent on it *)
Theorem gen_compile_from_tree_example :
  let ex := (T 0 None None None [T 1 None None (Some 1024) [T 2 (Some 10) None (Some 512) []; T 3 (Some 11) None None []]; T 4 (Some 12) None (Some 2048) []]) in
  good_leaves ex /\ NoDup (ids ex) /\
  PDM_compile_from_tree ex (-1) pdm_empty ex
  = match compile_from_tree ex with
    | Ok p => Ok (mkPdm (p_tree_length p) (p_num_edges p) (p_dist p) (p_steps p) (p_mrca p) (p_mapped p) (p_pairs p) [])
    | Err e => Err e | OutOfFuel => OutOfFuel end /\
  (exists p, compile_from_tree ex = Ok p /\ tget2 12 10 (p_dist p) = Some 3584).
Proof. exact gen_compile_from_tree_example_top. Qed.
Print Assumptions gen_compile_from_tree_example.

Theorem gen_tree_mrca_descent_example :
  Tree_mrca_descent 5 [(2, 1); (3, 2); (1, 3); (4, 4); (0, 7)] 3
    (T 0 None None None [T 1 None None (Some 1024) [T 2 (Some 10) None (Some 512) []; T 3 (Some 11) None None []]; T 4 (Some 12) None (Some 2048) []])
  = Ok (Some (T 1 None None (Some 1024) [T 2 (Some 10) None (Some 512) []; T 3 (Some 11) None None []])).
Proof. exact gen_tree_mrca_descent_example_top. Qed.
Print Assumptions gen_tree_mrca_descent_example.

Theorem gen_tree_builders_example :
  let M := [(10, [(11, (2 # 1)%Q); (12, (4 # 1)%Q)]); (11, [(10, (2 # 1)%Q); (12, (4 # 1)%Q)]); (12, [(10, (4 # 1)%Q); (11, (4 # 1)%Q)])] in
  (do r <- PDM_upgma_tree (-1) 3 M [10; 11; 12] ;; rebuild 5 (snd r) (fst r)) = upgma_tree M [10; 11; 12] /\
  (do r <- PDM_nj_tree (-1) 3 M [10; 11; 12] ;; rebuild 5 (snd r) (fst r)) = nj_tree M [10; 11; 12] /\
  upgma_tree M [10; 11; 12]
  = Ok (QT 4 None None [QT 2 (Some 12) (Some (2 # 1)%Q) []; QT 3 None (Some (1 # 1)%Q) [QT 0 (Some 10) (Some (1 # 1)%Q) []; QT 1 (Some 11) (Some (1 # 1)%Q) []]]).
Proof. exact gen_tree_builders_example_top. Qed.
Print Assumptions gen_tree_builders_example.

(* ------------------------------------------------------------------------------------------------ *)
(* OBJECT LEVEL (Gen/PdmObj.v, generated by py/dv/gen_pdm_obj.py from clear / __init__ / clone / __copy__
   of the current source: which attribute is rebound to a fresh container and which is emptied in place;
   which attribute of the clone gets a new container and which the original's own).  The generated
   statement sequences equal the one-step object model about which Props/C14.v proves independence. *)
Theorem gen_obj_clear_eq_model :
  forall (self : oid) (w : world), gen_PDM_clear self w = o_clear self w /\ gen_PDM_init self w = o_init self w.
Proof. exact gen_obj_clear_eq_top. Qed.
Print Assumptions gen_obj_clear_eq_model.

Theorem gen_obj_clone_eq_model :
  forall (ops : list mop) (w : world) (self : oid) (so : obj),
  run_mops ops world_empty = Ok w -> dget self (w_objs w) = Some so ->
  gen_PDM_clone self w = o_clone self w /\ gen_PDM_copy self w = o_clone self w.
Proof. exact gen_obj_clone_eq_top. Qed.
Print Assumptions gen_obj_clone_eq_model.
