(* C16 property theorems: statements only, each closed by `exact`.

   Model: Model/C16Model.v - `fitch_down_pass`, `fitch_up_pass`, `run_call` (parsimony_score) are
   statement-by-statement transcriptions of dendropy/model/parsimony.py over a store of node
   attributes (node id -> state_sets) that persists between calls on one tree object.
   State sets are Z bitmasks (bit s = state s); `ls : option Z -> Z` gives a leaf's set from its taxon.
   `fitch1 ls t = (F, f)`: Fitch set and score of subtree t for one character.
   `binary t`: every internal node has exactly two children ("fully bifurcating").
   `atree`: an assignment of a state to every node (a state-labelled copy of the tree's shape);
   `fits ls a t`: a has the shape of t and every leaf's state lies in its set; `changes a`: number of
   edges whose ends differ.  `cost n ls t s`: Sankoff minimum over states 0..n-1 with root state s. *)
From Coq Require Import ZArith List Bool.
From DV Require Import Model.PyPrims Model.Tree Model.C16Model Model.C16Prims Gen.Fitch
     Proofs.C16Fitch Proofs.C16Link Proofs.C16Top Proofs.C16Examples Proofs.C16Gen
     Model.C16ObjModel Proofs.C16Obj.
Import ListNotations.
Open Scope Z_scope.

(* ---------- one character: Fitch against Sankoff against assignments ---------- *)

(* Fitch invariant: the set is a non-empty subset of the n states; root states in the set cost
   exactly f, every other root state costs at least f + 1.  (n = any finite number of states) *)
Theorem fitch_invariant : forall (n : nat) (ls : option Z -> Z) (t : tree),
  binary t -> leaves_ok n ls t ->
  0 < fitch_set ls t < 2 ^ Z.of_nat n /\
  forall s, 0 <= s < Z.of_nat n ->
    (Z.testbit (fitch_set ls t) s = true -> cost n ls t s = Fin (fitch_score ls t)) /\
    (Z.testbit (fitch_set ls t) s = false -> ele (Fin (fitch_score ls t + 1)) (cost n ls t s)).
Proof. exact fitch_invariant_l. Qed.
Print Assumptions fitch_invariant.

(* The Sankoff cost is the minimum of `changes` over the assignments with the given root state:
   a lower bound for every such assignment, and attained by one whenever it is finite. *)
Theorem sankoff_is_min_over_assignments : forall (n : nat) (ls : option Z -> Z) (t : tree),
  binary t ->
  (forall a, fits ls a t -> in_range (Z.of_nat n) a -> ele (cost n ls t (a_state a)) (Fin (changes a))) /\
  (forall s c, 0 <= s < Z.of_nat n -> cost n ls t s = Fin c ->
     exists a, fits ls a t /\ in_range (Z.of_nat n) a /\ a_state a = s /\ changes a = c).
Proof. exact (fun n ls t B => conj (sankoff_lower n ls t B) (sankoff_attained n ls t B)). Qed.
Print Assumptions sankoff_is_min_over_assignments.

(* Hence: the Fitch score is the minimum number of changes.  The lower bound holds for EVERY
   assignment (any integers as states); the witness uses states 0..n-1 only. *)
Theorem fitch_is_minimum : forall (n : nat) (ls : option Z -> Z) (t : tree),
  binary t -> leaves_ok n ls t ->
  (forall a, fits ls a t -> changes a >= fitch_score ls t) /\
  (exists a, fits ls a t /\ in_range (Z.of_nat n) a /\ changes a = fitch_score ls t).
Proof. exact fitch_is_minimum_l. Qed.
Print Assumptions fitch_is_minimum.

(* ---------- the transcribed pass: weights, per-character list ---------- *)

(* On a fully bifurcating tree whose leaves all have a row of k sets in the map, starting from ANY
   store of cached node attributes, fitch_down_pass succeeds and returns the sum over characters of
   weight x Fitch score; the score_by_character_list (if requested) holds exactly those summands. *)
Theorem weighted_sum : forall (m : matrix) (w : option (list Z)) (k : nat) (sbc_given : bool) (st : store) (t : tree),
  binary t -> NoDup (ids t) -> covers m k t -> Forall (fun row => length (snd row) = k) m -> weights_ok w k ->
  exists st',
    fitch_down_pass (Some m) w sbc_given st t =
    Done (mkP st'
              (zsum (map (fun i => weight_at w i * fitch_score (column m i) t) (seq 0 k)))
              (if sbc_given then Some (map (fun i => weight_at w i * fitch_score (column m i) t) (seq 0 k)) else None)).
Proof. exact down_pass_binary. Qed.
Print Assumptions weighted_sum.

(* the same for treescore.parsimony_score as a call in a history (alphabet, gaps_as_missing -> map) *)
Theorem parsimony_score_weighted_sum : forall (t : tree) (st : store) (c : call) (k : nat),
  k_api c = ParsimonyScore true -> binary t -> NoDup (ids t) ->
  covers (call_map c) k t -> Forall (fun row => length (snd row) = k) (call_map c) ->
  weights_ok (k_weights c) k ->
  result_of (snd (run_call t st c)) =
  (Ok (zsum (map (fun i => weight_at (k_weights c) i * fitch_score (column (call_map c) i) t) (seq 0 k))),
   if k_sbc c then Some (map (fun i => weight_at (k_weights c) i * fitch_score (column (call_map c) i) t) (seq 0 k))
   else None).
Proof. exact parsimony_score_call. Qed.
Print Assumptions parsimony_score_weighted_sum.

(* The per-character scores add up to the total: for EVERY tree (polytomies included), every map
   (also ragged or with taxa missing), every weight vector and store, whenever the pass returns. *)
Theorem per_character_adds_up : forall (m : option matrix) (w : option (list Z)) (st : store) (t : tree) (p : pst),
  fitch_down_pass m w true st t = Done p -> exists s, p_sbc p = Some s /\ p_score p = zsum s.
Proof. exact per_character_adds_up_l. Qed.
Print Assumptions per_character_adds_up.

(* The value returned (see weighted_sum) is the minimum, over all choices of one assignment per
   character, of the weighted number of changes - for non-negative weights. *)
Theorem score_is_weighted_minimum : forall (n : nat) (m : matrix) (w : option (list Z)) (k : nat) (t : tree),
  binary t -> covers m k t ->
  (forall i, (i < k)%nat -> leaves_ok n (column m i) t) ->
  (forall i, (i < k)%nat -> 0 <= weight_at w i) ->
  let total := zsum (map (fun i => weight_at w i * fitch_score (column m i) t) (seq 0 k)) in
  (forall As : nat -> atree, (forall i, (i < k)%nat -> fits (column m i) (As i) t) ->
     zsum (map (fun i => weight_at w i * changes (As i)) (seq 0 k)) >= total) /\
  (exists As : nat -> atree,
     (forall i, (i < k)%nat -> fits (column m i) (As i) t /\ in_range (Z.of_nat n) (As i)) /\
     zsum (map (fun i => weight_at w i * changes (As i)) (seq 0 k)) = total).
Proof. exact weighted_minimum_l. Qed.
Print Assumptions score_is_weighted_minimum.

(* ---------- child order, root position ---------- *)

(* swapping the two children of any nodes changes neither the Fitch set nor the score *)
Theorem child_order_independent : forall (ls : option Z -> Z) (t t' : tree),
  swap_eq t t' -> fitch1 ls t = fitch1 ls t'.
Proof. exact swap_eq_fitch1. Qed.
Print Assumptions child_order_independent.

(* moving the root across an internal node, (L,(M,R)) <-> ((L,M),R), keeps the score *)
Theorem root_move_independent :
  forall ls i x l e j y lb f i' x' l' e' j' y' lb' f' (L M R : tree),
  fitch_score ls (T i x l e [L; T j y lb f [M; R]]) = fitch_score ls (T i' x' l' e' [T j' y' lb' f' [L; M]; R]).
Proof. exact root_move_fitch. Qed.
Print Assumptions root_move_independent.

(* hence the score (= the minimum number of changes, by fitch_is_minimum) is the same for all
   rooted binary trees related by child swaps and root moves ... *)
Theorem root_independent : forall (ls : option Z -> Z) (t t' : tree),
  reroot_eq t t' -> fitch_score ls t = fitch_score ls t'.
Proof. exact reroot_eq_score. Qed.
Print Assumptions root_independent.

(* stated without Fitch: whatever number of changes an assignment achieves on one rooting can be
   achieved (or beaten) on every other rooting of the same unrooted tree *)
Theorem min_changes_root_independent : forall (n : nat) (ls : option Z -> Z) (t t' : tree),
  reroot_eq t t' -> binary t -> leaves_ok n ls t ->
  forall a, fits ls a t -> exists a', fits ls a' t' /\ in_range (Z.of_nat n) a' /\ changes a' <= changes a.
Proof. exact min_changes_reroot. Qed.
Print Assumptions min_changes_root_independent.

(* ... which contains the re-rooting at the edge reached by any path of child indexes *)
Theorem reroot_at_any_edge : forall (fuel : nat) (p : list nat) (t : tree),
  binary t -> reroot_eq t (reroot_at fuel p t) /\ binary (reroot_at fuel p t).
Proof. exact reroot_at_eq. Qed.
Print Assumptions reroot_at_any_edge.

(* the transcribed pass itself: two tree objects (any node ids, any cached attributes) that display
   the same unrooted tree give the same score and the same per-character list - and no exception *)
Theorem root_independent_pass :
  forall (m : matrix) (w : option (list Z)) (k : nat) (sbc_given : bool) (t t' : tree) (st st' : store),
  reroot_eq t t' -> binary t -> NoDup (ids t) -> NoDup (ids t') ->
  covers m k t -> Forall (fun row => length (snd row) = k) m -> weights_ok w k ->
  outcome_result (fitch_down_pass (Some m) w sbc_given st t) =
  outcome_result (fitch_down_pass (Some m) w sbc_given st' t') /\
  exists z, fst (outcome_result (fitch_down_pass (Some m) w sbc_given st t)) = Ok z.
Proof. exact root_independent_l. Qed.
Print Assumptions root_independent_pass.

(* ---------- purity: independence of earlier calls ---------- *)

(* Whatever attributes earlier calls left on the nodes (st1, st2 arbitrary), a call that passes a
   taxon_state_sets_map (parsimony_score always does) returns the same score / exception and the same
   per-character list; when it succeeds, also the same attributes on all nodes of the tree.
   Holds for every tree (polytomies, unifurcations), every matrix (ragged, missing taxa), all weights. *)
Theorem store_independent : forall (t : tree) (c : call) (st1 st2 : store),
  match k_api c with ParsimonyScore _ => True | DownPass true => True | _ => False end ->
  result_of (snd (run_call t st1 c)) = result_of (snd (run_call t st2 c)) /\
  (forall z, o_res (snd (run_call t st1 c)) = Ok z -> snd (run_call t st1 c) = snd (run_call t st2 c)).
Proof. exact run_call_store_independent. Qed.
Print Assumptions store_independent.

(* After ANY sequence `pre` of earlier calls on the same tree object (other matrices, other options,
   up-passes, failed calls), the call c gives what it gives on a fresh tree object. *)
Theorem history_independent : forall (t : tree) (pre : list call) (c : call),
  match k_api c with ParsimonyScore _ => True | DownPass true => True | _ => False end ->
  exists o, nth_error (run_history t [] (pre ++ [c])) (length pre) = Some o /\
            result_of o = result_of (snd (run_call t [] c)) /\
            (forall z, o_res o = Ok z -> o = snd (run_call t [] c)).
Proof. exact history_independent_l. Qed.
Print Assumptions history_independent.

(* ---------- non-vacuity, and the behaviour outside the quantifier ---------- *)

(* a concrete 4-taxon DNA case with ambiguity codes, a gap and weights satisfies every hypothesis
   used above, has positive score, and its history [M1; M2] (the F11 witness) behaves as stated *)
Theorem hypotheses_satisfiable :
  (binary ex_tree /\ NoDup (ids ex_tree) /\ covers (call_map ex_c2) 3 ex_tree /\
   Forall (fun row => length (snd row) = 3%nat) (call_map ex_c2) /\ weights_ok (k_weights ex_c2) 3 /\
   (forall i, (i < 3)%nat -> leaves_ok 4 (column (call_map ex_c2) i) ex_tree) /\
   (forall i, (i < 3)%nat -> 0 <= weight_at (k_weights ex_c2) i)) /\
  (map result_of (run_history ex_tree [] [ex_c1; ex_c2]) = [(Ok 0, Some [0; 0; 0]); (Ok 14, Some [3; 6; 5])] /\
   map result_of (run_history ex_tree [] [ex_c2]) = [(Ok 14, Some [3; 6; 5])]) /\
  reroot_eq ex_tree ex_tree_rr /\ swap_eq ex_tree ex_tree_sw.
Proof. exact (conj ex_hyps (conj ex_history (conj ex_reroot_eq ex_swap_eq))). Qed.
Print Assumptions hypotheses_satisfiable.

(* fitch_down_pass WITHOUT a map re-uses the sets cached on the leaves (documented behaviour): its
   result depends on the history - the reason the hypothesis of history_independent is needed *)
Theorem history_matters_without_map :
  map result_of (run_history ex_tree [] [ex_c1; ex_nomap]) = [(Ok 0, Some [0; 0; 0]); (Ok 0, None)] /\
  map result_of (run_history ex_tree [] [ex_c2; ex_nomap]) = [(Ok 14, Some [3; 6; 5]); (Ok 7, None)] /\
  map result_of (run_history ex_tree [] [ex_nomap]) = [(Err TypeErr, None)].
Proof. exact ex_history_matters_without_map. Qed.
Print Assumptions history_matters_without_map.

(* polytomies are folded in child by child: the result depends on the order of the children
   (leaf states 0,0,1,1 under one node: 1 or 2); outside "fully bifurcating" *)
Theorem polytomy_depends_on_child_order :
  map result_of (run_history (ex_star [0; 1; 2; 3]) [] [ex_c01]) = [(Ok 1, Some [1])] /\
  map result_of (run_history (ex_star [0; 2; 1; 3]) [] [ex_c01]) = [(Ok 2, Some [2])].
Proof. exact ex_polytomy_order. Qed.
Print Assumptions polytomy_depends_on_child_order.

(* =====================================================================================
   Translator tie: Gen/Fitch.v is regenerated from src/dendropy/model/parsimony.py on every run
   (py/dv/gen_fitch.py, primitives: Model/C16Prims.v).  The generated functions equal the
   hand-written model on ALL inputs, so every theorem above is a theorem about the generated code.
   `sbc_arg true` = a fresh empty list passed as score_by_character_list, `sbc_arg false` = None.
   ===================================================================================== *)

Theorem gen_store_sets_as_attr_is_model : forall (n : tree) (v : ssl) (st : store),
  gen_store_sets_as_attr n v st = FRet (st_set st (t_id n) v) tt.
Proof. exact gen_store_eq. Qed.
Print Assumptions gen_store_sets_as_attr_is_model.

Theorem gen_retrieve_state_sets_from_attr_is_model : forall (n : tree) (m : option matrix) (st : store),
  gen_retrieve_state_sets_from_attr n m st =
  match get_ss m st n with
  | (st', Ok v) => FRet st' v
  | (st', Err e) => FRaise st' e
  | (st', OutOfFuel) => FFuel
  end.
Proof. exact gen_retrieve_eq. Qed.
Print Assumptions gen_retrieve_state_sets_from_attr_is_model.

(* fitch_down_pass: same store, same score, same per-character list on return; same store,
   per-character list and exception on raise; the generated `while True` never runs out of fuel *)
Theorem gen_fitch_down_pass_is_model :
  forall (m : option matrix) (w : option (list Z)) (sbc_given : bool) (st : store) (t : tree),
  gen_fitch_down_pass (postorder t) m w st (sbc_arg sbc_given) =
  match fitch_down_pass m w sbc_given st t with
  | Done p => FRet (p_store p, p_sbc p) (p_score p)
  | Fail p e => FRaise (p_store p, p_sbc p) e
  end.
Proof. exact gen_fitch_down_pass_eq. Qed.
Print Assumptions gen_fitch_down_pass_is_model.

Theorem gen_fitch_up_pass_is_model : forall (m : option matrix) (st : store) (t : tree),
  gen_fitch_up_pass (preorder_with_parent None t) m st =
  match fitch_up_pass m st t with
  | (st', None) => FRet st' tt
  | (st', Some e) => FRaise st' e
  end.
Proof. exact gen_fitch_up_pass_eq. Qed.
Print Assumptions gen_fitch_up_pass_is_model.

Theorem gen_parsimony_score_is_model :
  forall (ns_tree : Z) (root : tree) (ns_chars : Z) (al : alphabet) (cm : cmatrix) (gam : bool)
         (w : option (list Z)) (sbc_given : bool) (st : store),
  gen_parsimony_score (mkTreeObj ns_tree root) (mkCharsObj ns_chars al cm) gam w st (sbc_arg sbc_given) =
  if Z.eqb ns_tree ns_chars
  then match fitch_down_pass (Some (taxon_state_sets_map al gam cm)) w sbc_given st root with
       | Done p => FRet (p_store p, p_sbc p) (p_score p)
       | Fail p e => FRaise (p_store p, p_sbc p) e
       end
  else FRaise (st, sbc_arg sbc_given) ValueErr.
Proof. exact gen_parsimony_score_eq. Qed.
Print Assumptions gen_parsimony_score_is_model.

(* a parsimony_score call of a history (what the correspondence run replays) IS the generated code *)
Theorem run_call_is_generated_parsimony_score :
  forall (t : tree) (st : store) (c : call) (same : bool) (ns_tree ns_chars : Z),
  k_api c = ParsimonyScore same -> same = Z.eqb ns_tree ns_chars ->
  run_call t st c =
  match gen_parsimony_score (mkTreeObj ns_tree t) (mkCharsObj ns_chars (k_alpha c) (k_chars c))
                            (k_gam c) (k_weights c) st (sbc_arg (k_sbc c)) with
  | FRet (st', sb) sc => (st', mkObs (Ok sc) sb (dump st' t))
  | FRaise (st', sb) e => (st', mkObs (Err e) sb (dump st' t))
  | FFuel => ([], mkObs OutOfFuel None [])
  end.
Proof. exact run_call_generated. Qed.
Print Assumptions run_call_is_generated_parsimony_score.

(* the property, read off the generated code: weighted sum of per-character Fitch scores (each the
   minimum number of changes by fitch_is_minimum), from any store of cached node attributes *)
Theorem generated_fitch_down_pass_weighted_sum :
  forall (m : matrix) (w : option (list Z)) (k : nat) (sbc_given : bool) (st : store) (t : tree),
  binary t -> NoDup (ids t) -> covers m k t -> Forall (fun row => length (snd row) = k) m -> weights_ok w k ->
  exists st',
    gen_fitch_down_pass (postorder t) (Some m) w st (sbc_arg sbc_given) =
    FRet (st', if sbc_given then Some (map (fun i => weight_at w i * fitch_score (column m i) t) (seq 0 k)) else None)
         (zsum (map (fun i => weight_at w i * fitch_score (column m i) t) (seq 0 k))).
Proof. exact gen_down_pass_weighted_sum. Qed.
Print Assumptions generated_fitch_down_pass_weighted_sum.

(* ... and purity: score / exception and per-character list of the generated parsimony_score do not
   depend on the attributes earlier calls left on the nodes *)
Theorem generated_parsimony_score_store_independent :
  forall (ns_tree ns_chars : Z) (root : tree) (al : alphabet) (cm : cmatrix) (gam : bool)
         (w : option (list Z)) (sbc_given : bool) (st1 st2 : store),
  fres_result (gen_parsimony_score (mkTreeObj ns_tree root) (mkCharsObj ns_chars al cm) gam w st1 (sbc_arg sbc_given)) =
  fres_result (gen_parsimony_score (mkTreeObj ns_tree root) (mkCharsObj ns_chars al cm) gam w st2 (sbc_arg sbc_given)).
Proof. exact gen_parsimony_score_store_independent. Qed.
Print Assumptions generated_parsimony_score_store_independent.

(* =====================================================================================
   Object level: caller-held taxon_state_sets_map objects shared between calls and tree objects
   (Model/C16ObjModel.v: heap of Python list objects; a node's `state_sets` attribute and a map's row are
   references into it; the statements of parsimony.py transcribed as to which object is stored / created).
   In the unchanged code a leaf's attribute IS the row object of the map last used (aliasing exists, see
   object_level_example), so "no container shared" is false; what holds is that no statement ever assigns
   into an existing list: the heap only grows.
     wfh h          every allocated object id is below the allocation counter
     closed h l     every object referred to by the node-attribute store / map l exists in h
     wf_world w     wfh (w_heap w), every tree object's store and every held map closed
     view / mview   the value-level reading (node id -> contents, taxon -> contents) of a store / map
   ===================================================================================== *)

(* one step of a history (parsimony_score / fitch_down_pass / fitch_up_pass on tree object ti with a held map,
   no map, or a throw-away map): FRAME - every list object that existed before has the same contents after
   (whether it is a row of the map given, of any other held map, or the attribute of a node of any tree), the
   held maps keep their row objects and contents; REFINEMENT - the stores of all tree objects and the result
   are those of the value-level model Model/C16Model.v (fitch_down_pass / fitch_up_pass on values), which
   changes the store of tree object ti only. *)
Theorem scoring_never_mutates_a_list_object :
  forall (ts : list tree) (w : world) (ti : nat) (ap : hapi) (wt : option (list Z)) (sbc : bool),
  wf_world w ->
  let w' := fst (hstep_run ts w ti ap wt sbc) in
  wf_world w' /\
  (forall o v, deref (w_heap w) o = Some v -> deref (w_heap w') o = Some v) /\
  w_maps w' = w_maps w /\
  map (mview (w_heap w')) (w_maps w') = map (mview (w_heap w)) (w_maps w) /\
  (map (view (w_heap w')) (w_stores w'), snd (hstep_run ts w ti ap wt sbc)) =
  vstep ts (map (view (w_heap w)) (w_stores w)) (map (mview (w_heap w)) (w_maps w)) ti ap wt sbc.
Proof. exact hstep_sim. Qed.
Print Assumptions scoring_never_mutates_a_list_object.

(* over ALL histories from the initial world of a case (held maps freshly built, no attributes): after every
   step every held map has its initial contents and row objects, and no initial list object has changed *)
Theorem held_maps_never_change : forall (c : hcase) (steps : list hstep),
  Forall (fun w' => map (mview (w_heap w')) (w_maps w') = hc_maps c /\ w_maps w' = w_maps (world0 c) /\
                    (forall o v, deref (w_heap (world0 c)) o = Some v -> deref (w_heap w') o = Some v))
         (hworlds (hc_trees c) (world0 c) steps).
Proof. exact held_maps_constant. Qed.
Print Assumptions held_maps_never_change.

(* the worlds of held_maps_never_change are the ones the correspondence run observes (hcase_ok / hrun) *)
Theorem observed_snapshots_are_these_worlds : forall (ts : list tree) (steps : list hstep) (w : world),
  map snd (hrun ts w steps) = map (osnap ts) (hworlds ts w steps).
Proof. exact (fun ts steps w => hrun_worlds ts steps w). Qed.
Print Assumptions observed_snapshots_are_these_worlds.

(* the value-level model is the abstraction of the object-level one: same outcome, and the node attributes
   read through the heap are the value-level store - for every tree, map (or none), weights, store *)
Theorem object_level_refines_value_level :
  forall (m : option omap) (w : option (list Z)) (sbc : bool) (h : heap) (a : astore) (t : tree),
  wfh h -> closed h a -> (match m with None => True | Some mm => closed h mm end) ->
  abso (ofitch_down_pass m w sbc h a t) = fitch_down_pass (omview h m) w sbc (view h a) t /\
  (view (fst (fst (ofitch_up_pass m h a t))) (snd (fst (ofitch_up_pass m h a t))), snd (ofitch_up_pass m h a t)) =
  fitch_up_pass (omview h m) (view h a) t.
Proof. exact (fun m w sbc h a t W C M => conj (proj1 (odown_sim m w sbc h a t W C M)) (proj1 (oup_sim m h a t W C M))). Qed.
Print Assumptions object_level_refines_value_level.

(* non-vacuity: two tree objects, two held maps, the history A, B, A on tree 0 and A on tree 1 (seeded/C16-7):
   the initial world is well-formed, the scores are A's, B's, A's, A's, at the end leaf 2 of both trees refers to
   the very row object of map A (object 0) - and both maps still have their contents *)
Theorem object_level_example :
  wf_world (world0 ex_ocase) /\
  map fst (hcase_model ex_ocase) = [(Ok 3, Some [2; 1]); (Ok 1, Some [0; 1]); (Ok 3, Some [2; 1]); (Ok 3, Some [2; 1])] /\
  (let w := last (hworlds (hc_trees ex_ocase) (world0 ex_ocase) (hc_steps ex_ocase)) (world0 ex_ocase) in
   map (lookup 2) (w_stores w) = [Some 0; Some 0] /\ nth_error (w_maps w) 0 = Some [(0, 0); (1, 1); (2, 2)] /\
   vmaps w = [ex_mapA; ex_mapB]).
Proof. exact ex_ocase_facts. Qed.
Print Assumptions object_level_example.
