(* C07 - re-rooting and re-orienting never change the underlying unrooted tree.
   Statements only, each closed by `exact`.  All statements are about the specification-level
   model Model/C07Model.v (pure functions on the id-carrying rose trees of Model/Tree.v that
   reproduce the library's result tree exactly; tied to _tree.py by the correspondence run of
   py/dv/c07.py).  The quantities (Model/C07Spec.v, executable, independent of the operations):
     leaf_taxa t        leaf taxa, left to right
     is_usplit t S      S is a side of the unrooted bipartition of the leaf set induced by an edge
                        of t:  exists C, In C (clades t) /\ (seteq S C \/ is_compl (leaf_taxa t) C S)
                        where clades t = the leaf-taxon list below every node of t
     total_length t     sum of all edge lengths (None counts 0; = Tree.length())
     dist a b t         path length between the leaves with taxa a and b (None counts 0)
     down a t / downT   path length from the root of t down to leaf a (without / with t's own edge)
   Hypotheses that are forced by the code and kept visible:
     is_internal_node n t    reseed_at / reroot_at_node are documented for internal nodes (F19)
     2 <= |children of seed| a seed with one child becomes a taxon-less LEAF when the tree is re-seeded
     NoDup (leaf_taxa t)     leaf taxa pairwise distinct;   NoDup (ids t)  node identities distinct
   No hypothesis on the lengths: any mixture of None / defined lengths (since fix 1fc3f136
   collapse_basal_bifurcation keeps the removed basal edge's length when the kept one has none; the
   former finding mixed-none-lengths-lose-length and its `uniform_lengths` hypothesis are gone;
   Node.remove_child(suppress_unifurcations=True) still has the bare try/except but is not reached
   from any operation of this property). *)
From Coq Require Import ZArith List Bool Permutation.
From DV Require Import Model.PyPrims Model.Tree Model.C07Model Model.C07Spec Proofs.C07Thms.
Import ListNotations.
Open Scope Z_scope.

(* ============ 1. the core: inverting ONE edge (Edge.invert at the seed) ============ *)
(* seed (i) with children A ++ k :: B; k = (i') with children ks'.  After the inversion k is the
   seed, keeps its children in order, gets the old seed as LAST child; the old seed carries k's
   old edge length e', k carries the old seed's e. *)
Theorem rotate_one_edge_invariant :
  forall i x l e A i' x' l' e' ks' B,
  ks' <> [] -> A ++ B <> [] ->
  NoDup (leaf_taxa (T i x l e (A ++ T i' x' l' e' ks' :: B))) ->
  let t := T i x l e (A ++ T i' x' l' e' ks' :: B) in
  let t' := T i' x' l' e (ks' ++ [T i x l e' (A ++ B)]) in
  Permutation (leaf_taxa t) (leaf_taxa t')
  /\ (forall S, is_usplit t S <-> is_usplit t' S)
  /\ total_length t' = total_length t
  /\ (forall a b, dist a b t' = dist a b t).
Proof. exact rotate_one_edge_l. Qed.
Print Assumptions rotate_one_edge_invariant.

(* ============ 2. the operations preserve the unrooted tree ============ *)
(* reseed_at, every setting of update_bipartitions / collapse_unrooted_basal_bifurcation /
   suppress_unifurcations, every rooting state *)
Theorem reseed_at_invariant :
  forall t r n upd coll supp t' r',
  reseed_at t r n upd coll supp = Ok (t', r') ->
  is_internal_node n t -> (2 <= length (t_kids t))%nat -> NoDup (leaf_taxa t) ->
  Permutation (leaf_taxa t) (leaf_taxa t')
  /\ (forall S, is_usplit t S <-> is_usplit t' S)
  /\ total_length t' = total_length t
  /\ (forall a b, dist a b t' = dist a b t).
Proof. exact reseed_at_l. Qed.
Print Assumptions reseed_at_invariant.

Theorem reroot_at_node_invariant :
  forall t r n upd supp coll t' r',
  reroot_at_node t r n upd supp coll = Ok (t', r') ->
  is_internal_node n t -> (2 <= length (t_kids t))%nat -> NoDup (leaf_taxa t) ->
  Permutation (leaf_taxa t) (leaf_taxa t')
  /\ (forall S, is_usplit t S <-> is_usplit t' S)
  /\ total_length t' = total_length t
  /\ (forall a b, dist a b t' = dist a b t).
Proof. exact reroot_at_node_l. Qed.
Print Assumptions reroot_at_node_invariant.

(* reroot_at_edge assigns length1 / length2 whatever the edge's length was: the tree length is
   preserved exactly when they add up to it (None counting 0) *)
Theorem reroot_at_edge_invariant :
  forall t r h l1 l2 upd supp fresh t' r',
  reroot_at_edge t r h l1 l2 upd supp fresh = Ok (t', r') ->
  (forall H, find_node h t = Some H -> len0 l1 + len0 l2 = len0 (t_len H)) ->
  ~ In fresh (ids t) -> (2 <= length (t_kids t))%nat -> NoDup (leaf_taxa t) ->
  Permutation (leaf_taxa t) (leaf_taxa t')
  /\ (forall S, is_usplit t S <-> is_usplit t' S)
  /\ total_length t' = total_length t
  /\ (forall a b, dist a b t' = dist a b t).
Proof. exact reroot_at_edge_l. Qed.
Print Assumptions reroot_at_edge_invariant.

(* reroot_at_midpoint, (a, b) = the pair max_pairwise_distance_taxa returned (any pair of distinct
   leaf taxa).  The model's result t' is in HALF units (the midpoint may halve an odd length) *)
Theorem reroot_at_midpoint_invariant :
  forall t r a b upd supp coll fresh t' r',
  reroot_at_midpoint t r (Some (a, b)) upd supp coll fresh = Ok (t', r') ->
  NoDup (ids t) -> NoDup (leaf_taxa t) -> (2 <= length (t_kids t))%nat -> ~ In fresh (ids t) -> a <> b ->
  Permutation (leaf_taxa t) (leaf_taxa t')
  /\ (forall S, is_usplit t S <-> is_usplit t' S)
  /\ total_length t' = 2 * total_length t
  /\ (forall x y, dist x y t' = option_map (Z.mul 2) (dist x y t)).
Proof. exact reroot_at_midpoint_l. Qed.
Print Assumptions reroot_at_midpoint_invariant.

Theorem to_outgroup_position_invariant :
  forall t r og upd supp t' r',
  to_outgroup t r og upd supp = Ok (t', r') ->
  NoDup (ids t) -> (2 <= length (t_kids t))%nat -> NoDup (leaf_taxa t) ->
  Permutation (leaf_taxa t) (leaf_taxa t')
  /\ (forall S, is_usplit t S <-> is_usplit t' S)
  /\ total_length t' = total_length t
  /\ (forall a b, dist a b t' = dist a b t).
Proof. exact to_outgroup_l. Qed.
Print Assumptions to_outgroup_position_invariant.

Theorem ladderize_invariant :
  forall asc t, NoDup (leaf_taxa t) ->
  Permutation (leaf_taxa t) (leaf_taxa (ladderize asc t))
  /\ (forall S, is_usplit t S <-> is_usplit (ladderize asc t) S)
  /\ total_length (ladderize asc t) = total_length t
  /\ (forall a b, dist a b (ladderize asc t) = dist a b t).
Proof. exact ladderize_l. Qed.
Print Assumptions ladderize_invariant.

(* reorder: any ranking of the taxon labels *)
Theorem reorder_invariant :
  forall asc rk t, NoDup (leaf_taxa t) ->
  Permutation (leaf_taxa t) (leaf_taxa (reorder asc rk t))
  /\ (forall S, is_usplit t S <-> is_usplit (reorder asc rk t) S)
  /\ total_length (reorder asc rk t) = total_length t
  /\ (forall a b, dist a b (reorder asc rk t) = dist a b t).
Proof. exact reorder_l. Qed.
Print Assumptions reorder_invariant.

(* randomly_rotate: any script of per-node shuffles (`rotate` = None iff the script is not one
   permutation per internal node) *)
Theorem randomly_rotate_invariant :
  forall sc t t', rotate sc t = Some t' -> NoDup (leaf_taxa t) ->
  Permutation (leaf_taxa t) (leaf_taxa t')
  /\ (forall S, is_usplit t S <-> is_usplit t' S)
  /\ total_length t' = total_length t
  /\ (forall a b, dist a b t' = dist a b t).
Proof. exact rotate_l. Qed.
Print Assumptions randomly_rotate_invariant.

(* randomly_reorient: any sampled node n, any shuffle script *)
Theorem randomly_reorient_invariant :
  forall t r n upd sc t' r',
  reorient t r n upd sc = Ok (t', r') ->
  NoDup (ids t) -> (2 <= length (t_kids t))%nat -> NoDup (leaf_taxa t) ->
  Permutation (leaf_taxa t) (leaf_taxa t')
  /\ (forall S, is_usplit t S <-> is_usplit t' S)
  /\ total_length t' = total_length t
  /\ (forall a b, dist a b t' = dist a b t).
Proof. exact reorient_l. Qed.
Print Assumptions randomly_reorient_invariant.

(* suppress_unifurcations: every tree, no hypothesis; the leaf list is unchanged as a list *)
Theorem suppress_unifurcations_invariant :
  forall t,
  leaf_taxa (suppress t) = leaf_taxa t
  /\ (forall S, is_usplit t S <-> is_usplit (suppress t) S)
  /\ total_length (suppress t) = total_length t
  /\ (forall a b, dist a b (suppress t) = dist a b t).
Proof. exact suppress_l. Qed.
Print Assumptions suppress_unifurcations_invariant.

Theorem collapse_basal_bifurcation_invariant :
  forall t t' did,
  collapse_basal t = (t', did) -> NoDup (leaf_taxa t) ->
  Permutation (leaf_taxa t) (leaf_taxa t')
  /\ (forall S, is_usplit t S <-> is_usplit t' S)
  /\ total_length t' = total_length t
  /\ (forall a b, dist a b t' = dist a b t).
Proof. exact collapse_basal_l. Qed.
Print Assumptions collapse_basal_bifurcation_invariant.

(* ============ 3. the hypotheses are needed: refutations on the faithful model ============ *)
(* without is_internal_node: reseed_at on a leaf (outside the documented domain, F19) loses the
   leaf's edge length *)
Theorem reseed_at_leaf_refuted :
  exists t r n upd coll supp t' r' X,
    reseed_at t r n upd coll supp = Ok (t', r') /\ find_node n t = Some X /\ t_kids X = []
    /\ (2 <= length (t_kids t))%nat /\ NoDup (leaf_taxa t)
    /\ total_length t' <> total_length t.
Proof. exact reseed_leaf_refuted. Qed.
Print Assumptions reseed_at_leaf_refuted.

(* without `2 <= number of children of the seed`: re-seeding ((A:1,B:1,C:1):1) at its inner node
   turns the old seed into a taxon-less leaf (the vertex had degree one before, too; the leaf LIST
   changes) *)
Theorem seed_unifurcation_refuted :
  exists t r n upd coll supp t' r',
    reseed_at t r n upd coll supp = Ok (t', r')
    /\ is_internal_node n t /\ NoDup (leaf_taxa t)
    /\ ~ Permutation (leaf_taxa t) (leaf_taxa t').
Proof. exact seed_unif_refuted. Qed.
Print Assumptions seed_unifurcation_refuted.

(* ============ 4. where the new root is ============ *)
(* reroot_at_midpoint with the pair (a, b): in the result (half units) both are at distance
   D = dist a b / 2 from the root; if (a, b) was a most distant pair of t it is one of t' *)
Theorem midpoint_equidistant :
  forall t r a b upd supp coll fresh t' r',
  reroot_at_midpoint t r (Some (a, b)) upd supp coll fresh = Ok (t', r') ->
  NoDup (ids t) -> NoDup (leaf_taxa t) -> (2 <= length (t_kids t))%nat -> ~ In fresh (ids t) -> a <> b ->
  exists D, dist a b t = Some D /\ dist a b t' = Some (2 * D)
            /\ down a t' = Some D /\ down b t' = Some D
            /\ ((forall x y d, dist x y t = Some d -> d <= D) ->
                forall x y d, dist x y t' = Some d -> d <= 2 * D).
Proof. exact midpoint_equidistant_l. Qed.
Print Assumptions midpoint_equidistant.

(* reroot_at_edge on the edge above H: the new root is the new node, with exactly two children:
   first the old head side, every leaf a of it at length2 + (its old distance below H);
   second the old tail side, every leaf b of it at length1 + (its old distance to the tail node
   of the edge = dist a b - (a below H) - |edge|) *)
Theorem reroot_at_edge_position :
  forall t r h l1 l2 upd supp fresh t' r' H,
  reroot_at_edge t r h l1 l2 upd supp fresh = Ok (t', r') ->
  find_node h t = Some H -> ~ In fresh (ids t) -> (2 <= length (t_kids t))%nat -> NoDup (leaf_taxa t) ->
  len0 l1 + len0 l2 = len0 (t_len H) ->
  t_id t' = fresh /\ exists c1 c2, t_kids t' = [c1; c2]
    /\ leaf_taxa c1 = leaf_taxa H
    /\ (forall a, downT a c1 = oadd (len0 l2) (down a H))
    /\ (forall a b da D, down a H = Some da -> ~ In b (leaf_taxa H) -> dist a b t = Some D ->
          downT b c2 = Some (len0 l1 + (D - da - len0 (t_len H)))).
Proof. exact edge_position_l. Qed.
Print Assumptions reroot_at_edge_position.

(* to_outgroup_position: the outgroup node is the first child of the root (any tree) *)
Theorem outgroup_first_child :
  forall t r og upd supp t' r',
  to_outgroup t r og upd supp = Ok (t', r') ->
  exists k rest, t_kids t' = k :: rest /\ t_id k = og.
Proof. exact outgroup_first_l. Qed.
Print Assumptions outgroup_first_child.

(* ============ 5. the rooting flag ============ *)
(* soft operations (reseed_at, to_outgroup_position, ladderize, reorder, randomly_rotate,
   randomly_reorient, suppress_unifurcations) leave is_rooted as it was, EXCEPT that an undefined
   rooting None may become Some false (F20: collapse_basal_bifurcation(set_as_unrooted_tree=True)
   reached from reseed_at); any tree, any arguments *)
Theorem soft_keeps_flag :
  forall t r o t' r',
  op_soft o = true -> run_op t r o = Ok (t', r') -> r' = r \/ (r = None /\ r' = Some false).
Proof. exact Proofs.C07Ops.soft_flag. Qed.
Print Assumptions soft_keeps_flag.

(* the strict version is false; finding key soft-op-none-rooting-becomes-false *)
Theorem soft_keeps_flag_strict_refuted :
  exists t o t', op_soft o = true /\ run_op t None o = Ok (t', Some false).
Proof. exact soft_strict_refuted. Qed.
Print Assumptions soft_keeps_flag_strict_refuted.

(* hard operations (reroot_at_node, reroot_at_edge, reroot_at_midpoint) set is_rooted = True *)
Theorem hard_sets_rooted :
  forall t r o t' r',
  op_hard o = true -> run_op t r o = Ok (t', r') -> r' = Some true.
Proof. exact Proofs.C07Ops.hard_flag. Qed.
Print Assumptions hard_sets_rooted.

(* ============ 6. non-vacuity: concrete non-trivial calls satisfy the hypotheses ============ *)
(* ex_t = ((A:1,B:1):1,(C:1,D:1):1), node ids 0..6 in preorder, taxa 0..3 *)
Theorem nonvacuous_reseed_at :
  exists t' r', reseed_at ex_t None 1 true true true = Ok (t', r') /\ t' <> ex_t
    /\ is_internal_node 1 ex_t /\ (2 <= length (t_kids ex_t))%nat /\ NoDup (leaf_taxa ex_t).
Proof. exact ex_reseed. Qed.
Print Assumptions nonvacuous_reseed_at.

(* ex_mixed = ((A:1,B:1),(C:1,D:1):2): one edge below the seed has no length; reseed_at collapses
   the basal bifurcation (undefined rooting) and the tree length stays 6 (it dropped to 4 before
   fix 1fc3f136) *)
Theorem nonvacuous_reseed_at_mixed_lengths :
  exists t' r', reseed_at ex_mixed None 0 false true true = Ok (t', r') /\ t' <> ex_mixed
    /\ is_internal_node 0 ex_mixed /\ (2 <= length (t_kids ex_mixed))%nat /\ NoDup (leaf_taxa ex_mixed)
    /\ total_length t' = 6144 /\ total_length ex_mixed = 6144.
Proof. exact ex_reseed_mixed. Qed.
Print Assumptions nonvacuous_reseed_at_mixed_lengths.

Theorem nonvacuous_reroot_at_edge :
  exists t' r' H, reroot_at_edge ex_t (Some false) 1 (Some 256) (Some 768) true true 100 = Ok (t', r')
    /\ find_node 1 ex_t = Some H /\ len0 (Some 256) + len0 (Some 768) = len0 (t_len H)
    /\ ~ In 100 (ids ex_t) /\ (2 <= length (t_kids ex_t))%nat /\ NoDup (leaf_taxa ex_t).
Proof. exact ex_reroot_edge. Qed.
Print Assumptions nonvacuous_reroot_at_edge.

(* the midpoint of the longest path A..C of ex_t falls exactly on the seed node *)
Theorem nonvacuous_midpoint :
  exists t' r', reroot_at_midpoint ex_t None (Some (Some 0, Some 2)) true true true 100 = Ok (t', r')
    /\ NoDup (ids ex_t) /\ NoDup (leaf_taxa ex_t) /\ (2 <= length (t_kids ex_t))%nat
    /\ ~ In 100 (ids ex_t) /\ Some 0 <> Some 2
    /\ (forall x y d, dist x y ex_t = Some d -> d <= 4096) /\ dist (Some 0) (Some 2) ex_t = Some 4096.
Proof. exact ex_midpoint. Qed.
Print Assumptions nonvacuous_midpoint.

Theorem nonvacuous_to_outgroup :
  exists t' r', to_outgroup ex_t None 5 true true = Ok (t', r') /\ t' <> ex_t
    /\ NoDup (ids ex_t) /\ (2 <= length (t_kids ex_t))%nat /\ NoDup (leaf_taxa ex_t).
Proof. exact ex_outgroup. Qed.
Print Assumptions nonvacuous_to_outgroup.

Theorem nonvacuous_reorient :
  exists t' r', reorient ex_t None (Some 4) false [(4, [0%nat; 2%nat; 1%nat]); (0, [1%nat; 0%nat]); (1, [1%nat; 0%nat])] = Ok (t', r')
    /\ t' <> ex_t /\ NoDup (ids ex_t) /\ (2 <= length (t_kids ex_t))%nat /\ NoDup (leaf_taxa ex_t).
Proof. exact ex_reorient. Qed.
Print Assumptions nonvacuous_reorient.

Theorem nonvacuous_rotate :
  exists t', rotate [(0, [1%nat; 0%nat]); (1, [1%nat; 0%nat]); (4, [0%nat; 1%nat])] ex_t = Some t' /\ t' <> ex_t.
Proof. exact ex_rotate. Qed.
Print Assumptions nonvacuous_rotate.
