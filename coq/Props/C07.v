(* C07 - re-rooting and re-orienting never change the underlying unrooted tree.
   Statements only, each closed by `exact`.  All statements are about the specification-level
   model Model/C07Model.v (pure functions on the id-carrying rose trees of Model/Tree.v that
   reproduce the library's result tree exactly; tied to _tree.py by the correspondence run of
   py/dv/c07.py).  The quantities (Model/C07Spec.v, executable, independent of the operations):
     leaf_taxa t        leaf taxa, left to right
     is_usplit t S      S is a side of the unrooted bipartition of the leaf set induced by an edge
                        of t:  exists C, In C (clades t) /\ (seteq S C \/ is_compl (leaf_taxa t) C S)
                        where clades t = the leaf-taxon list below every node of t
     total_length t     sum of all edge lengths (None counts 0; = Tree.length())
     dist a b t         path length between the leaves with taxa a and b (None counts 0)
     down a t / downT   path length from the root of t down to leaf a (without / with t's own edge)
   Hypotheses that are forced by the code and kept visible:
     is_internal_node n t    reseed_at / reroot_at_node are documented for internal nodes (F19)
     2 <= |children of seed| a seed with one child becomes a taxon-less LEAF when the tree is re-seeded
     NoDup (leaf_taxa t)     leaf taxa pairwise distinct;   NoDup (ids t)  node identities distinct
   No hypothesis on the lengths: any mixture of None / defined lengths (since fix 1fc3f136
   collapse_basal_bifurcation keeps the removed basal edge's length when the kept one has none; the
   former finding mixed-none-lengths-lose-length and its `uniform_lengths` hypothesis are gone;
   Node.remove_child(suppress_unifurcations=True) still has the bare try/except but is not reached
   from any operation of this property). *)
From Coq Require Import ZArith List Bool Permutation.
From DV Require Import Model.PyPrims Model.Tree Model.C07Model Model.C07Spec Proofs.C07Thms.
From DV Require Model.Heap Model.HeapOps Model.C03Spec Proofs.C03Base Proofs.C03Reseed.
From DV Require Proofs.C07Link Proofs.C07LinkOps Proofs.C07LinkEdge Proofs.C07LinkOrder Proofs.C07LinkEx
     Proofs.C07Seed Proofs.C07LinkMid Proofs.C07LinkRot Proofs.C07LinkGen Proofs.C07LinkGen2 Proofs.C07LinkEx2 Proofs.C07LinkOutgroup.
From DV Require Gen.Mutators Model.C03GenInst Proofs.C03GenOrder.
Import ListNotations.
Open Scope Z_scope.

(* Sections 1-6: the specification-level model.  Section 7: unifurcating seed, tie-break of
   reroot_at_midpoint.  Section 8: end to end with the statement-level heap model of C03.
   Section 9: the programs generated from the source (Gen/Mutators.v) preserve the unrooted tree. *)

(* ============ 1. the core: inverting ONE edge (Edge.invert at the seed) ============ *)
(* seed (i) with children A ++ k :: B; k = (i') with children ks'.  After the inversion k is the
   seed, keeps its children in order, gets the old seed as LAST child; the old seed carries k's
   old edge length e', k carries the old seed's e. *)
Theorem rotate_one_edge_invariant :
  forall i x l e A i' x' l' e' ks' B,
  ks' <> [] -> A ++ B <> [] ->
  NoDup (leaf_taxa (T i x l e (A ++ T i' x' l' e' ks' :: B))) ->
  let t := T i x l e (A ++ T i' x' l' e' ks' :: B) in
  let t' := T i' x' l' e (ks' ++ [T i x l e' (A ++ B)]) in
  Permutation (leaf_taxa t) (leaf_taxa t')
  /\ (forall S, is_usplit t S <-> is_usplit t' S)
  /\ total_length t' = total_length t
  /\ (forall a b, dist a b t' = dist a b t).
Proof. exact rotate_one_edge_l. Qed.
Print Assumptions rotate_one_edge_invariant.

(* ============ 2. the operations preserve the unrooted tree ============ *)
(* reseed_at, every setting of update_bipartitions / collapse_unrooted_basal_bifurcation /
   suppress_unifurcations, every rooting state *)
Theorem reseed_at_invariant :
  forall t r n upd coll supp t' r',
  reseed_at t r n upd coll supp = Ok (t', r') ->
  is_internal_node n t -> (2 <= length (t_kids t))%nat -> NoDup (leaf_taxa t) ->
  Permutation (leaf_taxa t) (leaf_taxa t')
  /\ (forall S, is_usplit t S <-> is_usplit t' S)
  /\ total_length t' = total_length t
  /\ (forall a b, dist a b t' = dist a b t).
Proof. exact reseed_at_l. Qed.
Print Assumptions reseed_at_invariant.

Theorem reroot_at_node_invariant :
  forall t r n upd supp coll t' r',
  reroot_at_node t r n upd supp coll = Ok (t', r') ->
  is_internal_node n t -> (2 <= length (t_kids t))%nat -> NoDup (leaf_taxa t) ->
  Permutation (leaf_taxa t) (leaf_taxa t')
  /\ (forall S, is_usplit t S <-> is_usplit t' S)
  /\ total_length t' = total_length t
  /\ (forall a b, dist a b t' = dist a b t).
Proof. exact reroot_at_node_l. Qed.
Print Assumptions reroot_at_node_invariant.

(* reroot_at_edge assigns length1 / length2 whatever the edge's length was: the tree length is
   preserved exactly when they add up to it (None counting 0) *)
Theorem reroot_at_edge_invariant :
  forall t r h l1 l2 upd supp fresh t' r',
  reroot_at_edge t r h l1 l2 upd supp fresh = Ok (t', r') ->
  (forall H, find_node h t = Some H -> len0 l1 + len0 l2 = len0 (t_len H)) ->
  ~ In fresh (ids t) -> (2 <= length (t_kids t))%nat -> NoDup (leaf_taxa t) ->
  Permutation (leaf_taxa t) (leaf_taxa t')
  /\ (forall S, is_usplit t S <-> is_usplit t' S)
  /\ total_length t' = total_length t
  /\ (forall a b, dist a b t' = dist a b t).
Proof. exact reroot_at_edge_l. Qed.
Print Assumptions reroot_at_edge_invariant.

(* reroot_at_midpoint, (a, b) = the pair max_pairwise_distance_taxa returned (any pair of distinct
   leaf taxa).  The model's result t' is in HALF units (the midpoint may halve an odd length) *)
Theorem reroot_at_midpoint_invariant :
  forall t r a b upd supp coll fresh t' r',
  reroot_at_midpoint t r (Some (a, b)) upd supp coll fresh = Ok (t', r') ->
  NoDup (ids t) -> NoDup (leaf_taxa t) -> (2 <= length (t_kids t))%nat -> ~ In fresh (ids t) -> a <> b ->
  Permutation (leaf_taxa t) (leaf_taxa t')
  /\ (forall S, is_usplit t S <-> is_usplit t' S)
  /\ total_length t' = 2 * total_length t
  /\ (forall x y, dist x y t' = option_map (Z.mul 2) (dist x y t)).
Proof. exact reroot_at_midpoint_l. Qed.
Print Assumptions reroot_at_midpoint_invariant.

Theorem to_outgroup_position_invariant :
  forall t r og upd supp t' r',
  to_outgroup t r og upd supp = Ok (t', r') ->
  NoDup (ids t) -> (2 <= length (t_kids t))%nat -> NoDup (leaf_taxa t) ->
  Permutation (leaf_taxa t) (leaf_taxa t')
  /\ (forall S, is_usplit t S <-> is_usplit t' S)
  /\ total_length t' = total_length t
  /\ (forall a b, dist a b t' = dist a b t).
Proof. exact to_outgroup_l. Qed.
Print Assumptions to_outgroup_position_invariant.

Theorem ladderize_invariant :
  forall asc t, NoDup (leaf_taxa t) ->
  Permutation (leaf_taxa t) (leaf_taxa (ladderize asc t))
  /\ (forall S, is_usplit t S <-> is_usplit (ladderize asc t) S)
  /\ total_length (ladderize asc t) = total_length t
  /\ (forall a b, dist a b (ladderize asc t) = dist a b t).
Proof. exact ladderize_l. Qed.
Print Assumptions ladderize_invariant.

(* reorder: any ranking of the taxon labels *)
Theorem reorder_invariant :
  forall asc rk t, NoDup (leaf_taxa t) ->
  Permutation (leaf_taxa t) (leaf_taxa (reorder asc rk t))
  /\ (forall S, is_usplit t S <-> is_usplit (reorder asc rk t) S)
  /\ total_length (reorder asc rk t) = total_length t
  /\ (forall a b, dist a b (reorder asc rk t) = dist a b t).
Proof. exact reorder_l. Qed.
Print Assumptions reorder_invariant.

(* randomly_rotate: any script of per-node shuffles (`rotate` = None iff the script is not one
   permutation per internal node) *)
Theorem randomly_rotate_invariant :
  forall sc t t', rotate sc t = Some t' -> NoDup (leaf_taxa t) ->
  Permutation (leaf_taxa t) (leaf_taxa t')
  /\ (forall S, is_usplit t S <-> is_usplit t' S)
  /\ total_length t' = total_length t
  /\ (forall a b, dist a b t' = dist a b t).
Proof. exact rotate_l. Qed.
Print Assumptions randomly_rotate_invariant.

(* randomly_reorient: any sampled node n, any shuffle script *)
Theorem randomly_reorient_invariant :
  forall t r n upd sc t' r',
  reorient t r n upd sc = Ok (t', r') ->
  NoDup (ids t) -> (2 <= length (t_kids t))%nat -> NoDup (leaf_taxa t) ->
  Permutation (leaf_taxa t) (leaf_taxa t')
  /\ (forall S, is_usplit t S <-> is_usplit t' S)
  /\ total_length t' = total_length t
  /\ (forall a b, dist a b t' = dist a b t).
Proof. exact reorient_l. Qed.
Print Assumptions randomly_reorient_invariant.

(* suppress_unifurcations: every tree, no hypothesis; the leaf list is unchanged as a list *)
Theorem suppress_unifurcations_invariant :
  forall t,
  leaf_taxa (suppress t) = leaf_taxa t
  /\ (forall S, is_usplit t S <-> is_usplit (suppress t) S)
  /\ total_length (suppress t) = total_length t
  /\ (forall a b, dist a b (suppress t) = dist a b t).
Proof. exact suppress_l. Qed.
Print Assumptions suppress_unifurcations_invariant.

Theorem collapse_basal_bifurcation_invariant :
  forall t t' did,
  collapse_basal t = (t', did) -> NoDup (leaf_taxa t) ->
  Permutation (leaf_taxa t) (leaf_taxa t')
  /\ (forall S, is_usplit t S <-> is_usplit t' S)
  /\ total_length t' = total_length t
  /\ (forall a b, dist a b t' = dist a b t).
Proof. exact collapse_basal_l. Qed.
Print Assumptions collapse_basal_bifurcation_invariant.

(* ============ 3. the hypotheses are needed: refutations on the faithful model ============ *)
(* without is_internal_node: reseed_at on a leaf (outside the documented domain, F19) loses the
   leaf's edge length *)
Theorem reseed_at_leaf_refuted :
  exists t r n upd coll supp t' r' X,
    reseed_at t r n upd coll supp = Ok (t', r') /\ find_node n t = Some X /\ t_kids X = []
    /\ (2 <= length (t_kids t))%nat /\ NoDup (leaf_taxa t)
    /\ total_length t' <> total_length t.
Proof. exact reseed_leaf_refuted. Qed.
Print Assumptions reseed_at_leaf_refuted.

(* without `2 <= number of children of the seed`: re-seeding ((A:1,B:1,C:1):1) at its inner node
   turns the old seed into a taxon-less leaf (the vertex had degree one before, too; the leaf LIST
   changes) *)
Theorem seed_unifurcation_refuted :
  exists t r n upd coll supp t' r',
    reseed_at t r n upd coll supp = Ok (t', r')
    /\ is_internal_node n t /\ NoDup (leaf_taxa t)
    /\ ~ Permutation (leaf_taxa t) (leaf_taxa t').
Proof. exact seed_unif_refuted. Qed.
Print Assumptions seed_unifurcation_refuted.

(* ============ 4. where the new root is ============ *)
(* reroot_at_midpoint with the pair (a, b): in the result (half units) both are at distance
   D = dist a b / 2 from the root; if (a, b) was a most distant pair of t it is one of t' *)
Theorem midpoint_equidistant :
  forall t r a b upd supp coll fresh t' r',
  reroot_at_midpoint t r (Some (a, b)) upd supp coll fresh = Ok (t', r') ->
  NoDup (ids t) -> NoDup (leaf_taxa t) -> (2 <= length (t_kids t))%nat -> ~ In fresh (ids t) -> a <> b ->
  exists D, dist a b t = Some D /\ dist a b t' = Some (2 * D)
            /\ down a t' = Some D /\ down b t' = Some D
            /\ ((forall x y d, dist x y t = Some d -> d <= D) ->
                forall x y d, dist x y t' = Some d -> d <= 2 * D).
Proof. exact midpoint_equidistant_l. Qed.
Print Assumptions midpoint_equidistant.

(* reroot_at_edge on the edge above H: the new root is the new node, with exactly two children:
   first the old head side, every leaf a of it at length2 + (its old distance below H);
   second the old tail side, every leaf b of it at length1 + (its old distance to the tail node
   of the edge = dist a b - (a below H) - |edge|) *)
Theorem reroot_at_edge_position :
  forall t r h l1 l2 upd supp fresh t' r' H,
  reroot_at_edge t r h l1 l2 upd supp fresh = Ok (t', r') ->
  find_node h t = Some H -> ~ In fresh (ids t) -> (2 <= length (t_kids t))%nat -> NoDup (leaf_taxa t) ->
  len0 l1 + len0 l2 = len0 (t_len H) ->
  t_id t' = fresh /\ exists c1 c2, t_kids t' = [c1; c2]
    /\ leaf_taxa c1 = leaf_taxa H
    /\ (forall a, downT a c1 = oadd (len0 l2) (down a H))
    /\ (forall a b da D, down a H = Some da -> ~ In b (leaf_taxa H) -> dist a b t = Some D ->
          downT b c2 = Some (len0 l1 + (D - da - len0 (t_len H)))).
Proof. exact edge_position_l. Qed.
Print Assumptions reroot_at_edge_position.

(* to_outgroup_position: the outgroup node is the first child of the root (any tree) - without unifurcation
   suppression; with it (the current source, repair 1c81f78b, suppresses AFTER the outgroup is in place) an
   outgroup that is itself a unifurcation is merged into its child, which is then the first child: next theorem *)
Theorem outgroup_first_child :
  forall t r og upd t' r',
  to_outgroup t r og upd false = Ok (t', r') ->
  exists k rest, t_kids t' = k :: rest /\ t_id k = og.
Proof. exact outgroup_first_l. Qed.
Print Assumptions outgroup_first_child.

(* (((A:1)og:2,B:2)p:3,C:1) with suppression: og is merged into A (length 1+2), A is the first child *)
Theorem outgroup_first_child_suppressed_example :
  to_outgroup (T 0 None None None [T 1 None None (Some 3) [T 2 None None (Some 2) [T 3 (Some 10) None (Some 1) []];
                                                           T 4 (Some 11) None (Some 2) []];
                                   T 5 (Some 12) None (Some 1) []]) None 2 false true
  = Ok (T 1 None None None [T 3 (Some 10) None (Some 3) []; T 4 (Some 11) None (Some 2) []; T 5 (Some 12) None (Some 4) []], None).
Proof. exact Proofs.C07LinkOutgroup.outgroup_suppressed_example. Qed.
Print Assumptions outgroup_first_child_suppressed_example.

(* ============ 5. the rooting flag ============ *)
(* soft operations (reseed_at, to_outgroup_position, ladderize, reorder, randomly_rotate,
   randomly_reorient, suppress_unifurcations) leave is_rooted as it was, EXCEPT that an undefined
   rooting None may become Some false (F20: collapse_basal_bifurcation(set_as_unrooted_tree=True)
   reached from reseed_at); any tree, any arguments *)
Theorem soft_keeps_flag :
  forall t r o t' r',
  op_soft o = true -> run_op t r o = Ok (t', r') -> r' = r \/ (r = None /\ r' = Some false).
Proof. exact Proofs.C07Ops.soft_flag. Qed.
Print Assumptions soft_keeps_flag.

(* the strict version is false; finding key soft-op-none-rooting-becomes-false *)
Theorem soft_keeps_flag_strict_refuted :
  exists t o t', op_soft o = true /\ run_op t None o = Ok (t', Some false).
Proof. exact soft_strict_refuted. Qed.
Print Assumptions soft_keeps_flag_strict_refuted.

(* hard operations (reroot_at_node, reroot_at_edge, reroot_at_midpoint) set is_rooted = True *)
Theorem hard_sets_rooted :
  forall t r o t' r',
  op_hard o = true -> run_op t r o = Ok (t', r') -> r' = Some true.
Proof. exact Proofs.C07Ops.hard_flag. Qed.
Print Assumptions hard_sets_rooted.

(* ============ 6. non-vacuity: concrete non-trivial calls satisfy the hypotheses ============ *)
(* ex_t = ((A:1,B:1):1,(C:1,D:1):1), node ids 0..6 in preorder, taxa 0..3 *)
Theorem nonvacuous_reseed_at :
  exists t' r', reseed_at ex_t None 1 true true true = Ok (t', r') /\ t' <> ex_t
    /\ is_internal_node 1 ex_t /\ (2 <= length (t_kids ex_t))%nat /\ NoDup (leaf_taxa ex_t).
Proof. exact ex_reseed. Qed.
Print Assumptions nonvacuous_reseed_at.

(* ex_mixed = ((A:1,B:1),(C:1,D:1):2): one edge below the seed has no length; reseed_at collapses
   the basal bifurcation (undefined rooting) and the tree length stays 6 (it dropped to 4 before
   fix 1fc3f136) *)
Theorem nonvacuous_reseed_at_mixed_lengths :
  exists t' r', reseed_at ex_mixed None 0 false true true = Ok (t', r') /\ t' <> ex_mixed
    /\ is_internal_node 0 ex_mixed /\ (2 <= length (t_kids ex_mixed))%nat /\ NoDup (leaf_taxa ex_mixed)
    /\ total_length t' = 6144 /\ total_length ex_mixed = 6144.
Proof. exact ex_reseed_mixed. Qed.
Print Assumptions nonvacuous_reseed_at_mixed_lengths.

Theorem nonvacuous_reroot_at_edge :
  exists t' r' H, reroot_at_edge ex_t (Some false) 1 (Some 256) (Some 768) true true 100 = Ok (t', r')
    /\ find_node 1 ex_t = Some H /\ len0 (Some 256) + len0 (Some 768) = len0 (t_len H)
    /\ ~ In 100 (ids ex_t) /\ (2 <= length (t_kids ex_t))%nat /\ NoDup (leaf_taxa ex_t).
Proof. exact ex_reroot_edge. Qed.
Print Assumptions nonvacuous_reroot_at_edge.

(* the midpoint of the longest path A..C of ex_t falls exactly on the seed node *)
Theorem nonvacuous_midpoint :
  exists t' r', reroot_at_midpoint ex_t None (Some (Some 0, Some 2)) true true true 100 = Ok (t', r')
    /\ NoDup (ids ex_t) /\ NoDup (leaf_taxa ex_t) /\ (2 <= length (t_kids ex_t))%nat
    /\ ~ In 100 (ids ex_t) /\ Some 0 <> Some 2
    /\ (forall x y d, dist x y ex_t = Some d -> d <= 4096) /\ dist (Some 0) (Some 2) ex_t = Some 4096.
Proof. exact ex_midpoint. Qed.
Print Assumptions nonvacuous_midpoint.

Theorem nonvacuous_to_outgroup :
  exists t' r', to_outgroup ex_t None 5 true true = Ok (t', r') /\ t' <> ex_t
    /\ NoDup (ids ex_t) /\ (2 <= length (t_kids ex_t))%nat /\ NoDup (leaf_taxa ex_t).
Proof. exact ex_outgroup. Qed.
Print Assumptions nonvacuous_to_outgroup.

Theorem nonvacuous_reorient :
  exists t' r', reorient ex_t None (Some 4) false [(4, [0%nat; 2%nat; 1%nat]); (0, [1%nat; 0%nat]); (1, [1%nat; 0%nat])] = Ok (t', r')
    /\ t' <> ex_t /\ NoDup (ids ex_t) /\ (2 <= length (t_kids ex_t))%nat /\ NoDup (leaf_taxa ex_t).
Proof. exact ex_reorient. Qed.
Print Assumptions nonvacuous_reorient.

Theorem nonvacuous_rotate :
  exists t', rotate [(0, [1%nat; 0%nat]); (1, [1%nat; 0%nat]); (4, [0%nat; 1%nat])] ex_t = Some t' /\ t' <> ex_t.
Proof. exact ex_rotate. Qed.
Print Assumptions nonvacuous_rotate.

(* ============ 7. a seed with a single child; re-seeding at the seed; midpoint tie-break ============ *)
(* The hypothesis `2 <= number of children of the seed` above is there because re-seeding turns a
   unifurcating seed into a leaf.  That behaviour, characterised: re-seeding T i x l e [k] at a node
   n below the seed is literally re-seeding `seed_as_leaf i x l e k` = k with the old seed hanging
   below it as a LEAF (taxon x, length = k's edge length) ... *)
Theorem reseed_at_unifurcating_seed_is_seed_as_leaf :
  forall i x l e k r n upd coll supp,
  i <> n -> t_kids k <> [] ->
  reseed_at (T i x l e [k]) r n upd coll supp =
  reseed_at (match k with T i' x' l' e' ks' => T i' x' l' e (ks' ++ [T i x l e' []]) end) r n upd coll supp.
Proof. exact Proofs.C07Seed.reseed_at_unif_seed. Qed.
Print Assumptions reseed_at_unifurcating_seed_is_seed_as_leaf.

(* ... hence: the leaves are the old ones plus the old seed (taxon x), the total length is unchanged,
   the distances between old leaves are unchanged, the old seed is as far from every leaf a as it
   was as the root (k's edge included), and the unrooted splits are those of seed_as_leaf *)
Theorem reseed_at_unifurcating_seed :
  forall i x l e k r n upd coll supp t' r',
  reseed_at (T i x l e [k]) r n upd coll supp = Ok (t', r') ->
  i <> n -> is_internal_node n (T i x l e [k]) -> NoDup (leaf_taxa k ++ [x]) ->
  Permutation (leaf_taxa k ++ [x]) (leaf_taxa t')
  /\ total_length t' = total_length (T i x l e [k])
  /\ (forall a b, In a (leaf_taxa k) -> In b (leaf_taxa k) -> dist a b t' = dist a b (T i x l e [k]))
  /\ (forall a, In a (leaf_taxa k) -> dist a x t' = downT a k)
  /\ (forall S, is_usplit (match k with T i' x' l' e' ks' => T i' x' l' e (ks' ++ [T i x l e' []]) end) S
                <-> is_usplit t' S).
Proof. exact Proofs.C07Seed.reseed_at_unifurcating_seed_l. Qed.
Print Assumptions reseed_at_unifurcating_seed.

(* re-seeding at the seed itself (only the clean-up passes run): any number of children *)
Theorem reseed_at_seed_itself_invariant :
  forall t r upd coll supp t' r',
  reseed_at t r (t_id t) upd coll supp = Ok (t', r') -> NoDup (leaf_taxa t) ->
  Permutation (leaf_taxa t) (leaf_taxa t')
  /\ (forall S, is_usplit t S <-> is_usplit t' S)
  /\ total_length t' = total_length t
  /\ (forall a b, dist a b t' = dist a b t).
Proof. exact Proofs.C07Seed.reseed_at_seed_itself_l. Qed.
Print Assumptions reseed_at_seed_itself_invariant.

(* Which pair does reroot_at_midpoint use?  max_pairwise_distance_taxa keeps the FIRST pair with a
   strictly greater distance while iterating `_all_distinct_mapped_taxa_pairs`, a set of frozensets
   of Taxon objects hashed by id(): with ties the pick changes from run to run (observed on ex_t:
   (B,D), (A,D), ...), which is why the pair is an input of the model.  All theorems above hold for
   whichever pair is picked; on ex_t (four tied pairs, either order) the result is even the same
   tree: the root stays at the seed, where the midpoint of every longest path lies. *)
Theorem midpoint_tie_break_example :
  forall pr, In pr [(Some 0, Some 2); (Some 0, Some 3); (Some 1, Some 2); (Some 1, Some 3);
                    (Some 2, Some 0); (Some 3, Some 0); (Some 2, Some 1); (Some 3, Some 1)] ->
  reroot_at_midpoint ex_t None (Some pr) false true true 100 = Ok (dbl ex_t, Some true).
Proof. exact Proofs.C07Seed.midpoint_tie_example. Qed.
Print Assumptions midpoint_tie_break_example.

(* ============ 8. end to end: the STATEMENT-LEVEL heap model ============ *)
(* Model/Heap.v + Model/HeapOps.v (C03's transcription of the pointer manipulation: parent pointers,
   child lists, Edge.invert / Edge.collapse / add_child / remove_child / insert_child statement by
   statement) with C03's invariant C03Base.WF and abstraction Heap.abs : heap -> option tree.
   8a: C03's rose-tree specifications are the same functions as the C07 model functions. *)
Theorem c03_spec_su_is_suppress : forall t, C03Spec.spec_su t = suppress t.
Proof. exact Proofs.C07Link.spec_su_eq. Qed.
Print Assumptions c03_spec_su_is_suppress.

Theorem c03_spec_collapse_basal_is_collapse_basal :
  forall t, C03Spec.spec_collapse_basal t = fst (collapse_basal t).
Proof. exact Proofs.C07Link.spec_collapse_basal_eq. Qed.
Print Assumptions c03_spec_collapse_basal_is_collapse_basal.

Theorem c03_spec_encode_is_post_reseed :
  forall su cb r t, C03Spec.spec_encode su cb (not_rooted r) t = fst (post_reseed t r cb su).
Proof. exact Proofs.C07Link.spec_encode_eq. Qed.
Print Assumptions c03_spec_encode_is_post_reseed.

Theorem c03_spec_reseed_is_rot : forall n t, C03Spec.spec_reseed n t = rot (t_len t) n t [].
Proof. exact Proofs.C07Link.spec_reseed_eq. Qed.
Print Assumptions c03_spec_reseed_is_rot.

(* ... and in the one-hole-context form the heap proofs use *)
Theorem c03_reroot_is_rot :
  forall c s, NoDup (ids (C03Base.plug c s)) ->
  rot (t_len (C03Base.plug c s)) (t_id s) (C03Base.plug c s) [] = Some (C03Reseed.reroot c s).
Proof. exact Proofs.C07Link.rot_plug. Qed.
Print Assumptions c03_reroot_is_rot.

(* 8b: for every well-formed heap h whose abstraction is t, the HEAP program completes, leaves a
   well-formed heap whose abstraction t' is exactly what the C07 model function computes from t,
   and t' is the same unrooted tree as t. *)
Theorem heap_reseed_at_preserves :
  forall ub cb su h t n,
  C03Base.WF h -> Heap.abs h = Some t ->
  is_internal_node n t -> (2 <= length (t_kids t))%nat -> NoDup (leaf_taxa t) ->
  exists h' t' r', HeapOps.reseed_at n ub cb su h = Heap.HOk h' /\ C03Base.WF h' /\ Heap.abs h' = Some t'
    /\ reseed_at t (Heap.rooted h) n ub cb su = Ok (t', r')
    /\ Permutation (leaf_taxa t) (leaf_taxa t')
    /\ (forall S, is_usplit t S <-> is_usplit t' S)
    /\ total_length t' = total_length t
    /\ (forall a b, dist a b t' = dist a b t).
Proof. exact Proofs.C07LinkOps.heap_reseed_at_l. Qed.
Print Assumptions heap_reseed_at_preserves.

Theorem heap_reroot_at_node_preserves :
  forall ub su cb h t n,
  C03Base.WF h -> Heap.abs h = Some t ->
  is_internal_node n t -> (2 <= length (t_kids t))%nat -> NoDup (leaf_taxa t) ->
  exists h' t', HeapOps.reroot_at_node n ub su cb h = Heap.HOk h' /\ C03Base.WF h' /\ Heap.abs h' = Some t'
    /\ Heap.rooted h' = Some true
    /\ reroot_at_node t (Heap.rooted h) n ub su cb = Ok (t', Some true)
    /\ Permutation (leaf_taxa t) (leaf_taxa t')
    /\ (forall S, is_usplit t S <-> is_usplit t' S)
    /\ total_length t' = total_length t
    /\ (forall a b, dist a b t' = dist a b t).
Proof. exact Proofs.C07LinkOps.heap_reroot_at_node_l. Qed.
Print Assumptions heap_reroot_at_node_preserves.

(* the new node is the one the next Node() call allocates: Heap.next h *)
Theorem heap_reroot_at_edge_preserves :
  forall l1 l2 ub su h t ci H,
  C03Base.WF h -> Heap.abs h = Some t -> find_node ci t = Some H -> ci <> t_id t ->
  len0 l1 + len0 l2 = len0 (t_len H) ->
  (2 <= length (t_kids t))%nat -> NoDup (leaf_taxa t) ->
  exists h' t', HeapOps.reroot_at_edge ci l1 l2 ub su h = Heap.HOk h' /\ C03Base.WF h' /\ Heap.abs h' = Some t'
    /\ Heap.rooted h' = Some true
    /\ reroot_at_edge t (Heap.rooted h) ci l1 l2 ub su (Heap.next h) = Ok (t', Some true)
    /\ Permutation (leaf_taxa t) (leaf_taxa t')
    /\ (forall S, is_usplit t S <-> is_usplit t' S)
    /\ total_length t' = total_length t
    /\ (forall a b, dist a b t' = dist a b t).
Proof. exact Proofs.C07LinkEdge.heap_reroot_at_edge_l. Qed.
Print Assumptions heap_reroot_at_edge_preserves.

(* to_outgroup_position in its form BEFORE repair 1c81f78b, suppress_unifurcations=False (with True that
   form could leave an ill-formed structure, see C03) - with the model's result and the first-child clause *)
Theorem heap_to_outgroup_position_preserves :
  forall ub h t og,
  C03Base.WF h -> Heap.abs h = Some t -> In og (ids t) -> og <> t_id t ->
  (2 <= length (t_kids t))%nat -> NoDup (leaf_taxa t) ->
  exists h' t', HeapOps.to_outgroup_position og ub false h = Heap.HOk h' /\ C03Base.WF h' /\ Heap.abs h' = Some t'
    /\ to_outgroup t (Heap.rooted h) og ub false = Ok (t', Heap.rooted h)
    /\ (exists k rest, t_kids t' = k :: rest /\ t_id k = og)
    /\ Permutation (leaf_taxa t) (leaf_taxa t')
    /\ (forall S, is_usplit t S <-> is_usplit t' S)
    /\ total_length t' = total_length t
    /\ (forall a b, dist a b t' = dist a b t).
Proof. exact Proofs.C07LinkEdge.heap_to_outgroup_l. Qed.
Print Assumptions heap_to_outgroup_position_preserves.

(* to_outgroup_position as it is NOW (repair 1c81f78b, HeapOps.to_outgroup_position_r: the outgroup goes to the
   front of its parent's child list, then reseed_at at that parent): every non-seed outgroup node, BOTH values
   of suppress_unifurcations - the former exclusion is gone *)
Theorem heap_to_outgroup_position_repaired_preserves :
  forall ub su h t og,
  C03Base.WF h -> Heap.abs h = Some t -> In og (ids t) -> og <> t_id t ->
  (2 <= length (t_kids t))%nat -> NoDup (leaf_taxa t) ->
  exists h' t', HeapOps.to_outgroup_position_r og ub su h = Heap.HOk h' /\ C03Base.WF h' /\ Heap.abs h' = Some t'
    /\ Permutation (leaf_taxa t) (leaf_taxa t')
    /\ (forall S, is_usplit t S <-> is_usplit t' S)
    /\ total_length t' = total_length t
    /\ (forall a b, dist a b t' = dist a b t).
Proof. exact Proofs.C07LinkOutgroup.heap_to_outgroup_r_l. Qed.
Print Assumptions heap_to_outgroup_position_repaired_preserves.

Theorem heap_suppress_unifurcations_preserves :
  forall h t,
  C03Base.WF h -> Heap.abs h = Some t ->
  exists h', HeapOps.suppress_unifurcations h = Heap.HOk h' /\ C03Base.WF h' /\ Heap.abs h' = Some (suppress t)
    /\ Heap.rooted h' = Heap.rooted h
    /\ leaf_taxa (suppress t) = leaf_taxa t
    /\ (forall S, is_usplit t S <-> is_usplit (suppress t) S)
    /\ total_length (suppress t) = total_length t
    /\ (forall a b, dist a b (suppress t) = dist a b t).
Proof. exact Proofs.C07LinkOps.heap_suppress_l. Qed.
Print Assumptions heap_suppress_unifurcations_preserves.

Theorem heap_collapse_basal_bifurcation_preserves :
  forall u h t,
  C03Base.WF h -> Heap.abs h = Some t -> NoDup (leaf_taxa t) ->
  exists h', HeapOps.collapse_basal_bifurcation u h = Heap.HOk h' /\ C03Base.WF h' /\
    Heap.abs h' = Some (fst (collapse_basal t))
    /\ Permutation (leaf_taxa t) (leaf_taxa (fst (collapse_basal t)))
    /\ (forall S, is_usplit t S <-> is_usplit (fst (collapse_basal t)) S)
    /\ total_length (fst (collapse_basal t)) = total_length t
    /\ (forall a b, dist a b (fst (collapse_basal t)) = dist a b t).
Proof. exact Proofs.C07LinkOps.heap_collapse_basal_l. Qed.
Print Assumptions heap_collapse_basal_bifurcation_preserves.

(* ladderize / reorder: C03 has no rose-tree specification for them (only: same node set, same
   leaf multiset).  Here the heap fold is shown to yield the same tree up to the order of children
   at every node, hence the same unrooted tree; equality with the model function `ladderize` (same
   ORDER) is covered by the correspondence run only. *)
Theorem heap_ladderize_preserves :
  forall asc h t,
  C03Base.WF h -> Heap.abs h = Some t -> NoDup (leaf_taxa t) ->
  exists h' t', HeapOps.ladderize asc h = Heap.HOk h' /\ C03Base.WF h' /\ Heap.abs h' = Some t'
    /\ Heap.rooted h' = Heap.rooted h
    /\ t_id t' = t_id t /\ Permutation (ids t) (ids t')
    /\ Permutation (leaf_taxa t) (leaf_taxa t')
    /\ (forall S, is_usplit t S <-> is_usplit t' S)
    /\ total_length t' = total_length t
    /\ (forall a b, dist a b t' = dist a b t).
Proof. exact Proofs.C07LinkOrder.heap_ladderize_l. Qed.
Print Assumptions heap_ladderize_preserves.

Theorem heap_reorder_preserves :
  forall asc ranks h t,
  C03Base.WF h -> Heap.abs h = Some t -> NoDup (leaf_taxa t) ->
  exists h' t', HeapOps.reorder asc ranks h = Heap.HOk h' /\ C03Base.WF h' /\ Heap.abs h' = Some t'
    /\ Heap.rooted h' = Heap.rooted h
    /\ t_id t' = t_id t /\ Permutation (ids t) (ids t')
    /\ Permutation (leaf_taxa t) (leaf_taxa t')
    /\ (forall S, is_usplit t S <-> is_usplit t' S)
    /\ total_length t' = total_length t
    /\ (forall a b, dist a b t' = dist a b t).
Proof. exact Proofs.C07LinkOrder.heap_reorder_l. Qed.
Print Assumptions heap_reorder_preserves.

(* non-vacuity: the heap built from ex_t is well formed, abstracts to ex_t, satisfies the hypotheses,
   and the heap program reseed_at changes it *)
Theorem nonvacuous_heap_reseed_at :
  C03Base.WF (Heap.of_tree ex_t None) /\ Heap.abs (Heap.of_tree ex_t None) = Some ex_t
  /\ is_internal_node 1 ex_t /\ (2 <= length (t_kids ex_t))%nat /\ NoDup (leaf_taxa ex_t)
  /\ exists h' t', HeapOps.reseed_at 1 true true true (Heap.of_tree ex_t None) = Heap.HOk h'
                   /\ Heap.abs h' = Some t' /\ t' <> ex_t.
Proof. exact Proofs.C07LinkEx.ex_heap. Qed.
Print Assumptions nonvacuous_heap_reseed_at.

(* reroot_at_midpoint on the heap, for ANY taxon pair (tx1, tx2) and whatever the search finds:
   C03 shows the program completes well formed or raises before touching the heap; whenever it
   completes the result is the same unrooted tree and is_rooted = True.  (Equidistance of the chosen
   pair is proved at the specification level: midpoint_equidistant; the heap program computes
   dist / 2 by integer division, exact on trees with even lengths.) *)
Theorem heap_reroot_at_midpoint_preserves :
  forall tx1 tx2 ub su cb h t h',
  C03Base.WF h -> Heap.abs h = Some t -> (2 <= length (t_kids t))%nat -> NoDup (leaf_taxa t) ->
  HeapOps.reroot_at_midpoint tx1 tx2 ub su cb h = Heap.HOk h' ->
  C03Base.WF h' /\ Heap.rooted h' = Some true /\
  exists t', Heap.abs h' = Some t'
    /\ Permutation (leaf_taxa t) (leaf_taxa t')
    /\ (forall S, is_usplit t S <-> is_usplit t' S)
    /\ total_length t' = total_length t
    /\ (forall a b, dist a b t' = dist a b t).
Proof. exact Proofs.C07LinkMid.heap_reroot_at_midpoint_l. Qed.
Print Assumptions heap_reroot_at_midpoint_preserves.

(* randomly_rotate on the heap (Node.set_child_nodes = clear + add_child each).  Script condition
   perms_ok nodes perms h: for the internal nodes in preorder, the shuffle result consumed at each
   node is a permutation of the indices of the child list it was computed from
   (Permutation pm (seq 0 (length (kids h nd))), at the heap state in which it is consumed) -
   what random.shuffle delivers.  rotate_nodes h t = filter (is_internal h) (pre_ids t). *)
Theorem heap_randomly_rotate_preserves :
  forall perms h t,
  C03Base.WF h -> Heap.abs h = Some t -> NoDup (leaf_taxa t) ->
  Proofs.C07LinkRot.perms_ok (Proofs.C07LinkRot.rotate_nodes h t) perms h ->
  exists h' t', HeapOps.randomly_rotate perms h = Heap.HOk h' /\ C03Base.WF h' /\ Heap.abs h' = Some t'
    /\ Heap.rooted h' = Heap.rooted h
    /\ t_id t' = t_id t /\ Permutation (ids t) (ids t')
    /\ Permutation (leaf_taxa t) (leaf_taxa t')
    /\ (forall S, is_usplit t S <-> is_usplit t' S)
    /\ total_length t' = total_length t
    /\ (forall a b, dist a b t' = dist a b t).
Proof. exact Proofs.C07LinkRot.heap_randomly_rotate_l. Qed.
Print Assumptions heap_randomly_rotate_preserves.

(* randomly_reorient in its form before repair 1c81f78b, when the sampled node is internal (for a sampled
   LEAF that form called the old to_outgroup_position with unifurcation suppression, for which C03 has
   refutations) *)
Theorem heap_randomly_reorient_preserves :
  forall pick perms ub h t nd,
  C03Base.WF h -> Heap.abs h = Some t -> nth_error (Heap.pre_ids t) pick = Some nd -> is_internal_node nd t ->
  (2 <= length (t_kids t))%nat -> NoDup (leaf_taxa t) ->
  (forall h1 t1, HeapOps.reseed_at nd ub true true h = Heap.HOk h1 -> Heap.abs h1 = Some t1 ->
                 Proofs.C07LinkRot.perms_ok (Proofs.C07LinkRot.rotate_nodes h1 t1) perms h1) ->
  exists h' t', HeapOps.randomly_reorient pick perms ub h = Heap.HOk h' /\ C03Base.WF h' /\ Heap.abs h' = Some t'
    /\ Permutation (leaf_taxa t) (leaf_taxa t')
    /\ (forall S, is_usplit t S <-> is_usplit t' S)
    /\ total_length t' = total_length t
    /\ (forall a b, dist a b t' = dist a b t).
Proof. exact Proofs.C07LinkRot.heap_randomly_reorient_l. Qed.
Print Assumptions heap_randomly_reorient_preserves.

(* randomly_reorient as it is NOW (with the repaired to_outgroup_position): ANY sampled node but the seed,
   internal or leaf *)
Theorem heap_randomly_reorient_repaired_preserves :
  forall pick perms ub h t nd,
  C03Base.WF h -> Heap.abs h = Some t -> nth_error (Heap.pre_ids t) pick = Some nd -> nd <> t_id t ->
  (2 <= length (t_kids t))%nat -> NoDup (leaf_taxa t) ->
  (forall h1 t1,
     (if Heap.is_internal h nd then HeapOps.reseed_at nd ub true true h
      else HeapOps.to_outgroup_position_r nd ub true h) = Heap.HOk h1 ->
     Heap.abs h1 = Some t1 -> Proofs.C07LinkRot.perms_ok (Proofs.C07LinkRot.rotate_nodes h1 t1) perms h1) ->
  exists h' t', HeapOps.randomly_reorient_r pick perms ub h = Heap.HOk h' /\ C03Base.WF h' /\ Heap.abs h' = Some t'
    /\ Permutation (leaf_taxa t) (leaf_taxa t')
    /\ (forall S, is_usplit t S <-> is_usplit t' S)
    /\ total_length t' = total_length t
    /\ (forall a b, dist a b t' = dist a b t).
Proof. exact Proofs.C07LinkOutgroup.heap_randomly_reorient_r_l. Qed.
Print Assumptions heap_randomly_reorient_repaired_preserves.

(* non-vacuity: a script satisfying perms_ok on the heap of ex_t, and a heap-level midpoint rooting *)
Theorem nonvacuous_heap_randomly_rotate :
  Proofs.C07LinkRot.perms_ok (Proofs.C07LinkRot.rotate_nodes (Heap.of_tree ex_t None) ex_t)
                      [[1%nat; 0%nat]; [1%nat; 0%nat]; [0%nat; 1%nat]] (Heap.of_tree ex_t None)
  /\ exists h' t', HeapOps.randomly_rotate [[1%nat; 0%nat]; [1%nat; 0%nat]; [0%nat; 1%nat]] (Heap.of_tree ex_t None) = Heap.HOk h'
                   /\ Heap.abs h' = Some t' /\ t' <> ex_t.
Proof. exact Proofs.C07LinkEx2.ex_heap_rotate. Qed.
Print Assumptions nonvacuous_heap_randomly_rotate.

Theorem nonvacuous_heap_reroot_at_midpoint :
  exists h', HeapOps.reroot_at_midpoint 0 2 true true true (Heap.of_tree ex_t None) = Heap.HOk h'
             /\ Heap.abs h' = Some ex_t /\ Heap.rooted h' = Some true.
Proof. exact Proofs.C07LinkEx2.ex_heap_midpoint. Qed.
Print Assumptions nonvacuous_heap_reroot_at_midpoint.

(* ============ 9. the GENERATED programs ============ *)
(* Gen/Mutators.v is compiled statement by statement from _tree.py / _node.py / _edge.py on every run
   (py/dv/gen_mutators.py); C03 (Props/C03Gen.v) proves that on Heap.v's heap (C03GenInst.HG) the
   generated Tree_* functions compute what HeapOps.v computes (to_hres forgets the returned Python
   value).  Hence the generated programs preserve the unrooted tree.  Side conditions of C03's
   refinements (fuel handed to generated while loops, "no node is its own child") are passed
   through where C03 has them. *)
Theorem generated_reroot_at_node_preserves :
  forall ub su cb h t n,
  C03Base.WF h -> Heap.abs h = Some t ->
  is_internal_node n t -> (2 <= length (t_kids t))%nat -> NoDup (leaf_taxa t) ->
  exists h' t', C03GenInst.to_hres (Mutators.Tree_reroot_at_node C03GenInst.HG n ub su cb h) = Heap.HOk h'
    /\ C03Base.WF h' /\ Heap.abs h' = Some t' /\ Heap.rooted h' = Some true
    /\ Permutation (leaf_taxa t) (leaf_taxa t')
    /\ (forall S, is_usplit t S <-> is_usplit t' S)
    /\ total_length t' = total_length t
    /\ (forall a b, dist a b t' = dist a b t).
Proof. exact Proofs.C07LinkGen.gen_reroot_at_node_l. Qed.
Print Assumptions generated_reroot_at_node_preserves.

Theorem generated_reroot_at_edge_preserves :
  forall l1 l2 ub su h t ci H,
  C03Base.WF h -> Heap.abs h = Some t -> find_node ci t = Some H -> ci <> t_id t ->
  len0 l1 + len0 l2 = len0 (t_len H) ->
  (2 <= length (t_kids t))%nat -> NoDup (leaf_taxa t) ->
  exists h' t', C03GenInst.to_hres (Mutators.Tree_reroot_at_edge C03GenInst.HG ci l1 l2 ub su h) = Heap.HOk h'
    /\ C03Base.WF h' /\ Heap.abs h' = Some t' /\ Heap.rooted h' = Some true
    /\ Permutation (leaf_taxa t) (leaf_taxa t')
    /\ (forall S, is_usplit t S <-> is_usplit t' S)
    /\ total_length t' = total_length t
    /\ (forall a b, dist a b t' = dist a b t).
Proof. exact Proofs.C07LinkGen.gen_reroot_at_edge_l. Qed.
Print Assumptions generated_reroot_at_edge_preserves.

Theorem generated_to_outgroup_position_preserves :
  forall ub su h t og,
  C03Base.WF h -> Heap.abs h = Some t -> In og (ids t) -> og <> t_id t ->
  (2 <= length (t_kids t))%nat -> NoDup (leaf_taxa t) ->
  exists h' t', C03GenInst.to_hres (Mutators.Tree_to_outgroup_position C03GenInst.HG og ub su h) = Heap.HOk h'
    /\ C03Base.WF h' /\ Heap.abs h' = Some t'
    /\ Permutation (leaf_taxa t) (leaf_taxa t')
    /\ (forall S, is_usplit t S <-> is_usplit t' S)
    /\ total_length t' = total_length t
    /\ (forall a b, dist a b t' = dist a b t).
Proof. exact Proofs.C07LinkOutgroup.gen_to_outgroup_r_l. Qed.
Print Assumptions generated_to_outgroup_position_preserves.

Theorem generated_reseed_at_preserves :
  forall fuel ub cb su h t n ch,
  C03Base.WF h -> Heap.abs h = Some t ->
  is_internal_node n t -> (2 <= length (t_kids t))%nat -> NoDup (leaf_taxa t) ->
  HeapOps.chain (Heap.fuel_of h) h n = Some ch -> (length ch + 2 <= fuel)%nat ->
  (forall h1 c1 h', Heap.hfold Heap.edge_invert (rev ch) h = Heap.HOk h1 -> Heap.kids h1 n = [c1] ->
                    Heap.remove_child_plain n c1 h1 = Heap.HOk h' -> (length (Heap.kids h' c1) < fuel)%nat) ->
  exists h' t', C03GenInst.to_hres (Mutators.Tree_reseed_at C03GenInst.HG fuel n ub cb su h) = Heap.HOk h'
    /\ C03Base.WF h' /\ Heap.abs h' = Some t'
    /\ Permutation (leaf_taxa t) (leaf_taxa t')
    /\ (forall S, is_usplit t S <-> is_usplit t' S)
    /\ total_length t' = total_length t
    /\ (forall a b, dist a b t' = dist a b t).
Proof. exact Proofs.C07LinkGen.gen_reseed_at_l. Qed.
Print Assumptions generated_reseed_at_preserves.

Theorem generated_suppress_unifurcations_preserves :
  forall h t,
  C03Base.WF h -> Heap.abs h = Some t ->
  (forall t0, Heap.abs_at h (Heap.seed h) = Some t0 -> C03GenInst.su_steps_ok (Heap.post_ids t0) h) ->
  exists h', C03GenInst.to_hres (Mutators.Tree_suppress_unifurcations__update_bipartitions_False C03GenInst.HG h) = Heap.HOk h'
    /\ C03Base.WF h' /\ Heap.abs h' = Some (suppress t)
    /\ leaf_taxa (suppress t) = leaf_taxa t
    /\ (forall S, is_usplit t S <-> is_usplit (suppress t) S)
    /\ total_length (suppress t) = total_length t
    /\ (forall a b, dist a b (suppress t) = dist a b t).
Proof. exact Proofs.C07LinkGen.gen_suppress_l. Qed.
Print Assumptions generated_suppress_unifurcations_preserves.

Theorem generated_collapse_basal_bifurcation_preserves :
  forall u h t,
  C03Base.WF h -> Heap.abs h = Some t -> NoDup (leaf_taxa t) ->
  (forall c, In c (Heap.kids h (Heap.seed h)) -> Heap.memz c (Heap.kids h c) = false) ->
  exists h', C03GenInst.to_hres (Mutators.Tree_collapse_basal_bifurcation C03GenInst.HG u h) = Heap.HOk h'
    /\ C03Base.WF h' /\ Heap.abs h' = Some (fst (collapse_basal t))
    /\ Permutation (leaf_taxa t) (leaf_taxa (fst (collapse_basal t)))
    /\ (forall S, is_usplit t S <-> is_usplit (fst (collapse_basal t)) S)
    /\ total_length (fst (collapse_basal t)) = total_length t
    /\ (forall a b, dist a b (fst (collapse_basal t)) = dist a b t).
Proof. exact Proofs.C07LinkGen.gen_collapse_basal_l. Qed.
Print Assumptions generated_collapse_basal_bifurcation_preserves.

Theorem generated_randomly_rotate_preserves :
  forall perms h t,
  C03Base.WF h -> Heap.abs h = Some t -> NoDup (leaf_taxa t) ->
  Proofs.C07LinkRot.perms_ok (Proofs.C07LinkRot.rotate_nodes h t) perms h ->
  exists h' t', C03GenInst.to_hres (Mutators.Tree_randomly_rotate C03GenInst.HG perms h) = Heap.HOk h'
    /\ C03Base.WF h' /\ Heap.abs h' = Some t' /\ Heap.rooted h' = Heap.rooted h
    /\ Permutation (leaf_taxa t) (leaf_taxa t')
    /\ (forall S, is_usplit t S <-> is_usplit t' S)
    /\ total_length t' = total_length t
    /\ (forall a b, dist a b t' = dist a b t).
Proof. exact Proofs.C07LinkGen.gen_randomly_rotate_l. Qed.
Print Assumptions generated_randomly_rotate_preserves.

Theorem generated_randomly_reorient_preserves :
  forall pick perms ub h t nd,
  C03Base.WF h -> Heap.abs h = Some t -> nth_error (Heap.pre_ids t) pick = Some nd -> nd <> t_id t ->
  (2 <= length (t_kids t))%nat -> NoDup (leaf_taxa t) ->
  (forall h1 t1,
     (if Heap.is_internal h nd then HeapOps.reseed_at nd ub true true h
      else HeapOps.to_outgroup_position_r nd ub true h) = Heap.HOk h1 ->
     Heap.abs h1 = Some t1 -> Proofs.C07LinkRot.perms_ok (Proofs.C07LinkRot.rotate_nodes h1 t1) perms h1) ->
  exists h' t', C03GenInst.to_hres (Mutators.Tree_randomly_reorient C03GenInst.HG ([pick] :: perms) ub h) = Heap.HOk h'
    /\ C03Base.WF h' /\ Heap.abs h' = Some t'
    /\ Permutation (leaf_taxa t) (leaf_taxa t')
    /\ (forall S, is_usplit t S <-> is_usplit t' S)
    /\ total_length t' = total_length t
    /\ (forall a b, dist a b t' = dist a b t).
Proof. exact Proofs.C07LinkOutgroup.gen_randomly_reorient_r_l. Qed.
Print Assumptions generated_randomly_reorient_preserves.

(* generated ladderize / reorder (reorder with its default key, label ranks as in HeapOps.v) *)
Theorem generated_ladderize_preserves :
  forall asc h t,
  C03Base.WF h -> Heap.abs h = Some t -> NoDup (leaf_taxa t) ->
  exists h' t', C03GenInst.to_hres (Mutators.Tree_ladderize C03GenInst.HG asc h) = Heap.HOk h'
    /\ C03Base.WF h' /\ Heap.abs h' = Some t' /\ Heap.rooted h' = Heap.rooted h
    /\ Permutation (leaf_taxa t) (leaf_taxa t')
    /\ (forall S, is_usplit t S <-> is_usplit t' S)
    /\ total_length t' = total_length t
    /\ (forall a b, dist a b t' = dist a b t).
Proof. exact Proofs.C07LinkGen2.gen_ladderize_l. Qed.
Print Assumptions generated_ladderize_preserves.

Theorem generated_reorder_preserves :
  forall asc ranks h t,
  C03Base.WF h -> Heap.abs h = Some t -> NoDup (leaf_taxa t) ->
  exists h' t', C03GenInst.to_hres (Mutators.Tree_reorder C03GenInst.HG asc
                   (Mutators.Tree_reorder__default_key C03GenInst.HG (Proofs.C03GenOrder.rank_of ranks)) h) = Heap.HOk h'
    /\ C03Base.WF h' /\ Heap.abs h' = Some t' /\ Heap.rooted h' = Heap.rooted h
    /\ Permutation (leaf_taxa t) (leaf_taxa t')
    /\ (forall S, is_usplit t S <-> is_usplit t' S)
    /\ total_length t' = total_length t
    /\ (forall a b, dist a b t' = dist a b t).
Proof. exact Proofs.C07LinkGen2.gen_reorder_l. Qed.
Print Assumptions generated_reorder_preserves.
