(* C13 property theorems: statements only, each closed by `exact`.

   Everything is about the executable model Model/C13Model.v (tied to the source by the
   correspondence run py/dv/c13.py).  A document `d : doc` is the token sequence the library's
   NexusTokenizer produces (text, quoted flag, comments captured with the token, is_eof() after it)
   plus the way the stream ends.  T (trees), parse_tree (NewickReader._parse_tree_statement),
   set_label, add_comments, lower, upper are ARBITRARY: the theorems hold whatever the statement
   parser does.  Hypotheses used by the NEXUS theorems, always written out:
     - parse_tree only consumes a prefix of the tokens that are left;
     - upper (str.upper) is idempotent;
     - vs = true (the reader skips a SETS / ASSUMPTIONS / CODONS block like the iterator does:
       repaired form of v_sets_consume) OR no token of the document upper-cases to one of these
       keywords (form as found: the reader leaves such a block unconsumed, see sets_block_refuted).
   va / vk (Model/C13Model.v, Section Routes: v_attach, v_keep_label) select between two forms of
   the TreeList / Tree entry points: false = as found (namespace only handed to the reader through
   a factory; Tree.get overwrites the tree name), true = repaired (`fix:` commits 3c078def and
   555dc342 in /repo; the correspondence run detects which form the working tree has).  Theorems
   quantified over va / vk hold for both forms; `routes_agree_nexus` and `dataset_blocks_concat`
   are the FULL statements, proved for the repaired form; vl (v_link_ucase) selects whether
   _parse_link_statement upper-cases the keyword of a second LINK clause (all theorems hold for both); the `_partial` / `_refuted` pairs record
   what holds and what fails in the form as found.
   `hypotheses_satisfiable` and the Examples in Proofs/C13Examples.v show they are not vacuous. *)
From Coq Require Import ZArith List Bool.
From Coq Require String. Import String.StringSyntax.
From DV Require Import Model.PyPrims Model.C13Model Proofs.C13Newick Proofs.C13Examples Proofs.C13Statements Proofs.C13Repaired Proofs.C13Wave2 Model.C13Chars Proofs.C13CharsProofs Proofs.C13Full.
Import ListNotations.
Open Scope Z_scope.

(* ============ 1. Newick: list = single tree by offset = iterator, for EVERY token stream ============ *)

Theorem routes_agree_newick :
  forall (T : Type) (lower upper : str -> str)
         (parse_tree : mapper -> tz -> res (option T * mapper * tz))
         (set_label : T -> option str -> T) (add_comments : T -> list str -> T)
         (vl vs va vk : bool) (ns0 : list str) (d : doc),
  let L := treelist_read T lower upper parse_tree set_label add_comments va vl vs Newick in
  let Y := yield_from_files T lower upper parse_tree set_label add_comments vl Newick in
  let G := tree_get T lower upper parse_tree set_label add_comments va vk vl vs Newick in
  (* the list route is a function of what the iterator does: same trees, same order, same
     namespace; it fails exactly when the iterator fails, with the same error, the iterator
     having handed out a prefix before *)
  (forall out r, Y ns0 d = (out, r) ->
     L ns0 d = match r with Ok ns => Ok (out, ns) | Err e => Err e | OutOfFuel => OutOfFuel end)
  /\ (forall ts ns, L ns0 d = Ok (ts, ns) -> Y ns0 d = (ts, Ok ns))
  /\ (* Tree.get(collection_offset in {None, 0}, tree_offset=k): the k-th tree with the label
        keyword assigned; IndexError beyond the end; ValueError when there is no tree *)
     (forall ts ns, L [] d = Ok (ts, ns) ->
        (forall c k t, (c = None \/ c = Some 0) -> nth_error ts k = Some t ->
           G c (Some (Z.of_nat k)) d = Ok (got_label T set_label vk t))
        /\ (forall c t, (c = None \/ c = Some 0) -> nth_error ts 0 = Some t -> G c None d = Ok (got_label T set_label vk t))
        /\ (forall c k, (c = None \/ c = Some 0) -> ts <> [] -> Z.of_nat (length ts) <= k -> G c (Some k) d = Err IndexErr)
        /\ (forall c k, (c = None \/ c = Some 0) -> ts = [] -> G c k d = Err ValueErr))
  /\ (forall e c k, L [] d = Err e -> G c k d = Err e).
Proof. exact routes_agree_newick_l. Qed.
Print Assumptions routes_agree_newick.

(* the model's fuel never runs out when the statement parser makes progress on every tree *)
Theorem newick_fuel_suffices :
  forall (T : Type) (parse_tree : mapper -> tz -> res (option T * mapper * tz)),
  (forall m z t m' z', parse_tree m z = Ok (Some t, m', z') ->
     (length (z_toks z') + (if z_eof z' then 0 else 1) < length (z_toks z) + (if z_eof z then 0 else 1))%nat) ->
  (forall m z, parse_tree m z <> OutOfFuel) ->
  forall fuel m z acc, (length (z_toks z) + (if z_eof z then 0 else 1) < fuel)%nat ->
    newick_read_loop T parse_tree fuel m z acc <> OutOfFuel.
Proof. exact newick_fuel_suffices_l. Qed.
Print Assumptions newick_fuel_suffices.

(* ============ 2. NEXUS: the reader's block loops and the iterator's own copies ============ *)

(* two implementations, one behaviour - for every namespace configuration (attached or not, new
   namespace per TAXA block or one fixed namespace) and both ways of collecting trees (one list
   per TREES block / one list for all): what the reader returns is a function of what the
   iterator does on the same document: same final tokenizer / namespace state, same trees in the
   same order, same error *)
Theorem nexus_loops_agree :
  forall (T : Type) (lower upper : str -> str)
         (parse_tree : mapper -> tz -> res (option T * mapper * tz))
         (set_label : T -> option str -> T) (add_comments : T -> list str -> T) (vl vs : bool),
  (forall m z ot m' z', parse_tree m z = Ok (ot, m', z') -> exists pre, z_toks z = pre ++ z_toks z') ->
  (forall s, upper (upper s) = upper s) ->
  forall (nc : nscfg) (tlf : tl_factory) (ns0 : list str) (d : doc),
  (vs = true \/ forall t, In t (fst d) -> is_sets_kw (Some (upper (t_text t))) = false) ->
  let Y := y_items_from_stream T lower upper parse_tree set_label add_comments vl nc false
                               (doc_fuel d) (core_init nc ns0 d) (regs_init nc) in
  let R := nexus_read T lower upper parse_tree set_label add_comments vl vs (mkCfg nc tlf) ns0 d in
  match snd Y with
  | Ok (k', g') =>
    exists s, R = Ok s /\ r_k s = k' /\ r_g s = g'
              /\ match tlf with
                 | TLFixed => rs_list0 T s = fst Y
                 | TLNew => concat (rs_blocks T s) = fst Y
                 end
  | Err e => R = Err e
  | OutOfFuel => R = OutOfFuel
  end.
Proof. exact S_nexus_loops_agree. Qed.
Print Assumptions nexus_loops_agree.

(* neither implementation runs out of the model's fuel (number of tokens + 4) when the statement
   parser consumes a prefix and does not itself run out: every loop iteration fetches a token or
   sees the end of the stream, after which every loop guard is false.  No loop of the modelled
   code is non-terminating any more (_parse_link_statement skips unknown LINK targets with
   require_next_token_ucase since fix commit 1c368978), so no `Hang` result exists in the model. *)
Theorem nexus_fuel_suffices :
  forall (T : Type) (lower upper : str -> str)
         (parse_tree : mapper -> tz -> res (option T * mapper * tz))
         (set_label : T -> option str -> T) (add_comments : T -> list str -> T) (vl vs : bool),
  (forall m z ot m' z', parse_tree m z = Ok (ot, m', z') -> exists pre, z_toks z = pre ++ z_toks z') ->
  (forall m z, parse_tree m z <> OutOfFuel) ->
  forall (nc : nscfg) (ns0 : list str) (d : doc),
  snd (y_items_from_stream T lower upper parse_tree set_label add_comments vl nc false
                           (doc_fuel d) (core_init nc ns0 d) (regs_init nc)) <> OutOfFuel
  /\ ((forall s, upper (upper s) = upper s) ->
      (vs = true \/ forall t, In t (fst d) -> is_sets_kw (Some (upper (t_text t))) = false) ->
      forall tlf, nexus_read T lower upper parse_tree set_label add_comments vl vs (mkCfg nc tlf) ns0 d <> OutOfFuel).
Proof. exact S_nexus_fuel. Qed.
Print Assumptions nexus_fuel_suffices.


(* ---- the repaired form (va = true): FULL statements ---- *)

(* TreeList.get / .read is a function of what the iterator does: same trees, same order, same
   namespace; the same error after the iterator has handed out a prefix *)
Theorem routes_agree_nexus :
  forall (T : Type) (lower upper : str -> str)
         (parse_tree : mapper -> tz -> res (option T * mapper * tz))
         (set_label : T -> option str -> T) (add_comments : T -> list str -> T) (vl vs : bool),
  (forall m z ot m' z', parse_tree m z = Ok (ot, m', z') -> exists pre, z_toks z = pre ++ z_toks z') ->
  (forall s, upper (upper s) = upper s) ->
  forall (ns0 : list str) (d : doc),
  (vs = true \/ forall t, In t (fst d) -> is_sets_kw (Some (upper (t_text t))) = false) ->
  let Y := yield_from_files T lower upper parse_tree set_label add_comments vl Nexus ns0 d in
  treelist_read T lower upper parse_tree set_label add_comments true vl vs Nexus ns0 d
  = match snd Y with Ok ns => Ok (fst Y, ns) | Err e => Err e | OutOfFuel => OutOfFuel end.
Proof. exact routes_agree_nexus_repaired_l. Qed.
Print Assumptions routes_agree_nexus.

(* the concatenation of DataSet.get(taxon_namespace=ns)'s tree lists is TreeList.get's list,
   errors included.  (DataSet.get WITHOUT a namespace creates a new namespace per TAXA block and is
   tied by the correspondence run and the oracle only.) *)
Theorem dataset_blocks_concat :
  forall (T : Type) (lower upper : str -> str)
         (parse_tree : mapper -> tz -> res (option T * mapper * tz))
         (set_label : T -> option str -> T) (add_comments : T -> list str -> T) (vl vs : bool),
  (forall m z ot m' z', parse_tree m z = Ok (ot, m', z') -> exists pre, z_toks z = pre ++ z_toks z') ->
  (forall s, upper (upper s) = upper s) ->
  forall (d : doc),
  (vs = true \/ forall t, In t (fst d) -> is_sets_kw (Some (upper (t_text t))) = false) ->
  match read_blocks T lower upper parse_tree set_label add_comments vl vs Nexus cfg_yield [] d with
  | Ok (blocks, ns) => treelist_get T lower upper parse_tree set_label add_comments true vl vs Nexus d = Ok (concat blocks, ns)
  | Err e => treelist_get T lower upper parse_tree set_label add_comments true vl vs Nexus d = Err e
  | OutOfFuel => treelist_get T lower upper parse_tree set_label add_comments true vl vs Nexus d = OutOfFuel
  end
  /\ dataset_get T lower upper parse_tree set_label add_comments vl vs Nexus true d
     = (do r <- read_blocks T lower upper parse_tree set_label add_comments vl vs Nexus cfg_yield [] d ;; Ok (fst r)).
Proof. exact dataset_blocks_concat_repaired_l. Qed.
Print Assumptions dataset_blocks_concat.

(* ---- both forms ---- *)
(* the actual routes: TreeList.get / TreeList.read hand the reader a fixed namespace through a
   factory (form as found), Tree.yield_from_files and TreeArray.read ATTACH it.  Whenever the list route
   succeeds, the iterator is complete and delivers the same trees, in the same order, into the
   same namespace; TreeArray.read gets the iterator's trees from tree_offset on.
   FULL STATEMENT (not provable, see routes_agree_nexus_refuted): "and the list route fails
   whenever the iterator fails, with the same error". *)
Theorem routes_agree_nexus_partial :
  forall (T : Type) (lower upper : str -> str)
         (parse_tree : mapper -> tz -> res (option T * mapper * tz))
         (set_label : T -> option str -> T) (add_comments : T -> list str -> T) (vl vs va : bool),
  (forall m z ot m' z', parse_tree m z = Ok (ot, m', z') -> exists pre, z_toks z = pre ++ z_toks z') ->
  (forall s, upper (upper s) = upper s) ->
  forall (ns0 : list str) (d : doc) ts ns,
  (vs = true \/ forall t, In t (fst d) -> is_sets_kw (Some (upper (t_text t))) = false) ->
  treelist_read T lower upper parse_tree set_label add_comments va vl vs Nexus ns0 d = Ok (ts, ns) ->
  yield_from_files T lower upper parse_tree set_label add_comments vl Nexus ns0 d = (ts, Ok ns)
  /\ (forall k, treearray_read T lower upper parse_tree set_label add_comments vl Nexus k ns0 d
                = (skipn (Z.to_nat k) ts, Ok ns)).
Proof. exact S_routes_agree_nexus. Qed.
Print Assumptions routes_agree_nexus_partial.

(* in the form as found (va = false) the converse fails on the faithful model (and failed on the
   implementation until the `fix:` commit 3c078def; finding reader-not-attached): a document with two TAXA blocks and LINKed TREES blocks is read by the
   iterator (2 trees) and by DataSet.get, and refused by TreeList.get *)
Theorem routes_agree_nexus_refuted :
  exists d : doc,
    (forall t, In t (fst d) -> is_sets_kw (Some (upper_with [] (t_text t))) = false)
    /\ (exists ns, snd (yield_from_files sktree (lower_with []) (upper_with []) (sk_parse_tree (lower_with []))
                                         sk_set_label sk_add_comments false Nexus [] d) = Ok ns)
    /\ length (fst (yield_from_files sktree (lower_with []) (upper_with []) (sk_parse_tree (lower_with []))
                                     sk_set_label sk_add_comments false Nexus [] d)) = 2%nat
    /\ treelist_get sktree (lower_with []) (upper_with []) (sk_parse_tree (lower_with []))
                    sk_set_label sk_add_comments false false false Nexus d = Err ParseErr
    /\ is_ok (dataset_get sktree (lower_with []) (upper_with []) (sk_parse_tree (lower_with []))
                          sk_set_label sk_add_comments false false Nexus false d) = true.
Proof. exact attached_not_conversely_x. Qed.
Print Assumptions routes_agree_nexus_refuted.

(* ============ 3. one list per collection vs one list; offsets ============ *)

(* FULL STATEMENT would also cover DataSet.get without a namespace argument (a NEW namespace per
   TAXA block) and the converse of the second part; missing: the simulation between "new
   namespace per block" and "one fixed namespace" for documents with at most one TAXA block. *)
Theorem dataset_blocks_concat_partial :
  forall (T : Type) (lower upper : str -> str)
         (parse_tree : mapper -> tz -> res (option T * mapper * tz))
         (set_label : T -> option str -> T) (add_comments : T -> list str -> T) (vl vs va : bool),
  (forall m z ot m' z', parse_tree m z = Ok (ot, m', z') -> exists pre, z_toks z = pre ++ z_toks z') ->
  (forall s, upper (upper s) = upper s) ->
  forall (d : doc),
  (vs = true \/ forall t, In t (fst d) -> is_sets_kw (Some (upper (t_text t))) = false) ->
  (* the per-collection lists Tree.get / TreeList.get(collection_offset=..) parse and the single
     list of TreeList.get: exact, errors included *)
  match read_blocks T lower upper parse_tree set_label add_comments vl vs Nexus (cfg_blocks va) [] d with
  | Ok (blocks, ns) => treelist_get T lower upper parse_tree set_label add_comments va vl vs Nexus d = Ok (concat blocks, ns)
  | Err e => treelist_get T lower upper parse_tree set_label add_comments va vl vs Nexus d = Err e
  | OutOfFuel => treelist_get T lower upper parse_tree set_label add_comments va vl vs Nexus d = OutOfFuel
  end
  /\
  (* DataSet.get(taxon_namespace=ns) delivers the same trees, grouped, whenever TreeList.get succeeds *)
  (forall ts ns, treelist_get T lower upper parse_tree set_label add_comments va vl vs Nexus d = Ok (ts, ns) ->
     exists blocks, dataset_get T lower upper parse_tree set_label add_comments vl vs Nexus true d = Ok blocks
                    /\ concat blocks = ts).
Proof. exact S_dataset_blocks_concat. Qed.
Print Assumptions dataset_blocks_concat_partial.

(* Tree.get(collection_offset=c, tree_offset=k) = blocks[c][k] (Python indexing), which is the
   tree at position |blocks[0]| + .. + |blocks[c-1]| + k of TreeList.get's list;
   TreeList.get(collection_offset=c, tree_offset=k) = blocks[c][k:] *)
Theorem offset_selection :
  forall (T : Type) (lower upper : str -> str)
         (parse_tree : mapper -> tz -> res (option T * mapper * tz))
         (set_label : T -> option str -> T) (add_comments : T -> list str -> T) (vl vs va vk : bool),
  (forall m z ot m' z', parse_tree m z = Ok (ot, m', z') -> exists pre, z_toks z = pre ++ z_toks z') ->
  (forall s, upper (upper s) = upper s) ->
  forall (d : doc),
  (vs = true \/ forall t, In t (fst d) -> is_sets_kw (Some (upper (t_text t))) = false) ->
  forall blocks ns,
  read_blocks T lower upper parse_tree set_label add_comments vl vs Nexus (cfg_blocks va) [] d = Ok (blocks, ns) ->
  treelist_get T lower upper parse_tree set_label add_comments va vl vs Nexus d = Ok (concat blocks, ns)
  /\ (forall c k, tree_get T lower upper parse_tree set_label add_comments va vk vl vs Nexus c k d
                  = select_tree T set_label vk blocks (match c with Some c => c | None => 0 end)
                                (match k with Some k => k | None => 0 end))
  /\ (forall (c k : nat) b t, nth_error blocks c = Some b -> nth_error b k = Some t ->
        tree_get T lower upper parse_tree set_label add_comments va vk vl vs Nexus (Some (Z.of_nat c)) (Some (Z.of_nat k)) d
        = Ok (got_label T set_label vk t)
        /\ nth_error (concat blocks) (length (concat (firstn c blocks)) + k) = Some t)
  /\ (forall c k, (c <> None \/ k <> None) ->
        treelist_get_off T lower upper parse_tree set_label add_comments va vl vs Nexus c k d
        = select_offsets T blocks (match c with Some c => c | None => 0 end) k).
Proof. exact S_offset_selection. Qed.
Print Assumptions offset_selection.

(* what the selection computes, case by case (no totalised defaults): no collection ->
   ValueError; collection offset outside [-n, n) -> IndexError; empty collection -> ValueError;
   tree offset outside [-m, m) -> IndexError; otherwise the tree, negative offsets from the end *)
Theorem offset_selection_cases :
  forall (T : Type) (set_label : T -> option str -> T) (vk : bool) (blocks : list (list T)) (c k : Z),
  (blocks = [] -> select_tree T set_label vk blocks c k = Err ValueErr)
  /\ (blocks <> [] -> (Z.of_nat (length blocks) <= c \/ c < - Z.of_nat (length blocks)) ->
        select_tree T set_label vk blocks c k = Err IndexErr)
  /\ (forall (i : nat) b, nth_error blocks i = Some b -> (c = Z.of_nat i \/ c = Z.of_nat i - Z.of_nat (length blocks)) ->
        (b = [] -> select_tree T set_label vk blocks c k = Err ValueErr)
        /\ (b <> [] -> (Z.of_nat (length b) <= k \/ k < - Z.of_nat (length b)) ->
              select_tree T set_label vk blocks c k = Err IndexErr)
        /\ (forall (j : nat) t, nth_error b j = Some t -> (k = Z.of_nat j \/ k = Z.of_nat j - Z.of_nat (length b)) ->
              select_tree T set_label vk blocks c k = Ok (got_label T set_label vk t))).
Proof. exact S_select_tree_cases. Qed.
Print Assumptions offset_selection_cases.

(* FULL STATEMENT of "Tree.get(c, k) is the k-th tree of collection c" includes the tree's label.
   Refuted in the form as found (vk = false) on the faithful model (and on the implementation until
   the `fix:` commit 555dc342; finding tree-get:label): Tree.get assigned its `label` keyword, None
   by default, over the name read from the source.  In the repaired form got_label t = t. *)
Theorem tree_get_label_refuted :
  exists (d : doc) t t',
    (exists ns, treelist_get sktree (lower_with []) (upper_with []) (sk_parse_tree (lower_with []))
                             sk_set_label sk_add_comments false false false Nexus d = Ok ([t; t'], ns))
    /\ (exists u, tree_get sktree (lower_with []) (upper_with []) (sk_parse_tree (lower_with []))
                           sk_set_label sk_add_comments false false false false Nexus None None d = Ok u
                  /\ sk_label t = Some (Some (q "foo")) /\ sk_label u = Some None
                  /\ sk_items u = sk_items t).
Proof. exact tree_get_label_refuted_l. Qed.
Print Assumptions tree_get_label_refuted.

(* ============ 4. shared namespace ============ *)

(* A symbol mapper created over a namespace without case-insensitively duplicate labels resolves
   a label `l` (not read as a taxon number) to a taxon with an equal label, appending at most one
   member and never disturbing the others; a LATER read - a fresh mapper over the namespace the
   first one left, as TreeList.read / a second TREES block / the iterator create it - resolves
   every capitalisation of `l` to that same taxon and adds nothing; TAXLABELS / TRANSLATE, which
   go to TaxonNamespace.require_taxon directly, give the same answer. *)
Theorem shared_namespace_same_taxa :
  forall (lower : str -> str) (ns : list str) (b b2 : bool) (l l2 : str),
  NoDup (map lower ns) -> lower l2 = lower l ->
  (b = false \/ assoc l (m_numbers (new_mapper lower ns b)) = None) ->
  let r := require_taxon_for_symbol lower (new_mapper lower ns b) l in
  (exists l', nth_error (m_ns (snd r)) (fst r) = Some l' /\ lower l' = lower l)
  /\ (m_ns (snd r) = ns \/ m_ns (snd r) = ns ++ [l])
  /\ NoDup (map lower (m_ns (snd r)))
  /\ require_taxon_for_symbol lower (new_mapper lower (m_ns (snd r)) b2) l2
     = (fst r, new_mapper lower (m_ns (snd r)) b2)
  /\ fst (ns_require_taxon lower ns l) = fst r /\ snd (ns_require_taxon lower ns l) = m_ns (snd r).
Proof. exact S_shared_namespace. Qed.
Print Assumptions shared_namespace_same_taxa.

(* the second of two reads starts from the namespace the first one left; a Newick read only
   appends to the namespace when the statement parser only appends (so taxa keep their identity) *)
Theorem shared_namespace_threading :
  forall (T : Type) (lower upper : str -> str)
         (parse_tree : mapper -> tz -> res (option T * mapper * tz))
         (set_label : T -> option str -> T) (add_comments : T -> list str -> T) (va vl vs : bool),
  (forall sch ns0 d,
     treelist_read_twice T lower upper parse_tree set_label add_comments va vl vs sch ns0 d =
     match treelist_read T lower upper parse_tree set_label add_comments va vl vs sch ns0 d with
     | Ok (_, ns1) => treelist_read T lower upper parse_tree set_label add_comments va vl vs sch ns1 d
     | Err e => Err e
     | OutOfFuel => OutOfFuel
     end)
  /\ ((forall m z ot m' z', parse_tree m z = Ok (ot, m', z') -> exists r, m_ns m' = m_ns m ++ r) ->
      forall ns0 d ts ns1,
      treelist_read T lower upper parse_tree set_label add_comments va vl vs Newick ns0 d = Ok (ts, ns1) ->
      exists r, ns1 = ns0 ++ r).
Proof.
  exact (fun T lower upper parse_tree set_label add_comments va vl vs =>
           conj (S_read_twice T lower upper parse_tree set_label add_comments va vl vs)
                (S_newick_grows T lower upper parse_tree set_label add_comments va vl vs)).
Qed.
Print Assumptions shared_namespace_threading.

(* ============ 5. the hypotheses are satisfiable ============ *)

Theorem hypotheses_satisfiable :
  (forall m z ot m' z', sk_parse_tree (lower_with []) m z = Ok (ot, m', z') ->
     (exists pre, z_toks z = pre ++ z_toks z') /\ (exists r, m_ns m' = m_ns m ++ r))
  /\ (forall m z, sk_parse_tree (lower_with []) m z <> OutOfFuel)
  /\ (forall s, upper_with [] (upper_with [] s) = upper_with [] s).
Proof. exact S_hypotheses_satisfiable. Qed.
Print Assumptions hypotheses_satisfiable.

(* ============ 6. second wave ============ *)

(* a NEXUS read - whichever route, whichever configuration - only APPENDS to the namespaces:
   TAXLABELS, TRANSLATE and tree statements never remove or reorder existing members (a taxon
   keeps its position = identity) and no namespace object disappears; the only assumption is that
   the statement parser itself only appends.  (Newick: shared_namespace_threading.) *)
Theorem nexus_reads_only_append :
  forall (T : Type) (lower upper : str -> str)
         (parse_tree : mapper -> tz -> res (option T * mapper * tz))
         (set_label : T -> option str -> T) (add_comments : T -> list str -> T) (vl vs : bool),
  (forall m z ot m' z', parse_tree m z = Ok (ot, m', z') -> exists r, m_ns m' = m_ns m ++ r) ->
  (forall (c : cfg) (ns0 : list str) (d : doc) s,
     nexus_read T lower upper parse_tree set_label add_comments vl vs c ns0 d = Ok s ->
     (length (k_nss (r_k (nexus_init T c ns0 d))) <= length (k_nss (r_k s)))%nat
     /\ forall i, exists r, nth i (k_nss (r_k s)) [] = nth i (k_nss (r_k (nexus_init T c ns0 d))) [] ++ r)
  /\ (forall va ns0 d ts ns1,
       treelist_read T lower upper parse_tree set_label add_comments va vl vs Nexus ns0 d = Ok (ts, ns1) ->
       exists r, ns1 = ns0 ++ r)
  /\ (forall ns0 d out ns1,
       yield_from_files T lower upper parse_tree set_label add_comments vl Nexus ns0 d = (out, Ok ns1) ->
       exists r, ns1 = ns0 ++ r).
Proof.
  exact (fun T lower upper parse_tree set_label add_comments vl vs H =>
           conj (W_nexus_reads_only_append T lower upper parse_tree set_label add_comments vl vs H)
                (conj (W_treelist_read_appends T lower upper parse_tree set_label add_comments vl vs H)
                      (W_yield_appends T lower upper parse_tree set_label add_comments vl H))).
Qed.
Print Assumptions nexus_reads_only_append.

(* DataSet.get WITHOUT a namespace argument creates a new TaxonNamespace per TAXA block.  Whenever
   its run ends with at most one namespace object (no or one TAXA block, or TREES blocks only), the
   run of DataSet.get(taxon_namespace=fresh) is identical: the same tree lists (the very same trees,
   block by block) and the same namespace content; hence (dataset_blocks_concat, routes_agree_nexus)
   also TreeList.get, Tree.get, the iterator and TreeArray.read deliver these trees.
   FULL STATEMENT for documents with several TAXA blocks ("the per-block namespaces are the
   restrictions of the merged namespace and the trees correspond under the label-preserving map")
   is FALSE on the faithful model and on the implementation: dataset_multi_namespace_refuted. *)
Theorem dataset_single_namespace :
  forall (T : Type) (lower upper : str -> str)
         (parse_tree : mapper -> tz -> res (option T * mapper * tz))
         (set_label : T -> option str -> T) (add_comments : T -> list str -> T) (vl vs : bool),
  (forall m z ot m' z', parse_tree m z = Ok (ot, m', z') -> exists r, m_ns m' = m_ns m ++ r) ->
  forall (d : doc) s,
  nexus_read T lower upper parse_tree set_label add_comments vl vs cfg_dataset [] d = Ok s ->
  (length (k_nss (r_k s)) <= 1)%nat ->
  exists s', nexus_read T lower upper parse_tree set_label add_comments vl vs cfg_yield [] d = Ok s'
             /\ rs_blocks T s' = rs_blocks T s
             /\ rs_ns0 T s' = nth O (k_nss (r_k s)) []
             /\ dataset_get T lower upper parse_tree set_label add_comments vl vs Nexus false d = Ok (rs_blocks T s)
             /\ dataset_get T lower upper parse_tree set_label add_comments vl vs Nexus true d = Ok (rs_blocks T s).
Proof. exact W_dataset_single_namespace. Qed.
Print Assumptions dataset_single_namespace.

(* two TAXA blocks T1 = {a, b}, T2 = {c, d}, a TREES block LINKed to T2 whose tree names its taxa
   by NUMBER (legal NEXUS): DataSet.get resolves (1,2) in T2's namespace (c, d); every route reading
   into one namespace resolves it in the merged namespace (a, b).  Finding taxon-number-resolution. *)
Theorem dataset_multi_namespace_refuted :
  exists (d : doc) sA sB tA tB,
    nexus_read sktree (lower_with []) (upper_with []) (sk_parse_tree (lower_with [])) sk_set_label sk_add_comments
               false false cfg_dataset [] d = Ok sA
    /\ nexus_read sktree (lower_with []) (upper_with []) (sk_parse_tree (lower_with [])) sk_set_label sk_add_comments
                  false false cfg_yield [] d = Ok sB
    /\ rs_blocks sktree sA = [[tA]] /\ rs_blocks sktree sB = [[tB]]
    /\ sk_items tA = sk_items tB
    /\ first_taxon tA = Some O
    /\ k_nss (r_k sA) = [[q "a"; q "b"]; [q "c"; q "d"]]
    /\ k_nss (r_k sB) = [[q "a"; q "b"; q "c"; q "d"]]
    /\ treelist_get sktree (lower_with []) (upper_with []) (sk_parse_tree (lower_with [])) sk_set_label sk_add_comments
                    true false false Nexus d = Ok ([tB], [q "a"; q "b"; q "c"; q "d"]).
Proof. exact dataset_multi_namespace_refuted_l. Qed.
Print Assumptions dataset_multi_namespace_refuted.

(* the no-SETS hypothesis cannot simply be dropped for the reader as found: a SETS block whose set
   names are the words begin / trees / tree makes TreeList.get fail where the iterator reads the
   tree; with the repaired reader (vs = true) both read it.  Finding sets-block-unconsumed. *)
Theorem sets_block_refuted :
  exists d : doc,
    (exists ns, snd (yield_from_files sktree (lower_with []) (upper_with []) (sk_parse_tree (lower_with []))
                                      sk_set_label sk_add_comments false Nexus [] d) = Ok ns)
    /\ length (fst (yield_from_files sktree (lower_with []) (upper_with []) (sk_parse_tree (lower_with []))
                                     sk_set_label sk_add_comments false Nexus [] d)) = 1%nat
    /\ treelist_get sktree (lower_with []) (upper_with []) (sk_parse_tree (lower_with []))
                    sk_set_label sk_add_comments true false false Nexus d = Err ParseErr
    /\ (exists t ns, treelist_get sktree (lower_with []) (upper_with []) (sk_parse_tree (lower_with []))
                                  sk_set_label sk_add_comments true false true Nexus d = Ok ([t], ns)).
Proof. exact sets_block_refuted_l. Qed.
Print Assumptions sets_block_refuted.

(* the matrix clause at block-dispatch level (Model/C13Chars.v: the reader's block loop with
   characters READ; the bodies of the CHARACTERS/DATA and SETS blocks are arbitrary functions that
   only move forward in the token sequence).  CharacterMatrix.get (exclude_trees = true) and
   DataSet.get (trees read) under the same namespace configuration:
     - on a document without TREES keyword they are the same computation;
     - on a document in the standard layout (every CHARACTERS / DATA / SETS / ASSUMPTIONS / CODONS
       keyword token before every TREES keyword token) they deliver the same matrices whenever
       both succeed.
   FULL STATEMENT ("the matrix read on its own EQUALS the one in the data set", any layout, errors
   included, CharacterMatrix.get's own namespace configuration) is not proved: a TREES block that is
   parsed may add taxa that a later CHARACTERS block sees and may fail where skipping it does not;
   and CharacterMatrix.get as found is not attached to its namespace (finding
   matrix-reader-not-attached).  The payload of the blocks is covered by the oracle only. *)
Theorem matrix_alone_eq_in_dataset_partial :
  forall (T M : Type) (lower upper : str -> str)
         (parse_tree : mapper -> tz -> res (option T * mapper * tz))
         (set_label : T -> option str -> T) (add_comments : T -> list str -> T)
         (vl : bool) (c : nscfg) (tlf : tl_factory)
         (parse_chars parse_sets : core -> regs -> list M -> res (core * regs * list M)),
  (forall m z ot m' z', parse_tree m z = Ok (ot, m', z') -> exists pre, z_toks z = pre ++ z_toks z') ->
  (forall k g ms k' g' ms', parse_chars k g ms = Ok (k', g', ms') -> exists pre, z_toks (k_z k) = pre ++ z_toks (k_z k')) ->
  (forall k g ms k' g' ms', parse_sets k g ms = Ok (k', g', ms') -> exists pre, z_toks (k_z k) = pre ++ z_toks (k_z k')) ->
  forall (fuel : nat) (s : rs T) (mats : list M),
  let run := c_blocks_loop T M lower upper parse_tree set_label add_comments vl c tlf parse_chars parse_sets in
  ((forall t, In t (z_toks (k_z (r_k s))) -> otok_is (Some (upper (t_text t))) K_TREES = false) ->
     run true fuel s mats = run false fuel s mats)
  /\ (forall pre post s1 m1 s2 m2,
        z_toks (k_z (r_k s)) = pre ++ post ->
        (forall t, In t pre -> otok_is (Some (upper (t_text t))) K_TREES = false) ->
        (forall t, In t post ->
           otok_is (Some (upper (t_text t))) K_CHARACTERS || otok_is (Some (upper (t_text t))) K_DATA
           || is_sets_kw (Some (upper (t_text t))) = false) ->
        run true fuel s mats = Ok (s1, m1) -> run false fuel s mats = Ok (s2, m2) -> m1 = m2).
Proof. exact S_matrix_routes. Qed.
Print Assumptions matrix_alone_eq_in_dataset_partial.

(* ============ 7. the working tree's form (all repairs in): no hypothesis on the document ============ *)

(* vs = true (fix commit 6520c171: the reader skips SETS / ASSUMPTIONS / CODONS blocks like the
   iterator) and va = true (3c078def): the NEXUS reader and the NEXUS iterator agree on EVERY token
   stream, and TreeList.get / .read is a function of what the iterator does, errors included. *)
Theorem nexus_loops_agree_full :
  forall (T : Type) (lower upper : str -> str)
         (parse_tree : mapper -> tz -> res (option T * mapper * tz))
         (set_label : T -> option str -> T) (add_comments : T -> list str -> T) (vl : bool),
  (forall m z ot m' z', parse_tree m z = Ok (ot, m', z') -> exists pre, z_toks z = pre ++ z_toks z') ->
  (forall s, upper (upper s) = upper s) ->
  forall (nc : nscfg) (tlf : tl_factory) (ns0 : list str) (d : doc),
  let Y := y_items_from_stream T lower upper parse_tree set_label add_comments vl nc false
                               (doc_fuel d) (core_init nc ns0 d) (regs_init nc) in
  let R := nexus_read T lower upper parse_tree set_label add_comments vl true (mkCfg nc tlf) ns0 d in
  match snd Y with
  | Ok (k', g') =>
    exists s, R = Ok s /\ r_k s = k' /\ r_g s = g'
              /\ match tlf with
                 | TLFixed => rs_list0 T s = fst Y
                 | TLNew => concat (rs_blocks T s) = fst Y
                 end
  | Err e => R = Err e
  | OutOfFuel => R = OutOfFuel
  end.
Proof. exact F_nexus_loops_agree. Qed.
Print Assumptions nexus_loops_agree_full.

Theorem routes_agree_nexus_full :
  forall (T : Type) (lower upper : str -> str)
         (parse_tree : mapper -> tz -> res (option T * mapper * tz))
         (set_label : T -> option str -> T) (add_comments : T -> list str -> T) (vl : bool),
  (forall m z ot m' z', parse_tree m z = Ok (ot, m', z') -> exists pre, z_toks z = pre ++ z_toks z') ->
  (forall s, upper (upper s) = upper s) ->
  forall (ns0 : list str) (d : doc),
  let Y := yield_from_files T lower upper parse_tree set_label add_comments vl Nexus ns0 d in
  treelist_read T lower upper parse_tree set_label add_comments true vl true Nexus ns0 d
  = match snd Y with Ok ns => Ok (fst Y, ns) | Err e => Err e | OutOfFuel => OutOfFuel end.
Proof. exact F_routes_agree_nexus. Qed.
Print Assumptions routes_agree_nexus_full.

Theorem dataset_blocks_concat_full :
  forall (T : Type) (lower upper : str -> str)
         (parse_tree : mapper -> tz -> res (option T * mapper * tz))
         (set_label : T -> option str -> T) (add_comments : T -> list str -> T) (vl : bool),
  (forall m z ot m' z', parse_tree m z = Ok (ot, m', z') -> exists pre, z_toks z = pre ++ z_toks z') ->
  (forall s, upper (upper s) = upper s) ->
  forall (d : doc),
  match read_blocks T lower upper parse_tree set_label add_comments vl true Nexus cfg_yield [] d with
  | Ok (blocks, ns) => treelist_get T lower upper parse_tree set_label add_comments true vl true Nexus d = Ok (concat blocks, ns)
  | Err e => treelist_get T lower upper parse_tree set_label add_comments true vl true Nexus d = Err e
  | OutOfFuel => treelist_get T lower upper parse_tree set_label add_comments true vl true Nexus d = OutOfFuel
  end.
Proof. exact F_dataset_blocks_concat. Qed.
Print Assumptions dataset_blocks_concat_full.

(* ============ source dispatch: string = stream = path, at the level of the characters handed to the tokenizer ============ *)
(* Model/C13Newlines.v: data= and file= hand the document itself to the tokenizer, path= opens the file in
   text mode with universal newlines and hands over `universal_newlines doc` (CR LF and lone CR become LF).
   The tokenizer is the character-level model Model/Tokenizer.v.  Names are qualified: Model/C13Model.v has
   its own token type. *)
From DV Require Model.Tokenizer Model.C13Newlines Proofs.C13NewlinesProofs.

(* what IS true: stream = string always; path = string exactly when the document has no carriage return,
   and then all three sources give the same token sequence (whatever the underscore option) *)
Theorem sources_deliver_same :
  forall doc : Tokenizer.str,
    C13Newlines.delivered C13Newlines.FromFile doc = C13Newlines.delivered C13Newlines.FromData doc
    /\ (C13Newlines.delivered C13Newlines.FromPath doc = C13Newlines.delivered C13Newlines.FromData doc
        <-> ~ In 13 doc)
    /\ (~ In 13 doc ->
        forall (s1 s2 : C13Newlines.source) (preserve_underscores : bool),
          Tokenizer.tokenize (Tokenizer.nexus_cfg preserve_underscores) (C13Newlines.delivered s1 doc)
          = Tokenizer.tokenize (Tokenizer.nexus_cfg preserve_underscores) (C13Newlines.delivered s2 doc)).
Proof. exact C13NewlinesProofs.sources_deliver_same_l. Qed.
Print Assumptions sources_deliver_same.

(* the FULL statement "reading from a string, a stream or a path gives identical results"
     forall doc s1 s2 pu, tokenize (nexus_cfg pu) (delivered s1 doc) = tokenize (nexus_cfg pu) (delivered s2 doc)
   fails in the form as found (finding source-dispatch:path-universal-newlines): in ('a CR LF b',c,d); LF the
   second token is the quoted label  a CR LF b  from a string or a stream and  a LF b  from a path *)
Theorem path_universal_newlines_refuted :
  exists doc : Tokenizer.str,
    let toks src := map (fun t => (Tokenizer.t_text t, Tokenizer.t_quoted t))
                        (fst (Tokenizer.tokenize (Tokenizer.nexus_cfg false) (C13Newlines.delivered src doc))) in
    In 13 doc
    /\ nth_error (toks C13Newlines.FromData) 1 = Some ([97; 13; 10; 98], true)
    /\ nth_error (toks C13Newlines.FromFile) 1 = Some ([97; 13; 10; 98], true)
    /\ nth_error (toks C13Newlines.FromPath) 1 = Some ([97; 10; 98], true)
    /\ Tokenizer.tokenize (Tokenizer.nexus_cfg false) (C13Newlines.delivered C13Newlines.FromPath doc)
       <> Tokenizer.tokenize (Tokenizer.nexus_cfg false) (C13Newlines.delivered C13Newlines.FromData doc).
Proof. exact C13NewlinesProofs.path_universal_newlines_refuted_l. Qed.
Print Assumptions path_universal_newlines_refuted.

(* ============ the symbol mapper: where the number table decides; TAXLABELS across routes (wave 6) ============ *)
From DV Require Proofs.C13MapperModel.

(* document hypothesis as a boolean predicate: is_digit_str sym = false (the leaf symbol is not a decimal numeral).
   numbers_ok m (every key of the mapper's number table is a decimal numeral) is an invariant: true of a fresh mapper
   and kept by add_translate_token, by the namespace refresh and by every resolution.  A non-numeral is resolved
   without the number table: the same taxon and the same new member, if any, whether enable_lookup_by_taxon_number
   is on or off - drivers that disagree on the switch read documents without numeric leaf symbols alike. *)
Theorem non_numeral_ignores_number_switch :
  forall (lower : str -> str),
  (forall taxa b, C13MapperModel.numbers_ok (new_mapper lower taxa b) = true)
  /\ (forall m tok i, C13MapperModel.numbers_ok (add_translate_token lower m tok i) = C13MapperModel.numbers_ok m)
  /\ (forall m taxa, C13MapperModel.numbers_ok (mapper_set_ns m taxa) = C13MapperModel.numbers_ok m)
  /\ (forall (m : mapper) (sym : str) (b : bool),
       C13MapperModel.numbers_ok m = true -> is_digit_str sym = false ->
       fst (require_taxon_for_symbol lower (C13MapperModel.with_switch m b) sym) = fst (require_taxon_for_symbol lower m sym)
       /\ snd (require_taxon_for_symbol lower (C13MapperModel.with_switch m b) sym)
          = C13MapperModel.with_switch (snd (require_taxon_for_symbol lower m sym)) b
       /\ C13MapperModel.numbers_ok (snd (require_taxon_for_symbol lower m sym)) = true).
Proof.
  exact (fun lower => conj (C13MapperModel.numbers_ok_new lower)
                     (conj (C13MapperModel.numbers_ok_translate lower)
                     (conj C13MapperModel.numbers_ok_set_ns (C13MapperModel.N_non_numeral_ignores_switch lower)))).
Qed.
Print Assumptions non_numeral_ignores_number_switch.

Theorem non_numeral_hypotheses_satisfiable :
  C13MapperModel.numbers_ok (new_mapper (lower_with []) [q "a"; q "b"] true) = true /\ is_digit_str (q "b") = false.
Proof. exact C13MapperModel.numbers_hypotheses_satisfiable. Qed.
Print Assumptions non_numeral_hypotheses_satisfiable.

(* without the hypothesis the statement is FALSE: over {a, b} the numeral "1" is the first member with the switch on
   and a NEW taxon labelled "1" with the switch off *)
Theorem number_switch_matters_refuted :
  exists (taxa : list str) (sym : str),
    is_digit_str sym = true
    /\ fst (require_taxon_for_symbol (lower_with []) (new_mapper (lower_with []) taxa true) sym) = O
    /\ m_ns (snd (require_taxon_for_symbol (lower_with []) (new_mapper (lower_with []) taxa true) sym)) = taxa
    /\ fst (require_taxon_for_symbol (lower_with []) (new_mapper (lower_with []) taxa false) sym) = 2%nat
    /\ m_ns (snd (require_taxon_for_symbol (lower_with []) (new_mapper (lower_with []) taxa false) sym)) = taxa ++ [sym].
Proof. exact C13MapperModel.N_switch_matters_refuted_l. Qed.
Print Assumptions number_switch_matters_refuted.

(* finding taxon-number-resolution at the level of ONE look-up (document level: dataset_multi_namespace_refuted):
   a numeral is resolved by position in the WHOLE namespace the mapper manages, so which taxon a document's "1"
   denotes depends on members the namespace had before (shared across calls / another TAXA block): a over {a, b},
   zz over {zz, a, b}.  Labels are immune (shared_namespace_same_taxa). *)
Theorem number_position_refuted :
  exists (pre taxa : list str) (sym : str),
    nth_error taxa (fst (require_taxon_for_symbol (lower_with []) (new_mapper (lower_with []) taxa true) sym)) = Some (q "a")
    /\ nth_error (pre ++ taxa)
         (fst (require_taxon_for_symbol (lower_with []) (new_mapper (lower_with []) (pre ++ taxa) true) sym)) = Some (q "zz").
Proof. exact C13MapperModel.N_number_position_refuted_l. Qed.
Print Assumptions number_position_refuted.

(* TAXLABELS: the only thing the statement reads from the route is whether a namespace is attached (it suppresses
   TooManyTaxaError).  Two routes that both get through the statement leave the namespace with the same members in
   the same order and the tokenizer in the same state. *)
Theorem taxlabels_route_independent :
  forall (lower : str -> str) (c1 c2 : nscfg) (fuel : nat) (z : tz) (taxa : list str) (ntax : option Z) r1 r2,
  taxlabels_loop lower c1 fuel z taxa ntax = Ok r1 -> taxlabels_loop lower c2 fuel z taxa ntax = Ok r2 -> r1 = r2.
Proof. exact C13MapperModel.S_taxlabels_route_independent. Qed.
Print Assumptions taxlabels_route_independent.

Theorem taxlabels_hypotheses_satisfiable :
  exists z r,
    taxlabels_loop (lower_with []) (mkNsCfg true (FacFixed true)) 5 z [] (Some 1%Z) = Ok r
    /\ taxlabels_loop (lower_with []) (mkNsCfg false FacNew) 5 z [] (Some 1%Z) = Ok r
    /\ fst r = [q "a"].
Proof. exact C13MapperModel.taxlabels_hypotheses_satisfiable. Qed.
Print Assumptions taxlabels_hypotheses_satisfiable.

(* ============ wave 7: readers alive at once (interleaved route histories) ============ *)
(* Two readers A and B - a suspended Tree.yield_from_files iterator, another iterator, an eager read in progress - each
   drive a NexusTaxonSymbolMapper of their own.  Model/C13MapObjPrims.v is a store of container OBJECTS; a mapper object
   holds the identities of its four tables; Gen/RoutesMapperObj.v (py/dv/gen_routes_mapper_obj.py) compiles the class
   statement by statement as to WHICH container is allocated, rebound, mutated in place or read, resolving an attribute
   bound in the class body (and not rebound by __init__) to one container shared by all instances.
   osys2 (Proofs/C13MapObjSys.v): construct A's mapper, then B's, in ONE store (any store w0, any blank objects), then run
   an ARBITRARY schedule of steps (false = A, true = B): ONew = a further NexusTaxonSymbolMapper(..) on that side (next
   TREES block / next read), OAdd = add_translate_token, OLookup = lookup_taxon_symbol, ORequire =
   require_taxon_for_symbol - all through the compiled object-level methods; the result is the list of answers of each side.
   mrun1 is the MODEL's mapper (new_mapper, add_translate_token, lookup_taxon_symbol, require_taxon_for_symbol of
   Model/C13Model.v) run on ONE reader's steps alone.
   INDEPENDENCE: interleaving gives each reader exactly the answers it gets alone (namespaces mutable when a mapper is
   built, as on every tree route; for locked namespaces see interleaved_is_separate in Props/C13Gen.v). *)
From DV Require Import Model.C13MapPrims Model.C13MapObjPrims Gen.RoutesMapperObj Proofs.C13MapObj Proofs.C13MapObjSys.

Theorem interleaved_readers_independent :
  forall (lower : str -> str) (cls : mcls) (w0 : world) (oA0 oB0 : mref)
         (taxaA : list str) (bA : bool) (taxaB : list str) (bB : bool) (sched : list (bool * mop)),
  Forall (fun p => mop_mutable (snd p)) sched ->
  osys2 lower cls w0 oA0 oB0 (taxaA, true) bA (taxaB, true) bB sched
  = Ok (mrun1 lower (new_mapper lower taxaA bA) (ops_of false sched),
        mrun1 lower (new_mapper lower taxaB bB) (ops_of true sched)).
Proof. exact C13MapObjSys.interleaved_model. Qed.
Print Assumptions interleaved_readers_independent.

(* not vacuous: A over [a; b], B over [b]; "1" is a for A and b for B; B's TRANSLATE entry 2 -> b and B's later
   re-construction over [b; a] leave A's answers (a, b, a) as they are *)
Theorem interleaved_readers_example :
  Forall (fun p => mop_mutable (snd p)) ex_sched
  /\ osys2 ex_lower ex_cls world_empty ex_blank ex_blank ([sA; sB], true) true ([sB], true) true ex_sched
     = Ok ([Some 0%nat; Some 1%nat; Some 0%nat], [Some 0%nat; None; Some 0%nat; None; Some 0%nat]).
Proof. exact (conj C13MapObjSys.interleaved_example_hyp C13MapObjSys.interleaved_example). Qed.
Print Assumptions interleaved_readers_example.

(* two mapper objects constructed in one store share no table: their container identities are disjoint, both objects are
   well-formed (four different allocated containers each), and the second construction leaves the first object's
   tables as they were *)
Theorem new_mappers_share_no_table :
  forall (lower : str -> str) (cls : mcls) (w0 : world) (oA0 oB0 : mref) (nsA : nsobj) (bA : bool) (nsB : nsobj) (bB : bool)
         (oA : mref) (w1 : world) (oB : mref) (w2 : world),
  gmo_init lower cls oA0 w0 nsA bA = Ok (tt, oA, w1) ->
  gmo_init lower cls oB0 w1 nsB bB = Ok (tt, oB, w2) ->
  (forall c, In c (refs oA) -> ~ In c (refs oB)) /\ wfo w2 oA /\ wfo w2 oB /\ deref w2 oA = deref w1 oA.
Proof. exact C13MapObjSys.new_mappers_share_no_table. Qed.
Print Assumptions new_mappers_share_no_table.

(* the hypothesis "no shared table" is what carries independence: two well-formed mapper objects that hold the SAME
   number table (what a class-level number_taxon_map amounts to) - a new taxon created through B appears under its number
   in the table A reads, and A's second answer is Some 1 where alone it is None *)
Theorem shared_table_breaks_independence_refuted :
  wfo sh_w sh_A /\ wfo sh_w sh_B
  /\ orun2 ex_lower ex_cls sh_A sh_B sh_w sh_sched = Ok ([None; Some 1%nat], [Some 1%nat])
  /\ vrun2 ex_lower (deref sh_w sh_A) (deref sh_w sh_B) sh_sched = Ok ([None; None], [Some 1%nat]).
Proof. exact C13MapObjSys.shared_table_breaks_independence. Qed.
Print Assumptions shared_table_breaks_independence_refuted.
