(* C05 property theorems: statements only, each closed by `exact`.
   Model: Model/C05Model.v (executable transcription of SplitDistribution, the summarizer, the
   TreeArray scores, Tree.from_split_bitmasks, calculate.statistics); vocabulary: Model/C05Spec.v.
   Numbers are exact rationals; `==` is equality of rationals. *)
From Coq Require Import ZArith QArith Qabs List Bool Permutation Sorted.
From DV Require Import Model.PyPrims Gen.BitFns Gen.Consts Model.C05Model Model.C05Spec Model.C05Model2
     Proofs.C05Lists Proofs.C05Freq Proofs.C05Consensus Proofs.C05Stats Proofs.C05Trees
     Proofs.C05Array Proofs.C05Examples Proofs.C05Final Proofs.C05Bits Proofs.C05Laminar Proofs.C05Final2 Proofs.C05Scores Proofs.C05Unique Proofs.C05Final3.
From DV Require Import Model.C05GenPrims Gen.SplitDist Proofs.C05GenStats Proofs.C05GenDist Proofs.C05GenDist2
     Proofs.C05GenDist3 Proofs.C05GenDist4 Proofs.C05GenScores Proofs.C05GenCollapse Proofs.C05GenSumm.
From DV Require Import Model.C05GenPrims2.
Require Coq.Strings.String.
Import ListNotations.
Open Scope Z_scope.

(* ------------------------------------------------------------------ frequencies *)

(* After counting trees ts (any weights whose sum is not zero; each tree lists a split once):
   distribution[s] = (sum of the weights of the trees containing s) / (sum of all weights). *)
Theorem freq_exact : forall (c : config) (ts : list tree_in) (s : Z),
  (forall t, In t ts -> NoDup (splits_of t)) ->
  ~ (total_weight c ts == 0)%Q ->
  (snd (query (count_trees c sd_empty ts) s) == weight_containing c s ts / total_weight c ts)%Q.
Proof. exact freq_exact_l. Qed.
Print Assumptions freq_exact.

(* weights not used: (number of trees containing s) / (number of trees) *)
Theorem freq_exact_unweighted : forall (c : config) (ts : list tree_in) (s : Z),
  use_w c = false -> ts <> [] ->
  (forall t, In t ts -> NoDup (splits_of t)) ->
  (snd (query (count_trees c sd_empty ts) s)
   == inject_Z (Z.of_nat (length (filter (contains_split s) ts))) / inject_Z (Z.of_nat (length ts)))%Q.
Proof. exact freq_exact_unweighted_l. Qed.
Print Assumptions freq_exact_unweighted.

(* a split that occurs in no counted tree: no count entry, no frequency entry, value exactly 0 *)
Theorem freq_absent : forall (c : config) (ts : list tree_in) (s : Z),
  (forall t, In t ts -> ~ In s (splits_of t)) ->
  let d := count_trees c sd_empty ts in
  aget s (counts d) = None /\ aget s (snd (get_freqs d)) = None /\ snd (query d s) = 0%Q.
Proof. exact freq_absent_l. Qed.
Print Assumptions freq_absent.

(* any interleaving of count_splits_on_tree / update / self[s] / split_frequencies / calc_freqs:
   every query answers with the exact frequency over the trees counted so far (the cache
   fields _split_freqs / _trees_counted_for_freqs never serve a stale table) *)
Theorem freq_cache_sound : forall (c : config) (ops : list hop),
  (forall o t, In o ops -> In t (match o with HCount t => [t] | HUpdate ts => ts | _ => [] end) ->
               NoDup (splits_of t)) ->
  Forall2 Qeq (hrun c sd_empty ops) (hspec c [] ops).
Proof. exact freq_cache_sound_l. Qed.
Print Assumptions freq_cache_sound.

(* update with ANY distribution that stands for some tree list (total, weight sum, counts and
   key set are those of ts') yields the distribution of the concatenation, cache still sound *)
Theorem update_any_representation : forall (c : config) (d o : sd) (ts ts' : list tree_in),
  Rep c d ts -> Rep c o ts' -> CacheOk d ->
  Rep c (update d o) (ts ++ ts') /\ CacheOk (update d o) /\
  forall s, (snd (query (update d o) s) == exact_freq_m c (ts ++ ts') s)%Q.
Proof. exact update_any_representation_l. Qed.
Print Assumptions update_any_representation.

(* ------------------------------------------------------------------ consensus *)

(* two splits each of weighted frequency > 1/2 occur together in some counted tree; if the
   clades of one tree are pairwise compatible (C01; checked on every generated input; see
   ex_tree_hyps) they are compatible *)
Theorem majority_pairwise_compatible :
  forall (c : config) (ts : list tree_in) (all : Z) (rooted : bool) (s1 s2 : Z),
  (forall t, In t ts -> (0 <= weight_to_use c t)%Q) ->
  (0 < total_weight c ts)%Q ->
  ((1 # 2) < exact_freq c ts s1)%Q -> ((1 # 2) < exact_freq c ts s2)%Q ->
  (exists t, In t ts /\ In s1 (splits_of t) /\ In s2 (splits_of t)) /\
  ((forall t, In t ts -> tree_compatible all rooted t = true) ->
   compat all (fsb_denorm all rooted s1) (fsb_denorm all rooted s2) = true).
Proof.
  exact (fun c ts all rooted s1 s2 W P F1 F2 =>
           conj (majority_share_l c ts s1 s2 W P F1 F2)
                (fun TC => majority_compatible_l c ts all rooted s1 s2 W P TC F1 F2)).
Qed.
Print Assumptions majority_pairwise_compatible.

(* threshold above one half (and outside the 1e-7 window around 1 of the _almost_one clause):
   the clades put into the consensus tree are all and only the (non-singleton) de-normalised
   masks of the non-trivial splits whose exact frequency reaches the threshold *)
Theorem majority_consensus_exact :
  forall (c : config) (ts : list tree_in) (all : Z) (bits : list Z) (th : Q) (rarg : option bool)
         (d' : sd) (cands : list (Q * Z)) (acc : list Z) (tr : ctree) (r : option bool),
  all <> 0 ->
  (forall t, In t ts -> NoDup (splits_of t)) ->
  (forall t, In t ts -> (0 <= weight_to_use c t)%Q) ->
  (0 < total_weight c ts)%Q ->
  ((1 # 2) < th)%Q -> almost_one th = false ->
  consensus (count_trees c sd_empty ts) all bits (Some th) rarg = (d', (cands, acc, tr, r)) ->
  (forall t, In t ts -> tree_compatible all (truthy r) t = true) ->
  forall m, In m acc <->
            exists s, m = fsb_denorm all (truthy r) s /\ fsb_nontrivial all (Z.land s all) = true
                      /\ is_single m = false /\ (th <= exact_freq c ts s)%Q.
Proof. exact majority_consensus_exact_l. Qed.
Print Assumptions majority_consensus_exact.

(* ... and inside that window the strict statement is false: min_freq = 1 admits splits of
   frequency 2^30/(2^30+1) < 1 *)
Theorem majority_consensus_at_one_refuted :
  exists (c : config) (ts : list tree_in) (s : Z),
    (forall t, In t ts -> NoDup (splits_of t)) /\
    (forall t, In t ts -> tree_compatible 15 true t = true) /\
    In (fsb_denorm 15 true s)
       (snd (fst (fst (snd (consensus (count_trees c sd_empty ts) 15 [1; 2; 4; 8] (Some 1%Q) None))))) /\
    (exact_freq c ts s < 1)%Q.
Proof. exact majority_consensus_at_one_refuted_l. Qed.
Print Assumptions majority_consensus_at_one_refuted.

(* any threshold: the candidates are exactly the table entries passing the filter
   (freq >= th, or both within 1e-7 of 1), sorted descending by (freq, mask); the accepted
   clades are candidates, distinct, pairwise compatible, and every candidate left out is a
   leaf mask or conflicts with a clade accepted from an EARLIER (i.e. >= in the order) candidate *)
Theorem greedy_consensus_spec :
  forall (d : sd) (all : Z) (bits : list Z) (th : Q) (rarg : option bool)
         (d' : sd) (cands : list (Q * Z)) (acc : list Z) (tr : ctree) (r : option bool),
  all <> 0 ->
  consensus d all bits (Some th) rarg = (d', (cands, acc, tr, r)) ->
  (forall f s, In (f, s) cands <->
               In (s, f) (snd (get_freqs d)) /\
               ((th <= f)%Q \/ (almost_one th = true /\ almost_one f = true))) /\
  StronglySorted (fun x y => (fst y < fst x)%Q \/ ((fst x == fst y)%Q /\ snd y <= snd x)) cands /\
  (forall m, In m acc -> exists f s, In (f, s) cands /\ fsb_nontrivial all (Z.land s all) = true
                                     /\ m = fsb_denorm all (truthy r) s) /\
  NoDup acc /\
  (forall a b, In a acc -> In b acc -> a <> b -> compat all a b = true) /\
  (forall pre f s post, cands = pre ++ (f, s) :: post ->
     fsb_nontrivial all (Z.land s all) = true ->
     let m := fsb_denorm all (truthy r) s in
     In m acc \/ is_single m = true \/
     exists f' s', In (f', s') pre /\
                   ((f < f')%Q \/ ((f' == f)%Q /\ s <= s')) /\
                   In (fsb_denorm all (truthy r) s') acc /\
                   compat all m (fsb_denorm all (truthy r) s') = false).
Proof. exact greedy_consensus_spec_full. Qed.
Print Assumptions greedy_consensus_spec.

(* the default min_freq (constants.GREATER_THAN_HALF, regenerated from the source) is exactly
   1/2, NOT above one half: the default call is governed by greedy_consensus_spec *)
Theorem default_threshold_is_half :
  (default_min_freq == 1 # 2)%Q /\ ~ ((1 # 2) < default_min_freq)%Q /\ rule_for default_min_freq = GreedyRule.
Proof. exact default_threshold_is_half_l. Qed.
Print Assumptions default_threshold_is_half.

(* two conflicting pairs of splits at frequency exactly 1/2 under the default threshold: all
   four pass the filter, the (freq, mask) order resolves the tree completely *)
Theorem default_majority_tie :
  let d := count_trees ex_cfg sd_empty [tAB None; tAC None] in
  let '(_, (cands, acc, tr, r)) := consensus d 15 ex_bits (Some default_min_freq) None in
  map snd cands = [15; 8; 4; 2; 1; 12; 10; 5; 3] /\
  map (fun c => Qeq_bool (fst c) (1 # 2)) cands = [false; false; false; false; false; true; true; true; true] /\
  acc = [12; 3] /\ ct_clades tr = [15; 12; 3] /\ r = Some true.
Proof. exact ex_default_tie. Qed.
Print Assumptions default_majority_tie.

(* the tree built by the coded insertion has exactly the namespace's leaves *)
Theorem consensus_spans_namespace : forall (all : Z) (bits : list Z) (rooted : bool) (ss : list Z),
  bits <> [] -> Permutation (ct_leaves (fsb_tree all bits rooted ss)) bits.
Proof. exact consensus_spans_namespace_l. Qed.
Print Assumptions consensus_spans_namespace.

(* The tree built by the transcribed insertion loop of Tree.from_split_bitmasks (smallest
   enclosing node found from a leaf; the children meeting the split are moved under a new node
   iff they add up to it) has as internal clades exactly the root `all` and the clades accepted
   by the set-level greedy selection; it keeps every leaf and the root mask.  Namespace: one
   distinct bit 2^i per taxon, at least two taxa, all = OR of the bits.  (Proof: laminar-family
   invariant, Proofs/C05Laminar.v.) *)
Theorem consensus_tree_clades :
  forall (all : Z) (idxs bits : list Z) (rooted : bool) (ss : list Z),
  bits = map (Z.pow 2) idxs -> NoDup idxs -> (forall i, In i idxs -> 0 <= i) ->
  (2 <= length idxs)%nat -> all = fold_left Z.lor bits 0 ->
  (forall c, In c (ct_clades (fsb_tree all bits rooted ss)) <->
             c = all \/ In c (greedy all [] (fsb_prepare all rooted ss))) /\
  Permutation (ct_leaves (fsb_tree all bits rooted ss)) bits /\
  ct_mask (fsb_tree all bits rooted ss) = all.
Proof. exact consensus_tree_clades_full. Qed.
Print Assumptions consensus_tree_clades.

(* the same under the boolean namespace check that case2_ok evaluates on every correspondence
   case (positive single distinct bits, >= 2 taxa, all = OR of the bits) *)
Theorem consensus_tree_clades_checked : forall (all : Z) (bits : list Z) (rooted : bool) (ss : list Z),
  ns_okb all bits = true ->
  forall c, In c (ct_clades (fsb_tree all bits rooted ss)) <->
            c = all \/ In c (greedy all [] (fsb_prepare all rooted ss)).
Proof. exact consensus_tree_clades_checked. Qed.
Print Assumptions consensus_tree_clades_checked.

(* one insertion, in full: on a well-formed clade tree (every internal node is the disjoint
   union of >= 2 children, leaves are single bits) inserting a non-empty s inside the root
   keeps mask and well-formedness and either (i) s is already a node: nothing changes,
   (ii) s is new and nested-or-disjoint with every node: the clades gain exactly s, or
   (iii) s is new and properly overlaps some clade: nothing changes *)
Theorem tree_insertion_spec : forall (s : Z) (t : ctree),
  s <> 0 -> wf t -> Z.land s (ct_mask t) = s ->
  ct_mask (ct_insert s t) = ct_mask t /\ wf (ct_insert s t) /\
  ((In s (ct_masks t) /\ ct_insert s t = t) \/
   (~ In s (ct_masks t) /\
    (forall c, In c (ct_masks t) -> Z.land s c = 0 \/ Z.land s c = s \/ Z.land c s = c) /\
    (forall c, In c (ct_clades (ct_insert s t)) <-> c = s \/ In c (ct_clades t))) \/
   (~ In s (ct_masks t) /\
    (exists c, In c (ct_clades t) /\ ~ (Z.land s c = 0 \/ Z.land s c = s \/ Z.land c s = c)) /\
    ct_insert s t = t)).
Proof. exact (fun s t NZ W S => ct_insert_spec s NZ t W S). Qed.
Print Assumptions tree_insertion_spec.


(* all counted trees rooted -> rooted; none rooted -> unrooted *)
Theorem consensus_rooting : forall (c : config) (ts : list tree_in) (b : bool),
  ts <> [] -> (forall t, In t ts -> is_rooted_truthy (t_rooting t) = b) ->
  resolve_rooting (count_trees c sd_empty ts) None = Some b.
Proof. exact consensus_rooting_l. Qed.
Print Assumptions consensus_rooting.

(* ------------------------------------------------------------------ support and summaries *)

(* every node of the target tree, in preorder: support = exact frequency of its split (x100
   for percentages); the edge-length / node-age fields decorated are those of the summary
   table entry of that split (no-data values 0, 0, 0, [] when the split has none; not set at
   all when the table is empty) *)
Theorem support_is_freq :
  forall (c : config) (ts : list tree_in) (o : sopts) (t : stree) (d' : sd) (outs : list node_out),
  (forall t, In t ts -> NoDup (splits_of t)) ->
  summarize_tree (count_trees c sd_empty ts) o t = (d', Ok outs) ->
  Forall2 (fun node out =>
             n_split out = sn_split node /\
             (n_support out == (if o_percent o then 100 else 1) * exact_freq c ts (sn_split node))%Q /\
             n_lenf out = (match calc_summaries (elens (count_trees c sd_empty ts)) with
                           | [] => None
                           | _ => Some (fields_of (calc_summaries (elens (count_trees c sd_empty ts))) (sn_split node))
                           end) /\
             n_agef out = (match calc_summaries (nages (count_trees c sd_empty ts)) with
                           | [] => None
                           | _ => Some (fields_of (calc_summaries (nages (count_trees c sd_empty ts))) (sn_split node))
                           end))
          (st_preorder t) outs.
Proof. exact support_is_freq_l. Qed.
Print Assumptions support_is_freq.

(* the values summarised for split s are exactly the lengths recorded for s over the counted
   trees, in order; the summary is statistics.summarize of them *)
Theorem length_summary_exact : forall (c : config) (ts : list tree_in) (s : Z) (xs : list Q),
  ignore_len c = false ->
  all_some (values_of (rec_len c) s ts) = Some xs -> xs <> [] ->
  exists sm, aget s (calc_summaries (elens (count_trees c sd_empty ts))) = Some sm /\ summarize xs = Ok sm.
Proof. exact length_summary_exact_l. Qed.
Print Assumptions length_summary_exact.

Theorem age_summary_exact : forall (c : config) (ts : list tree_in) (s : Z) (xs : list Q),
  ignore_ages c = false ->
  all_some (values_of r_age s ts) = Some xs -> xs <> [] ->
  exists sm, aget s (calc_summaries (nages (count_trees c sd_empty ts))) = Some sm /\ summarize xs = Ok sm.
Proof. exact age_summary_exact_l. Qed.
Print Assumptions age_summary_exact.

(* statistics.summarize on a non-empty sample: mean = sum/n; the one-pass sample variance
   n*((ss - mean*s)/n)/(n-1) equals the textbook sum((x-mean)^2)/(n-1) for n >= 2 and is `inf`
   (None) for n = 1; median as computed; range = (min, max) *)
Theorem summarize_exact : forall xs : list Q,
  xs <> [] ->
  exists sm, summarize xs = Ok sm /\
    (s_mean sm == mean_of xs)%Q /\
    (length xs = 1%nat -> s_var sm = None) /\
    ((2 <= length xs)%nat -> exists v, s_var sm = Some v /\ (v == sample_variance_of xs)%Q) /\
    median xs = Ok (s_median sm) /\
    In (s_min sm) xs /\ (forall y, In y xs -> (s_min sm <= y)%Q) /\
    In (s_max sm) xs /\ (forall y, In y xs -> (y <= s_max sm)%Q).
Proof. exact summarize_exact_l. Qed.
Print Assumptions summarize_exact.

(* the median is the middle order statistic, or the mean of the two middle ones *)
Theorem median_exact : forall xs : list Q,
  xs <> [] ->
  let srt := qsorted xs in
  let n := length xs in
  StronglySorted (fun a b => (a <= b)%Q) srt /\ Permutation srt xs /\
  exists md, median xs = Ok md /\
    (Nat.odd n = true -> md = nth ((n - 1) / 2) srt 0%Q) /\
    (Nat.even n = true -> (md == (nth (n / 2 - 1) srt 0%Q + nth (n / 2) srt 0%Q) / 2)%Q).
Proof. exact median_exact_l. Qed.
Print Assumptions median_exact.

(* ------------------------------------------------------------------ collapse *)

(* when collapse succeeds: the seed node is untouched; the remaining non-seed nodes are, in
   order, exactly the leaves and the internal nodes whose split is not below the threshold;
   every leaf keeps its distance from the seed node (missing lengths count as 0) *)
Theorem collapse_low_support_exact :
  forall (ftbl : list (Z * Q)) (th : Q) (t t' : stree),
  collapse_root ftbl th t = Ok t' ->
  sn_split t' = sn_split t /\ sn_len t' = sn_len t /\
  st_nonroot t' = filter (fun p => snd p || negb (low_support ftbl th (fst p))) (st_nonroot t) /\
  Forall2 (fun a b => fst a = fst b /\ (snd a == snd b)%Q) (st_root_tips t') (st_root_tips t).
Proof. exact collapse_root_spec_l. Qed.
Print Assumptions collapse_low_support_exact.

(* it succeeds iff no leaf is below the threshold; the only error is the terminal-collapse
   ValueError *)
Theorem collapse_succeeds : forall (ftbl : list (Z * Q)) (th : Q) (t : stree),
  (forall p, In p (st_nonroot t) -> snd p = true -> low_support ftbl th (fst p) = false) ->
  exists t', collapse_root ftbl th t = Ok t'.
Proof. exact collapse_root_ok_l. Qed.
Print Assumptions collapse_succeeds.

(* "below the threshold" is about the exact frequency (absent splits have frequency 0) *)
Theorem collapse_threshold_exact : forall (c : config) (ts : list tree_in) (th : Q) (s : Z),
  (forall t, In t ts -> NoDup (splits_of t)) ->
  (0 < th)%Q ->
  (low_support (snd (get_freqs (count_trees c sd_empty ts))) th s = true <-> (exact_freq c ts s < th)%Q).
Proof. exact low_support_exact. Qed.
Print Assumptions collapse_threshold_exact.

(* ------------------------------------------------------------------ maximum credibility *)

(* the index returned is the first one attaining the maximum of the score list *)
Theorem mcc_is_argmax : forall (scores : list Q) (i : nat),
  argmax_first scores = Some i ->
  (i < length scores)%nat /\
  (forall k, (k < length scores)%nat -> (nth k scores 0%Q <= nth i scores 0%Q)%Q) /\
  (forall k, (k < i)%nat -> (nth k scores 0%Q < nth i scores 0%Q)%Q).
Proof. exact argmax_first_spec_l. Qed.
Print Assumptions mcc_is_argmax.

(* restore_tree(i) rebuilds exactly the clades of the i-th tree added (given its clades are
   pairwise compatible) *)
Theorem mcc_topology :
  forall (fw : bool) (c : config) (ts : list tree_in) (a : ta) (all : Z) (i : nat) (t : tree_in),
  ta_add_trees fw c (ta_empty None) ts = Ok a ->
  nth_error ts i = Some t ->
  tree_compatible all (truthy (ta_rooting a)) t = true ->
  forall m, In m (ta_restore a all i) <->
            In m (fsb_prepare all (truthy (ta_rooting a)) (splits_of t)) /\ is_single m = false.
Proof. exact mcc_topology_l. Qed.
Print Assumptions mcc_topology.

(* tree level: the tree restore_tree(i) builds has as internal clades `all` and exactly the
   non-leaf clades of the i-th tree added *)
Theorem mcc_tree_clades :
  forall (fw : bool) (c : config) (ts : list tree_in) (a : ta) (all : Z) (idxs bits : list Z)
         (i : nat) (t : tree_in),
  bits = map (Z.pow 2) idxs -> NoDup idxs -> (forall j, In j idxs -> 0 <= j) ->
  (2 <= length idxs)%nat -> all = fold_left Z.lor bits 0 ->
  ta_add_trees fw c (ta_empty None) ts = Ok a ->
  nth_error ts i = Some t ->
  tree_compatible all (truthy (ta_rooting a)) t = true ->
  forall m, In m (ct_clades (fsb_tree all bits (truthy (ta_rooting a)) (nth i (ta_splits a) []))) <->
            m = all \/ (In m (fsb_prepare all (truthy (ta_rooting a)) (splits_of t)) /\ is_single m = false).
Proof. exact mcc_tree_clades_l. Qed.
Print Assumptions mcc_tree_clades.

(* ------------------------------------------------------------------ canonical topology *)

(* a well-formed clade tree (inner nodes = disjoint union of >= 2 children, leaves = single
   bits) is determined up to the order of children by its set of node masks:
   equal canonical forms (children sorted by mask, recursively) <-> equal root mask and equal
   mask sets *)
Theorem clade_tree_canonical : forall t1 t2 : ctree, wf t1 -> wf t2 ->
  (ct_canon t1 = ct_canon t2 <->
   ct_mask t1 = ct_mask t2 /\ (forall x, In x (ct_masks t1) <-> In x (ct_masks t2))).
Proof. exact canon_iff_masks. Qed.
Print Assumptions clade_tree_canonical.

(* the consensus tree is THE tree (up to child order) whose clades are the accepted set *)
Theorem consensus_tree_canonical :
  forall (all : Z) (idxs bits : list Z) (rooted : bool) (ss : list Z) (T : ctree),
  bits = map (Z.pow 2) idxs -> NoDup idxs -> (forall i, In i idxs -> 0 <= i) ->
  (2 <= length idxs)%nat -> all = fold_left Z.lor bits 0 ->
  wf T -> ct_mask T = all -> Permutation (ct_leaves T) bits ->
  (forall c, In c (ct_clades T) <-> c = all \/ In c (greedy all [] (fsb_prepare all rooted ss))) ->
  ct_canon (fsb_tree all bits rooted ss) = ct_canon T.
Proof. exact consensus_tree_canonical_l. Qed.
Print Assumptions consensus_tree_canonical.

(* maximum-credibility clause as an equality of topologies: the tree restore_tree(i) rebuilds
   has the canonical form of any well-formed clade tree over the namespace that has the clades
   of the i-th input tree *)
Theorem mcc_canonical_topology :
  forall (fw : bool) (c : config) (ts : list tree_in) (a : ta) (all : Z) (idxs bits : list Z)
         (i : nat) (t : tree_in) (T : ctree),
  bits = map (Z.pow 2) idxs -> NoDup idxs -> (forall j, In j idxs -> 0 <= j) ->
  (2 <= length idxs)%nat -> all = fold_left Z.lor bits 0 ->
  ta_add_trees fw c (ta_empty None) ts = Ok a ->
  nth_error ts i = Some t ->
  tree_compatible all (truthy (ta_rooting a)) t = true ->
  wf T -> ct_mask T = all -> Permutation (ct_leaves T) bits ->
  (forall m, In m (ct_clades T) <->
             m = all \/ (In m (fsb_prepare all (truthy (ta_rooting a)) (splits_of t)) /\ is_single m = false)) ->
  ct_canon (fsb_tree all bits (truthy (ta_rooting a)) (nth i (ta_splits a) [])) = ct_canon T.
Proof. exact mcc_canonical_topology_l. Qed.
Print Assumptions mcc_canonical_topology.

(* ------------------------------------------------------------------ per-tree scores, lookups *)

(* split_support_iter: one value per visited node (preorder or postorder; the seed node is an
   internal node; leaves only with include_external_splits), each the exact frequency of the
   node's split *)
Theorem split_support_iter_exact :
  forall (c : config) (ts : list tree_in) (post ext : bool) (t : stree),
  (forall t, In t ts -> NoDup (splits_of t)) ->
  Forall2 (fun q n => (q == exact_freq c ts (sn_split n))%Q)
          (snd (split_support_iter (count_trees c sd_empty ts) post ext t))
          (filter (fun n => ext || negb (st_is_leaf n)) (if post then st_postorder t else st_preorder t)).
Proof. exact split_support_iter_exact_l. Qed.
Print Assumptions split_support_iter_exact.

Theorem support_iter_order_irrelevant : forall (ext : bool) (t : stree),
  Permutation (support_nodes true ext t) (support_nodes false ext t).
Proof. exact support_nodes_perm_l. Qed.
Print Assumptions support_iter_order_irrelevant.

Theorem tree_sum_score_exact : forall (c : config) (ts : list tree_in) (ext : bool) (t : stree),
  (forall t, In t ts -> NoDup (splits_of t)) ->
  (snd (sum_of_split_support_on_tree (count_trees c sd_empty ts) ext t)
   == qsum (map (fun n => exact_freq c ts (sn_split n)) (support_nodes false ext t)))%Q.
Proof. exact tree_sum_score_exact_l. Qed.
Print Assumptions tree_sum_score_exact.

(* log_product_of_split_support_on_tree, exponentiated, in exact arithmetic *)
Theorem tree_product_score_exact : forall (c : config) (ts : list tree_in) (ext : bool) (t : stree),
  (forall t, In t ts -> NoDup (splits_of t)) ->
  (snd (product_of_split_support_on_tree (count_trees c sd_empty ts) ext t)
   == qprod_nz (map (fun n => exact_freq c ts (sn_split n)) (support_nodes false ext t)))%Q.
Proof. exact tree_product_score_exact_l. Qed.
Print Assumptions tree_product_score_exact.

(* TreeList.frequency_of_bipartition(split_bitmask=s): all trees rooted: fraction of trees
   whose encoding lists s; all unrooted: fraction listing normalize(s).  Never weighted. *)
Theorem frequency_of_bipartition_exact : forall (all s : Z) (unrooted : bool) (ts : list tree_in),
  ts <> [] ->
  let key := if unrooted then py_normalize_bitmask s all 1 else s in
  (frequency_of_bipartition all s (map (fun t => mkFob (splits_of t) (Some unrooted)) ts)
   == inject_Z (Z.of_nat (length (filter (contains_split key) ts))) / inject_Z (Z.of_nat (length ts)))%Q.
Proof. exact frequency_of_bipartition_exact_l. Qed.
Print Assumptions frequency_of_bipartition_exact.

(* TreeArray.split_bitmask_set_frequencies: the value under split set K is the weight of the
   stored trees whose split set is K over calc_normalization_weight() (0 when no tree has it) *)
Theorem topology_frequency_exact : forall (a : ta) (K : list Z),
  (kget_d K (split_bitmask_set_frequencies a)
   == topo_weight K (zip (ta_splits a) (ta_weights a)) / normalization_weight (ta_sd a))%Q.
Proof. exact topology_frequency_exact_l. Qed.
Print Assumptions topology_frequency_exact.

(* ------------------------------------------------------------------ TreeArray weighting *)

(* Gen/Consts.treearray_forwards_use_tree_weights says whether TreeArray.__init__ hands its
   use_tree_weights to the SplitDistribution it creates.  If it does, the array's frequencies
   are exact under the array's weighting choice; if it does not (the working tree at the time
   of writing), they are exact under weighting ALWAYS ON, and an array built with
   use_tree_weights=False reports 3/4 where the unweighted frequency is 1/2. *)
Theorem treearray_weighting :
  if treearray_forwards_use_tree_weights
  then forall (c : config) (ts : list tree_in) (a : ta) (s : Z),
      (forall t, In t ts -> NoDup (splits_of t)) ->
      ta_add_trees true c (ta_empty None) ts = Ok a ->
      (snd (query (ta_sd a) s) == exact_freq c ts s)%Q
  else (forall (c : config) (ts : list tree_in) (a : ta) (s : Z),
           (forall t, In t ts -> NoDup (splits_of t)) ->
           ta_add_trees false c (ta_empty None) ts = Ok a ->
           (snd (query (ta_sd a) s)
            == exact_freq (mkCfg (ignore_len c) (ignore_ages c) true (Some 0%Q)) ts s)%Q)
       /\ exists a, ta_add_trees false ex_cfg_unweighted (ta_empty None) [tAB (Some 3%Q); tAC (Some 1%Q)] = Ok a /\
                    Qeq_bool (snd (query (ta_sd a) 3)) (3 # 4) = true /\
                    Qeq_bool (exact_freq ex_cfg_unweighted [tAB (Some 3%Q); tAC (Some 1%Q)] 3) (1 # 2) = true.
Proof. exact treearray_weighting_l. Qed.
Print Assumptions treearray_weighting.

(* ================================================================== translator tie
   Gen/SplitDist.v is regenerated on every run from the AST of treecollectionmodel.py and
   calculate/statistics.py by py/dv/gen_splitdist.py (fail closed).  The theorems below state that
   the generated functions equal the hand-written model (x_sd projects the generated object
   state, which also carries the summary-cache attributes, onto the model's state); the property
   theorems above therefore hold of the generated code by rewriting.  Hypotheses `NoDup (keys ..)`
   say that a Python dict has distinct keys (the model keeps dicts as association lists). *)

Theorem gen_mean_and_variance_pop_n_is_model : forall xs : list Q,
  gen_mean_and_variance_pop_n xs = mean_and_variance_pop_n xs.
Proof. exact gen_mean_and_variance_pop_n_eq. Qed.
Print Assumptions gen_mean_and_variance_pop_n_is_model.

Theorem gen_mean_and_sample_variance_is_model : forall xs : list Q,
  gen_mean_and_sample_variance xs = mean_and_sample_variance xs.
Proof. exact gen_mean_and_sample_variance_eq. Qed.
Print Assumptions gen_mean_and_sample_variance_is_model.

Theorem gen_median_is_model : forall xs : list Q, gen_median xs = median xs.
Proof. exact gen_median_eq. Qed.
Print Assumptions gen_median_is_model.

(* summarize, exact keys: the generated dict holds exactly the model's record *)
Theorem gen_summarize_is_model : forall xs : list Q,
  gen_summarize xs = match summarize xs with
                     | Ok sm => Ok (mkGs (Some (s_min sm, s_max sm)) (Some (s_mean sm)) (Some (s_var sm)) (Some (s_median sm)))
                     | Err e => Err e
                     | OutOfFuel => OutOfFuel
                     end.
Proof. exact gen_summarize_eq. Qed.
Print Assumptions gen_summarize_is_model.

Theorem gen_add_split_count_is_model : forall (c : config) (x : sdx) (s : Z) (q : Q),
  gen_add_split_count c x s q = (upd_sd x (add_split_count (x_sd x) s q), tt).
Proof. exact gen_add_split_count_eq. Qed.
Print Assumptions gen_add_split_count_is_model.

(* count_splits_on_tree: new state, and the three returned lists *)
Theorem gen_count_splits_on_tree_is_model : forall (c : config) (x : sdx) (t : tree_in) (b : bool),
  gen_count_splits_on_tree c x t b (default_len c)
  = (upd_sd x (fst (count_tree c (x_sd x) t)), snd (count_tree c (x_sd x) t)).
Proof. exact gen_count_splits_on_tree_eq. Qed.
Print Assumptions gen_count_splits_on_tree_is_model.

Theorem gen_calc_normalization_weight_is_model : forall (c : config) (x : sdx),
  gen_calc_normalization_weight c x = (x, normalization_weight (x_sd x)).
Proof. exact gen_calc_normalization_weight_eq. Qed.
Print Assumptions gen_calc_normalization_weight_is_model.

(* calc_freqs: the model's state and table; both summary caches reset to None *)
Theorem gen_calc_freqs_is_model : forall (c : config) (x : sdx),
  NoDup (map fst (counts (x_sd x))) ->
  gen_calc_freqs c x
  = (mkSdx (fst (calc_freqs (x_sd x))) None None (x_counted_for_summ x), Some (snd (calc_freqs (x_sd x)))).
Proof. exact gen_calc_freqs_eq. Qed.
Print Assumptions gen_calc_freqs_is_model.

(* the split_frequencies property: recompute iff no table or the counter is stale *)
Theorem gen_get_split_frequencies_is_model : forall (c : config) (x : sdx),
  NoDup (map fst (counts (x_sd x))) ->
  fst (gen_get_split_frequencies c x)
  = (let d' := fst (get_freqs (x_sd x)) in
     if py_is_none (freqs (x_sd x)) || negb (counted_for_freqs (x_sd x) =? total (x_sd x))
     then mkSdx d' None None (x_counted_for_summ x) else x)
  /\ snd (gen_get_split_frequencies c x) = Some (snd (get_freqs (x_sd x))).
Proof. exact gen_get_split_frequencies_eq. Qed.
Print Assumptions gen_get_split_frequencies_is_model.

Theorem gen_getitem_is_model : forall (c : config) (x : sdx) (s : Z),
  NoDup (map fst (counts (x_sd x))) ->
  x_sd (fst (gen_getitem c x s)) = fst (query (x_sd x) s) /\ snd (gen_getitem c x s) = snd (query (x_sd x) s).
Proof. exact gen_getitem_eq. Qed.
Print Assumptions gen_getitem_is_model.

(* update: the model's merge; summary caches reset, their counter set to 0 *)
Theorem gen_update_is_model : forall (c : config) (x o : sdx),
  NoDup (map fst (counts (x_sd o))) ->
  gen_update c x o = (mkSdx (update (x_sd x) (x_sd o)) None None 0, tt).
Proof. exact gen_update_eq. Qed.
Print Assumptions gen_update_is_model.

Theorem gen_rooting_predicates_are_model : forall (c : config) (x : sdx),
  gen_is_all_counted_trees_rooted c x = (x, is_all_rooted (x_sd x)) /\
  gen_is_all_counted_trees_strictly_unrooted c x = (x, is_all_strictly_unrooted (x_sd x)) /\
  gen_is_all_counted_trees_treated_as_unrooted c x = (x, is_all_treated_as_unrooted (x_sd x)).
Proof. exact (fun c x => conj eq_refl (conj eq_refl eq_refl)). Qed.
Print Assumptions gen_rooting_predicates_are_model.

(* consensus_tree up to the construction of the tree (rooting resolution, threshold filter with
   the _almost_one clause, descending sort, from_split_bitmasks): same state, same accepted
   clades, same tree as the model *)
Theorem gen_consensus_tree_is_model :
  forall (c : config) (x : sdx) (all : Z) (bits : list Z) (mf : option Q) (rarg : option bool) (b : bool),
  NoDup (map fst (counts (x_sd x))) ->
  (forall tbl, freqs (x_sd x) = Some tbl -> NoDup (map fst tbl)) ->
  x_sd (fst (gen_consensus_tree c x all bits mf rarg b)) = fst (consensus (x_sd x) all bits mf rarg) /\
  snd (gen_consensus_tree c x all bits mf rarg b)
  = (snd (fst (fst (snd (consensus (x_sd x) all bits mf rarg)))),
     snd (fst (snd (consensus (x_sd x) all bits mf rarg)))).
Proof. exact gen_consensus_tree_eq. Qed.
Print Assumptions gen_consensus_tree_is_model.

(* calc_split_edge_length_summaries / calc_split_node_age_summaries: the model's table *)
Theorem gen_calc_summaries_are_model : forall (c : config) (x : sdx),
  (NoDup (map fst (elens (x_sd x))) ->
   gen_calc_split_edge_length_summaries c x
   = (sa__split_edge_length_summaries x (Some (gs_table (calc_summaries (elens (x_sd x))))),
      Some (gs_table (calc_summaries (elens (x_sd x)))))) /\
  (NoDup (map fst (nages (x_sd x))) ->
   gen_calc_split_node_age_summaries c x
   = (sa__split_node_age_summaries x (Some (gs_table (calc_summaries (nages (x_sd x))))),
      Some (gs_table (calc_summaries (nages (x_sd x)))))).
Proof. exact (fun c x => conj (gen_calc_split_edge_length_summaries_eq c x) (gen_calc_split_node_age_summaries_eq c x)). Qed.
Print Assumptions gen_calc_summaries_are_model.

(* the cached getters: whenever the single counter _trees_counted_for_summaries differs from
   total_trees_counted (always, once a tree was counted: the code only ever assigns it 0) the
   table is recomputed from the current value lists -- which is why the hand model keeps no
   summary cache; when it does not differ the stored table is returned *)
Theorem gen_summary_getters_fresh : forall (c : config) (x : sdx),
  x_counted_for_summ x <> total (x_sd x) ->
  (NoDup (map fst (elens (x_sd x))) ->
   snd (gen_get_split_edge_length_summaries c x) = Some (gs_table (calc_summaries (elens (x_sd x)))) /\
   x_sd (fst (gen_get_split_edge_length_summaries c x)) = x_sd x) /\
  (NoDup (map fst (nages (x_sd x))) ->
   snd (gen_get_split_node_age_summaries c x) = Some (gs_table (calc_summaries (nages (x_sd x)))) /\
   x_sd (fst (gen_get_split_node_age_summaries c x)) = x_sd x).
Proof.
  exact (fun c x NE => conj (fun ND => gen_get_split_edge_length_summaries_fresh c x ND NE)
                            (fun ND => gen_get_split_node_age_summaries_fresh c x ND NE)).
Qed.
Print Assumptions gen_summary_getters_fresh.

Import Coq.Strings.String.

(* ------------------------------------------------------------------ translator tie, part 2:
   per-tree scores, TreeArray scores, collapse, frequency_of_bipartition *)

(* split_support_iter (a generator; traversal_strategy other than the two names raises
   ValueError): the yielded list and the state are the model's *)
Theorem gen_split_support_iter_is_model :
  forall (c : config) (x : sdx) (t : stree) (b post ext : bool),
  NoDup (map fst (counts (x_sd x))) ->
  exists x', gen_split_support_iter c x t b ext (if post then "postorder"%string else "preorder"%string)
             = Ok (x', snd (split_support_iter (x_sd x) post ext t))
             /\ x_sd x' = fst (split_support_iter (x_sd x) post ext t).
Proof. exact gen_split_support_iter_eq. Qed.
Print Assumptions gen_split_support_iter_is_model.

Theorem gen_split_support_iter_bad_strategy : forall (c : config) (x : sdx) (t : stree) (b ext : bool),
  gen_split_support_iter c x t b ext "levelorder"%string = Err ValueErr.
Proof. exact (fun c x t b ext => eq_refl). Qed.
Print Assumptions gen_split_support_iter_bad_strategy.

Theorem gen_sum_of_split_support_on_tree_is_model :
  forall (c : config) (x : sdx) (t : stree) (b ext : bool),
  NoDup (map fst (counts (x_sd x))) ->
  exists x', gen_sum_of_split_support_on_tree c x t b ext
             = Ok (x', snd (sum_of_split_support_on_tree (x_sd x) ext t))
             /\ x_sd x' = fst (sum_of_split_support_on_tree (x_sd x) ext t).
Proof. exact gen_sum_of_split_support_on_tree_eq. Qed.
Print Assumptions gen_sum_of_split_support_on_tree_is_model.

(* the log-product, with the accumulator kept as exp(accumulator) (py_log_zero / py_log_add) *)
Theorem gen_log_product_of_split_support_on_tree_is_model :
  forall (c : config) (x : sdx) (t : stree) (b ext : bool),
  NoDup (map fst (counts (x_sd x))) ->
  exists x', gen_log_product_of_split_support_on_tree c x t b ext
             = Ok (x', snd (product_of_split_support_on_tree (x_sd x) ext t))
             /\ x_sd x' = fst (product_of_split_support_on_tree (x_sd x) ext t).
Proof. exact gen_log_product_of_split_support_on_tree_eq. Qed.
Print Assumptions gen_log_product_of_split_support_on_tree_is_model.

(* TreeArray.calculate_sum_of_split_supports / calculate_log_product_of_split_supports: state,
   score list and index are the model's (index as an int) *)
Theorem gen_calculate_split_supports_are_model : forall (c : config) (a : ta) (ext : bool),
  NoDup (map fst (counts (ta_sd a))) ->
  gen_calculate_sum_of_split_supports c a ext
  = (fst (ta_scores false a ext), (fst (snd (ta_scores false a ext)),
                                   option_map Z.of_nat (snd (snd (ta_scores false a ext))))) /\
  gen_calculate_log_product_of_split_supports c a ext
  = (fst (ta_scores true a ext), (fst (snd (ta_scores true a ext)),
                                  option_map Z.of_nat (snd (snd (ta_scores true a ext))))).
Proof.
  exact (fun c a ext ND => conj (gen_calculate_sum_of_split_supports_eq c a ext ND)
                                (gen_calculate_log_product_of_split_supports_eq c a ext ND)).
Qed.
Print Assumptions gen_calculate_split_supports_are_model.

(* hence mcc_is_argmax holds of the generated code: the index it returns is the first one
   attaining the maximum of the score list it returns *)
Theorem gen_mcc_is_argmax : forall (c : config) (a : ta) (ext : bool) (idx : Z),
  NoDup (map fst (counts (ta_sd a))) ->
  snd (snd (gen_calculate_sum_of_split_supports c a ext)) = Some idx ->
  let scores := fst (snd (gen_calculate_sum_of_split_supports c a ext)) in
  exists i : nat, idx = Z.of_nat i /\ (i < List.length scores)%nat /\
    (forall k, (k < List.length scores)%nat -> (nth k scores 0%Q <= nth i scores 0%Q)%Q) /\
    (forall k, (k < i)%nat -> (nth k scores 0%Q < nth i scores 0%Q)%Q).
Proof. exact gen_mcc_is_argmax_l. Qed.
Print Assumptions gen_mcc_is_argmax.

(* collapse_edges_with_less_than_minimum_support: the rooting checks, the selection loop
   (split absent, or frequency < min_freq) and the collapse of the selected nodes
   (py_collapse_nodes: Edge.collapse with length adjustment as an interface operation) give the
   model's result, value or error *)
Theorem gen_collapse_edges_is_model :
  forall (c : config) (x : sdx) (rt : option bool) (t : stree) (mf : Q),
  NoDup (map fst (counts (x_sd x))) ->
  match snd (collapse_tree (x_sd x) rt mf t) with
  | Ok t' => exists x', gen_collapse_edges c x rt t mf = Ok (x', t') /\
                        x_sd x' = fst (collapse_tree (x_sd x) rt mf t)
  | Err e => gen_collapse_edges c x rt t mf = Err e
  | OutOfFuel => gen_collapse_edges c x rt t mf = OutOfFuel
  end.
Proof. exact gen_collapse_edges_eq. Qed.
Print Assumptions gen_collapse_edges_is_model.

(* hence collapse_low_support_exact holds of the generated code *)
Theorem gen_collapse_low_support_exact :
  forall (c : config) (x x' : sdx) (rt : option bool) (t t' : stree) (mf : Q),
  NoDup (map fst (counts (x_sd x))) ->
  gen_collapse_edges c x rt t mf = Ok (x', t') ->
  let ftbl := snd (get_freqs (x_sd x)) in
  sn_split t' = sn_split t /\ sn_len t' = sn_len t /\
  st_nonroot t' = filter (fun p => snd p || negb (low_support ftbl mf (fst p))) (st_nonroot t) /\
  Forall2 (fun a b => fst a = fst b /\ (snd a == snd b)%Q) (st_root_tips t') (st_root_tips t).
Proof. exact gen_collapse_low_support_exact_l. Qed.
Print Assumptions gen_collapse_low_support_exact.

(* TreeList.frequency_of_bipartition(split_bitmask=s) *)
Theorem gen_frequency_of_bipartition_is_model :
  forall (c : config) (ts : list fob_tree) (all : Z) (b : bool) (s : Z),
  gen_frequency_of_bipartition c ts all b s = (ts, frequency_of_bipartition all s ts).
Proof. exact gen_frequency_of_bipartition_eq. Qed.
Print Assumptions gen_frequency_of_bipartition_is_model.

(* SplitDistributionSummarizer.summarize_splits_on_tree, every set_edge_lengths mode (None, keep,
   support, clear, mean-length, median-length, mean-age, median-age), percentages, minimum edge
   length (both places), error_on_negative_edge_lengths, and the two "not available" ValueErrors:
   the generated function returns, per node in preorder, the support, edge length and age the
   model computes (labels, annotations and the length_*/age_* decorations are not represented;
   tree.set_edge_lengths_from_node_ages is the interface operation
   py_set_edge_lengths_from_node_ages), or the same error.  Hypothesis on the summary caches:
   the counter differs from total_trees_counted (always, once a tree was counted). *)
Theorem gen_summarize_splits_on_tree_is_model :
  forall (c : config) (o : sopts) (x : sdx) (t : stree) (b : bool),
  NoDup (map fst (counts (x_sd x))) -> NoDup (map fst (elens (x_sd x))) -> NoDup (map fst (nages (x_sd x))) ->
  x_counted_for_summ x <> total (x_sd x) ->
  match snd (summarize_tree (x_sd x) o t) with
  | Ok outs => exists x', gen_summarize_splits_on_tree c o x t b
                          = Ok (x', map (fun out => mkNv (n_split out) (n_len out) (n_age out) (Some (n_support out))) outs)
                          /\ x_sd x' = fst (summarize_tree (x_sd x) o t)
  | Err e => gen_summarize_splits_on_tree c o x t b = Err e
  | OutOfFuel => False
  end.
Proof. exact gen_summarize_splits_on_tree_eq. Qed.
Print Assumptions gen_summarize_splits_on_tree_is_model.

(* hence support_is_freq holds of the generated code *)
Theorem gen_support_is_freq :
  forall (c : config) (ts : list tree_in) (o : sopts) (x : sdx) (t : stree) (b : bool) (x' : sdx) (outs : list nodev),
  x_sd x = count_trees c sd_empty ts ->
  (forall t0, In t0 ts -> NoDup (splits_of t0)) ->
  ignore_len c = false -> ignore_ages c = false ->
  x_counted_for_summ x <> total (x_sd x) ->
  gen_summarize_splits_on_tree c o x t b = Ok (x', outs) ->
  Forall2 (fun node v =>
             nv_split v = sn_split node /\
             exists q, nv_support v = Some q /\
                       (q == (if o_percent o then 100 else 1) * exact_freq c ts (sn_split node))%Q)
          (st_preorder t) outs.
Proof. exact gen_support_is_freq_l. Qed.
Print Assumptions gen_support_is_freq.
