(* C03 (generated-code tie): the hand-written pointer-level model Model/Heap.v REFINES the source.

   Every Node_* / Edge_* function below is a definition of Gen/Mutators.v, compiled statement by
   statement from src/dendropy/datamodel/treemodel/_node.py and _edge.py on every run
   (py/dv/gen_mutators.py) over the object-graph interface of Model/MutPrims.v.  HG is Heap.v's heap
   as an instance of that interface (Model/C03GenInst.v: node = id, edge = its head node's id,
   edge.length = c_elen).  to_hres forgets the returned Python value; lift v r is "returned v" on
   top of a Heap.v result; heq is observational equality of heaps (every field of every node, seed,
   rooting flag, next id); mres_sim adds "same outcome / same exception class, same value". *)
From Coq Require Import ZArith List Bool.
From DV Require Import Model.PyPrims Model.Tree Model.Heap Model.HeapOps Model.C15Prims Model.MutPrims Gen.Mutators
     Model.C03GenInst Proofs.C03GenPrims Proofs.C03GenNode Proofs.C03GenHeq Proofs.C03GenRemove Proofs.C03GenEdge
     Proofs.C03GenTree Proofs.C03GenSu Proofs.C03GenReseed Proofs.C03GenPrune Proofs.C03GenMisc Proofs.C03GenPoly Proofs.C03GenEnc Proofs.C03GenOrder Proofs.C03GenResolve Model.C03Split Proofs.C03GenSplit Proofs.C03GenShuffle.
From DV Require Import Model.C01GenPrims Gen.Bipartition Proofs.C03Base.
Import ListNotations.
Open Scope Z_scope.

(* Node.add_child: same state or same AssertionError; returns the node *)
Theorem add_child_refines : forall (p c : Z) (h : heap),
  to_hres (Node_add_child HG p c h) = add_child p c h /\
  (forall h', add_child p c h = HOk h' -> mres_val (Node_add_child HG p c h) = Some c).
Proof. exact gen_add_child. Qed.
Print Assumptions add_child_refines.

(* Node.insert_child(index >= 0, node) *)
Theorem insert_child_refines : forall (p : Z) (idx : nat) (c : Z) (h : heap),
  to_hres (Node_insert_child HG p (Z.of_nat idx) c h) = HOk (insert_child p idx c h).
Proof. exact gen_insert_child. Qed.
Print Assumptions insert_child_refines.

(* Node.new_child(taxon=, label=, edge_length=) / insert_new_child *)
Theorem new_child_refines : forall (p : Z) (x l e : option Z) (h : heap),
  to_hres (Node_new_child HG p (x, l, e) h) = new_child p x l e h.
Proof. exact gen_new_child. Qed.
Print Assumptions new_child_refines.

Theorem insert_new_child_refines : forall (p : Z) (idx : nat) (x l e : option Z) (h : heap),
  to_hres (Node_insert_new_child HG p (Z.of_nat idx) (x, l, e) h) = HOk (insert_new_child p idx x l e h).
Proof. exact gen_insert_new_child. Qed.
Print Assumptions insert_new_child_refines.

(* Node.remove_child(node) / remove_child(node, suppress_unifurcations=False): exact, incl. the
   ValueError for a node that is not listed; node.edge.tail_node = None is the no-op Heap.v says *)
Theorem remove_child_plain_refines : forall (fuel : nat) (p c : Z) (h : heap),
  Node_remove_child__suppress_unifurcations_False HG p c h = lift c (remove_child_plain p c h) /\
  Node_remove_child HG fuel p c false h = lift c (remove_child p c false h).
Proof. exact (fun fuel p c h => conj (gen_remove_plain_lift p c h) (gen_remove_child_false fuel p c h)). Qed.
Print Assumptions remove_child_plain_refines.

(* Node.remove_child(node, suppress_unifurcations) in both modes.  The root branch iterates
   to_remove's LIVE child list (Python's list iterator, mfor_live) while inserting into self's.
   Hypotheses: self is not its own child - then the iterated list object is never touched and the
   iterator yields exactly Heap.v's reversed copy (proved, not assumed) - and the iterator gets more
   fuel than any child list is long. *)
Theorem remove_child_refines : forall (fuel : nat) (p c : Z) (su : bool) (h : heap),
  memz p (kids h p) = false ->
  (forall x, (length (kids h x) < fuel)%nat) ->
  mres_sim c (Node_remove_child HG fuel p c su h) (remove_child p c su h).
Proof. exact gen_remove_child. Qed.
Print Assumptions remove_child_refines.

(* Node.clear_child_nodes / set_child_nodes *)
Theorem clear_child_nodes_refines : forall (p : Z) (h : heap),
  Node_clear_child_nodes HG p h = MOk tt (clear_child_nodes p h).
Proof. exact gen_clear_child_nodes. Qed.
Print Assumptions clear_child_nodes_refines.

Theorem set_child_nodes_refines : forall (p : Z) (l : list Z) (h : heap),
  to_hres (Node_set_child_nodes HG p l h) = set_child_nodes p l h.
Proof. exact gen_set_child_nodes. Qed.
Print Assumptions set_child_nodes_refines.

(* parent_node setter (= Edge.tail_node setter): observationally equal always, exactly equal when
   the node is listed under its old parent *)
Theorem parent_node_setter_refines : forall (c : Z) (np : option Z) (h : heap),
  (exists h', Node__set_parent_node HG c np h = MOk tt h' /\ heq h' (set_parent_node c np h)) /\
  (match parent h c with Some q => memz c (kids h q) = true | None => True end ->
   Node__set_parent_node HG c np h = MOk tt (set_parent_node c np h)) /\
  Edge__set_tail_node HG c np h = Node__set_parent_node HG c np h.
Proof.
  exact (fun c np h => conj (gen_set_parent_node c np h)
                            (conj (gen_set_parent_node_exact c np h) (gen_set_tail_node c np h))).
Qed.
Print Assumptions parent_node_setter_refines.

(* Edge.collapse(adjust_collapsed_head_children_edge_lengths).  Hypothesis: the head node is not
   its own child (the source re-reads self.length in every iteration, Heap.v reads it once). *)
Theorem edge_collapse_refines : forall (c : Z) (adjust : bool) (h : heap),
  memz c (kids h c) = false ->
  Edge_collapse HG c adjust h = lift tt (edge_collapse c adjust h).
Proof. exact gen_edge_collapse. Qed.
Print Assumptions edge_collapse_refines.

(* Edge.invert(): exact, all error branches *)
Theorem edge_invert_refines : forall (c : Z) (update_bipartitions : bool) (h : heap),
  Edge_invert HG c update_bipartitions h = lift tt (edge_invert c h).
Proof. exact gen_edge_invert. Qed.
Print Assumptions edge_invert_refines.

(* the pure helpers and property getters *)
Theorem helpers_refine : forall (h : heap) (x : Z),
  Node_is_internal HG h x = is_internal h x /\
  Node_is_leaf HG h x = negb (is_internal h x) /\
  Node_child_nodes HG h x = kids h x /\
  Node__get_parent_node HG h x = parent h x /\
  Node__get_edge_length HG h x = elen h x /\
  Edge__get_tail_node HG h x = parent h x /\
  Edge__get_head_node HG h x = x.
Proof. exact gen_helpers. Qed.
Print Assumptions helpers_refine.

(* ---- Tree level.  reseed_at, suppress_unifurcations and encode_bipartitions / update_bipartitions
   are NOT compiled: calls to them are operations of the interface, instantiated in HG with
   HeapOps.reseed_at / suppress_unifurcations / encode_structural.  What the theorems below tie to
   the source is the glue: call order, arguments and defaults passed on, edge-length bookkeeping,
   asserts and error branches. ---- *)

(* Tree.seed_node setter *)
Theorem seed_node_setter_refines : forall (i : Z) (h : heap),
  (exists h', Tree__set_seed_node HG i h = MOk tt h' /\ heq h' (set_seed_node i h)) /\
  (match parent h i with Some q => memz i (kids h q) = true | None => True end ->
   Tree__set_seed_node HG i h = MOk tt (set_seed_node i h)).
Proof. exact gen_set_seed_node. Qed.
Print Assumptions seed_node_setter_refines.

(* Tree.collapse_basal_bifurcation / deroot.  Hypothesis (from Edge.collapse): no child of the seed
   is its own child. *)
Theorem collapse_basal_bifurcation_refines : forall (set_as_unrooted_tree : bool) (h : heap),
  (forall c, In c (kids h (seed h)) -> memz c (kids h c) = false) ->
  to_hres (Tree_collapse_basal_bifurcation HG set_as_unrooted_tree h)
  = collapse_basal_bifurcation set_as_unrooted_tree h /\
  to_hres (Tree_deroot HG h) = deroot h.
Proof.
  exact (fun su h H => conj (gen_collapse_basal_bifurcation su h H) (gen_deroot h H)).
Qed.
Print Assumptions collapse_basal_bifurcation_refines.

Theorem to_outgroup_position_refines : forall (og : Z) (ub su : bool) (h : heap),
  to_hres (Tree_to_outgroup_position HG og ub su h) = to_outgroup_position_r og ub su h.
Proof. exact gen_to_outgroup_position. Qed.
Print Assumptions to_outgroup_position_refines.

Theorem reroot_at_node_refines : forall (n : Z) (ub su cb : bool) (h : heap),
  to_hres (Tree_reroot_at_node HG n ub su cb h) = reroot_at_node n ub su cb h.
Proof. exact gen_reroot_at_node. Qed.
Print Assumptions reroot_at_node_refines.

Theorem reroot_at_edge_refines : forall (c : Z) (l1 l2 : option Z) (ub su : bool) (h : heap),
  to_hres (Tree_reroot_at_edge HG c l1 l2 ub su h) = reroot_at_edge c l1 l2 ub su h.
Proof. exact gen_reroot_at_edge. Qed.
Print Assumptions reroot_at_edge_refines.

Theorem prune_subtree_refines : forall (node : Z) (ub su : bool) (h : heap),
  to_hres (Tree_prune_subtree HG node ub su h) = prune_subtree node ub su h.
Proof. exact gen_prune_subtree. Qed.
Print Assumptions prune_subtree_refines.

(* Tree.suppress_unifurcations() (update_bipartitions=False): the loop body is compiled from the
   source; the node sequence of self.postorder_node_iter() is read once at loop entry (the interface
   read x_postorder_nodes, = the post-order of HeapOps.v).  Hypothesis su_steps_ok: no visited node
   is its own child at the moment it is visited (then children[0] after parent.remove_child(nd) is
   still the child read before). *)
Theorem suppress_unifurcations_refines : forall (h : heap),
  (forall t, abs_at h (seed h) = Some t -> su_steps_ok (post_ids t) h) ->
  to_hres (Tree_suppress_unifurcations__update_bipartitions_False HG h) = suppress_unifurcations h.
Proof. exact gen_suppress_unifurcations. Qed.
Print Assumptions suppress_unifurcations_refines.

(* Tree.reseed_at: both while loops, the leaf special case, the seed switch and the final dispatch are
   compiled from the source; Edge.invert / remove_child / add_child / the seed_node setter are the
   compiled ones; collapse_basal_bifurcation, suppress_unifurcations and encode_bipartitions are
   interface operations here.  Hypotheses: HeapOps's own walk up the parent chain succeeds
   (chain <> None: no parent cycle), the generated while loops get at least |chain| + 2 fuel, and the
   live iteration over nsn_ch._child_nodes (leaf case) gets more fuel than that list is long.  That
   iteration is over a LIVE list while add_child runs: proved to coincide with the snapshot
   unconditionally (add_child never appends a node that is already listed). *)
Theorem reseed_at_refines :
  forall (fuel : nat) (ns : Z) (ub cb su : bool) (h : heap) (ch : list Z),
    chain (fuel_of h) h ns = Some ch ->
    (length ch + 2 <= fuel)%nat ->
    (forall h1 c1 h', hfold edge_invert (rev ch) h = HOk h1 -> kids h1 ns = [c1] ->
                      remove_child_plain ns c1 h1 = HOk h' -> (length (kids h' c1) < fuel)%nat) ->
    to_hres (Tree_reseed_at HG fuel ns ub cb su h) = reseed_at ns ub cb su h.
Proof. exact gen_reseed_at. Qed.
Print Assumptions reseed_at_refines.

(* ---- the prune family.  The `while True:` loops run on explicit fuel (HeapOps.v's loop uses
   fuel_of h); leaf_node_iter() / postorder_node_iter() are read at loop entry (for the leaf loops this
   is exact: the list is built completely before anything is removed).  Hypotheses: the generated fuel
   is at least HeapOps.v's, and HeapOps.v itself does not give up (result <> HFuel).
   prune_leaves_without_taxa / prune_nodes / prune_taxa / retain_taxa are related to HeapOps.run_op_v for
   the CURRENT source, v_now = {v_seed_guard := true; v_prune_nodes_tail := true; v_outgroup_first := true} (Proofs/C03GenPrune.v):
   HeapOps's function of the unrepaired source with AttributeError relabelled to OtherErr
   (SeedNodeDeletionException when the node to remove is the seed) and, for
   prune_nodes(prune_leaves_without_taxa=False), suppress_unifurcations / update_bipartitions appended. ---- *)
Theorem prune_leaves_without_taxa_refines : forall (fuel : nat) (recursive ub su : bool) (h : heap),
  (fuel_of h <= fuel)%nat ->
  run_op_v v_now (OPruneLeavesWithoutTaxa recursive ub su) h <> HFuel ->
  to_hres (Tree_prune_leaves_without_taxa HG fuel recursive ub su h)
  = run_op_v v_now (OPruneLeavesWithoutTaxa recursive ub su) h.
Proof. exact gen_prune_leaves_without_taxa. Qed.
Print Assumptions prune_leaves_without_taxa_refines.

(* filter_fn is the membership test of the kept ids, as in HeapOps.v *)
Theorem filter_leaf_nodes_refines : forall (fuel : nat) (keep : list Z) (recursive ub su : bool) (h : heap),
  (fuel_of h <= fuel)%nat ->
  filter_leaf_nodes keep recursive ub su h <> HFuel ->
  to_hres (Tree_filter_leaf_nodes HG fuel (fun nd => memz nd keep) recursive ub su h)
  = filter_leaf_nodes keep recursive ub su h.
Proof. exact gen_filter_leaf_nodes. Qed.
Print Assumptions filter_leaf_nodes_refines.

Theorem prune_nodes_refines : forall (fuel : nat) (nodes : list Z) (plwt ub su : bool) (h : heap),
  (forall h1, hfold (remove_from_parent OtherErr) nodes h = HOk h1 -> (fuel_of h1 <= fuel)%nat) ->
  run_op_v v_now (OPruneNodes nodes plwt ub su) h <> HFuel ->
  to_hres (Tree_prune_nodes HG fuel nodes plwt ub su h) = run_op_v v_now (OPruneNodes nodes plwt ub su) h.
Proof. exact gen_prune_nodes. Qed.
Print Assumptions prune_nodes_refines.

Theorem prune_taxa_refines : forall (fuel : nat) (taxa : list Z) (ub su ol oi : bool) (h : heap),
  (forall t h1, abs_at h (seed h) = Some t ->
                hfold (prune_taxa_step_e OtherErr taxa ol oi) (post_ids t) h = HOk h1 -> (fuel_of h1 <= fuel)%nat) ->
  run_op_v v_now (OPruneTaxa taxa ub su ol oi) h <> HFuel ->
  to_hres (Tree_prune_taxa HG fuel taxa ub su ol oi h) = run_op_v v_now (OPruneTaxa taxa ub su ol oi) h.
Proof. exact gen_prune_taxa. Qed.
Print Assumptions prune_taxa_refines.

Theorem retain_taxa_refines : forall (fuel : nat) (namespace taxa : list Z) (ub su : bool) (h : heap),
  (forall t h1, abs_at h (seed h) = Some t ->
                hfold (prune_taxa_step_e OtherErr (filter (fun x => negb (memz x taxa)) namespace) true false) (post_ids t) h = HOk h1 ->
                (fuel_of h1 <= fuel)%nat) ->
  run_op_v v_now (ORetainTaxa namespace taxa ub su) h <> HFuel ->
  to_hres (Tree_retain_taxa HG fuel namespace taxa ub su h) = run_op_v v_now (ORetainTaxa namespace taxa ub su) h.
Proof. exact gen_retain_taxa. Qed.
Print Assumptions retain_taxa_refines.

(* prune_taxa_with_labels / retain_taxa_with_labels: get_taxa is TaxonNamespace.get_taxa(labels=...) of the
   tree's namespace (an uninterpreted function here, property C10), then the unlabelled method *)
Theorem with_labels_delegate :
  forall (fuel : nat) (namespace : list Z) (get_taxa : list Z -> list Z) (labels : list Z) (ub su ol oi : bool) (h : heap),
  to_hres (Tree_prune_taxa_with_labels HG fuel get_taxa labels ub su ol oi h)
  = to_hres (Tree_prune_taxa HG fuel (get_taxa labels) ub su ol oi h) /\
  to_hres (Tree_retain_taxa_with_labels HG fuel namespace get_taxa labels ub su h)
  = to_hres (Tree_retain_taxa HG fuel namespace (get_taxa labels) ub su h).
Proof. exact gen_with_labels. Qed.
Print Assumptions with_labels_delegate.

(* ---- further Tree / Node mutators ---- *)
Theorem collapse_clade_refines : forall (c : Z) (h : heap),
  to_hres (Node_collapse_clade HG c h) = collapse_clade c h.
Proof. exact gen_collapse_clade. Qed.
Print Assumptions collapse_clade_refines.

(* collapse_unweighted_edges(threshold in length units): the edges of the post-order read at loop entry
   (x_postorder_nodes + node._edge; property C15 relates postorder_edge_iter to it); hypothesis as for
   suppress_unifurcations: no visited node is its own child when it is visited (Edge.collapse) *)
Theorem collapse_unweighted_edges_refines : forall (thr : Z) (ub : bool) (h : heap),
  (forall t, abs_at h (seed h) = Some t -> steps_ok (cue_step thr) (post_ids t) h) ->
  to_hres (Tree_collapse_unweighted_edges HG thr ub h) = collapse_unweighted_edges thr ub h.
Proof. exact gen_collapse_unweighted_edges. Qed.
Print Assumptions collapse_unweighted_edges_refines.

(* scripted rng: the script is the list of index lists consumed by rng.shuffle (one per internal node:
   for each new position the old index) and, for randomly_reorient, first [pick] for rng.sample(nodes, 1) *)
Theorem randomly_rotate_refines : forall (perms : list (list nat)) (h : heap),
  to_hres (Tree_randomly_rotate HG perms h) = randomly_rotate perms h.
Proof. exact gen_randomly_rotate. Qed.
Print Assumptions randomly_rotate_refines.

Theorem randomly_reorient_refines : forall (pick : nat) (perms : list (list nat)) (ub : bool) (h : heap),
  to_hres (Tree_randomly_reorient HG ([pick] :: perms) ub h) = randomly_reorient_r pick perms ub h.
Proof. exact gen_randomly_reorient. Qed.
Print Assumptions randomly_reorient_refines.

(* Node._convert_node_to_root_polytomy is a Fixpoint on the fuel (one unit per recursive call, as
   Heap.root_polytomy); polytomize_root with the fuel HeapOps.v uses *)
Theorem polytomize_root_refines : forall (su : bool) (h : heap),
  (forall fuel s h0, exists v, Node__convert_node_to_root_polytomy HG fuel s h0 = lift v (root_polytomy fuel s h0)) /\
  to_hres (Tree_polytomize_root HG (fuel_of h) su h) = polytomize_root su h.
Proof. exact (fun su h => conj gen_root_polytomy (gen_polytomize_root su h)). Qed.
Print Assumptions polytomize_root_refines.

(* Tree.reorder with its default key (the lambda in the signature, compiled to Tree_reorder__default_key:
   the taxon label, "" without taxon; label_rank = the rank of a taxon's label in Python string order) *)
Theorem reorder_refines : forall (asc : bool) (ranks : list (Z * Z)) (h : heap),
  to_hres (Tree_reorder HG asc (Tree_reorder__default_key HG (rank_of ranks)) h) = reorder asc ranks h.
Proof. exact gen_reorder. Qed.
Print Assumptions reorder_refines.

(* Tree.ladderize: the source's node_desc_counts dictionary (filled in post-order, read with
   d[child] / d.__getitem__: a missing key is a KeyError) never misses on a well-formed heap and
   equals HeapOps.desc_counts; same heap afterwards *)
Theorem ladderize_refines : forall (asc : bool) (h : heap),
  WF h -> to_hres (Tree_ladderize HG asc h) = ladderize asc h.
Proof. exact gen_ladderize_wf. Qed.
Print Assumptions ladderize_refines.

(* Tree.resolve_polytomies, both branches.  The scripted rng of the generated code is ONE list of draws
   (flat_script: per polytomy the positions rng.sample returned, then one position per rng.choice);
   HeapOps.v keeps them per polytomy.  rp_ok (Model/C03GenInst.v): the fuel of the generated `while` loops
   suffices at every polytomy, the script holds one choice per sampled child, and no polytomy is the id
   the next Node() receives (the source reads node._child_nodes[0] after `nn1 = Node()`, HeapOps before).
   limit >= 1 (the default is 2): for limit < 1 a node with a single child makes `node._child_nodes[1]`
   raise IndexError AFTER nn1 was constructed, HeapOps.resolve_det reports the heap from before *)
Theorem resolve_polytomies_refines :
  forall (fuel : nat) (limit : Z) (script : option (list (list nat * list nat))) (ub : bool) (h : heap),
  1 <= limit ->
  (forall t, abs_at h (seed h) = Some t ->
             rp_ok fuel limit (filter (fun nd => limit <? len (kids h nd)) (post_ids t)) script h) ->
  resolve_polytomies limit script ub h <> HFuel ->
  to_hres (Tree_resolve_polytomies HG fuel limit ub (option_map flat_script script) h) = resolve_polytomies limit script ub h.
Proof. exact gen_resolve_polytomies. Qed.
Print Assumptions resolve_polytomies_refines.

(* ---- encode_bipartitions.  In the theorems above it is the interface operation x_encode_bipartitions,
   instantiated with HeapOps.encode_structural.  On every well-formed heap (C03's invariant WFt h t: h
   represents the rose tree t) that operation leaves exactly the tree computed by C01's GENERATED
   Tree.encode_bipartitions (Gen/Bipartition.v, compiled from the source by the C01 translator): the
   hand-written HeapOps.encode_structural is thereby tied to generated code as well. ---- *)
Theorem encode_bipartitions_op_is_generated_structure :
  forall (h : heap) (t : tree) (su cb ss mut : bool) (acc : Z -> Z) (g : genc),
    WFt h t ->
    gen_encode_bipartitions su cb ss mut acc (rooted h) t = Ok (Some g) ->
    exists h', x_encode_bipartitions HG su cb h = MOk tt h' /\ WFt h' (ge_tree g) /\ next h' = next h.
Proof. exact gen_encode_op_structure. Qed.
Print Assumptions encode_bipartitions_op_is_generated_structure.

(* ---- Tree.reroot_at_midpoint: its POINTER BLOCK (the statements that change the object graph through
   local variables: the edge split) is compiled statement by statement from the source, whatever their
   number and order, as Tree_reroot_at_midpoint__edge_split (parameters: the variables the block reads, in
   order of first use: tail, head, length of head's edge, length of the new node's edge; result: the
   variable it assigns).  On EVERY heap it is Model/C03Split.v mid_split - literally the six steps of
   HeapOps.reroot_at_midpoint's MidEdge branch - and returns the constructed node, id `next h`. ---- *)
Theorem midpoint_split_refines : forall (ot c : Z) (hl tl : option Z) (h : heap),
  Tree_reroot_at_midpoint__edge_split HG ot c hl tl h = lift (next h) (mid_split ot c hl tl h).
Proof. exact gen_mid_split. Qed.
Print Assumptions midpoint_split_refines.

(* HeapOps.reroot_at_midpoint (the op of the history language: op_wf, history_wf, the correspondence)
   IS the program whose edge split is the generated block (the search for the edge stays hand-modelled) *)
Theorem reroot_at_midpoint_generated_split : forall (tx1 tx2 : Z) (ub su cb : bool) (h : heap),
  reroot_at_midpoint_with (Tree_reroot_at_midpoint__edge_split HG) tx1 tx2 ub su cb h
  = reroot_at_midpoint tx1 tx2 ub su cb h.
Proof. exact reroot_at_midpoint_gen_split. Qed.
Print Assumptions reroot_at_midpoint_generated_split.

(* non-vacuity: ((A:3,B:2):2,(C:2,D:4):2), the edge above node 4 split into 1 + 1 *)
Theorem midpoint_split_example :
  exists h', Tree_reroot_at_midpoint__edge_split HG 0 4 (Some 1) (Some 1) (of_tree exs_tree None) = MOk 7 h' /\
    abs h' = Some (T 0 None None None
      [T 1 None None (Some 2) [T 2 (Some 10) None (Some 3) []; T 3 (Some 11) None (Some 2) []];
       T 7 None None (Some 1) [T 4 None None (Some 1) [T 5 (Some 12) None (Some 2) []; T 6 (Some 13) None (Some 4) []]]]).
Proof. exact gen_mid_split_example. Qed.
Print Assumptions midpoint_split_example.

(* ---- Tree.shuffle_taxa compiled from the source.  `x.taxon = v` is not a field of the interface record:
   the generated definition is abstracted over the writer, instantiated here with Heap.set_taxon.  The
   scripted rng is one list of draws, one singleton [i] per rng.randrange call (sing).  Hypothesis: the
   traversal reaches no node twice - true of every well-formed heap (second theorem); on a heap in which a
   node hangs under two parents (what add_child of an attached node leaves behind, F18) the source trips
   `assert len(current_node_taxon_map) == len(node_taxa)`, which HeapOps.shuffle_taxa does not model. ---- *)
Theorem shuffle_taxa_refines : forall (ii : bool) (draws : list nat) (h : heap),
  (forall t, abs_at h (seed h) = Some t -> NoDup (if ii then pre_ids t else leaf_ids t)) ->
  to_hres (Tree_shuffle_taxa HG set_taxon ii (sing draws) h) = shuffle_taxa ii draws h.
Proof. exact gen_shuffle_taxa. Qed.
Print Assumptions shuffle_taxa_refines.

Theorem shuffle_taxa_refines_wf : forall (ii : bool) (draws : list nat) (h : heap),
  WF h -> to_hres (Tree_shuffle_taxa HG set_taxon ii (sing draws) h) = shuffle_taxa ii draws h.
Proof. exact gen_shuffle_taxa_wf. Qed.
Print Assumptions shuffle_taxa_refines_wf.

(* ===== wave 8: the error path of the GENERATED Node.remove_child =====
   On a node that is not in the receiver's child list the code compiled from the source raises ValueError
   and the state it leaves is the heap it was called on (suppress_unifurcations=False: syntactically equal;
   any mode: observationally equal, under the hypotheses of remove_child_refines).  A source in which a
   write precedes the membership test does not satisfy this (nor remove_child_plain_refines). *)
From DV Require Import Proofs.C03ErrFrame Proofs.C03GenErrFrame.

Theorem generated_remove_child_refused_frame : forall (fuel : nat) (p c : Z) (h : heap),
  memz c (kids h p) = false ->
  Node_remove_child__suppress_unifurcations_False HG p c h = MErr ValueErr h /\
  Node_remove_child HG fuel p c false h = MErr ValueErr h.
Proof. exact gen_remove_child_refused. Qed.
Print Assumptions generated_remove_child_refused_frame.

Theorem generated_remove_child_refused_frame_any_mode : forall (fuel : nat) (p c : Z) (su : bool) (h : heap),
  memz p (kids h p) = false -> (forall x, (length (kids h x) < fuel)%nat) ->
  memz c (kids h p) = false ->
  exists a, Node_remove_child HG fuel p c su h = MErr ValueErr a /\ heq a h.
Proof. exact gen_remove_child_su_refused. Qed.
Print Assumptions generated_remove_child_refused_frame_any_mode.
