(* C06 property theorems: statements only, each closed by `exact`.
   Model: Model/C06Model.v (TreeArray / SplitDistribution accumulation, SumTrees collation). *)
From Coq Require Import ZArith List Bool Permutation QArith.
From DV Require Import Model.PyPrims Model.C06Model Model.C06Queue Model.C06Hist Model.C06GenPrims Gen.TreeArrayGen
     Proofs.C06Lemmas Proofs.C06Proofs Proofs.C06Sched Proofs.C06QueueProofs Proofs.C06QueueSched
     Proofs.C06GenProofs Proofs.C06GenSched Proofs.C06Hist
     Model.C06Read Proofs.C06ReadProofs Proofs.C06GenRead.
Import ListNotations.
Open Scope Z_scope.

(* Abbreviations used in the statements below (notations: they expand in place).

   `per_tree t`   : the four parallel per-tree lists of an array, zipped:
                    (split bitmasks, edge lengths, leafset bitmask, weight) of every stored tree.
   `lists_aligned t` : the four parallel lists are equally long and every stored tree has as many edge
                    lengths as splits.
   `same_summary a b` : rooting flag and settings equal; stored trees equal as multisets of 4-tuples;
                    split_counts equal as finite maps (same keys, same count for every split);
                    per-split edge-length and node-age collections equal as multisets; totals and
                    the rooting types counted equal; both arrays aligned.
   `good_tree c r x` : the tree has rooting r and, when node ages are collected, calc_node_ages
                    does not raise on it. *)
Notation per_tree t :=
  (combine (combine (combine (ta_splits t) (ta_elens t)) (ta_leafsets t)) (ta_weights t)).

Notation lists_aligned t :=
  (length (ta_elens t) = length (ta_splits t) /\
   length (ta_leafsets t) = length (ta_splits t) /\
   length (ta_weights t) = length (ta_splits t) /\
   Forall2 (fun s e => length s = length e) (ta_splits t) (ta_elens t)).

Notation same_summary a b :=
  (ta_rooting a = ta_rooting b /\
   ta_ign_el a = ta_ign_el b /\ ta_ign_ages a = ta_ign_ages b /\ ta_use_w a = ta_use_w b /\
   Permutation (per_tree a) (per_tree b) /\
   (forall s, alook s (sd_counts (ta_sd a)) = alook s (sd_counts (ta_sd b))) /\
   (forall s, Permutation (lst s (sd_elens (ta_sd a))) (lst s (sd_elens (ta_sd b)))) /\
   (forall s, Permutation (lst s (sd_ages (ta_sd a))) (lst s (sd_ages (ta_sd b)))) /\
   sd_total (ta_sd a) = sd_total (ta_sd b) /\
   sd_sumw (ta_sd a) = sd_sumw (ta_sd b) /\
   sd_rt (ta_sd a) = sd_rt (ta_sd b) /\
   sd_rf (ta_sd a) = sd_rf (ta_sd b) /\
   lists_aligned a /\ lists_aligned b).

Notation good_tree c r x :=
  (tr_rooting x = r /\ (c_ign_ages c = false -> tr_ages_err x = None)).

Notation good_op c r o :=
  (match o with OAdd _ x _ => good_tree c r x | _ => True end).

(* 1. The parallel per-tree lists stay aligned after EVERY history of add_tree / append / insert /
      update / extend / += / + over any number of arrays with any settings - including the
      operations that raise (an exception leaves the lists alone). *)
Theorem aligned_inv : forall (cfgs : list cfg) (ops : list op),
  Forall (fun t => lists_aligned t) (run (map new_cfg cfgs) ops).
Proof. exact aligned_inv_l. Qed.
Print Assumptions aligned_inv.

(* 2. update never raises when one side is empty or when rootings and settings agree; it then
      concatenates the per-tree lists and merges the split distribution (or returns at once on an
      empty argument). *)
Theorem update_total : forall a b,
  ta_splits a = [] \/ ta_splits b = [] \/
  (ta_rooting a = ta_rooting b /\ ta_ign_el a = ta_ign_el b /\ ta_ign_ages a = ta_ign_ages b /\
   ta_use_w a = ta_use_w b) ->
  exists t', update a b = (t', None) /\
             (ta_splits b = [] -> t' = a) /\
             (ta_splits b <> [] ->
              ta_splits t' = ta_splits a ++ ta_splits b /\ ta_elens t' = ta_elens a ++ ta_elens b /\
              ta_leafsets t' = ta_leafsets a ++ ta_leafsets b /\ ta_weights t' = ta_weights a ++ ta_weights b /\
              ta_sd t' = sd_update (ta_sd a) (ta_sd b) /\
              (ta_splits a <> [] -> ta_rooting t' = ta_rooting a) /\
              (ta_splits a = [] -> ta_rooting t' = ta_rooting b)).
Proof. exact update_total_l. Qed.
Print Assumptions update_total.

(* ... and conversely every exception of update is a real disagreement between two non-empty
   arrays, and leaves the receiver untouched. *)
Theorem update_raises_only_on_disagreement : forall a b t' e,
  update a b = (t', Some e) ->
  t' = a /\ ta_splits a <> [] /\ ta_splits b <> [] /\
  ((e = EIncRooting /\ ta_rooting a <> ta_rooting b) \/
   (e = EIncEdgeLens /\ ta_ign_el a <> ta_ign_el b) \/
   (e = EIncNodeAges /\ ta_ign_ages a <> ta_ign_ages b) \/
   (e = EIncWeights /\ ta_use_w a <> ta_use_w b)).
Proof. exact update_raises_only_l. Qed.
Print Assumptions update_raises_only_on_disagreement.

(* The full-strength statement for extend / += / + would be the one of update_total (an empty side
   is compatible with everything).  It does NOT hold for the code as it is: extend asserts
   identical rooting flags even when one side is empty.  What holds: *)
Theorem extend_total_partial : forall a b,
  ta_rooting a = ta_rooting b -> ta_ign_el a = ta_ign_el b -> ta_ign_ages a = ta_ign_ages b ->
  ta_use_w a = ta_use_w b ->
  extend a b = (extend_lists a b, None).
Proof. exact extend_total_partial_l. Qed.
Print Assumptions extend_total_partial.

(* ... and the witness against the full statement: a one-tree unrooted array and a fresh empty
   array (same settings): extend, += and + raise AssertionError in both directions, update
   accepts both. *)
Theorem extend_total_refuted :
  exists a b,
    a = fst (add_tree (new_cfg ex_cfg) (ex_rec (Some false)) None) /\ b = new_cfg ex_cfg /\
    ta_splits b = [] /\ ta_ign_el a = ta_ign_el b /\ ta_ign_ages a = ta_ign_ages b /\ ta_use_w a = ta_use_w b /\
    extend a b = (a, Some (EPy AssertErr)) /\ extend b a = (b, Some (EPy AssertErr)) /\
    plus a b = (None, Some (EPy AssertErr)) /\ plus b a = (None, Some (EPy AssertErr)) /\
    (exists t', update a b = (t', None)) /\ (exists t', update b a = (t', None)).
Proof. exact extend_empty_refuted_l. Qed.
Print Assumptions extend_total_refuted.

(* F20 seen from here: two trees of UNDEFINED rooting reach add_tree with rooting None and
   Some false (encode_bipartitions rewrites an undefined rooting to "unrooted" on a tree with a
   basal bifurcation).  Both are counted as unrooted trees, yet the collections refuse to merge,
   and adding the two trees to one array works in one order and raises in the other. *)
Theorem undefined_rooting_merge_refuted :
  exists a b,
    a = fst (add_tree (new_cfg ex_cfg) (ex_rec None) None) /\
    b = fst (add_tree (new_cfg ex_cfg) (ex_rec (Some false)) None) /\
    sd_rt (ta_sd a) = false /\ sd_rt (ta_sd b) = false /\
    update a b = (a, Some EIncRooting) /\ update b a = (b, Some EIncRooting) /\
    extend a b = (a, Some (EPy AssertErr)).
Proof. exact undefined_rooting_merge_refuted_l. Qed.
Print Assumptions undefined_rooting_merge_refuted.

Theorem undefined_rooting_order_refuted :
  exists x y t1 t2,
    tr_rooted x = false /\ tr_rooted y = false /\
    add_all (new_cfg ex_cfg) [x; y] = (t1, None) /\
    add_all (new_cfg ex_cfg) [y; x] = (t2, Some EMixedRooting).
Proof. exact undefined_rooting_order_refuted_l. Qed.
Print Assumptions undefined_rooting_order_refuted.

(* The repaired forms (Model: extend_r / plus_r = "return on an empty argument, an empty receiver of
   undefined rooting takes over the argument's rooting"; add_tree_r = "an undefined rooting is
   treated as unrooted before validate_rooting").  The harness determines on every run which form
   the working tree has (evidence: notes) and checks the correspondence against that form.  Under
   the repaired forms the full-strength statements hold: *)
Theorem extend_total_repaired : forall a b,
  ta_ign_el a = ta_ign_el b -> ta_ign_ages a = ta_ign_ages b -> ta_use_w a = ta_use_w b ->
  ta_splits b = [] \/ (ta_splits a = [] /\ ta_rooting a = None) \/ ta_rooting a = ta_rooting b ->
  exists t', extend_r a b = (t', None) /\
             (ta_splits b = [] -> t' = a) /\
             (ta_splits b <> [] ->
              ta_splits t' = ta_splits a ++ ta_splits b /\ ta_elens t' = ta_elens a ++ ta_elens b /\
              ta_leafsets t' = ta_leafsets a ++ ta_leafsets b /\ ta_weights t' = ta_weights a ++ ta_weights b /\
              ta_sd t' = sd_update (ta_sd a) (ta_sd b) /\ ta_rooting t' = ta_rooting b).
Proof. exact extend_r_total_l. Qed.
Print Assumptions extend_total_repaired.

(* ... the witness of extend_total_refuted is accepted by the repaired form, in both directions *)
Theorem extend_repaired_example :
  exists a b ab ba,
    a = fst (add_tree (new_cfg ex_cfg) (ex_rec (Some false)) None) /\ b = new_cfg ex_cfg /\
    extend_r a b = (a, None) /\ extend_r b a = (ba, None) /\ plus_r a b = (Some ab, None) /\
    plus_r b a = (Some ba, None) /\ ta_rooting ba = Some false /\ ta_splits ba = ta_splits a.
Proof. exact extend_r_example_l. Qed.
Print Assumptions extend_repaired_example.

(* ... and with the repaired add_tree partition invariance needs only "all trees rooted, or none"
   (unrooted and undefined rooting may be mixed freely, whatever encode_bipartitions did before) *)
Theorem merge_partition_invariant_repaired : forall (c : cfg) (rooted : bool) (trees : list trec) (parts : list (list trec)),
  (c_rooting c = None \/ c_rooting c = Some rooted) ->
  Forall (fun x => tr_rooted x = rooted /\ (c_ign_ages c = false -> tr_ages_err x = None)) trees ->
  Permutation (concat parts) trees ->
  exists m s,
    collate (new_cfg c) (map (fun p => add_all (new_cfg c) (map norm_rooting p)) parts) = (m, None) /\
    add_all (new_cfg c) (map norm_rooting trees) = (s, None) /\
    same_summary m s.
Proof. exact merge_partition_repaired_l. Qed.
Print Assumptions merge_partition_invariant_repaired.

Theorem undefined_rooting_repaired_example :
  exists a b t1 t2,
    a = fst (add_tree_r (new_cfg ex_cfg) (ex_rec None) None) /\
    b = fst (add_tree_r (new_cfg ex_cfg) (ex_rec (Some false)) None) /\
    (exists t', update a b = (t', None)) /\ (exists t', update b a = (t', None)) /\
    add_all (new_cfg ex_cfg) (map norm_rooting [ex_rec None; ex_rec (Some false)]) = (t1, None) /\
    add_all (new_cfg ex_cfg) (map norm_rooting [ex_rec (Some false); ex_rec None]) = (t2, None).
Proof. exact undefined_rooting_repaired_example_l. Qed.
Print Assumptions undefined_rooting_repaired_example.

(* 3. Partition invariance.  For trees that all reach add_tree with the same rooting r (and
      arrays created with is_rooted_trees = None or r, identical settings): split the sample into
      ANY sub-lists (any of them empty, any order inside and between them: every list `parts`
      whose concatenation is a permutation of the sample), build each part in its own array by
      add_tree, merge the partial arrays in that order into a fresh array with update: nothing
      raises, and the result has the same summary as adding the trees one at a time. *)
Theorem merge_partition_invariant : forall (c : cfg) (r : option bool) (trees : list trec) (parts : list (list trec)),
  (c_rooting c = None \/ c_rooting c = r) ->
  Forall (fun x => good_tree c r x) trees ->
  Permutation (concat parts) trees ->
  exists m s,
    collate (new_cfg c) (map (add_all (new_cfg c)) parts) = (m, None) /\
    add_all (new_cfg c) trees = (s, None) /\
    same_summary m s.
Proof. exact merge_partition_l. Qed.
Print Assumptions merge_partition_invariant.

(* 3'. The same for arbitrary interleavings: two histories of add_tree / append / insert (any index)
      / update / extend / += / + over n1 resp. n2 arrays (all created with configuration c).
      `run_pool` tracks beside the arrays which trees each one is supposed to hold (a failed
      extend / + adds nothing).  Any two arrays - of the same or of different histories - that are
      supposed to hold the same multiset of trees have the same summary. *)
Theorem merge_history_invariant : forall c r n1 n2 ops1 ops2 w1 g1 w2 g2 i j t1 t2,
  (c_rooting c = None \/ c_rooting c = r) ->
  Forall (fun o => good_op c r o) ops1 -> Forall (fun o => good_op c r o) ops2 ->
  run_pool (repeat (new_cfg c) n1) (repeat [] n1) ops1 = (w1, g1) ->
  run_pool (repeat (new_cfg c) n2) (repeat [] n2) ops2 = (w2, g2) ->
  nth_error w1 i = Some t1 -> nth_error w2 j = Some t2 ->
  Permutation (nth i g1 []) (nth j g2 []) ->
  same_summary t1 t2.
Proof. exact merge_history_invariant_l. Qed.
Print Assumptions merge_history_invariant.

(* 4. SumTrees.  For every number of worker processes >= 1, every assignment of the input files to
      workers (workers without a file included) and every arrival order of the workers' results,
      the collated master array has the same summary as the array of serial mode. *)
Theorem schedule_irrelevant : forall (c : cfg) (r : option bool) (s : sched) (files : list (list trec)),
  (c_rooting c = None \/ c_rooting c = r) ->
  Forall (fun x => good_tree c r x) (concat files) ->
  ((1 <= s_workers s)%nat /\
   length (s_assign s) = length files /\
   Forall (fun w => (w < s_workers s)%nat) (s_assign s) /\
   Permutation (s_arrival s) (seq 0 (s_workers s))) ->
  exists m t,
    parallel_collate c s files = (m, None) /\ serial c files = (t, None) /\ same_summary m t.
Proof. exact schedule_irrelevant_l. Qed.
Print Assumptions schedule_irrelevant.

(* 4'. What "same summary" carries over to.  Frequencies, hence the consensus tree and the support
      values, are functions of the count map and the totals: ANY function of the count map (that
      only looks at its values) and of total_trees_counted / sum_of_tree_weights agrees ... *)
Theorem summary_functions_agree : forall a b, same_summary a b ->
  forall (X : Type) (F : (Z -> option Z) -> Z -> Z -> X),
    (forall f g n w, (forall s, f s = g s) -> F f n w = F g n w) ->
    F (fun s => alook s (sd_counts (ta_sd a))) (sd_total (ta_sd a)) (sd_sumw (ta_sd a))
    = F (fun s => alook s (sd_counts (ta_sd b))) (sd_total (ta_sd b)) (sd_sumw (ta_sd b)).
Proof. exact functions_of_counts_l. Qed.
Print Assumptions summary_functions_agree.

(* ... in particular the split frequencies themselves, and the multiset of per-tree scores (sum of
   split supports / product of split supports) ... *)
Theorem frequencies_and_scores_agree : forall a b, same_summary a b ->
  (forall s, freq (ta_sd a) s = freq (ta_sd b) s) /\
  (forall k incl,
     Permutation (map (tree_score k (freq (ta_sd a)) incl) (combine (ta_leafsets a) (ta_splits a)))
                 (map (tree_score k (freq (ta_sd b)) incl) (combine (ta_leafsets b) (ta_splits b)))).
Proof. exact (fun a b E => conj (equiv_freq a b E) (fun k incl => equiv_scores_perm k incl a b E)). Qed.
Print Assumptions frequencies_and_scores_agree.

(* ... so the maximum-credibility SCORE is the same, the rooting handed to the restored tree is the
   same, and the maximum-credibility TOPOLOGY (split list of the chosen tree) is the same whenever
   all maximisers of the second array have the same split list. *)
Theorem mcc_agrees : forall k incl a b qa spa ela ra qb spb elb rb,
  same_summary a b ->
  mcc k incl a = Ok (qa, (spa, ela, ra)) ->
  mcc k incl b = Ok (qb, (spb, elb, rb)) ->
  (qa == qb)%Q /\ ra = rb /\
  ((forall i i' q q' sp sp',
       nth_error (map (tree_score k (freq (ta_sd b)) incl) (combine (ta_leafsets b) (ta_splits b))) i = Some q ->
       nth_error (map (tree_score k (freq (ta_sd b)) incl) (combine (ta_leafsets b) (ta_splits b))) i' = Some q' ->
       (forall x, In x (map (tree_score k (freq (ta_sd b)) incl) (combine (ta_leafsets b) (ta_splits b))) -> (x <= q)%Q) ->
       (forall x, In x (map (tree_score k (freq (ta_sd b)) incl) (combine (ta_leafsets b) (ta_splits b))) -> (x <= q')%Q) ->
       nth_error (ta_splits b) i = Some sp -> nth_error (ta_splits b) i' = Some sp' -> sp = sp') ->
   spa = spb).
Proof. exact mcc_equiv_l. Qed.
Print Assumptions mcc_agrees.

(* 5. After any history (failed operations included) every per-tree query of every array is defined:
      the score calculations do not hit their assert and return one score per tree and, on a
      non-empty array, an index inside the array; restore_tree is defined for every Python index in
      range; split_bitmask_set_frequencies passes its assert; the maximum-credibility tree is
      defined on every non-empty array. *)
Theorem queries_after_merge : forall (cfgs : list cfg) (ops : list op) (k : score_kind) (incl : bool),
  Forall (fun t =>
    (exists sc idx, calc_scores k incl t = Ok (sc, idx) /\ length sc = length (ta_splits t) /\
                    (ta_splits t <> [] -> exists j, idx = Some j /\ (j < length (ta_splits t))%nat)) /\
    (forall i, - Z.of_nat (length (ta_splits t)) <= i < Z.of_nat (length (ta_splits t)) ->
               exists args, restore_args t i = Ok args) /\
    topology_freqs_pre t = true /\
    (ta_splits t <> [] -> exists q args, mcc k incl t = Ok (q, args)))
  (run (map new_cfg cfgs) ops).
Proof.
  exact (fun cfgs ops k incl =>
           Forall_impl _ (fun t A => queries_defined_l k incl t A) (aligned_inv_l cfgs ops)).
Qed.
Print Assumptions queries_after_merge.

(* Non-vacuity: a configuration, files and a schedule (3 workers for 2 files, one worker idle, the
   idle worker's result arriving between the others) satisfying the hypotheses of 3-4, and what
   the collation computes on it. *)
Theorem hypotheses_satisfiable :
  (c_rooting ex_cfg = None \/ c_rooting ex_cfg = Some false) /\
  Forall (fun x => good_tree ex_cfg (Some false) x) (concat ex_files) /\
  ((1 <= s_workers ex_sched)%nat /\
   length (s_assign ex_sched) = length ex_files /\
   Forall (fun w => (w < s_workers ex_sched)%nat) (s_assign ex_sched) /\
   Permutation (s_arrival ex_sched) (seq 0 (s_workers ex_sched))) /\
  exists m, parallel_collate ex_cfg ex_sched ex_files = (m, None) /\
            Z.of_nat (length (ta_splits m)) = 3 /\ cnt 3 (sd_counts (ta_sd m)) = 3 * UNITW /\
            ta_rooting m = Some false.
Proof.
  exact (conj (proj1 ex_hypotheses) (conj (proj1 (proj2 ex_hypotheses))
          (conj (proj2 (proj2 ex_hypotheses)) ex_schedule_runs))).
Qed.
Print Assumptions hypotheses_satisfiable.

(* 3''. Histories over the forms the source has NOW (add_tree_r, extend_r, plus_r: step_v true true).
      All trees rooted, or none of them (unrooted and undefined rooting mixed freely, whatever
      encode_bipartitions did to them before); every array created with the same settings and
      is_rooted_trees = None or that rooting; every operation names existing arrays.  Then for all
      interleavings of add_tree / append / insert (any index) / update / extend / += / +:
      NO operation raises - merging never fails, empty sides included -, and any two arrays (of the
      same or of different histories) that should hold the same multiset of trees have the same
      summary. *)
Theorem merge_history_invariant_repaired : forall c rooted n1 n2 ops1 ops2 w1 g1 es1 w2 g2 es2 i j t1 t2,
  (c_rooting c = None \/ c_rooting c = Some rooted) ->
  Forall (fun o => match o with
                   | OAdd _ x _ => tr_rooted x = rooted /\ (c_ign_ages c = false -> tr_ages_err x = None)
                   | _ => True end) ops1 ->
  Forall (fun o => match o with
                   | OAdd _ x _ => tr_rooted x = rooted /\ (c_ign_ages c = false -> tr_ages_err x = None)
                   | _ => True end) ops2 ->
  Forall (fun o => op_in_range n1 o = true) ops1 -> Forall (fun o => op_in_range n2 o = true) ops2 ->
  run_pool_v true true (repeat (new_cfg c) n1) (repeat [] n1) ops1 = (w1, g1, es1) ->
  run_pool_v true true (repeat (new_cfg c) n2) (repeat [] n2) ops2 = (w2, g2, es2) ->
  Forall (fun e => e = None) es1 /\ Forall (fun e => e = None) es2 /\
  (nth_error w1 i = Some t1 -> nth_error w2 j = Some t2 ->
   Permutation (nth i g1 []) (nth j g2 []) -> same_summary t1 t2).
Proof. exact merge_history_repaired_l. Qed.
Print Assumptions merge_history_invariant_repaired.

(* ======================================================================================== *)
(* 6. The hand-out protocol (Model/C06Queue.v): which worker reads which file.             *)
(*    schedule_irrelevant quantifies over assignments files -> workers; here it is shown   *)
(*    that EVERY interleaving of the actors of the marker protocol produces one.           *)
(* ======================================================================================== *)

(* The parent has put the sources and then one None marker per worker (the feeder thread moves them
   from its buffer into the pipe one by one: action Feed); every worker loops get() until it reads a
   marker (Get w; on an empty pipe get() blocks: not enabled) and then puts its result (Put w).
   For every interleaving `acts` of these actions that is executable from the initial state:
   (a) as long as a worker has not finished, some action is enabled (nobody waits for ever: a worker
       inside the loop either can get, or the feeder still has something to flush);
   (b) the execution has at most 2*files + 3*workers steps;
   (c) when nothing can move any more, exactly that many steps have been made, queue and buffer are
       empty, every worker has finished; the k-th get of the interleaving received the k-th item:
       the first `files` gets took the sources - so  firstn files (gets_of acts)  is a TOTAL
       assignment files -> workers -, the last `workers` gets took the markers and were made by
       pairwise different workers (every worker left its loop after exactly one marker); the results
       arrive in an order that is a permutation of the workers; and every worker received exactly
       the files the assignment gives it, in queue order (worker_files). *)
Theorem handout_protocol_total : forall (A : Type) (files : list A) (n : nat) (acts : list act) (s : pst A),
  (1 <= n)%nat ->
  exec step_new (init_new files n) acts = Some s ->
  ((exists w x, nth_error (p_workers s) w = Some x /\ w_phase x <> Finished) -> exists a, step_new s a <> None) /\
  (length acts <= 2 * length files + 3 * n)%nat /\
  (quiescent step_new s ->
     length acts = (2 * length files + 3 * n)%nat /\
     p_queue s = [] /\ p_buf s = [] /\
     Forall (fun x => w_phase x = Finished) (p_workers s) /\
     length (gets_of acts) = (length files + n)%nat /\
     Forall (fun w => (w < n)%nat) (gets_of acts) /\
     Permutation (skipn (length files) (gets_of acts)) (seq 0 n) /\
     Permutation (p_results s) (seq 0 n) /\
     forall w x, nth_error (p_workers s) w = Some x ->
                 w_recv x = worker_files (mkSched n (firstn (length files) (gets_of acts)) (p_results s)) files w).
Proof. exact handout_protocol_total_l. Qed.
Print Assumptions handout_protocol_total.

(* ... hence the schedule induced by ANY complete execution of the protocol satisfies the hypotheses of
   schedule_irrelevant, the arrays of the workers are the model's worker results, and the collated
   master array has the same summary as serial mode. *)
Theorem handout_then_schedule_irrelevant : forall (c : cfg) (r : option bool) (files : list (list trec)) (n : nat)
                                                  (acts : list act) (s : pst (list trec)),
  (c_rooting c = None \/ c_rooting c = r) ->
  Forall (fun x => good_tree c r x) (concat files) ->
  (1 <= n)%nat ->
  exec step_new (init_new files n) acts = Some s ->
  quiescent step_new s ->
  ((1 <= n)%nat /\
   length (firstn (length files) (gets_of acts)) = length files /\
   Forall (fun w => (w < n)%nat) (firstn (length files) (gets_of acts)) /\
   Permutation (p_results s) (seq 0 n)) /\
  (forall w x, nth_error (p_workers s) w = Some x ->
               w_recv x = worker_files (mkSched n (firstn (length files) (gets_of acts)) (p_results s)) files w) /\
  exists m t,
    parallel_collate c (mkSched n (firstn (length files) (gets_of acts)) (p_results s)) files = (m, None) /\
    serial c files = (t, None) /\ same_summary m t.
Proof. exact handout_then_collate_l. Qed.
Print Assumptions handout_then_schedule_irrelevant.

(* The OLD protocol (no markers, get_nowait, queue.Empty ends the worker) admits complete executions
   that lose files: with two sources and two workers, (1) both workers look at the pipe before the
   feeder has flushed anything - nobody reads anything, both sources stay in the pipe for ever;
   (2) the feeder has flushed one source when the workers look again - the second source is lost.
   In both final states no actor can move and every worker has finished normally. *)
Theorem old_protocol_total_refuted :
  exists (acts1 acts2 : list act) (s1 s2 : pst nat),
    exec step_old (init_old [10; 20]%nat 2) acts1 = Some s1 /\ quiescent step_old s1 /\
    Forall (fun x => w_phase x = Finished) (p_workers s1) /\
    flat_map w_recv (p_workers s1) = [] /\ p_queue s1 = [Some 10; Some 20]%nat /\
    exec step_old (init_old [10; 20]%nat 2) acts2 = Some s2 /\ quiescent step_old s2 /\
    Forall (fun x => w_phase x = Finished) (p_workers s2) /\
    flat_map w_recv (p_workers s2) = [10]%nat /\ p_queue s2 = [Some 20]%nat.
Proof. exact old_protocol_drops_files_l. Qed.
Print Assumptions old_protocol_total_refuted.

(* ======================================================================================== *)
(* 7. Translator tie.  Gen/TreeArrayGen.v is regenerated from the working tree on every run  *)
(*    (py/dv/gen_treearray.py, primitives: Model/C06GenPrims.v).  The generated functions   *)
(*    equal the hand-written model; "no key twice" (a real dict) is the only side condition *)
(*    and holds in every reachable state (gen_history_refines).                             *)
(* ======================================================================================== *)

Theorem gen_validate_rooting_refines : forall t r,
  gen_validate_rooting t r = match validate_rooting t r with inl t1 => (t1, None) | inr e => (t, Some e) end.
Proof. exact gen_validate_rooting_eq. Qed.
Print Assumptions gen_validate_rooting_refines.

Theorem gen_sd_update_refines : forall a b,
  NoDup (keys (sd_counts b)) -> gen_sd_update a b = sd_update a b.
Proof. exact gen_sd_update_eq. Qed.
Print Assumptions gen_sd_update_refines.

Theorem gen_update_refines : forall a b,
  NoDup (keys (sd_counts (ta_sd b))) -> gen_update a b = update a b.
Proof. exact gen_update_eq. Qed.
Print Assumptions gen_update_refines.

Theorem gen_add_tree_refines : forall t x is_bipartitions_updated index,
  gen_add_tree t x is_bipartitions_updated index = add_tree_r t x index.
Proof. exact gen_add_tree_eq. Qed.
Print Assumptions gen_add_tree_refines.

Theorem gen_extend_refines : forall a b,
  NoDup (keys (sd_counts (ta_sd b))) ->
  gen_extend a b = extend_r a b /\ gen_iadd a b = extend_r a b.
Proof. exact (fun a b N => conj (gen_extend_eq a b N) (gen_iadd_eq a b N)). Qed.
Print Assumptions gen_extend_refines.

Theorem gen_add_refines : forall a b,
  NoDup (keys (sd_counts (ta_sd a))) -> NoDup (keys (sd_counts (ta_sd b))) -> gen_add a b = plus_r a b.
Proof. exact gen_add_eq. Qed.
Print Assumptions gen_add_refines.

(* SumTrees: the three arrays are created with the processor's settings; the collation loop over the
   arrival sequence of the results is the model's collate *)
Theorem gen_sumtrees_refines : forall c results,
  gen_worker_array c = new_cfg c /\ gen_serial_array c = new_cfg c /\ gen_master_array c = new_cfg c /\
  (Forall (fun r => NoDup (keys (sd_counts (ta_sd (fst r))))) results ->
   gen_collate_loop results (gen_master_array c) 0 (length results) = collate (new_cfg c) results).
Proof.
  exact (fun c results => conj (proj1 (gen_arrays_eq c)) (conj (proj1 (proj2 (gen_arrays_eq c)))
           (conj (proj2 (proj2 (gen_arrays_eq c))) (gen_collate_eq c results)))).
Qed.
Print Assumptions gen_sumtrees_refines.

(* whole histories: running any history over fresh arrays with the generated functions gives, step by
   step, the exceptions and the arrays of the hand model (in its repaired forms add_tree_r / extend_r /
   plus_r, which is what the source has now) *)
Theorem gen_history_refines : forall (cfgs : list cfg) (ops : list op),
  let run_with (stp : list tarr -> op -> list tarr * option terr) :=
      fix go (w : list tarr) (ops : list op) : list (option terr) * list tarr :=
        match ops with
        | [] => ([], w)
        | o :: r => let '(w', e) := stp w o in let '(es, wf) := go w' r in (e :: es, wf)
        end in
  run_with gen_step (map new_cfg cfgs) ops = run_with (step_v true true) (map new_cfg cfgs) ops.
Proof. exact gen_history_eq. Qed.
Print Assumptions gen_history_refines.

(* the property about the generated code: the SumTrees pipeline assembled from the generated add_tree,
   update, arrays and collation loop gives the same summary under every schedule as in serial mode *)
Theorem schedule_irrelevant_generated : forall (c : cfg) (rooted : bool) (s : sched) (files : list (list trec)),
  (c_rooting c = None \/ c_rooting c = Some rooted) ->
  Forall (fun x => tr_rooted x = rooted /\ (c_ign_ages c = false -> tr_ages_err x = None)) (concat files) ->
  ((1 <= s_workers s)%nat /\
   length (s_assign s) = length files /\
   Forall (fun w => (w < s_workers s)%nat) (s_assign s) /\
   Permutation (s_arrival s) (seq 0 (s_workers s))) ->
  exists m t, gen_parallel c s files = (m, None) /\ gen_serial c files = (t, None) /\ same_summary m t.
Proof. exact schedule_irrelevant_generated_l. Qed.
Print Assumptions schedule_irrelevant_generated.

(* the hand-out protocol that the SOURCE uses (facts read off TreeAnalysisWorker.run and
   parallel_analyze_trees by the translator: blocking get, leaves the loop on a None marker and not on
   queue.Empty, parent puts the sources and then one marker per started worker, result put after the
   loop) is the marker protocol, so handout_protocol_total is a statement about it *)
Theorem source_handout_protocol_total : forall (A : Type) (files : list A) (n : nat) (acts : list act) (s : pst A),
  (1 <= n)%nat ->
  exec (step_of_protocol source_uses_marker_protocol) (init_of_protocol source_uses_marker_protocol files n) acts = Some s ->
  quiescent (step_of_protocol source_uses_marker_protocol) s ->
  p_queue s = [] /\ p_buf s = [] /\
  Forall (fun x => w_phase x = Finished) (p_workers s) /\
  length (gets_of acts) = (length files + n)%nat /\
  Forall (fun w => (w < n)%nat) (gets_of acts) /\
  Permutation (skipn (length files) (gets_of acts)) (seq 0 n) /\
  Permutation (p_results s) (seq 0 n) /\
  forall w x, nth_error (p_workers s) w = Some x ->
              w_recv x = worker_files (mkSched n (firstn (length files) (gets_of acts)) (p_results s)) files w.
Proof. exact source_handout_total_l. Qed.
Print Assumptions source_handout_protocol_total.

(* ======================================================================================== *)
(* 8. Several SOURCES read with a per-source burn-in (TreeArray.read_from_files, keyword      *)
(*    tree_offset; SumTrees --burnin).  The tree yielder is an input: the list of             *)
(*    (current_file_index, tree) pairs; `yield_from 0 srcs` is what it delivers for sources   *)
(*    holding the trees srcs (a source WITHOUT trees - NEXUS file with only a TAXA block or   *)
(*    an empty TREES block - contributes no pair, so the index skips a value).                *)
(* ======================================================================================== *)

(* 8.1 The burn-in counter loop (hand model of the loop of read_from_files; either form of add_tree)
       on the yielder's output for ANY list of sources - tree-less ones in any position, any
       tree_offset - adds exactly the trees of every source minus its first tree_offset ones, in
       order, and stops at the first exception like add_tree one by one does. *)
Theorem read_from_files_is_per_source_burnin : forall (vu : bool) (t : tarr) (off : Z) (srcs : list (list trec)),
  read_from_files_v vu t off (yield_from 0 srcs)
  = add_all_v vu t (concat (map (skipn (Z.to_nat off)) srcs)).
Proof. exact read_from_files_per_source. Qed.
Print Assumptions read_from_files_is_per_source_burnin.

(* 8.2 One serial pass over all sources = one read_from_files / read_from_path call per source on the
       same array (what a worker process does with the files it fetches). *)
Theorem read_serial_equals_one_call_per_source : forall (vu : bool) (t : tarr) (off : Z) (srcs : list (list trec)),
  read_from_files_v vu t off (yield_from 0 srcs) = read_each_v vu t off srcs.
Proof. exact read_serial_eq_read_each. Qed.
Print Assumptions read_serial_equals_one_call_per_source.

(* 8.3 Translator tie: the loop GENERATED from the current source equals the hand model on every
       sequence of (file index, tree) pairs (grouped by source or not), for every tree_offset. *)
Theorem gen_read_from_files_refines : forall (t : tarr) (off : Z) (ys : list (Z * trec)),
  gen_read_from_files t off ys = read_from_files_v true t off ys.
Proof. exact gen_read_from_files_eq. Qed.
Print Assumptions gen_read_from_files_refines.

(* 8.4 Hence the generated read_from_files on the yielder's output = the generated add_tree over the
       per-source lists with their first tree_offset trees dropped. *)
Theorem gen_read_from_files_per_source_burnin : forall (t : tarr) (off : Z) (srcs : list (list trec)),
  gen_read_from_files t off (yield_from 0 srcs)
  = gen_add_all t (concat (map (skipn (Z.to_nat off)) srcs)).
Proof. exact gen_read_from_files_per_source. Qed.
Print Assumptions gen_read_from_files_per_source_burnin.

(* 8.5 The property for the generated SumTrees pipeline WITH a burn-in: serial mode (one
       read_from_files over all files) and every schedule of worker processes (each worker one
       read_from_files call per file it fetched, results collated in any arrival order; files without
       trees, workers without files included) give the same summary. *)
Theorem burnin_schedule_irrelevant_generated :
  forall (c : cfg) (rooted : bool) (off : Z) (s : sched) (files : list (list trec)),
  (c_rooting c = None \/ c_rooting c = Some rooted) ->
  Forall (fun x => tr_rooted x = rooted /\ (c_ign_ages c = false -> tr_ages_err x = None)) (concat files) ->
  ((1 <= s_workers s)%nat /\
   length (s_assign s) = length files /\
   Forall (fun w => (w < s_workers s)%nat) (s_assign s) /\
   Permutation (s_arrival s) (seq 0 (s_workers s))) ->
  exists m t, gen_parallel_b c off s files = (m, None) /\ gen_serial_b c off files = (t, None) /\ same_summary m t.
Proof. exact burnin_schedule_irrelevant_generated_l. Qed.
Print Assumptions burnin_schedule_irrelevant_generated.

(* the hypotheses are satisfiable: three files, the middle one without trees, burn-in 1, two workers,
   the worker of the last file arrives first; 2 of the 4 trees survive in either mode *)
Theorem burnin_hypotheses_satisfiable :
  exists m t,
    gen_parallel_b (mkCfg None false true false) 1 (mkSched 2 [0; 1; 1]%nat [1; 0]%nat) ex_sources = (m, None) /\
    gen_serial_b (mkCfg None false true false) 1 ex_sources = (t, None) /\
    length (ta_splits m) = 2%nat /\ length (ta_splits t) = 2%nat /\
    ta_splits m = rev (ta_splits t).
Proof. exact burnin_schedule_example. Qed.
Print Assumptions burnin_hypotheses_satisfiable.

(* 8.6 The restart test of the loop matters.  The loop that restarts the per-source count when the
       yielder's file index EQUALS THE NUMBER OF SOURCES STARTED SO FAR (instead of: differs from the
       previous tree's) is refuted by three sources whose middle one has no trees: with burn-in 1 it
       keeps 3 trees (both trees of the last source), the per-source definition keeps 2. *)
Theorem restart_on_count_of_started_sources_refuted :
  exists t1 t2,
    read_loop_started ex_array 1 0 0 (yield_from 0 ex_sources) = (t1, None) /\
    read_from_files_v false ex_array 1 (yield_from 0 ex_sources) = (t2, None) /\
    length (ta_splits t1) = 3%nat /\ length (ta_splits t2) = 2%nat /\
    cnt 5 (sd_counts (ta_sd t1)) = 2 * UNITW /\ cnt 5 (sd_counts (ta_sd t2)) = UNITW.
Proof. exact restart_on_count_of_started_sources_wrong. Qed.
Print Assumptions restart_on_count_of_started_sources_refuted.

(* 8.7 gen_serial_b / gen_parallel_b above are how SumTrees uses read_from_files: facts read off
       sumtrees._read_into_tree_array, TreeAnalysisWorker.run/__init__, serial_analyze_trees and
       parallel_analyze_trees by the translator (quiet mode is read_from_files(files=tree_sources,
       tree_offset=tree_offset); serial mode passes all sources, a worker one fetched source per call;
       both pass the caller's tree_offset).  The progress-logging loop (log_frequency > 0) is exercised
       by the correspondence check only. *)
Theorem source_burnin_wiring : source_burnin_reaches_read_from_files = true.
Proof. exact source_burnin_wiring_l. Qed.
Print Assumptions source_burnin_wiring.
