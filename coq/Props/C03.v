(* C03 property theorems: statements only, each closed by `exact`.

   Vocabulary (definitions live in Model/ and Proofs/, none is made up to hide a statement):
     heap, run_op, run_hist, abs            Model/Heap.v, Model/HeapOps.v  (the executable model)
     spec_su, spec_collapse, spec_reseed,
     spec_prune, spec_collapse_basal,
     spec_encode, bump                      Model/C03Spec.v  (rose-tree specifications)
     rep h par t                            Proofs/C03Base.v: the cells reachable from t's root spell
                                            out exactly t (parent pointers, ordered child lists, fields)
     Wr h t   = rep h None t /\ NoDup (ids t) /\ all ids < next h
     WFt h t  = Wr h t /\ t_id t = seed h
     WF h     = exists t, WFt h t           the invariant; `wf_meaning` spells it out pointer-wise
     plug c s                               the tree obtained by putting subtree s into the one-hole context c
     live h x, covered h o, documented,
     valid_hist                             Proofs/C03Hist.v

   op_wf / history_wf cover EVERY operation of Model/HeapOps.v `op` (Proofs/C03Hist2.v `covered2`), on
   arguments that are live nodes of the current tree (detached subtrees for add_child / insert_child /
   set_child_nodes), for all flag values, scripts that do not run out (HFuel is excluded by
   hypothesis exactly there), with three exclusions, each of which is FALSE and proved so:
     - OEdgeInvert as a stand-alone operation                       edge_invert_alone_not_wf
     - OToOutgroup with suppress_unifurcations=True when the outgroup is the seed's only child or
       itself has exactly one child                                 to_outgroup_su_refuted_seed / _unary
     - ORandomlyReorient when it picks a leaf that is the seed's only child (same defect)
   op_wf_documented_errors is the earlier, finer statement for 23 operation kinds: which exception,
   and that the heap is untouched / reduced to the seed alone. *)
From Coq Require Import ZArith List Bool Permutation.
From DV Require Import Model.PyPrims Model.Tree Model.Heap Model.HeapOps Model.C03Spec
  Proofs.C03Base Proofs.C03Abs Proofs.C03Local Proofs.C03Prims Proofs.C03Collapse Proofs.C03Suppress
  Proofs.C03Reseed Proofs.C03Order Proofs.C03Ops Proofs.C03SpecLinks Proofs.C03Ops2 Proofs.C03Unweighted
  Proofs.C03PruneLoops Proofs.C03Hist Proofs.C03Thms Proofs.C03More Proofs.C03More2 Proofs.C03More3
  Proofs.C03SetKids Proofs.C03RemoveSu Proofs.C03Resolve Proofs.C03Midpoint Proofs.C03Hist2 Proofs.C03Thms2
  Proofs.C03Trav Proofs.C03PruneSpec Proofs.C03Bip Proofs.C03Outgroup Proofs.C03Variants Proofs.C03ShuffleSpec.
From DV Require Import Model.C03Bip.
Import ListNotations.
Open Scope Z_scope.

(* What the invariant says about the pointers: the abstraction succeeds (the child pointers from the
   seed form a finite tree), no node is reached twice (nothing shared or cyclic), the seed has no
   parent, and for every reachable node p the child list has no duplicates and lists exactly the
   reachable nodes whose parent pointer is p. *)
Theorem wf_meaning : forall h,
  WF h ->
  exists t, abs h = Some t /\ NoDup (ids t) /\ t_id t = seed h /\ parent h (seed h) = None /\
    forall p, In p (ids t) ->
      NoDup (kids h p) /\
      forall ci, In ci (kids h p) <-> (In ci (ids t) /\ parent h ci = Some p).
Proof. exact wf_meaning_l. Qed.
Print Assumptions wf_meaning.

(* Every duplicate-free rose tree is the abstraction of a well-formed heap (non-vacuity of WF for
   all trees, and the fuel of abs suffices). *)
Theorem of_tree_wf : forall t r, NoDup (ids t) -> WF (of_tree t r) /\ abs (of_tree t r) = Some t.
Proof. intros t r N. split; [apply of_tree_WF, N|apply abs_WFt, of_tree_WFt, N]. Qed.
Print Assumptions of_tree_wf.

(* ---- primitives, on a tree (Wr) plus a detached component (forest) ---- *)

(* remove_child of a listed child: the rest stays a tree, the child becomes a detached root *)
Theorem prim_remove_child_wf : forall h c p x l e lft tc rgt,
  Wr h (plug c (T p x l e (lft ++ tc :: rgt))) ->
  exists h', remove_child_plain p (t_id tc) h = HOk h' /\
    Wr h' (plug c (T p x l e (lft ++ rgt))) /\ rep h' None tc /\
    same_off [p; t_id tc] h h' /\ grows h h' /\ pres h h'.
Proof. exact remove_child_plain_wf. Qed.
Print Assumptions prim_remove_child_wf.

(* insert_child of a component that is NOT part of the tree (precondition of the forest invariant;
   its own parent pointer par0 may be stale): it becomes the n-th child *)
Theorem prim_insert_child_wf : forall h c p x l e ks n par0 tc,
  Wr h (plug c (T p x l e ks)) ->
  rep h par0 tc -> NoDup (ids tc) ->
  (forall j, In j (ids tc) -> ~ In j (ids (plug c (T p x l e ks)))) ->
  (forall j, In j (ids tc) -> j < next h) ->
  Wr (insert_child p n (t_id tc) h) (plug c (T p x l e (firstn n ks ++ tc :: skipn n ks))).
Proof. exact insert_child_attach. Qed.
Print Assumptions prim_insert_child_wf.

Theorem prim_add_child_wf : forall h c p x l e ks par0 tc,
  Wr h (plug c (T p x l e ks)) ->
  rep h par0 tc -> NoDup (ids tc) ->
  (forall j, In j (ids tc) -> ~ In j (ids (plug c (T p x l e ks)))) ->
  (forall j, In j (ids tc) -> j < next h) ->
  exists h', add_child p (t_id tc) h = HOk h' /\ Wr h' (plug c (T p x l e (ks ++ [tc]))) /\
             same_off [p; t_id tc] h h' /\ grows h h' /\ pres h h'.
Proof. exact add_child_attach. Qed.
Print Assumptions prim_add_child_wf.

Theorem prim_new_child_wf : forall h c p x l e ks xn ln en,
  Wr h (plug c (T p x l e ks)) ->
  exists h', new_child p xn ln en h = HOk h' /\
    Wr h' (plug c (T p x l e (ks ++ [T (next h) xn ln en []]))) /\
    next h' = next h + 1 /\ rooted h' = rooted h /\ seed h' = seed h.
Proof. exact new_child_wf. Qed.
Print Assumptions prim_new_child_wf.

(* Without the precondition add_child breaks the tree (F18): both assertions pass, the call
   returns, and the argument is listed under two parents. *)
Theorem add_child_attached_refuted :
  exists h p ci h',
    WF h /\ live h p /\ live h ci /\ ci <> p /\ parent h p <> Some ci /\
    add_child p ci h = HOk h' /\ ~ WF h'.
Proof. exact add_child_attached_refuted_l. Qed.
Print Assumptions add_child_attached_refuted.

(* Edge.collapse: the children take the collapsed node's place, in order *)
Theorem prim_edge_collapse_wf : forall h c p x l e lft ci xc lc ec kc rgt adj,
  kc <> [] ->
  Wr h (plug c (T p x l e (lft ++ T ci xc lc ec kc :: rgt))) ->
  exists h', edge_collapse ci adj h = HOk h' /\
    Wr h' (plug c (T p x l e (lft ++ map (bump (if adj then ec else None)) kc ++ rgt))) /\
    pres h h' /\ grows h h'.
Proof. exact edge_collapse_wf. Qed.
Print Assumptions prim_edge_collapse_wf.

(* Edge.invert between the root and one of its children: the child becomes the root and takes
   the root's length, the old root becomes its LAST child and takes the child's length *)
Theorem prim_edge_invert_root_wf : forall h p x l e lft ci xc lc ec kc rgt,
  Wr h (T p x l e (lft ++ T ci xc lc ec kc :: rgt)) ->
  exists h', edge_invert ci h = HOk h' /\
    Wr h' (T ci xc lc e (kc ++ [T p x l ec (lft ++ rgt)])) /\ pres h h' /\ grows h h'.
Proof. exact edge_invert_root. Qed.
Print Assumptions prim_edge_invert_root_wf.

(* ... but as a public operation of its own it leaves Tree.seed_node pointing at a node that now
   has a parent *)
Theorem edge_invert_alone_not_wf :
  exists h ci h', WF h /\ live h ci /\ edge_invert ci h = HOk h' /\ ~ WF h'.
Proof. exact edge_invert_alone_not_wf_l. Qed.
Print Assumptions edge_invert_alone_not_wf.

(* ---- operations ---- *)

(* Every covered operation applied to live arguments of a well-formed heap either completes and
   leaves a well-formed heap, or raises: one of four exceptions that the code raises BEFORE changing
   anything (heap unchanged), or - for the leaf-pruning family - the exception hit when the node to
   remove is the seed, which leaves a well-formed tree consisting of the seed alone (`lone`).
   Never out of fuel.  _partial: see the list at the top. *)
Theorem op_wf_documented_errors : forall h o,
  WF h -> covered h o ->
  exists h', WF h' /\ (run_op o h = HOk h' \/ exists e, run_op o h = HErr e h' /\ raises h o e h').
Proof. exact op_wf_l. Qed.
Print Assumptions op_wf_documented_errors.

(* Every operation of the language, on arguments in its domain (covered2), ends - by returning or by
   raising - in a well-formed heap; never out of fuel. *)
Theorem op_wf : forall h o,
  WF h -> covered2 h o ->
  exists h', WF h' /\ (run_op o h = HOk h' \/ exists e, run_op o h = HErr e h').
Proof. exact op_wf2_l. Qed.
Print Assumptions op_wf.

(* The invariant over every finite history (an exception does not stop the client: it goes on with
   the state left behind). *)
Theorem history_wf : forall ops h,
  WF h -> valid_hist2 ops h -> exists h', run_hist ops h = Some h' /\ WF h'.
Proof. exact history_wf2_l. Qed.
Print Assumptions history_wf.

(* the same for both forms (v) of the sites repaired in the library: the seed guard of the pruning loops
   (SeedNodeDeletionException instead of AttributeError), prune_nodes honouring suppress_unifurcations /
   update_bipartitions, and to_outgroup_position moving the outgroup to the front BEFORE re-seeding
   (repair 1c81f78b; HeapOps.to_outgroup_position_r, also inside randomly_reorient); the harness probes
   which form the library has.  covered_v v = covered2 for the old to_outgroup_position and covered3 for
   the repaired one: covered3 h o is `live h og` for OToOutgroup og ub su (ANY live node, suppression or
   not), "the script does not run out" for ORandomlyReorient, covered2 h o otherwise - the exclusions
   of covered2 (outgroup_su_ok, reorient_ok) are gone with the repair. *)
Theorem op_wf_variants : forall v h o,
  WF h -> covered_v v h o ->
  exists h', WF h' /\ (run_op_v v o h = HOk h' \/ exists e, run_op_v v o h = HErr e h').
Proof. exact op_wf_variants_l. Qed.
Print Assumptions op_wf_variants.

(* written out for the repaired method: every live node as outgroup, both values of
   suppress_unifurcations and update_bipartitions; the seed as outgroup raises AssertionError and leaves
   the tree alone *)
Theorem to_outgroup_position_repaired_wf : forall (og : Z) (ub su : bool) (h : heap),
  WF h -> live h og ->
  exists h', WF h' /\ (to_outgroup_position_r og ub su h = HOk h' \/
                       exists e, to_outgroup_position_r og ub su h = HErr e h').
Proof. exact to_outgroup_r_ends. Qed.
Print Assumptions to_outgroup_position_repaired_wf.

(* ... with the resulting tree: the outgroup s first among its parent's children, then the re-seeding
   at the parent with its suppression / encoding (the same specification functions as reseed_at) *)
Theorem to_outgroup_position_repaired_spec :
  forall (ub su : bool) (h : heap) (c : ctx) (p : Z) (x l e : option Z) (lft : list tree) (s : tree) (rgt : list tree),
  WFt h (plug c (T p x l e (lft ++ s :: rgt))) ->
  exists h', to_outgroup_position_r (t_id s) ub su h = HOk h' /\
    WFt h' (spec_encode su false (not_rooted h) (reroot c (T p x l e (s :: lft ++ rgt)))) /\
    next h' = next h /\ (rooted h' = rooted h \/ rooted h' = Some false).
Proof. exact to_outgroup_r_ctx. Qed.
Print Assumptions to_outgroup_position_repaired_spec.

Theorem randomly_reorient_repaired_wf : forall (pick : nat) (perms : list (list nat)) (ub : bool) (h : heap),
  WF h -> randomly_reorient_r pick perms ub h <> HFuel ->
  exists h', WF h' /\ (randomly_reorient_r pick perms ub h = HOk h' \/
                       exists e, randomly_reorient_r pick perms ub h = HErr e h').
Proof. exact randomly_reorient_r_ends. Qed.
Print Assumptions randomly_reorient_repaired_wf.

(* the two argument classes that broke the old form (next two theorems), on the repaired form *)
Theorem to_outgroup_position_repaired_former_classes :
  (exists h', to_outgroup_position_r 1 false true
                (of_tree (T 0 None None None [T 1 None None (Some 1024) [og_leaf 2; og_leaf 3]]) None) = HOk h' /\
              abs h' = Some (T 1 None None (Some 1024) [og_leaf 2; og_leaf 3])) /\
  (exists h', to_outgroup_position_r 2 false true
                (of_tree (T 0 None None None [og_leaf 1; T 2 None None (Some 1024) [T 3 None None (Some 1024) [og_leaf 4; og_leaf 5]]]) None) = HOk h' /\
              abs h' = Some (T 0 None None None [T 3 None None (Some 2048) [og_leaf 4; og_leaf 5]; og_leaf 1])).
Proof. exact to_outgroup_r_former_classes. Qed.
Print Assumptions to_outgroup_position_repaired_former_classes.

Theorem history_wf_variants : forall v ops h,
  WF h -> valid_hist_v v ops h -> exists h', run_hist_v v ops h = Some h' /\ WF h'.
Proof. exact history_wf_variants_l. Qed.
Print Assumptions history_wf_variants.

(* the two argument classes excluded for the OLD to_outgroup_position(suppress_unifurcations=True) are real
   failures of the code as it was transcribed before repair 1c81f78b (they replayed on the library) *)
Theorem to_outgroup_su_refuted_seed :
  exists h og h', WF h /\ live h og /\ to_outgroup_position og false true h = HOk h' /\ ~ WF h'.
Proof. exact C03More2.to_outgroup_su_refuted_seed. Qed.
Print Assumptions to_outgroup_su_refuted_seed.

Theorem to_outgroup_su_refuted_unary :
  exists h og e h', WF h /\ live h og /\ to_outgroup_position og false true h = HErr e h' /\ e = ValueErr.
Proof. exact C03More2.to_outgroup_su_refuted_unary. Qed.
Print Assumptions to_outgroup_su_refuted_unary.

(* removing ANY node id from its parent (live, nested, repeated, garbage): prune_nodes and
   prune_taxa with the internal-node filter finish with a well-formed tree *)
Theorem prune_nodes_any : forall nodes plwt ub su h,
  WF h -> finishes (prune_nodes nodes plwt ub su h) WF [OtherErr; ValueErr; AttrErr].
Proof. exact prune_nodes_finishes. Qed.
Print Assumptions prune_nodes_any.

Theorem prune_taxa_any : forall taxa ub su ol oi h,
  WF h -> finishes (prune_taxa taxa ub su ol oi h) WF [AttrErr; ValueErr].
Proof. exact prune_taxa_finishes. Qed.
Print Assumptions prune_taxa_any.

(* reroot_at_midpoint for ANY taxon pair: completes well formed, or raises before touching the heap *)
Theorem reroot_at_midpoint_wf : forall tx1 tx2 ub su cb h,
  WF h ->
  (exists h', reroot_at_midpoint tx1 tx2 ub su cb h = HOk h' /\ WF h') \/
  (exists e, reroot_at_midpoint tx1 tx2 ub su cb h = HErr e h /\ In e [AttrErr; TypeErr; AssertErr]).
Proof. exact reroot_at_midpoint_finishes. Qed.
Print Assumptions reroot_at_midpoint_wf.

(* resolve_polytomies: deterministic branch, and the rng branch with ANY script *)
Theorem resolve_polytomies_det_wf : forall limit ub h t h',
  WF h -> abs h = Some t ->
  (resolve_polytomies limit None ub h = HOk h' \/ resolve_polytomies limit None ub h = HErr IndexErr h') ->
  exists t', abs h' = Some t' /\ Permutation (leaf_taxa t') (leaf_taxa t).
Proof. exact resolve_polytomies_det_leaf_taxa. Qed.
Print Assumptions resolve_polytomies_det_wf.

Theorem resolve_polytomies_rng_wf : forall limit sc ub h,
  WF h ->
  resolve_polytomies limit (Some sc) ub h = HFuel \/
  finishes (resolve_polytomies limit (Some sc) ub h) WF [AttrErr; AssertErr; ValueErr].
Proof. exact resolve_polytomies_rng_finishes. Qed.
Print Assumptions resolve_polytomies_rng_wf.

(* remove_child(suppress_unifurcations=True): the leaf taxa that go are those of the removed
   subtree; the only possible gain is p's own entry when ci was its only child *)
Theorem remove_child_su_refines : forall h t p ci,
  WFt h t -> In p (ids t) -> In ci (kids h p) ->
  exists h' t' c0 sub extra,
    remove_child p ci true h = HOk h' /\ WFt h' t' /\ next h' = next h /\ rooted h' = rooted h /\
    t = plug c0 sub /\ t_id sub = ci /\ cpar c0 None = Some p /\
    Permutation (extra ++ leaf_taxa t) (leaf_taxa sub ++ leaf_taxa t') /\
    (extra = [] \/ (extra = [taxon h p] /\ kids h p = [ci])) /\
    (forall j, In j (ids t') -> In j (ids t)).
Proof. exact remove_child_su_wf. Qed.
Print Assumptions remove_child_su_refines.

Theorem polytomize_root_refines : forall u h t,
  WFt h t ->
  exists h' t', polytomize_root u h = HOk h' /\ WFt h' t' /\ next h' = next h /\
    (u = false -> rooted h' = rooted h) /\
    Permutation (leaf_taxa t') (leaf_taxa t) /\ (forall j, In j (ids t') -> In j (ids t)).
Proof. exact polytomize_root_wf. Qed.
Print Assumptions polytomize_root_refines.

(* Node.collapse_clade: the node keeps exactly the leaves of its subtree as children *)
Theorem collapse_clade_refines : forall h t ci,
  WF h -> abs h = Some t -> In ci (ids t) ->
  exists h' c s, t = plug c s /\ t_id s = ci /\ collapse_clade ci h = HOk h' /\ WF h' /\
    abs h' = Some (plug c (spec_clade s)) /\
    Permutation (leaf_taxa (plug c (spec_clade s))) (leaf_taxa t).
Proof. exact C03SetKids.collapse_clade_refines. Qed.
Print Assumptions collapse_clade_refines.

(* the parent_node setter on a live non-seed node: detaches (None) or moves it below a live node
   outside its own subtree *)
Theorem parent_node_setter_wf : forall h t ci np,
  WFt h t -> In ci (ids t) -> ci <> seed h ->
  match np with None => True | Some q2 => In q2 (ids t) /\ ~ In q2 (subtree_ids h ci) end ->
  WF (set_parent_node ci np h).
Proof. exact set_parent_node_wf. Qed.
Print Assumptions parent_node_setter_wf.

(* ---- the traversal clause: the machines that walk the child POINTERS from the seed (pre-order,
   post-order, level-order, leaf iteration of Node.*_iter) terminate within the stated fuel and visit
   exactly the live nodes, each once, in the structural orders of the abstract tree ---- *)
Theorem traversals_visit_live : forall h,
  WF h ->
  exists t, abs h = Some t /\
    pre_run (size t) h [seed h] = Some (pre_ids t) /\
    post_run (2 * size t) h [(seed h, false)] = Some (post_ids t) /\
    (exists lo, level_run (size t) h [seed h] = Some lo /\ Permutation lo (pre_ids t)) /\
    leaf_run (2 * size t) h [(seed h, false)] = Some (leaf_ids t) /\
    NoDup (pre_ids t) /\ Permutation (post_ids t) (pre_ids t) /\
    (forall x, In x (pre_ids t) <-> live h x) /\
    (forall x, In x (leaf_ids t) <-> (live h x /\ kids h x = [])).
Proof. exact C03Trav.traversals_visit_live. Qed.
Print Assumptions traversals_visit_live.

Theorem traversals_once : forall h t,
  WF h -> abs h = Some t ->
  NoDup (pre_ids t) /\ NoDup (post_ids t) /\ NoDup (level_ids t) /\ NoDup (leaf_ids t).
Proof. exact C03Trav.traversals_once. Qed.
Print Assumptions traversals_once.

(* ---- the update_bipartitions clause (Model/C03Bip.v: leafset masks, enc_list = the encoding list
   as (owner edge, mask) in post-order) ---- *)

(* suppress_unifurcations(update_bipartitions=True), the one incremental maintainer: applied to a
   current encoding it yields exactly the fresh encoding of the tree it leaves *)
Theorem update_bipartitions_fresh_suppress : forall h t stored,
  WF h -> abs h = Some t -> stored = enc_list t ->
  exists h' t', suppress_unifurcations h = HOk h' /\ abs h' = Some t' /\
    su_enc_incremental t stored = enc_list t' /\ t' = spec_su t.
Proof. exact suppress_bipartitions_fresh_l. Qed.
Print Assumptions update_bipartitions_fresh_suppress.

(* ... a fresh encoding WITHOUT basal collapse: the default encode_bipartitions() may differ *)
Theorem suppress_incremental_vs_default_refuted :
  exists t, NoDup (ids t) /\
    su_enc_incremental t (enc_list t) <> enc_list (spec_encode true true true t).
Proof. exact suppress_incremental_vs_default_refuted_l. Qed.
Print Assumptions suppress_incremental_vs_default_refuted.

(* every other operation asked to update bipartitions is the same operation without the flag
   followed by encode_bipartitions with the flags it implies, which rebuilds all masks and the list
   from the structure (enc_list of the tree it leaves) *)
Theorem update_bipartitions_is_encode :
  (forall n su h, prune_subtree n true su h = hbind (prune_subtree n false su h) (encode_structural su true)) /\
  (forall keep rc su h, filter_leaf_nodes keep rc true su h = hbind (filter_leaf_nodes keep rc false su h) (encode_structural su true)) /\
  (forall rc su h, prune_leaves_without_taxa rc true su h = hbind (prune_leaves_without_taxa rc false su h) (encode_structural su true)) /\
  (forall thr h, collapse_unweighted_edges thr true h = hbind (collapse_unweighted_edges thr false h) (encode_structural true true)) /\
  (forall limit sc h, resolve_polytomies limit sc true h = hbind (resolve_polytomies limit sc false h) (encode_structural true true)) /\
  (forall n su cb h, reroot_at_node n true su cb h = hbind (reroot_at_node n false su cb h) (encode_structural su cb)) /\
  (forall n cb su h, reseed_at n true cb su h = reseed_at n false cb su h).
Proof.
  repeat split; intros;
    [apply prune_subtree_ub|apply filter_leaf_nodes_ub|apply prune_leaves_without_taxa_ub
    |apply collapse_unweighted_edges_ub|apply resolve_polytomies_ub|apply reroot_at_node_ub].
Qed.
Print Assumptions update_bipartitions_is_encode.

(* ---- the leaf-taxon clause for the pruning family: nothing new appears (a), every leaf the call
   was not asked to remove stays a leaf with its taxon (b), every leaf that is gone was asked for
   (c), every leaf that was asked for is gone (d) ---- *)
Theorem filter_leaf_nodes_leaf_taxa : forall keep rec ub su h t h',
  WF h -> abs h = Some t -> filter_leaf_nodes keep rec ub su h = HOk h' ->
  exists t', abs h' = Some t' /\ WFt h' t' /\ pruned h t (fun j => ~ In j keep) h' t'.
Proof. exact C03PruneSpec.filter_leaf_nodes_leaf_taxa. Qed.
Print Assumptions filter_leaf_nodes_leaf_taxa.

Theorem prune_leaves_without_taxa_leaf_taxa : forall rec ub su h t h',
  WF h -> abs h = Some t -> prune_leaves_without_taxa rec ub su h = HOk h' ->
  exists t', abs h' = Some t' /\ WFt h' t' /\ pruned h t (fun j => taxon h j = None) h' t'.
Proof. exact C03PruneSpec.prune_leaves_without_taxa_leaf_taxa. Qed.
Print Assumptions prune_leaves_without_taxa_leaf_taxa.

Theorem prune_taxa_leaf_taxa : forall taxa ub su ol h t h',
  WF h -> abs h = Some t -> prune_taxa taxa ub su ol false h = HOk h' ->
  exists t', abs h' = Some t' /\ WFt h' t' /\ pruned h t (asked_pt taxa ol h) h' t'.
Proof. exact C03PruneSpec.prune_taxa_leaf_taxa. Qed.
Print Assumptions prune_taxa_leaf_taxa.

Theorem retain_taxa_leaf_taxa : forall ns taxa ub su h t h',
  WF h -> abs h = Some t -> retain_taxa ns taxa ub su h = HOk h' ->
  exists t', abs h' = Some t' /\ WFt h' t' /\
    pruned h t (fun j => (exists x, taxon h j = Some x /\ In x ns /\ ~ In x taxa) \/ taxon h j = None) h' t'.
Proof. exact C03PruneSpec.retain_taxa_leaf_taxa. Qed.
Print Assumptions retain_taxa_leaf_taxa.

(* as a multiset: the leaf taxa of the result are those of the kept original leaves plus the taxa
   of nodes that were internal and became leaves *)
Theorem prune_family_leaf_multiset : forall h t (asked : Z -> Prop) (keptb : Z -> bool) h' t',
  WFt h t -> WFt h' t' -> pruned h t asked h' t' ->
  (forall j, keptb j = true -> ~ asked j) -> (forall j, keptb j = false -> asked j) ->
  exists rest,
    Permutation (leaf_taxa t') (map (taxon h) (filter keptb (leaf_ids t)) ++ map (taxon h) rest) /\
    (forall j, In j rest -> In j (ids t) /\ ~ In j (leaf_ids t) /\ In j (leaf_ids t')).
Proof. exact pruned_multiset. Qed.
Print Assumptions prune_family_leaf_multiset.

(* ---- refinement to the rose-tree specifications, with the leaf-taxon multiset ---- *)

Theorem suppress_unifurcations_refines : forall h t,
  WF h -> abs h = Some t ->
  exists h', suppress_unifurcations h = HOk h' /\ WF h' /\ abs h' = Some (spec_su t) /\
             leaf_taxa (spec_su t) = leaf_taxa t /\ rooted h' = rooted h.
Proof. exact suppress_refines_l. Qed.
Print Assumptions suppress_unifurcations_refines.

(* after suppression no node has exactly one child *)
Theorem suppress_unifurcations_complete : forall t s,
  In s (preorder (spec_su t)) -> forall k, t_kids s <> [k].
Proof. exact spec_su_no_unary. Qed.
Print Assumptions suppress_unifurcations_complete.

Theorem collapse_basal_bifurcation_refines : forall u h t,
  WF h -> abs h = Some t ->
  exists h', collapse_basal_bifurcation u h = HOk h' /\ WF h' /\ abs h' = Some (spec_collapse_basal t) /\
             leaf_taxa (spec_collapse_basal t) = leaf_taxa t /\ (u = false -> rooted h' = rooted h).
Proof. exact collapse_basal_refines_l. Qed.
Print Assumptions collapse_basal_bifurcation_refines.

Theorem edge_collapse_refines : forall adj h t ci,
  WF h -> abs h = Some t -> In ci (ids t) -> ci <> seed h -> kids h ci <> [] ->
  exists h', edge_collapse ci adj h = HOk h' /\ WF h' /\ abs h' = Some (spec_collapse ci adj t) /\
             leaf_taxa (spec_collapse ci adj t) = leaf_taxa t /\ rooted h' = rooted h.
Proof. exact edge_collapse_refines_l. Qed.
Print Assumptions edge_collapse_refines.

(* reseed_at at an internal node (or with suppress_unifurcations off): the re-rooted tree, then the
   structural clean-up passes the flags ask for *)
Theorem reseed_at_refines : forall ub cb su h t n,
  WF h -> abs h = Some t -> In n (ids t) -> (kids h n <> [] \/ su = false) ->
  exists h' t1, reseed_at n ub cb su h = HOk h' /\ WF h' /\
    spec_reseed n t = Some t1 /\ abs h' = Some (spec_encode su cb (not_rooted h) t1) /\
    Permutation (ids t1) (ids t).
Proof. exact reseed_refines_l. Qed.
Print Assumptions reseed_at_refines.

Theorem reseed_at_leaf_multiset : forall ub cb su h t n,
  WF h -> abs h = Some t -> In n (ids t) -> kids h n <> [] -> (2 <= length (t_kids t))%nat ->
  exists h' t', reseed_at n ub cb su h = HOk h' /\ abs h' = Some t' /\
    Permutation (leaf_taxa t') (leaf_taxa t).
Proof. exact reseed_leaf_multiset_l. Qed.
Print Assumptions reseed_at_leaf_multiset.

(* prune_subtree: the leaf taxa that disappear are exactly those of the subtree s hanging at n; the
   only possible gain is the entry of n's parent when n was its only child *)
Theorem prune_subtree_refines : forall ub su h t n,
  WF h -> abs h = Some t -> In n (ids t) -> n <> seed h ->
  exists h', prune_subtree n ub su h = HOk h' /\ WF h' /\
    abs h' = Some (spec_tail ub su (not_rooted h) (spec_prune n t)) /\
    exists c p x l e lft s rgt,
      t = plug c (T p x l e (lft ++ s :: rgt)) /\ t_id s = n /\
      Permutation (olist (if match lft ++ rgt with [] => true | _ => false end then Some x else None)
                     ++ leaf_taxa t)
                  (leaf_taxa s ++ leaf_taxa (spec_tail ub su (not_rooted h) (spec_prune n t))).
Proof. exact prune_subtree_refines_l. Qed.
Print Assumptions prune_subtree_refines.

Theorem ladderize_refines : forall asc h t,
  WF h -> abs h = Some t ->
  exists h' t', ladderize asc h = HOk h' /\ WF h' /\ abs h' = Some t' /\
    t_id t' = t_id t /\ Permutation (ids t) (ids t') /\ Permutation (leaf_taxa t) (leaf_taxa t').
Proof. exact ladderize_refines_l. Qed.
Print Assumptions ladderize_refines.

Theorem collapse_unweighted_edges_refines : forall thr h t,
  WF h -> abs h = Some t ->
  exists h', collapse_unweighted_edges thr false h = HOk h' /\ WF h' /\ abs h' = Some (spec_cu thr t) /\
             leaf_taxa (spec_cu thr t) = leaf_taxa t /\ rooted h' = rooted h.
Proof. exact collapse_unweighted_refines_l. Qed.
Print Assumptions collapse_unweighted_edges_refines.

(* reseed_at at a LEAF with unifurcation suppression (outside the documented domain, F19): the
   leaf's old parent is spliced out, its siblings become the leaf's children, and the length of
   the leaf's own edge is dropped *)
Theorem reseed_at_leaf_refines : forall ub cb h c' i x l e lft rgt ns xs ls es,
  WFt h (plug (CNode c' i x l e lft rgt) (T ns xs ls es [])) ->
  exists h', reseed_at ns ub cb true h = HOk h' /\
    WFt h' (spec_encode true cb (not_rooted h)
              (T ns xs ls (root_len c' e) (lft ++ rgt ++ olist (up c' e)))) /\
    next h' = next h /\ rooted_ok h h'.
Proof. exact reseed_at_leaf_wf. Qed.
Print Assumptions reseed_at_leaf_refines.

(* to_outgroup_position without unifurcation suppression: re-rooted at the outgroup's parent p,
   the outgroup s is p's FIRST child *)
Theorem to_outgroup_position_refines : forall ub h c p x l e lft s rgt,
  WFt h (plug c (T p x l e (lft ++ s :: rgt))) ->
  exists h', to_outgroup_position (t_id s) ub false h = HOk h' /\
    WFt h' (T p x l (root_len c e) (s :: lft ++ rgt ++ olist (up c e))) /\
    next h' = next h /\ rooted_ok h h'.
Proof. exact to_outgroup_wf. Qed.
Print Assumptions to_outgroup_position_refines.

(* reroot_at_edge: a new node (id = next h) with length1 takes the place of the edge's head ci
   below the old tail ot, ci (with length2) becomes its only child, then reroot_at_node there *)
Theorem reroot_at_edge_refines : forall l1 l2 ub su h c ot x l e lft ci xs ls es ks rgt,
  WFt h (plug c (T ot x l e (lft ++ T ci xs ls es ks :: rgt))) ->
  exists h', reroot_at_edge ci l1 l2 ub su h = HOk h' /\
    WFt h' ((if ub then spec_encode su true false else (fun t => t))
              (spec_encode su false true
                 (reroot (CNode c ot x l e (lft ++ rgt) [])
                         (T (next h) None None l1 [T ci xs ls l2 ks])))) /\
    next h' = next h + 1 /\ rooted h' = Some true.
Proof. exact reroot_at_edge_wf. Qed.
Print Assumptions reroot_at_edge_refines.

(* the operations that are not asked to remove anything leave the multiset of leaf taxa alone
   (for the removing operations see prune_subtree_refines; for re-seeding reseed_at_leaf_multiset) *)
Theorem leaf_multiset_preserved : forall h o h' t t',
  WF h -> keeps_leaves h o -> run_op o h = HOk h' ->
  abs h = Some t -> abs h' = Some t' -> Permutation (leaf_taxa t) (leaf_taxa t').
Proof. exact leaf_multiset_preserved_l. Qed.
Print Assumptions leaf_multiset_preserved.

(* ---- non-vacuity: a concrete 10-node tree, and a concrete valid history of 12 operations with
   re-rootings at an internal node, at an edge and at a leaf, two raising steps, an allocation,
   collapses and a pruning ---- *)
Theorem example_tree_wf : WF (of_tree ex_tree None).
Proof. exact ex_tree_wf. Qed.
Print Assumptions example_tree_wf.

Theorem example_history_valid : valid_hist ex_hist (of_tree ex_tree None).
Proof. exact ex_hist_valid. Qed.
Print Assumptions example_history_valid.

Theorem example_history_runs :
  exists h', run_hist ex_hist (of_tree ex_tree None) = Some h' /\
             abs h' = Some (T 8 (Some 8) None (Some 7)
                              [T 2 (Some 2) None (Some 1031) []; T 6 (Some 6) None (Some 1024) [];
                               T 10 (Some 9) None (Some 4) []]).
Proof. exact ex_hist_runs. Qed.
Print Assumptions example_history_runs.

(* a valid history of the FULL language: detach and re-attach, parent_node setter, remove_child with
   suppression, collapse_clade, resolve_polytomies, midpoint re-rooting, prune_nodes with repeated and
   unknown ids (raises), prune_taxa on internal nodes, polytomize_root, shuffle_taxa *)
Theorem example_full_history_valid : valid_hist2 ex_hist2 (of_tree ex_tree None).
Proof. exact ex_hist2_valid. Qed.
Print Assumptions example_full_history_valid.

(* ---- Tree.shuffle_taxa(include_internal_nodes, rng), specification level (wave 6).
   retax g t = t with the taxon of every node i replaced by g i (identities, child order, lengths, labels
   kept); strip = retax (fun _ => None); node_taxa = the taxa of all nodes in preorder.  draws = the results
   of rng.randrange.  A completed call - it returned, or it tripped its final assertion because two
   selected nodes carried the same taxon - leaves a well-formed heap representing the same tree up to
   taxa; the taxa of the selected nodes (the leaves, or all nodes) are a permutation of what they were,
   every other node keeps its taxon, and a node has a taxon afterwards iff it had one before. ---- *)
Theorem shuffle_taxa_spec : forall (ii : bool) (draws : list nat) (h : heap) (t : tree),
  WF h -> abs h = Some t -> shuffle_taxa ii draws h <> HFuel ->
  exists h', (shuffle_taxa ii draws h = HOk h' \/ shuffle_taxa ii draws h = HErr AssertErr h') /\
    WF h' /\ abs h' = Some (retax (taxon h') t) /\ rooted h' = rooted h /\ next h' = next h /\
    strip (retax (taxon h') t) = strip t /\
    (let L := if ii then ids t else leaf_ids t in
     Permutation (map (taxon h) L) (map (taxon h') L) /\
     (forall j, ~ In j L -> taxon h' j = taxon h j)) /\
    (forall j, taxon h' j = None <-> taxon h j = None).
Proof. exact shuffle_taxa_spec_l. Qed.
Print Assumptions shuffle_taxa_spec.

(* the same in tree terms: leaf-taxon multiset preserved (default), all-node multiset with
   include_internal_nodes; structure untouched *)
Theorem shuffle_taxa_leaf_multiset : forall (ii : bool) (draws : list nat) (h : heap) (t : tree),
  WF h -> abs h = Some t -> shuffle_taxa ii draws h <> HFuel ->
  exists h' t', (shuffle_taxa ii draws h = HOk h' \/ shuffle_taxa ii draws h = HErr AssertErr h') /\
    WF h' /\ abs h' = Some t' /\ rooted h' = rooted h /\ next h' = next h /\
    strip t' = strip t /\
    (if ii then Permutation (node_taxa t) (node_taxa t')
     else Permutation (leaf_taxa t) (leaf_taxa t') /\
          forall j, ~ In j (leaf_ids t) -> taxon h' j = taxon h j).
Proof. exact shuffle_taxa_tree_l. Qed.
Print Assumptions shuffle_taxa_leaf_multiset.

Theorem shuffle_taxa_nonvacuous :
  WF (of_tree exsh_tree None) /\ abs (of_tree exsh_tree None) = Some exsh_tree /\
  (exists h', shuffle_taxa false [1; 0; 0]%nat (of_tree exsh_tree None) = HOk h' /\
     abs h' = Some (T 0 (Some 20) None None
       [T 1 None None (Some 2) [T 2 (Some 11) None (Some 3) []; T 3 (Some 10) None (Some 2) []];
        T 4 None None (Some 2) [T 5 (Some 12) None (Some 2) []; T 6 None None (Some 4) []]])) /\
  (exists h', shuffle_taxa true [0; 0; 0; 0]%nat (of_tree exsh_tree None) = HOk h' /\
     abs h' = Some (T 0 (Some 20) None None
       [T 1 None None (Some 2) [T 2 (Some 12) None (Some 3) []; T 3 (Some 11) None (Some 2) []];
        T 4 None None (Some 2) [T 5 (Some 10) None (Some 2) []; T 6 None None (Some 4) []]])).
Proof. exact shuffle_taxa_example. Qed.
Print Assumptions shuffle_taxa_nonvacuous.

(* ---- wave 7: OBJECT level of the stored encoding (Model/C03BipObj.v).  A Bipartition object is a cell of a
   store (identity -> _split_bitmask, _leafset_bitmask, _is_rooted); edge.bipartition is a binding node ->
   identity; Tree.bipartition_encoding a list of identities.
     no_bip_shared s t = no two edges of t carry one object /\ the list holds exactly the edges' objects,
                         once each, in post-order
     enc_fresh s r t   = per edge and per list entry, the fields a fresh encoding of t under flag r gives
                         (enc_full: split mask by compile_split_bitmask from the flag, leafset mask, flag) ---- *)
From DV Require Import Model.C03BipObj Proofs.C03BipObj.

(* encode_bipartitions - hence every operation asked to update bipartitions - from ANY state of the store *)
Theorem encode_no_bipartition_object_shared : forall (r : option bool) (t : tree) (s : bstate),
  NoDup (ids t) ->
  (NoDup (edge_objs (obj_encode r t s) t) /\ map Some (bs_enc (obj_encode r t s)) = edge_objs (obj_encode r t s) t) /\
  (read_edges (obj_encode r t s) t = map (fun p => (fst p, Some (snd p))) (enc_full r t) /\
   read_enc (obj_encode r t s) = map (fun p => Some (snd p)) (enc_full r t)).
Proof. exact obj_encode_fresh. Qed.
Print Assumptions encode_no_bipartition_object_shared.

(* the incremental maintainer deletes by identity; on an unshared current encoding that is exactly the fresh
   encoding (objects, list, split masks, flags) of the tree it leaves *)
Theorem suppress_incremental_object_level : forall (r : option bool) (t : tree) (s : bstate),
  NoDup (ids t) ->
  let s2 := obj_su_incremental t (obj_encode r t s) in
  no_bip_shared s2 (spec_su t) /\ enc_fresh s2 r (spec_su t).
Proof. exact obj_su_incremental_fresh. Qed.
Print Assumptions suppress_incremental_object_level.

(* reroot_at_node(update_bipartitions=True): reseed_at WITHOUT the flag, is_rooted = True, THEN the encoding *)
Theorem reroot_at_node_encoding_fresh : forall (t' : tree) (s : bstate),
  NoDup (ids t') ->
  let rs := obj_reroot_at_node true t' s in
  fst rs = Some true /\ no_bip_shared (snd rs) t' /\ enc_fresh (snd rs) (fst rs) t'.
Proof. exact reroot_at_node_obj_fresh. Qed.
Print Assumptions reroot_at_node_encoding_fresh.

(* the other order (update_bipartitions passed through to reseed_at, flag set afterwards) is NOT fresh on a
   tree that is unrooted or of undefined rooting, although no object is shared; on a rooted tree it is the same *)
Theorem reroot_at_node_encode_before_flag_refuted : exists (r0 : option bool) (t' : tree) (s : bstate),
  NoDup (ids t') /\
  let rs := obj_reroot_at_node_early true r0 t' s in
  fst rs = Some true /\ no_bip_shared (snd rs) t' /\ ~ enc_fresh (snd rs) (fst rs) t'.
Proof. exact C03BipObj.reroot_at_node_encode_before_flag_refuted. Qed.
Print Assumptions reroot_at_node_encode_before_flag_refuted.

Theorem reroot_at_node_encode_before_flag_refuted_undefined_rooting : exists (t' : tree) (s : bstate),
  NoDup (ids t') /\ ~ enc_fresh (snd (obj_reroot_at_node_early true None t' s)) (Some true) t'.
Proof. exact reroot_at_node_encode_before_flag_refuted_none. Qed.
Print Assumptions reroot_at_node_encode_before_flag_refuted_undefined_rooting.

Theorem reroot_at_node_orders_agree_when_rooted : forall (ub : bool) (t' : tree) (s : bstate),
  obj_reroot_at_node_early ub (Some true) t' s = obj_reroot_at_node ub t' s.
Proof. exact reroot_at_node_early_same_when_rooted. Qed.
Print Assumptions reroot_at_node_orders_agree_when_rooted.

(* an encoding that binds a retained unifurcation's edge to its child's object: every VALUE is right, the
   invariant is not, and the later suppress_unifurcations(update_bipartitions=True) loses a live entry *)
Theorem shared_bipartition_object_refuted : exists (r : option bool) (t : tree) (s : bstate),
  NoDup (ids t) /\ ~ no_bip_shared (obj_encode_shared r t s) t.
Proof. exact shared_encoding_refuted. Qed.
Print Assumptions shared_bipartition_object_refuted.

Theorem shared_bipartition_object_values_right :
  read_edges (obj_encode_shared (Some true) shared_witness bs_empty) shared_witness
  = read_edges (obj_encode (Some true) shared_witness bs_empty) shared_witness.
Proof. exact shared_encoding_values_right. Qed.
Print Assumptions shared_bipartition_object_values_right.

Theorem shared_bipartition_object_later_suppress_refuted :
  let t := shared_witness in
  read_enc (obj_su_incremental t (obj_encode_shared (Some true) t bs_empty))
  <> map (fun p => Some (snd p)) (enc_full (Some true) (spec_su t)).
Proof. exact shared_then_incremental_refuted. Qed.
Print Assumptions shared_bipartition_object_later_suppress_refuted.

(* frame: an encoding writes no object that existed before, and rebinds no edge outside the tree *)
Theorem encode_frame_objects : forall (r : option bool) (t : tree) (s : bstate) (o : Z),
  o < bs_next s -> obj_rec (obj_encode r t s) o = obj_rec s o.
Proof. exact obj_encode_frame_objects. Qed.
Print Assumptions encode_frame_objects.

Theorem encode_frame_edges : forall (r : option bool) (t : tree) (s : bstate) (n : Z),
  ~ In n (ids t) -> edge_obj (obj_encode r t s) n = edge_obj s n.
Proof. exact obj_encode_frame_edges. Qed.
Print Assumptions encode_frame_edges.

(* over every history of updating / non-updating steps from any initial store *)
Theorem bipartition_objects_history : forall (steps : list ostep) (st0 : ost) (x : ostep),
  let st := fold_left ostep_run steps st0 in
  NoDup (ids (o_tree st)) ->
  match x with SUpdate t' _ => NoDup (ids t') | _ => True end ->
  updating x = true ->
  let st' := ostep_run st x in
  no_bip_shared (o_bs st') (o_tree st') /\ enc_fresh (o_bs st') (o_rooted st') (o_tree st').
Proof. exact obj_history_fresh. Qed.
Print Assumptions bipartition_objects_history.

Theorem bipartition_objects_history_nonvacuous :
  let t := shared_witness in
  let st := fold_left ostep_run [SUpdate t None; SEdit t (Some false); SSuIncr] (mkOst t None bs_empty) in
  NoDup (ids (o_tree st)) /\ read_enc (o_bs st) = map (fun p => Some (snd p)) (enc_full (Some false) (spec_su t)).
Proof. exact obj_history_fresh_sat. Qed.
Print Assumptions bipartition_objects_history_nonvacuous.

(* ===== wave 8: exception safety ("each operation either raises a documented error and leaves the tree well
   formed or completes") on the error paths that `covered` excludes: the REFUSED argument classes =====
   Model/Heap.v: an error outcome HErr e h carries the heap at the moment of the raise.  refusal h o = Some e:
   o's argument is in a class the API refuses at entry - remove_child(node) with node not in the receiver's
   child list (a child of another node, the receiver itself, its parent, the seed, a node of another tree);
   add_child of the node itself / of the receiver's parent; Edge.collapse of a terminal edge;
   to_outgroup_position / prune_subtree of a node without parent; reroot_at_edge of the seed's edge;
   prune_nodes of a list whose first node has no parent. *)
From DV Require Import Proofs.C03ErrFrame.

(* a refused operation changes nothing: the documented exception, and the heap (every cell: parent pointers,
   child lists, lengths, taxa; seed, rooting flag, next id) is the one it was called on - for every variant of
   the repaired sites.  No well-formedness hypothesis: also on garbage and detached subtrees. *)
Theorem refused_op_frame : forall (v : variants) (h : heap) (o : op) (e : err),
  refusal h o = Some e -> run_op_v v o h = HErr e h.
Proof. exact refused_op_frame_l. Qed.
Print Assumptions refused_op_frame.

(* hence a refused operation preserves well-formedness (the clause of the property) *)
Theorem refused_op_wf : forall (v : variants) (h : heap) (o : op) (e : err),
  WF h -> refusal h o = Some e -> exists h', run_op_v v o h = HErr e h' /\ WF h'.
Proof. exact refused_op_wf_l. Qed.
Print Assumptions refused_op_wf.

(* and the history goes on from the heap it had *)
Theorem refused_history_frame : forall (v : variants) (o : op) (r : list op) (h : heap) (e : err),
  refusal h o = Some e -> run_hist_v v (o :: r) h = run_hist_v v r h.
Proof. exact refused_history_frame_l. Qed.
Print Assumptions refused_history_frame.

(* op_error_frame, Node/Edge level: EVERY error outcome of add_child, remove_child(suppress_unifurcations=False)
   and Edge.collapse leaves the heap unchanged (all their raises precede their writes) *)
Theorem op_error_frame_node_ops : forall (h : heap) (o : op) (e : err) (h' : heap),
  entry_only o = true -> run_op o h = HErr e h' -> h' = h.
Proof. exact node_op_error_frame_l. Qed.
Print Assumptions op_error_frame_node_ops.

(* op_error_frame for remove_child in both modes: an error outcome is the entry refusal (heap unchanged), or -
   suppress_unifurcations=True only - it arises after the child WAS removed (h2), from list.index / the inner
   remove_child of the suppression on a receiver that is not listed under its own parent (ill-formed input),
   and the state left is exactly h2, h2 with the only child already re-inserted under the grandparent, or h2
   with the length already added (su_partial).
   _partial: the same statement for the Tree-level operations (loops: prune family, re-rooting, set_child_nodes,
   Edge.invert) is not proved as a separate theorem; for covered operations op_wf_documented_errors gives
   "unchanged, or the seed alone" and op_wf "well formed". *)
Theorem op_error_frame_remove_child : forall (h : heap) (p c : Z) (su : bool) (e : err) (h' : heap),
  run_op (ORemoveChild p c su) h = HErr e h' ->
  (h' = h /\ e = ValueErr /\ memz c (kids h p) = false)
  \/ (su = true /\ e = ValueErr /\ exists h2, remove_child_plain p c h = HOk h2 /\ su_partial p h2 h').
Proof. exact remove_child_error_frame_l. Qed.
Print Assumptions op_error_frame_remove_child.

(* every refused class on a concrete tree (the hypotheses are satisfiable), and two arguments that are not refused *)
Theorem refusal_examples :
  refusal ef_heap (ORemoveChild 1 5 false) = Some ValueErr /\ refusal ef_heap (ORemoveChild 1 4 true) = Some ValueErr /\
  refusal ef_heap (ORemoveChild 4 4 false) = Some ValueErr /\ refusal ef_heap (ORemoveChild 4 0 true) = Some ValueErr /\
  refusal ef_heap (ORemoveChild 1 77 false) = Some ValueErr /\
  refusal ef_heap (OAddChild 4 4) = Some AssertErr /\ refusal ef_heap (OAddChild 4 0) = Some AssertErr /\
  refusal ef_heap (OEdgeCollapse 5 true) = Some ValueErr /\ refusal ef_heap (OToOutgroup 0 true true) = Some AssertErr /\
  refusal ef_heap (OPruneSubtree 0 true true) = Some TypeErr /\ refusal ef_heap (ORerootAtEdge 0 None None false true) = Some AttrErr /\
  refusal ef_heap (OPruneNodes [0; 5] false true true) = Some OtherErr /\
  refusal ef_heap (ORemoveChild 1 2 true) = None /\ refusal ef_heap (OEdgeCollapse 1 false) = None.
Proof. exact ef_examples. Qed.
Print Assumptions refusal_examples.

(* the statement order "clear the argument's parent pointer, then look for it in the child list" (EAFP) is a
   different function: on a refused argument it raises the same ValueError but leaves a heap in which the
   argument is still listed by its parent and has no parent pointer *)
Theorem remove_child_eafp_order_refuted :
  exists h p c h', refusal h (ORemoveChild p c false) = Some ValueErr /\
                   remove_child_plain_eafp p c h = HErr ValueErr h' /\ parent h c = Some 4 /\ parent h' c = None /\
                   In c (kids h' 4).
Proof. exact eafp_order_refuted. Qed.
Print Assumptions remove_child_eafp_order_refuted.

(* ================= wave 9: op_error_frame for the Tree-level operations =================
   HErr e h' = the exception e was raised and h' is the heap at the moment of the raise.
   Vocabulary (Proofs/C03W9ErrFrame.v, executable definitions):
     prefix_states f l h   the heaps met at the head of each reached iteration of "for x in l: f x"
     loop_states           the same for every reached round of the leaf-pruning loop (HeapOps.leaf_prune_loop)
     err_states o h        the documented partial states of operation o started on h, as a LIST computed from o and h:
                             filter_leaf_nodes / prune_leaves_without_taxa   loop_states of their removal loop
                             prune_nodes      prefix_states of "for nd in nodes: nd.parent.remove_child(nd)", then - with
                                              prune_leaves_without_taxa=True - those of the leaf loop run on the result
                             prune_taxa / retain_taxa   prefix_states of the post-order removal loop, then the leaf loop
                             every other operation: []  (an error leaves the heap of the call)
                           (an exception inside these loops comes from Node.remove_child / None.remove_child / the
                            seed guard, all raised before anything is written, so the state left is an iteration head)
     tree_level_op o       reseed_at, to_outgroup_position, reroot_at_node, reroot_at_edge, reroot_at_midpoint,
                           prune_subtree, set_child_nodes, filter_leaf_nodes, prune_leaves_without_taxa, prune_nodes,
                           prune_taxa, retain_taxa
     reroot_op o           reseed_at, to_outgroup_position, reroot_at_node, reroot_at_edge, prune_subtree
   covered_v v h o (Proofs/C03Variants.v) = the arguments are in the operation's domain (live nodes; for the old form
   of to_outgroup_position the two classes where it is broken are excluded, for the repaired form nothing is). *)
From DV Require Import Proofs.C03W9ErrFrame Proofs.C03W9Invert.

(* "raises a documented error and leaves the tree well formed": on a well-formed heap, whenever a Tree-level operation
   raises, the heap left behind is the heap of the call or one of the listed partial states, and it is well formed -
   for every variant of the repaired sites *)
Theorem op_error_frame : forall (v : variants) (h : heap) (o : op) (e : err) (h' : heap),
  WF h -> covered_v v h o -> tree_level_op o = true ->
  run_op_v v o h = HErr e h' ->
  (h' = h \/ In h' (err_states o h)) /\ WF h'.
Proof. exact op_error_frame_l. Qed.
Print Assumptions op_error_frame.

(* hence, where no partial state is listed, an error leaves the heap unchanged *)
Theorem op_error_unchanged : forall (v : variants) (h : heap) (o : op) (e : err) (h' : heap),
  WF h -> covered_v v h o -> tree_level_op o = true -> err_states o h = [] ->
  run_op_v v o h = HErr e h' -> h' = h.
Proof. exact op_error_unchanged_l. Qed.
Print Assumptions op_error_unchanged.

(* re-seeding, re-rooting, to_outgroup_position (old and repaired form) and prune_subtree: the ONLY error is the entry
   refusal of Proofs/C03ErrFrame.v (the seed as outgroup: AssertionError; the seed's edge: AttributeError; pruning the
   seed: TypeError), raised with the heap of the call; reseed_at and reroot_at_node never raise (refusal = None) *)
Theorem op_error_frame_reroot : forall (v : variants) (h : heap) (o : op) (e : err) (h' : heap),
  WF h -> covered_v v h o -> reroot_op o = true ->
  run_op_v v o h = HErr e h' -> h' = h /\ refusal h o = Some e.
Proof. exact reroot_error_is_refusal_l. Qed.
Print Assumptions op_error_frame_reroot.

(* Edge.invert as a stand-alone operation.  On EVERY heap an error outcome leaves the heap of the call, the heap after
   the grandparent's child list was re-pointed (invert_regraft), or that heap with the child removed from its parent: *)
Theorem op_error_frame_edge_invert_any : forall (c : Z) (h : heap) (e : err) (h' : heap),
  edge_invert c h = HErr e h' -> h' = h \/ In h' (invert_err_states c h).
Proof. exact edge_invert_error_states_l. Qed.
Print Assumptions op_error_frame_edge_invert_any.

(* on a well-formed heap and a live node its internal assertions cannot trip: the only error is "Cannot invert edge
   with None for tail node" on the seed, heap unchanged *)
Theorem op_error_frame_edge_invert : forall (h : heap) (c : Z) (e : err) (h' : heap),
  WF h -> live h c -> edge_invert c h = HErr e h' -> h' = h /\ e = ValueErr /\ parent h c = None.
Proof. exact edge_invert_error_frame_l. Qed.
Print Assumptions op_error_frame_edge_invert.

(* the hypotheses are satisfiable and the second disjunct is inhabited: filter_leaf_nodes(lambda nd: False) prunes the
   seven-node example tree down to its seed and raises; the state left differs from the heap of the call, is listed,
   consists of the seed alone and is well formed *)
Theorem op_error_frame_partial_state_example : forall v : variants,
  exists e h', WF ef_heap /\ covered_v v ef_heap (OFilterLeafNodes [] true false false) /\
    run_op_v v (OFilterLeafNodes [] true false false) ef_heap = HErr e h' /\
    h' <> ef_heap /\ In h' (err_states (OFilterLeafNodes [] true false false) ef_heap) /\
    kids h' (seed h') = [] /\ WF h'.
Proof. exact w9_partial_state. Qed.
Print Assumptions op_error_frame_partial_state_example.

Theorem op_error_frame_refusal_example : forall v : variants,
  covered_v v ef_heap (ORerootAtEdge 0 None None false true) /\
  run_op_v v (ORerootAtEdge 0 None None false true) ef_heap = HErr AttrErr ef_heap /\
  covered_v v ef_heap (OToOutgroup 0 true false) /\
  run_op_v v (OToOutgroup 0 true false) ef_heap = HErr AssertErr ef_heap.
Proof. exact w9_refusal. Qed.
Print Assumptions op_error_frame_refusal_example.

Theorem op_error_frame_edge_invert_example :
  live ef_heap 0 /\ edge_invert 0 ef_heap = HErr ValueErr ef_heap /\
  live ef_heap 5 /\ exists h', edge_invert 5 ef_heap = HOk h'.
Proof. exact w9_invert_examples. Qed.
Print Assumptions op_error_frame_edge_invert_example.


(* op_error_frame over the operation language: every operation of Model/HeapOps.v except resolve_polytomies,
   randomly_rotate and randomly_reorient (err_frame_op, Proofs/C03W9All.v).  err_states_all o h = err_states o h, plus for
   shuffle_taxa the one state in which the whole shuffle has been written (its final assertion on a repeated taxon
   trips after the last write).  For the operations not named in op_error_frame the proof shows that they complete on
   every covered argument or raise at entry with the heap of the call. *)
From DV Require Import Proofs.C03W9All.

Theorem op_error_frame_all : forall (v : variants) (h : heap) (o : op) (e : err) (h' : heap),
  WF h -> covered_v v h o -> err_frame_op o = true ->
  run_op_v v o h = HErr e h' ->
  (h' = h \/ In h' (err_states_all o h)) /\ WF h'.
Proof. exact op_error_frame_all_l. Qed.
Print Assumptions op_error_frame_all.

Theorem op_error_frame_shuffle_example : forall v : variants,
  exists h', WF w9_dup_heap /\ covered_v v w9_dup_heap (OShuffleTaxa false [0%nat; 0%nat]) /\
    run_op_v v (OShuffleTaxa false [0%nat; 0%nat]) w9_dup_heap = HErr AssertErr h' /\
    In h' (err_states_all (OShuffleTaxa false [0%nat; 0%nat]) w9_dup_heap).
Proof. exact w9_shuffle_example. Qed.
Print Assumptions op_error_frame_shuffle_example.
