(* C03 property theorems: statements only, each closed by `exact`.

   Vocabulary (definitions live in Model/ and Proofs/, none is made up to hide a statement):
     heap, run_op, run_hist, abs            Model/Heap.v, Model/HeapOps.v  (the executable model)
     spec_su, spec_collapse, spec_reseed,
     spec_prune, spec_collapse_basal,
     spec_encode, bump                      Model/C03Spec.v  (rose-tree specifications)
     rep h par t                            Proofs/C03Base.v: the cells reachable from t's root spell
                                            out exactly t (parent pointers, ordered child lists, fields)
     Wr h t   = rep h None t /\ NoDup (ids t) /\ all ids < next h
     WFt h t  = Wr h t /\ t_id t = seed h
     WF h     = exists t, WFt h t           the invariant; `wf_meaning` spells it out pointer-wise
     plug c s                               the tree obtained by putting subtree s into the one-hole context c
     live h x, covered h o, documented,
     valid_hist                             Proofs/C03Hist.v

   Covered operation language of op_wf / history_wf (Proofs/C03Hist.v `covered`): is_rooted / is_unrooted
   setters, new_child, insert_new_child, remove_child (plain), Edge.collapse, deroot,
   collapse_basal_bifurcation, encode_bipartitions (structural effect, all flags),
   suppress_unifurcations, collapse_unweighted_edges, reseed_at and reroot_at_node (ANY live node, all
   flags, including the leaf case F19), reroot_at_edge, to_outgroup_position WITHOUT unifurcation
   suppression, prune_subtree (all flags), filter_leaf_nodes, prune_leaves_without_taxa, retain_taxa,
   prune_taxa restricted to leaves (all flags, recursive or not; the fuel of the model's while-loop is
   shown to suffice), ladderize, reorder.

   Not proved here (model + correspondence check only), hence the suffix _partial on op_wf and
   history_wf: OAddChild/OInsertChild of a detached subtree as history steps (proved as primitives
   below), ORemoveChild with suppress_unifurcations=True, OSetChildNodes, OSetParentNode,
   OCollapseClade, OPolytomizeRoot, OToOutgroup with suppress_unifurcations=True (genuinely broken in
   the library, see the harness findings), ORerootAtMidpoint, OResolvePolytomies, OPruneNodes,
   OPruneTaxa with is_apply_filter_to_internal_nodes=True, ORandomlyRotate, ORandomlyReorient,
   OShuffleTaxa, OEdgeInvert (refuted as a stand-alone operation, see edge_invert_alone_not_wf). *)
From Coq Require Import ZArith List Bool Permutation.
From DV Require Import Model.PyPrims Model.Tree Model.Heap Model.HeapOps Model.C03Spec
  Proofs.C03Base Proofs.C03Abs Proofs.C03Local Proofs.C03Prims Proofs.C03Collapse Proofs.C03Suppress
  Proofs.C03Reseed Proofs.C03Order Proofs.C03Ops Proofs.C03SpecLinks Proofs.C03Ops2 Proofs.C03Unweighted
  Proofs.C03PruneLoops Proofs.C03Hist Proofs.C03Thms.
Import ListNotations.
Open Scope Z_scope.

(* What the invariant says about the pointers: the abstraction succeeds (the child pointers from the
   seed form a finite tree), no node is reached twice (nothing shared or cyclic), the seed has no
   parent, and for every reachable node p the child list has no duplicates and lists exactly the
   reachable nodes whose parent pointer is p. *)
Theorem wf_meaning : forall h,
  WF h ->
  exists t, abs h = Some t /\ NoDup (ids t) /\ t_id t = seed h /\ parent h (seed h) = None /\
    forall p, In p (ids t) ->
      NoDup (kids h p) /\
      forall ci, In ci (kids h p) <-> (In ci (ids t) /\ parent h ci = Some p).
Proof. exact wf_meaning_l. Qed.
Print Assumptions wf_meaning.

(* Every duplicate-free rose tree is the abstraction of a well-formed heap (non-vacuity of WF for
   all trees, and the fuel of abs suffices). *)
Theorem of_tree_wf : forall t r, NoDup (ids t) -> WF (of_tree t r) /\ abs (of_tree t r) = Some t.
Proof. intros t r N. split; [apply of_tree_WF, N|apply abs_WFt, of_tree_WFt, N]. Qed.
Print Assumptions of_tree_wf.

(* ---- primitives, on a tree (Wr) plus a detached component (forest) ---- *)

(* remove_child of a listed child: the rest stays a tree, the child becomes a detached root *)
Theorem prim_remove_child_wf : forall h c p x l e lft tc rgt,
  Wr h (plug c (T p x l e (lft ++ tc :: rgt))) ->
  exists h', remove_child_plain p (t_id tc) h = HOk h' /\
    Wr h' (plug c (T p x l e (lft ++ rgt))) /\ rep h' None tc /\
    same_off [p; t_id tc] h h' /\ grows h h' /\ pres h h'.
Proof. exact remove_child_plain_wf. Qed.
Print Assumptions prim_remove_child_wf.

(* insert_child of a component that is NOT part of the tree (precondition of the forest invariant;
   its own parent pointer par0 may be stale): it becomes the n-th child *)
Theorem prim_insert_child_wf : forall h c p x l e ks n par0 tc,
  Wr h (plug c (T p x l e ks)) ->
  rep h par0 tc -> NoDup (ids tc) ->
  (forall j, In j (ids tc) -> ~ In j (ids (plug c (T p x l e ks)))) ->
  (forall j, In j (ids tc) -> j < next h) ->
  Wr (insert_child p n (t_id tc) h) (plug c (T p x l e (firstn n ks ++ tc :: skipn n ks))).
Proof. exact insert_child_attach. Qed.
Print Assumptions prim_insert_child_wf.

Theorem prim_add_child_wf : forall h c p x l e ks par0 tc,
  Wr h (plug c (T p x l e ks)) ->
  rep h par0 tc -> NoDup (ids tc) ->
  (forall j, In j (ids tc) -> ~ In j (ids (plug c (T p x l e ks)))) ->
  (forall j, In j (ids tc) -> j < next h) ->
  exists h', add_child p (t_id tc) h = HOk h' /\ Wr h' (plug c (T p x l e (ks ++ [tc]))) /\
             same_off [p; t_id tc] h h' /\ grows h h' /\ pres h h'.
Proof. exact add_child_attach. Qed.
Print Assumptions prim_add_child_wf.

Theorem prim_new_child_wf : forall h c p x l e ks xn ln en,
  Wr h (plug c (T p x l e ks)) ->
  exists h', new_child p xn ln en h = HOk h' /\
    Wr h' (plug c (T p x l e (ks ++ [T (next h) xn ln en []]))) /\
    next h' = next h + 1 /\ rooted h' = rooted h /\ seed h' = seed h.
Proof. exact new_child_wf. Qed.
Print Assumptions prim_new_child_wf.

(* Without the precondition add_child breaks the tree (F18): both assertions pass, the call
   returns, and the argument is listed under two parents. *)
Theorem add_child_attached_refuted :
  exists h p ci h',
    WF h /\ live h p /\ live h ci /\ ci <> p /\ parent h p <> Some ci /\
    add_child p ci h = HOk h' /\ ~ WF h'.
Proof. exact add_child_attached_refuted_l. Qed.
Print Assumptions add_child_attached_refuted.

(* Edge.collapse: the children take the collapsed node's place, in order *)
Theorem prim_edge_collapse_wf : forall h c p x l e lft ci xc lc ec kc rgt adj,
  kc <> [] ->
  Wr h (plug c (T p x l e (lft ++ T ci xc lc ec kc :: rgt))) ->
  exists h', edge_collapse ci adj h = HOk h' /\
    Wr h' (plug c (T p x l e (lft ++ map (bump (if adj then ec else None)) kc ++ rgt))) /\
    pres h h' /\ grows h h'.
Proof. exact edge_collapse_wf. Qed.
Print Assumptions prim_edge_collapse_wf.

(* Edge.invert between the root and one of its children: the child becomes the root and takes
   the root's length, the old root becomes its LAST child and takes the child's length *)
Theorem prim_edge_invert_root_wf : forall h p x l e lft ci xc lc ec kc rgt,
  Wr h (T p x l e (lft ++ T ci xc lc ec kc :: rgt)) ->
  exists h', edge_invert ci h = HOk h' /\
    Wr h' (T ci xc lc e (kc ++ [T p x l ec (lft ++ rgt)])) /\ pres h h' /\ grows h h'.
Proof. exact edge_invert_root. Qed.
Print Assumptions prim_edge_invert_root_wf.

(* ... but as a public operation of its own it leaves Tree.seed_node pointing at a node that now
   has a parent *)
Theorem edge_invert_alone_not_wf :
  exists h ci h', WF h /\ live h ci /\ edge_invert ci h = HOk h' /\ ~ WF h'.
Proof. exact edge_invert_alone_not_wf_l. Qed.
Print Assumptions edge_invert_alone_not_wf.

(* ---- operations ---- *)

(* Every covered operation applied to live arguments of a well-formed heap either completes and
   leaves a well-formed heap, or raises: one of four exceptions that the code raises BEFORE changing
   anything (heap unchanged), or - for the leaf-pruning family - the exception hit when the node to
   remove is the seed, which leaves a well-formed tree consisting of the seed alone (`lone`).
   Never out of fuel.  _partial: see the list at the top. *)
Theorem op_wf_partial : forall h o,
  WF h -> covered h o ->
  exists h', WF h' /\ (run_op o h = HOk h' \/ exists e, run_op o h = HErr e h' /\ raises h o e h').
Proof. exact op_wf_l. Qed.
Print Assumptions op_wf_partial.

(* The invariant over every finite history of covered operations (an exception does not stop the
   client: it goes on with the state left behind). *)
Theorem history_wf_partial : forall ops h,
  WF h -> valid_hist ops h -> exists h', run_hist ops h = Some h' /\ WF h'.
Proof. exact history_wf_l. Qed.
Print Assumptions history_wf_partial.

(* ---- refinement to the rose-tree specifications, with the leaf-taxon multiset ---- *)

Theorem suppress_unifurcations_refines : forall h t,
  WF h -> abs h = Some t ->
  exists h', suppress_unifurcations h = HOk h' /\ WF h' /\ abs h' = Some (spec_su t) /\
             leaf_taxa (spec_su t) = leaf_taxa t /\ rooted h' = rooted h.
Proof. exact suppress_refines_l. Qed.
Print Assumptions suppress_unifurcations_refines.

(* after suppression no node has exactly one child *)
Theorem suppress_unifurcations_complete : forall t s,
  In s (preorder (spec_su t)) -> forall k, t_kids s <> [k].
Proof. exact spec_su_no_unary. Qed.
Print Assumptions suppress_unifurcations_complete.

Theorem collapse_basal_bifurcation_refines : forall u h t,
  WF h -> abs h = Some t ->
  exists h', collapse_basal_bifurcation u h = HOk h' /\ WF h' /\ abs h' = Some (spec_collapse_basal t) /\
             leaf_taxa (spec_collapse_basal t) = leaf_taxa t /\ (u = false -> rooted h' = rooted h).
Proof. exact collapse_basal_refines_l. Qed.
Print Assumptions collapse_basal_bifurcation_refines.

Theorem edge_collapse_refines : forall adj h t ci,
  WF h -> abs h = Some t -> In ci (ids t) -> ci <> seed h -> kids h ci <> [] ->
  exists h', edge_collapse ci adj h = HOk h' /\ WF h' /\ abs h' = Some (spec_collapse ci adj t) /\
             leaf_taxa (spec_collapse ci adj t) = leaf_taxa t /\ rooted h' = rooted h.
Proof. exact edge_collapse_refines_l. Qed.
Print Assumptions edge_collapse_refines.

(* reseed_at at an internal node (or with suppress_unifurcations off): the re-rooted tree, then the
   structural clean-up passes the flags ask for *)
Theorem reseed_at_refines : forall ub cb su h t n,
  WF h -> abs h = Some t -> In n (ids t) -> (kids h n <> [] \/ su = false) ->
  exists h' t1, reseed_at n ub cb su h = HOk h' /\ WF h' /\
    spec_reseed n t = Some t1 /\ abs h' = Some (spec_encode su cb (not_rooted h) t1) /\
    Permutation (ids t1) (ids t).
Proof. exact reseed_refines_l. Qed.
Print Assumptions reseed_at_refines.

Theorem reseed_at_leaf_multiset : forall ub cb su h t n,
  WF h -> abs h = Some t -> In n (ids t) -> kids h n <> [] -> (2 <= length (t_kids t))%nat ->
  exists h' t', reseed_at n ub cb su h = HOk h' /\ abs h' = Some t' /\
    Permutation (leaf_taxa t') (leaf_taxa t).
Proof. exact reseed_leaf_multiset_l. Qed.
Print Assumptions reseed_at_leaf_multiset.

(* prune_subtree: the leaf taxa that disappear are exactly those of the subtree s hanging at n; the
   only possible gain is the entry of n's parent when n was its only child *)
Theorem prune_subtree_refines : forall ub su h t n,
  WF h -> abs h = Some t -> In n (ids t) -> n <> seed h ->
  exists h', prune_subtree n ub su h = HOk h' /\ WF h' /\
    abs h' = Some (spec_tail ub su (not_rooted h) (spec_prune n t)) /\
    exists c p x l e lft s rgt,
      t = plug c (T p x l e (lft ++ s :: rgt)) /\ t_id s = n /\
      Permutation (olist (if match lft ++ rgt with [] => true | _ => false end then Some x else None)
                     ++ leaf_taxa t)
                  (leaf_taxa s ++ leaf_taxa (spec_tail ub su (not_rooted h) (spec_prune n t))).
Proof. exact prune_subtree_refines_l. Qed.
Print Assumptions prune_subtree_refines.

Theorem ladderize_refines : forall asc h t,
  WF h -> abs h = Some t ->
  exists h' t', ladderize asc h = HOk h' /\ WF h' /\ abs h' = Some t' /\
    t_id t' = t_id t /\ Permutation (ids t) (ids t') /\ Permutation (leaf_taxa t) (leaf_taxa t').
Proof. exact ladderize_refines_l. Qed.
Print Assumptions ladderize_refines.

Theorem collapse_unweighted_edges_refines : forall thr h t,
  WF h -> abs h = Some t ->
  exists h', collapse_unweighted_edges thr false h = HOk h' /\ WF h' /\ abs h' = Some (spec_cu thr t) /\
             leaf_taxa (spec_cu thr t) = leaf_taxa t /\ rooted h' = rooted h.
Proof. exact collapse_unweighted_refines_l. Qed.
Print Assumptions collapse_unweighted_edges_refines.

(* reseed_at at a LEAF with unifurcation suppression (outside the documented domain, F19): the
   leaf's old parent is spliced out, its siblings become the leaf's children, and the length of
   the leaf's own edge is dropped *)
Theorem reseed_at_leaf_refines : forall ub cb h c' i x l e lft rgt ns xs ls es,
  WFt h (plug (CNode c' i x l e lft rgt) (T ns xs ls es [])) ->
  exists h', reseed_at ns ub cb true h = HOk h' /\
    WFt h' (spec_encode true cb (not_rooted h)
              (T ns xs ls (root_len c' e) (lft ++ rgt ++ olist (up c' e)))) /\
    next h' = next h /\ rooted_ok h h'.
Proof. exact reseed_at_leaf_wf. Qed.
Print Assumptions reseed_at_leaf_refines.

(* to_outgroup_position without unifurcation suppression: re-rooted at the outgroup's parent p,
   the outgroup s is p's FIRST child *)
Theorem to_outgroup_position_refines : forall ub h c p x l e lft s rgt,
  WFt h (plug c (T p x l e (lft ++ s :: rgt))) ->
  exists h', to_outgroup_position (t_id s) ub false h = HOk h' /\
    WFt h' (T p x l (root_len c e) (s :: lft ++ rgt ++ olist (up c e))) /\
    next h' = next h /\ rooted_ok h h'.
Proof. exact to_outgroup_wf. Qed.
Print Assumptions to_outgroup_position_refines.

(* reroot_at_edge: a new node (id = next h) with length1 takes the place of the edge's head ci
   below the old tail ot, ci (with length2) becomes its only child, then reroot_at_node there *)
Theorem reroot_at_edge_refines : forall l1 l2 ub su h c ot x l e lft ci xs ls es ks rgt,
  WFt h (plug c (T ot x l e (lft ++ T ci xs ls es ks :: rgt))) ->
  exists h', reroot_at_edge ci l1 l2 ub su h = HOk h' /\
    WFt h' ((if ub then spec_encode su true false else (fun t => t))
              (spec_encode su false true
                 (reroot (CNode c ot x l e (lft ++ rgt) [])
                         (T (next h) None None l1 [T ci xs ls l2 ks])))) /\
    next h' = next h + 1 /\ rooted h' = Some true.
Proof. exact reroot_at_edge_wf. Qed.
Print Assumptions reroot_at_edge_refines.

(* the operations that are not asked to remove anything leave the multiset of leaf taxa alone
   (for the removing operations see prune_subtree_refines; for re-seeding reseed_at_leaf_multiset) *)
Theorem leaf_multiset_preserved : forall h o h' t t',
  WF h -> keeps_leaves h o -> run_op o h = HOk h' ->
  abs h = Some t -> abs h' = Some t' -> Permutation (leaf_taxa t) (leaf_taxa t').
Proof. exact leaf_multiset_preserved_l. Qed.
Print Assumptions leaf_multiset_preserved.

(* ---- non-vacuity: a concrete 10-node tree, and a concrete valid history of 12 operations with
   re-rootings at an internal node, at an edge and at a leaf, two raising steps, an allocation,
   collapses and a pruning ---- *)
Theorem example_tree_wf : WF (of_tree ex_tree None).
Proof. exact ex_tree_wf. Qed.
Print Assumptions example_tree_wf.

Theorem example_history_valid : valid_hist ex_hist (of_tree ex_tree None).
Proof. exact ex_hist_valid. Qed.
Print Assumptions example_history_valid.

Theorem example_history_runs :
  exists h', run_hist ex_hist (of_tree ex_tree None) = Some h' /\
             abs h' = Some (T 8 (Some 8) None (Some 7)
                              [T 2 (Some 2) None (Some 1031) []; T 6 (Some 6) None (Some 1024) [];
                               T 10 (Some 9) None (Some 4) []]).
Proof. exact ex_hist_runs. Qed.
Print Assumptions example_history_runs.
