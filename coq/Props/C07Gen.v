(* C07, translator tie for Tree.reroot_at_midpoint.  Statements only, each closed by `exact`.

   gen_reroot_at_midpoint (Gen/Midpoint.v) is regenerated on every run from the AST of
   Tree.reroot_at_midpoint (py/dv/gen_midpoint.py), statement by statement, over the primitives of
   Model/C07GenMidPrims.v (which state the Python semantics relied upon; interface operations: the
   distance-matrix queries, Tree.reseed_at, Tree.update_bipartitions - given by
   C07Model's functions; Node.distance_from_root is NOT an interface operation any more, it is compiled too,
   section 3 - and op_split_block, the pointer block of the method (the edge split): ONE
   operation here, but its statements are compiled one by one over the heap by py/dv/gen_mutators.py
   and section 2 below proves the compiled block equal to the operation).  `self` = mkG tree rooting_flag;
   pr = the pair max_pairwise_distance_taxa() returns (an input, as in the model); fresh = the identity
   of the node `_node.Node()` creates; lift maps the model's result (tree, flag) to that record.
   Hypotheses: node identities distinct, leaf taxa distinct, the pair consists of two different leaf taxa of
   the tree (what max_pairwise_distance_taxa returns for a tree with >= 2 leaves). *)
From Coq Require Import ZArith List Bool Permutation.
From DV Require Import Model.PyPrims Model.Tree Model.C07Model Model.C07Spec Model.C07GenMidPrims Gen.Midpoint
     Proofs.C07GenDfr Proofs.C07GenMidpoint Proofs.C07GenMidThms.
From DV Require Model.Heap Model.HeapOps Model.MutPrims Gen.Mutators Model.C03GenInst Model.C03Split Proofs.C03Base
     Proofs.C03GenSplit Proofs.C07GenSplit Proofs.C07Thms Proofs.C07GenRefused.
Import ListNotations.
Open Scope Z_scope.

(* the generated code IS the hand-written model of the method, on every tree (lengths as given) *)
Theorem gen_midpoint_equals_model_core :
  forall t r a b upd supp coll fresh,
  NoDup (ids t) -> NoDup (leaf_taxa t) -> a <> b -> In a (leaf_taxa t) -> In b (leaf_taxa t) ->
  gen_reroot_at_midpoint (Some (a, b)) fresh (mkG t r) upd supp coll
  = lift (midpoint_core t r (Some (a, b)) upd supp coll fresh).
Proof. exact gen_midpoint_core_eq. Qed.
Print Assumptions gen_midpoint_equals_model_core.

(* ... and on the tree with doubled lengths it is C07Model.reroot_at_midpoint (result in half units) *)
Theorem gen_midpoint_equals_model :
  forall t r a b upd supp coll fresh,
  NoDup (ids t) -> NoDup (leaf_taxa t) -> a <> b -> In a (leaf_taxa t) -> In b (leaf_taxa t) ->
  gen_reroot_at_midpoint (Some (a, b)) fresh (mkG (dbl t) r) upd supp coll
  = lift (reroot_at_midpoint t r (Some (a, b)) upd supp coll fresh).
Proof. exact gen_reroot_at_midpoint_eq_l. Qed.
Print Assumptions gen_midpoint_equals_model.

(* no pair (fewer than two leaves): the same exception in both, on every tree *)
Theorem gen_midpoint_no_pair :
  forall t r upd supp coll fresh,
  gen_reroot_at_midpoint None fresh (mkG t r) upd supp coll = lift (midpoint_core t r None upd supp coll fresh).
Proof. exact gen_no_pair_l. Qed.
Print Assumptions gen_midpoint_no_pair.

(* the property, for the GENERATED code: leaf taxa, unrooted splits, total length and every
   leaf-to-leaf distance are unchanged (result in half units) *)
Theorem gen_midpoint_invariant :
  forall t r a b upd supp coll fresh s,
  gen_reroot_at_midpoint (Some (a, b)) fresh (mkG (dbl t) r) upd supp coll = Ok s ->
  NoDup (ids t) -> NoDup (leaf_taxa t) -> (2 <= length (t_kids t))%nat -> ~ In fresh (ids t) -> a <> b ->
  In a (leaf_taxa t) -> In b (leaf_taxa t) ->
  Permutation (leaf_taxa t) (leaf_taxa (g_tree s))
  /\ (forall S, is_usplit t S <-> is_usplit (g_tree s) S)
  /\ total_length (g_tree s) = 2 * total_length t
  /\ (forall x y, dist x y (g_tree s) = option_map (Z.mul 2) (dist x y t)).
Proof. exact gen_midpoint_invariant_l. Qed.
Print Assumptions gen_midpoint_invariant.

(* the new root is equidistant (D = dist a b / 2, in half units) from the two leaves of the pair; if
   the pair was a most distant one of t it is one of the result *)
Theorem gen_midpoint_equidistant :
  forall t r a b upd supp coll fresh s,
  gen_reroot_at_midpoint (Some (a, b)) fresh (mkG (dbl t) r) upd supp coll = Ok s ->
  NoDup (ids t) -> NoDup (leaf_taxa t) -> (2 <= length (t_kids t))%nat -> ~ In fresh (ids t) -> a <> b ->
  In a (leaf_taxa t) -> In b (leaf_taxa t) ->
  exists D, dist a b t = Some D /\ dist a b (g_tree s) = Some (2 * D)
            /\ down a (g_tree s) = Some D /\ down b (g_tree s) = Some D
            /\ ((forall x y d, dist x y t = Some d -> d <= D) ->
                forall x y d, dist x y (g_tree s) = Some d -> d <= 2 * D).
Proof. exact gen_midpoint_equidistant_l. Qed.
Print Assumptions gen_midpoint_equidistant.

(* a hard re-rooting: the flag is set *)
Theorem gen_midpoint_sets_rooted :
  forall t r a b upd supp coll fresh s,
  gen_reroot_at_midpoint (Some (a, b)) fresh (mkG (dbl t) r) upd supp coll = Ok s ->
  NoDup (ids t) -> NoDup (leaf_taxa t) -> a <> b -> In a (leaf_taxa t) -> In b (leaf_taxa t) ->
  g_rooted s = Some true.
Proof. exact gen_midpoint_rooted_l. Qed.
Print Assumptions gen_midpoint_sets_rooted.

(* non-vacuity: ((A:3,B:2):2,(C:2,D:4):2) with the pair (A, D): the midpoint falls inside an edge *)
Theorem gen_midpoint_nonvacuous :
  gen_reroot_at_midpoint (Some (Some 10, Some 13)) 99 (mkG (dbl exg) (Some false)) true true true
  = Ok (mkG (T 99 None None None
               [T 4 None None (Some 3) [T 5 (Some 12) None (Some 4) []; T 6 (Some 13) None (Some 8) []];
                T 1 None None (Some 5) [T 2 (Some 10) None (Some 6) []; T 3 (Some 11) None (Some 4) []]])
            (Some true))
  /\ NoDup (ids exg) /\ NoDup (leaf_taxa exg) /\ (2 <= length (t_kids exg))%nat /\ ~ In 99 (ids exg).
Proof. exact gen_midpoint_example_l. Qed.
Print Assumptions gen_midpoint_nonvacuous.

(* ---------------------------------------------------------------------------------------------------
   2. The pointer block (edge split), statement level.  Gen/Mutators.v
   Tree_reroot_at_midpoint__edge_split is compiled from the statements of the block, one by one, whatever
   their number and order (py/dv/gen_mutators.py; same locator and same parameter order as the
   op_split_block call above).  HG = Model/Heap.v's heap as the object graph; WF = C03's invariant;
   abs = the rose tree a heap represents; next h = the identity the next Node() receives. *)

(* on every well-formed heap representing t, for every non-root node ci: the compiled statements,
   applied to ci's parent and ci, complete, return the constructed node, leave a well-formed heap, and
   the abstraction of that heap is the tree op_split_block returns (for whatever references to tail
   and head the rose-tree program holds, head having the identity ci) *)
Theorem gen_split_block_is_op :
  forall (h : Heap.heap) (t : tree) (ci : Z) (H : tree) (hl tl : option Z) (tailn headn : node) (tid : Z),
  C03Base.WF h -> Heap.abs h = Some t -> find_node ci t = Some H -> ci <> t_id t ->
  nid tailn = Ok tid -> nid headn = Ok ci ->
  exists ot h' t',
    Heap.parent h ci = Some ot /\
    Mutators.Tree_reroot_at_midpoint__edge_split C03GenInst.HG ot ci hl tl h = MutPrims.MOk (Heap.next h) h' /\
    C03Base.WF h' /\ Heap.abs h' = Some t' /\
    op_split_block (Heap.next h) (mkG t (Heap.rooted h)) tailn headn hl tl
    = Ok (mkG t' (Heap.rooted h'), Some [T (Heap.next h) None None tl []]).
Proof. exact C07GenSplit.gen_split_block_is_op_l. Qed.
Print Assumptions gen_split_block_is_op.

(* the whole else-branch: compiled block, then self.reseed_at(new_seed_node, False, su, False)
   (HeapOps.reseed_at through the interface) = op_split_block, then op_reseed_at *)
Theorem gen_mid_edge_branch :
  forall (su : bool) (h : Heap.heap) (t : tree) (ci : Z) (H : tree) (hl tl : option Z) (tailn headn : node) (tid : Z),
  C03Base.WF h -> Heap.abs h = Some t -> find_node ci t = Some H -> ci <> t_id t ->
  nid tailn = Ok tid -> nid headn = Ok ci ->
  exists ot h1 h2 t2 r2,
    Heap.parent h ci = Some ot /\
    Mutators.Tree_reroot_at_midpoint__edge_split C03GenInst.HG ot ci hl tl h = MutPrims.MOk (Heap.next h) h1 /\
    MutPrims.x_reseed_at C03GenInst.HG (Heap.next h) false false su h1 = MutPrims.MOk tt h2 /\
    C03Base.WF h2 /\ Heap.abs h2 = Some t2 /\
    (do sn <- op_split_block (Heap.next h) (mkG t (Heap.rooted h)) tailn headn hl tl ;;
     op_reseed_at (fst sn) (snd sn) false su false)
    = Ok (mkG t2 r2).
Proof. exact C07GenSplit.gen_mid_edge_branch_l. Qed.
Print Assumptions gen_mid_edge_branch.

(* the whole method at heap level with the GENERATED block inside (= HeapOps.reroot_at_midpoint,
   Props/C03Gen.v reroot_at_midpoint_generated_split): whatever pair is given and whatever the search
   finds, a completed call leaves a well-formed heap, is_rooted = True, the same unrooted tree *)
Theorem heap_midpoint_generated_split :
  forall (tx1 tx2 : Z) (ub su cb : bool) (h : Heap.heap) (t : tree) (h' : Heap.heap),
  C03Base.WF h -> Heap.abs h = Some t -> (2 <= length (t_kids t))%nat -> NoDup (leaf_taxa t) ->
  C03Split.reroot_at_midpoint_with (Mutators.Tree_reroot_at_midpoint__edge_split C03GenInst.HG) tx1 tx2 ub su cb h
    = Heap.HOk h' ->
  C03Base.WF h' /\ Heap.rooted h' = Some true /\
  exists t', Heap.abs h' = Some t'
    /\ Permutation (leaf_taxa t) (leaf_taxa t')
    /\ (forall S, is_usplit t S <-> is_usplit t' S)
    /\ total_length t' = total_length t
    /\ (forall a b, dist a b t' = dist a b t).
Proof. exact C07GenSplit.heap_midpoint_generated_split_l. Qed.
Print Assumptions heap_midpoint_generated_split.

(* the hypotheses are satisfiable: ((A:3,B:2):2,(C:2,D:4):2), node 4, and the whole call completes *)
Theorem gen_split_block_nonvacuous :
  C03Base.WF (Heap.of_tree C03GenSplit.exs_tree None) /\
  Heap.abs (Heap.of_tree C03GenSplit.exs_tree None) = Some C03GenSplit.exs_tree /\
  (exists H, find_node 4 C03GenSplit.exs_tree = Some H) /\ 4 <> t_id C03GenSplit.exs_tree /\
  nid (Some [C03GenSplit.exs_tree]) = Ok 0 /\
  (2 <= length (t_kids C03GenSplit.exs_tree))%nat /\ NoDup (leaf_taxa C03GenSplit.exs_tree) /\
  exists h', C03Split.reroot_at_midpoint_with (Mutators.Tree_reroot_at_midpoint__edge_split C03GenInst.HG)
               10 13 true true true (Heap.of_tree C03GenSplit.exs_tree None) = Heap.HOk h'.
Proof. exact C07GenSplit.gen_split_block_hyps. Qed.
Print Assumptions gen_split_block_nonvacuous.

(* =====================================================================================================
   3. Node.distance_from_root (wave 8).  gen_distance_from_root (Gen/Midpoint.v) is regenerated on every run
      from the AST of Node.distance_from_root (datamodel/treemodel/_node.py), and gen_reroot_at_midpoint calls
      IT (not a model function) to decide from which end of the longest path to walk up.  A node reference is
      `Some [Y; P; ...; R]` (the node, its parent, ..., the seed).  No hypothesis on the lengths: any mixture of
      None, 0 and non-zero values. *)

(* the generated code IS C07Model.dfr on the chain of (identity, length) up to the seed *)
Theorem gen_distance_from_root_equals_model :
  forall p, p <> [] -> gen_distance_from_root (Some p) = dfr (map node_pair p).
Proof. exact gen_dfr_eq_model. Qed.
Print Assumptions gen_distance_from_root_equals_model.

(* ... and the former interface operation node_dfr, also on the None reference (AttributeError) *)
Theorem gen_distance_from_root_equals_node_dfr :
  forall n, n <> Some [] -> gen_distance_from_root n = node_dfr n.
Proof. exact gen_dfr_eq_node_dfr. Qed.
Print Assumptions gen_distance_from_root_equals_node_dfr.

(* in plain terms: a node below the seed whose own edge length is defined - zero included - is at its own
   length plus the defined lengths of all its ancestors from the root (a zero-length terminal edge does NOT
   make the distance 0) *)
Theorem gen_distance_from_root_defined_length :
  forall Y P r e, t_len Y = Some e ->
  gen_distance_from_root (Some (Y :: P :: r)) = Ok (e + fold_right (fun A s => len0 (t_len A) + s) 0 (P :: r)).
Proof. exact gen_dfr_defined_l. Qed.
Print Assumptions gen_distance_from_root_defined_length.

(* the hypotheses are satisfiable with a zero length: leaf A:0 below ancestors of lengths 2 and 1 *)
Theorem gen_distance_from_root_zero_leaf_example :
  gen_distance_from_root
    (Some [T 3 (Some 0) None (Some 0) []; T 2 None None (Some 2) []; T 1 None None (Some 1) []; T 0 None None None []])
  = Ok 3.
Proof. exact gen_dfr_zero_leaf. Qed.
Print Assumptions gen_distance_from_root_zero_leaf_example.

(* =====================================================================================================
   4. A REFUSED re-rooting changes nothing (wave 8) - for the GENERATED programs of Gen/Mutators.v.
      Heap.hres keeps the state an exception leaves behind (HErr e h).  On every well-formed heap the
      compiled reroot_at_edge given the SEED edge (it has no tail node) raises AttributeError and the
      compiled to_outgroup_position given the seed raises AssertionError, and the heap left behind IS the input heap:
      every parent pointer, child list, edge length (the seed's included) and the rooting flag.  (A source that
      attaches the head node to the new node and assigns length2 before it touches the tail node raises the
      same error with the seed re-parented and its length overwritten: its compiled program is not
      HeapOps.reroot_at_edge, C03Gen's reroot_at_edge_refines and these theorems do not go through.) *)
Theorem generated_reroot_at_edge_refused_changes_nothing :
  forall (c : Z) (l1 l2 : option Z) (ub su : bool) (h : Heap.heap),
  Heap.parent h c = None ->
  C03GenInst.to_hres (Mutators.Tree_reroot_at_edge C03GenInst.HG c l1 l2 ub su h) = Heap.HErr AttrErr h.
Proof. exact Proofs.C07GenRefused.gen_reroot_at_edge_refused_l. Qed.
Print Assumptions generated_reroot_at_edge_refused_changes_nothing.

Theorem generated_reroot_at_seed_edge_changes_nothing :
  forall (l1 l2 : option Z) (ub su : bool) (h : Heap.heap),
  C03Base.WF h ->
  C03GenInst.to_hres (Mutators.Tree_reroot_at_edge C03GenInst.HG (Heap.seed h) l1 l2 ub su h) = Heap.HErr AttrErr h.
Proof. exact Proofs.C07GenRefused.gen_reroot_at_seed_edge_l. Qed.
Print Assumptions generated_reroot_at_seed_edge_changes_nothing.

Theorem generated_to_outgroup_position_refused_changes_nothing :
  forall (og : Z) (ub su : bool) (h : Heap.heap),
  Heap.parent h og = None ->
  C03GenInst.to_hres (Mutators.Tree_to_outgroup_position C03GenInst.HG og ub su h) = Heap.HErr AssertErr h.
Proof. exact Proofs.C07GenRefused.gen_to_outgroup_refused_l. Qed.
Print Assumptions generated_to_outgroup_position_refused_changes_nothing.

Theorem generated_to_outgroup_position_seed_changes_nothing :
  forall (ub su : bool) (h : Heap.heap),
  C03Base.WF h ->
  C03GenInst.to_hres (Mutators.Tree_to_outgroup_position C03GenInst.HG (Heap.seed h) ub su h) = Heap.HErr AssertErr h.
Proof. exact Proofs.C07GenRefused.gen_to_outgroup_seed_l. Qed.
Print Assumptions generated_to_outgroup_position_seed_changes_nothing.

(* the hypothesis is satisfiable: a well-formed heap, and the refused call on it *)
Theorem generated_refused_example :
  C03Base.WF (Heap.of_tree C07Thms.ex_t None)
  /\ C03GenInst.to_hres (Mutators.Tree_reroot_at_edge C03GenInst.HG (Heap.seed (Heap.of_tree C07Thms.ex_t None))
                           (Some 512) (Some 512) false true (Heap.of_tree C07Thms.ex_t None))
     = Heap.HErr AttrErr (Heap.of_tree C07Thms.ex_t None).
Proof. exact Proofs.C07GenRefused.refused_example_l. Qed.
Print Assumptions generated_refused_example.
