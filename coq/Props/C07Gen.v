(* C07, translator tie for Tree.reroot_at_midpoint.  Statements only, each closed by `exact`.

   gen_reroot_at_midpoint (Gen/Midpoint.v) is regenerated on every run from the AST of
   Tree.reroot_at_midpoint (py/dv/gen_midpoint.py), statement by statement, over the primitives of
   Model/C07GenMidPrims.v (which state the Python semantics relied upon; interface operations: the
   distance-matrix queries, Node.distance_from_root, the six-statement edge split, Tree.reseed_at,
   Tree.update_bipartitions - all given by C07Model's functions).  `self` = mkG tree rooting_flag;
   pr = the pair max_pairwise_distance_taxa() returns (an input, as in the model); fresh = the identity
   of the node `_node.Node()` creates; lift maps the model's result (tree, flag) to that record.
   Hypotheses: node identities distinct, leaf taxa distinct, the pair consists of two different leaf taxa of
   the tree (what max_pairwise_distance_taxa returns for a tree with >= 2 leaves). *)
From Coq Require Import ZArith List Bool Permutation.
From DV Require Import Model.PyPrims Model.Tree Model.C07Model Model.C07Spec Model.C07GenMidPrims Gen.Midpoint
     Proofs.C07GenMidpoint Proofs.C07GenMidThms.
Import ListNotations.
Open Scope Z_scope.

(* the generated code IS the hand-written model of the method, on every tree (lengths as given) *)
Theorem gen_midpoint_equals_model_core :
  forall t r a b upd supp coll fresh,
  NoDup (ids t) -> NoDup (leaf_taxa t) -> a <> b -> In a (leaf_taxa t) -> In b (leaf_taxa t) ->
  gen_reroot_at_midpoint (Some (a, b)) fresh (mkG t r) upd supp coll
  = lift (midpoint_core t r (Some (a, b)) upd supp coll fresh).
Proof. exact gen_midpoint_core_eq. Qed.
Print Assumptions gen_midpoint_equals_model_core.

(* ... and on the tree with doubled lengths it is C07Model.reroot_at_midpoint (result in half units) *)
Theorem gen_midpoint_equals_model :
  forall t r a b upd supp coll fresh,
  NoDup (ids t) -> NoDup (leaf_taxa t) -> a <> b -> In a (leaf_taxa t) -> In b (leaf_taxa t) ->
  gen_reroot_at_midpoint (Some (a, b)) fresh (mkG (dbl t) r) upd supp coll
  = lift (reroot_at_midpoint t r (Some (a, b)) upd supp coll fresh).
Proof. exact gen_reroot_at_midpoint_eq_l. Qed.
Print Assumptions gen_midpoint_equals_model.

(* no pair (fewer than two leaves): the same exception in both, on every tree *)
Theorem gen_midpoint_no_pair :
  forall t r upd supp coll fresh,
  gen_reroot_at_midpoint None fresh (mkG t r) upd supp coll = lift (midpoint_core t r None upd supp coll fresh).
Proof. exact gen_no_pair_l. Qed.
Print Assumptions gen_midpoint_no_pair.

(* the property, for the GENERATED code: leaf taxa, unrooted splits, total length and every
   leaf-to-leaf distance are unchanged (result in half units) *)
Theorem gen_midpoint_invariant :
  forall t r a b upd supp coll fresh s,
  gen_reroot_at_midpoint (Some (a, b)) fresh (mkG (dbl t) r) upd supp coll = Ok s ->
  NoDup (ids t) -> NoDup (leaf_taxa t) -> (2 <= length (t_kids t))%nat -> ~ In fresh (ids t) -> a <> b ->
  In a (leaf_taxa t) -> In b (leaf_taxa t) ->
  Permutation (leaf_taxa t) (leaf_taxa (g_tree s))
  /\ (forall S, is_usplit t S <-> is_usplit (g_tree s) S)
  /\ total_length (g_tree s) = 2 * total_length t
  /\ (forall x y, dist x y (g_tree s) = option_map (Z.mul 2) (dist x y t)).
Proof. exact gen_midpoint_invariant_l. Qed.
Print Assumptions gen_midpoint_invariant.

(* the new root is equidistant (D = dist a b / 2, in half units) from the two leaves of the pair; if
   the pair was a most distant one of t it is one of the result *)
Theorem gen_midpoint_equidistant :
  forall t r a b upd supp coll fresh s,
  gen_reroot_at_midpoint (Some (a, b)) fresh (mkG (dbl t) r) upd supp coll = Ok s ->
  NoDup (ids t) -> NoDup (leaf_taxa t) -> (2 <= length (t_kids t))%nat -> ~ In fresh (ids t) -> a <> b ->
  In a (leaf_taxa t) -> In b (leaf_taxa t) ->
  exists D, dist a b t = Some D /\ dist a b (g_tree s) = Some (2 * D)
            /\ down a (g_tree s) = Some D /\ down b (g_tree s) = Some D
            /\ ((forall x y d, dist x y t = Some d -> d <= D) ->
                forall x y d, dist x y (g_tree s) = Some d -> d <= 2 * D).
Proof. exact gen_midpoint_equidistant_l. Qed.
Print Assumptions gen_midpoint_equidistant.

(* a hard re-rooting: the flag is set *)
Theorem gen_midpoint_sets_rooted :
  forall t r a b upd supp coll fresh s,
  gen_reroot_at_midpoint (Some (a, b)) fresh (mkG (dbl t) r) upd supp coll = Ok s ->
  NoDup (ids t) -> NoDup (leaf_taxa t) -> a <> b -> In a (leaf_taxa t) -> In b (leaf_taxa t) ->
  g_rooted s = Some true.
Proof. exact gen_midpoint_rooted_l. Qed.
Print Assumptions gen_midpoint_sets_rooted.

(* non-vacuity: ((A:3,B:2):2,(C:2,D:4):2) with the pair (A, D): the midpoint falls inside an edge *)
Theorem gen_midpoint_nonvacuous :
  gen_reroot_at_midpoint (Some (Some 10, Some 13)) 99 (mkG (dbl exg) (Some false)) true true true
  = Ok (mkG (T 99 None None None
               [T 4 None None (Some 3) [T 5 (Some 12) None (Some 4) []; T 6 (Some 13) None (Some 8) []];
                T 1 None None (Some 5) [T 2 (Some 10) None (Some 6) []; T 3 (Some 11) None (Some 4) []]])
            (Some true))
  /\ NoDup (ids exg) /\ NoDup (leaf_taxa exg) /\ (2 <= length (t_kids exg))%nat /\ ~ In 99 (ids exg).
Proof. exact gen_midpoint_example_l. Qed.
Print Assumptions gen_midpoint_nonvacuous.
