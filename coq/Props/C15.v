(* C15 property theorems: statements only, each closed by `exact`.

   Every Node_* / Tree_* function below is a definition of Gen/Traversals.v, GENERATED from
   src/dendropy/datamodel/treemodel/_node.py and _tree.py on every run.  LGE E eo hd age is the
   object graph of located nodes of a rose tree (Model/C15Model.v): a node = subtree + ancestor
   chain, so every node of every tree (all arities, incl. 0 and 1 children) is a start node;
   E / eo / hd is any representation of Edge objects, age any assignment of the age attribute.
   pyf ff is Python's `filter_fn is None or filter_fn(x)`.  GFuel (model out of fuel) is excluded
   by each equation, under the stated fuel bound. *)
From Coq Require Import ZArith List Bool Arith Permutation Sorted.
From DV Require Import Model.PyPrims Model.Tree Model.C15Prims Gen.Traversals Model.C15Model
     Proofs.C15Base Proofs.C15Proofs Proofs.C15Apply Proofs.C15Order Proofs.C15Edges Proofs.C15Final.
Import ListNotations.
Open Scope nat_scope.

(* The located specifications are the structural ones of Model/Tree.v: parents first with
   siblings left to right; children before parents; leaves left to right. *)
Theorem specs_are_tree_orders : forall (n : lnode),
  map here (lpre n) = preorder (here n) /\
  map here (lpost n) = postorder (here n) /\
  map here (lleaves n) = leaves (here n) /\
  lleaves n = filter l_is_leaf (lpre n).
Proof. exact specs_project. Qed.
Print Assumptions specs_are_tree_orders.

(* Node.preorder_iter: exactly the filter-passing subsequence of the pre-order. *)
Theorem preorder_iter_spec :
  forall (E : Type) (eo : lnode -> E) (hd : E -> lnode) (age : lnode -> Z)
         (ff : option (lnode -> bool)) (n : lnode) (fuel : nat),
    size (here n) < fuel ->
    Node_preorder_iter (LGE E eo hd age) fuel ff n = GDone (filter (pyf ff) (lpre n)).
Proof. exact (@preorder_iter_run). Qed.
Print Assumptions preorder_iter_spec.

(* Node.postorder_iter. *)
Theorem postorder_iter_spec :
  forall (E : Type) (eo : lnode -> E) (hd : E -> lnode) (age : lnode -> Z)
         (ff : option (lnode -> bool)) (n : lnode) (fuel : nat),
    2 * size (here n) < fuel ->
    Node_postorder_iter (LGE E eo hd age) fuel ff n = GDone (filter (pyf ff) (lpost n)).
Proof. exact (@postorder_iter_run). Qed.
Print Assumptions postorder_iter_spec.

(* Node.levelorder_iter: level 0, then level 1, ... each left to right. *)
Theorem levelorder_iter_spec :
  forall (E : Type) (eo : lnode -> E) (hd : E -> lnode) (age : lnode -> Z)
         (ff : option (lnode -> bool)) (n : lnode) (fuel : nat),
    size (here n) <= fuel ->
    Node_levelorder_iter (LGE E eo hd age) fuel ff n = GDone (filter (pyf ff) (llevel n)).
Proof. exact (@levelorder_iter_run). Qed.
Print Assumptions levelorder_iter_spec.

(* level order = the pre-order stably sorted by depth: depth never decreases, every node occurs
   exactly as often as in the pre-order, nodes of equal depth keep their left-to-right order *)
Theorem levelorder_depth_monotone_stable : forall (n : lnode),
  StronglySorted depth_le (llevel n) /\
  Permutation (llevel n) (lpre n) /\
  (forall d, filter (fun m => Nat.eqb (l_depth m) d) (llevel n) = filter (fun m => Nat.eqb (l_depth m) d) (lpre n)).
Proof. exact levelorder_props. Qed.
Print Assumptions levelorder_depth_monotone_stable.

(* Node.leaf_iter: the filter-passing leaves, left to right. *)
Theorem leaf_iter_spec :
  forall (E : Type) (eo : lnode -> E) (hd : E -> lnode) (age : lnode -> Z)
         (ff : option (lnode -> bool)) (n : lnode) (fuel : nat),
    2 * size (here n) < fuel ->
    Node_leaf_iter (LGE E eo hd age) fuel ff n = GDone (filter (pyf ff) (lleaves n)).
Proof. exact (@leaf_iter_run). Qed.
Print Assumptions leaf_iter_spec.

(* Node.inorder_iter = the recursive left-node-right walk, on every tree ... *)
Theorem inorder_iter_spec :
  forall (E : Type) (eo : lnode -> E) (hd : E -> lnode) (age : lnode -> Z)
         (ff : option (lnode -> bool)) (n : lnode) (fuel : nat),
    height (here n) <= fuel ->
    Node_inorder_iter (LGE E eo hd age) fuel ff n = linorder (pyf ff) n.
Proof. exact (@inorder_iter_run). Qed.
Print Assumptions inorder_iter_spec.

(* ... which on binary trees is the filtered in-order sequence ... *)
Theorem inorder_binary : forall (f : lnode -> bool) (n : lnode),
  is_binary (here n) = true -> linorder f n = GDone (filter f (linorder_list n)).
Proof. exact linorder_binary. Qed.
Print Assumptions inorder_binary.

(* ... and on any other tree ends in TypeError (after the yields preceding the offending node). *)
Theorem inorder_nonbinary_raises_TypeError : forall (f : lnode -> bool) (n : lnode),
  is_binary (here n) = false -> exists out, linorder f n = GRaise out TypeErr.
Proof. exact linorder_not_binary. Qed.
Print Assumptions inorder_nonbinary_raises_TypeError.

(* internal-node variants: the non-leaves that pass the filter, the node without parent
   excluded on request *)
Theorem preorder_internal_node_iter_spec :
  forall (E : Type) (eo : lnode -> E) (hd : E -> lnode) (age : lnode -> Z)
         (ff : option (lnode -> bool)) (exclude_seed_node : bool) (n : lnode) (fuel : nat),
    size (here n) < fuel ->
    Node_preorder_internal_node_iter (LGE E eo hd age) fuel ff exclude_seed_node n
    = GDone (filter (fun x => (if exclude_seed_node then l_has_parent x else true) && l_is_internal x && pyf ff x)
                    (lpre n)).
Proof. exact (@preorder_internal_run). Qed.
Print Assumptions preorder_internal_node_iter_spec.

Theorem postorder_internal_node_iter_spec :
  forall (E : Type) (eo : lnode -> E) (hd : E -> lnode) (age : lnode -> Z)
         (ff : option (lnode -> bool)) (exclude_seed_node : bool) (n : lnode) (fuel : nat),
    2 * size (here n) < fuel ->
    Node_postorder_internal_node_iter (LGE E eo hd age) fuel ff exclude_seed_node n
    = GDone (filter (fun x => (if exclude_seed_node then l_has_parent x else true) && l_is_internal x && pyf ff x)
                    (lpost n)).
Proof. exact (@postorder_internal_run). Qed.
Print Assumptions postorder_internal_node_iter_spec.

(* "seed" is "has no parent", as the lambda tests: started at a real seed, exclude_seed_node drops
   exactly the start node ... *)
Theorem internal_exclude_seed_at_seed : forall (ff : option (lnode -> bool)) (t : tree),
  filter (fun x => l_has_parent x && l_is_internal x && pyf ff x) (lpre (t, []))
  = filter (fun x => true && l_is_internal x && pyf ff x) (flat_map lpre (l_kids (t, []))).
Proof. exact internal_keep_seed. Qed.
Print Assumptions internal_exclude_seed_at_seed.

(* ... started at a node inside a tree it drops nothing (the start node is not "the seed"). *)
Theorem internal_exclude_seed_at_subtree : forall (ff : option (lnode -> bool)) (n : lnode),
  l_has_parent n = true ->
  filter (fun x => l_has_parent x && l_is_internal x && pyf ff x) (lpre n)
  = filter (fun x => true && l_is_internal x && pyf ff x) (lpre n).
Proof. exact internal_keep_subtree. Qed.
Print Assumptions internal_exclude_seed_at_subtree.

(* Node.ancestor_iter: optionally the node, then its ancestors nearest first, filtered. *)
Theorem ancestor_iter_spec :
  forall (E : Type) (eo : lnode -> E) (hd : E -> lnode) (age : lnode -> Z)
         (ff : option (lnode -> bool)) (inclusive : bool) (n : lnode) (fuel : nat),
    l_depth n + 2 <= fuel ->
    Node_ancestor_iter (LGE E eo hd age) fuel ff inclusive n
    = GDone (filter (pyf ff) ((if inclusive then [n] else []) ++ lancestors n)).
Proof. exact (@ancestor_iter_run). Qed.
Print Assumptions ancestor_iter_spec.

(* Node.child_node_iter / child_edge_iter *)
Theorem child_node_iter_spec :
  forall (E : Type) (eo : lnode -> E) (hd : E -> lnode) (age : lnode -> Z)
         (ff : option (lnode -> bool)) (n : lnode) (fuel : nat),
    Node_child_node_iter (LGE E eo hd age) fuel ff n = GDone (filter (pyf ff) (l_kids n)).
Proof. exact (@child_node_iter_run). Qed.
Print Assumptions child_node_iter_spec.

Theorem child_edge_iter_spec :
  forall (E : Type) (eo : lnode -> E) (hd : E -> lnode) (age : lnode -> Z)
         (fe : option (E -> bool)) (n : lnode) (fuel : nat),
    Node_child_edge_iter (LGE E eo hd age) fuel fe n
    = GDone (map eo (filter (fun k => pyf fe (eo k)) (l_kids n))).
Proof. exact (@child_edge_iter_run). Qed.
Print Assumptions child_edge_iter_spec.

(* Node.ageorder_iter: the pre-order list sorted by list.sort(key=age, reverse=descending), then
   leaves dropped on request and the filter applied ... *)
Theorem ageorder_iter_spec :
  forall (E : Type) (eo : lnode -> E) (hd : E -> lnode) (age : lnode -> Z)
         (ff : option (lnode -> bool)) (include_leaves descending : bool) (n : lnode) (fuel : nat),
    size (here n) < fuel ->
    Node_ageorder_iter (LGE E eo hd age) fuel ff include_leaves descending n
    = GDone (filter (fun x => (include_leaves || l_is_internal x) && pyf ff x)
                    (py_sort_by age descending (lpre n))).
Proof. exact (@ageorder_iter_run). Qed.
Print Assumptions ageorder_iter_spec.

(* ... where the sort is a permutation, monotone in the key (ascending, or descending when
   reverse), and stable in both directions. *)
Theorem sort_is_stable_monotone_permutation : forall (A : Type) (key : A -> Z) (rv : bool) (l : list A),
  Permutation (py_sort_by key rv l) l /\
  StronglySorted (key_ord key rv) (py_sort_by key rv l) /\
  (forall k, filter (fun y => Z.eqb (key y) k) (py_sort_by key rv l) = filter (fun y => Z.eqb (key y) k) l).
Proof. exact (@sort_spec). Qed.
Print Assumptions sort_is_stable_monotone_permutation.

(* Node.apply, for EVERY start node (any ancestor chain us) and any subset of callbacks: the calls
   are the bracket sequence of the start node's subtree, nothing outside it. *)
Theorem apply_brackets :
  forall (E : Type) (eo : lnode -> E) (hd : E -> lnode) (age : lnode -> Z) (ev : Type)
         (before_fn after_fn leaf_fn : option (lnode -> ev)) (ts : tree) (us : ctx) (fuel : nat),
    2 * size ts < fuel ->
    Node_apply (LGE E eo hd age) fuel before_fn after_fn leaf_fn (ts, us)
    = GDone (flat_map (cb_emit before_fn after_fn leaf_fn) (lbrackets (ts, us))).
Proof. exact (@apply_run). Qed.
Print Assumptions apply_brackets.

Theorem brackets_well_nested : forall (n : lnode), well_nested (lbrackets n).
Proof. exact lbrackets_well_nested. Qed.
Print Assumptions brackets_well_nested.

(* every internal node is opened exactly once (in pre-order) and closed exactly once (in
   post-order); the leaf calls are the leaves left to right *)
Theorem brackets_open_close_once : forall (n : lnode),
  flat_map ev_before (lbrackets n) = filter l_is_internal (lpre n) /\
  flat_map ev_after (lbrackets n) = filter l_is_internal (lpost n) /\
  flat_map ev_leaf (lbrackets n) = lleaves n.
Proof. exact brackets_once. Qed.
Print Assumptions brackets_open_close_once.

(* Tree.* wrappers, deprecated aliases, __iter__: plain delegations (any object graph) *)
Theorem tree_wrappers_delegate :
  forall (G : objgraph) (ev : Type) (fuel : nat) (ff : option (gnode G -> bool)) (b1 b2 : bool)
         (bf af lf : option (gnode G -> ev)) (s : gnode G),
  Tree_preorder_node_iter G fuel ff s = Node_preorder_iter G fuel ff s /\
  Tree_preorder_internal_node_iter G fuel ff b1 s = Node_preorder_internal_node_iter G fuel ff b1 s /\
  Tree_postorder_node_iter G fuel ff s = Node_postorder_iter G fuel ff s /\
  Tree_postorder_internal_node_iter G fuel ff b1 s = Node_postorder_internal_node_iter G fuel ff b1 s /\
  Tree_levelorder_node_iter G fuel ff s = Node_levelorder_iter G fuel ff s /\
  Tree_level_order_node_iter G fuel ff s = Node_levelorder_iter G fuel ff s /\
  Node_level_order_iter G fuel ff s = Node_levelorder_iter G fuel ff s /\
  Tree_inorder_node_iter G fuel ff s = Node_inorder_iter G fuel ff s /\
  Tree_leaf_node_iter G fuel ff s = Node_leaf_iter G fuel ff s /\
  Tree_leaf_iter G fuel ff s = Node_leaf_iter G fuel ff s /\
  Tree_ageorder_node_iter G fuel b1 ff b2 s = Node_ageorder_iter G fuel ff b1 b2 s /\
  Tree_age_order_node_iter G fuel b1 ff b2 s = Node_ageorder_iter G fuel ff b1 b2 s /\
  Node_age_order_iter G fuel b1 ff b2 s = Node_ageorder_iter G fuel ff b1 b2 s /\
  Tree_apply G fuel bf af lf s = Node_apply G fuel bf af lf s /\
  Node_dunder_iter G fuel ff s = Node_preorder_iter G fuel ff s /\
  Tree_dunder_iter G fuel s = Node_preorder_iter G fuel None s.
Proof. exact wrappers_delegate. Qed.
Print Assumptions tree_wrappers_delegate.

(* list-returning methods *)
Theorem list_methods_spec :
  forall (E : Type) (eo : lnode -> E) (hd : E -> lnode) (age : lnode -> Z)
         (ff : option (lnode -> bool)) (excl : bool) (n : lnode) (fuel : nat),
    2 * size (here n) < fuel ->
    Tree_nodes (LGE E eo hd age) fuel ff n = GDone (filter (pyf ff) (lpre n)) /\
    Tree_leaf_nodes (LGE E eo hd age) fuel n = GDone (lleaves n) /\
    Node_leaf_nodes (LGE E eo hd age) fuel n = GDone (lleaves n) /\
    Tree_internal_nodes (LGE E eo hd age) fuel excl n
    = GDone (filter (fun x => (if excl then l_has_parent x else true) && l_is_internal x && true) (lpre n)).
Proof. exact (@list_methods). Qed.
Print Assumptions list_methods_spec.

(* each edge iterator yields exactly the edges of the nodes its node counterpart yields, in the
   same order, the filter being applied to node.edge - in every object graph in which the head
   node of a node's edge is the node (checked by the harness on every edge it sees) *)
Theorem edge_iters_are_node_iters : forall (G : objgraph),
  (forall n, attr_head_node G (attr_edge G n) = n) ->
  forall (fuel : nat) (fe : option (gedge G -> bool)) (excl : bool) (seed : gnode G),
    Tree_preorder_edge_iter G fuel fe seed = edges_of G (Tree_preorder_node_iter G fuel (efilter G fe) seed) /\
    Tree_postorder_edge_iter G fuel fe seed = edges_of G (Tree_postorder_node_iter G fuel (efilter G fe) seed) /\
    Tree_preorder_internal_edge_iter G fuel fe excl seed
      = edges_of G (Tree_preorder_internal_node_iter G fuel (efilter G fe) excl seed) /\
    Tree_postorder_internal_edge_iter G fuel fe excl seed
      = edges_of G (Tree_postorder_internal_node_iter G fuel (efilter G fe) excl seed) /\
    Tree_levelorder_edge_iter G fuel fe seed = edges_of G (Tree_levelorder_node_iter G fuel (efilter G fe) seed) /\
    Tree_level_order_edge_iter G fuel fe seed = edges_of G (Tree_level_order_node_iter G fuel (efilter G fe) seed) /\
    Tree_inorder_edge_iter G fuel fe seed = edges_of G (Tree_inorder_node_iter G fuel (efilter G fe) seed) /\
    Tree_leaf_edge_iter G fuel fe seed = edges_of G (Tree_leaf_node_iter G fuel (efilter G fe) seed) /\
    Tree_edges G fuel fe seed = edges_of G (Tree_nodes G fuel (efilter G fe) seed) /\
    Tree_leaf_edges G fuel seed = edges_of G (Tree_leaf_nodes G fuel seed) /\
    Tree_internal_edges G fuel excl seed = edges_of G (Tree_internal_nodes G fuel excl seed).
Proof. exact edge_iters. Qed.
Print Assumptions edge_iters_are_node_iters.

(* len(tree) is the number of leaves *)
Theorem len_is_leaf_count :
  forall (E : Type) (eo : lnode -> E) (hd : E -> lnode) (age : lnode -> Z) (n : lnode) (fuel : nat),
    2 * size (here n) < fuel ->
    Tree_dunder_len (LGE E eo hd age) fuel n = Ok (Z.of_nat (length (leaves (here n)))).
Proof. exact (@len_run). Qed.
Print Assumptions len_is_leaf_count.

(* unfiltered runs visit every node exactly once *)
Theorem unfiltered_runs_visit_each_node_once :
  forall (E : Type) (eo : lnode -> E) (hd : E -> lnode) (age : lnode -> Z) (n : lnode) (fuel : nat),
    2 * size (here n) < fuel ->
    exists o1 o2 o3,
      Node_preorder_iter (LGE E eo hd age) fuel None n = GDone o1 /\
      Node_postorder_iter (LGE E eo hd age) fuel None n = GDone o2 /\
      Node_levelorder_iter (LGE E eo hd age) fuel None n = GDone o3 /\
      map l_id o1 = ids (here n) /\
      Permutation (map l_id o2) (ids (here n)) /\
      Permutation (map l_id o3) (ids (here n)) /\
      (NoDup (ids (here n)) -> NoDup o1 /\ NoDup o2 /\ NoDup o3).
Proof. exact (@unfiltered_runs_once). Qed.
Print Assumptions unfiltered_runs_visit_each_node_once.

Theorem parents_before_children :
  forall (E : Type) (eo : lnode -> E) (hd : E -> lnode) (age : lnode -> Z) (n : lnode) (fuel : nat) (out : list lnode),
    size (here n) < fuel ->
    Node_preorder_iter (LGE E eo hd age) fuel None n = GDone out ->
    forall m k, In m out -> In k (l_kids m) -> before out m k.
Proof. exact (@parents_before_children_run). Qed.
Print Assumptions parents_before_children.

Theorem children_before_parents :
  forall (E : Type) (eo : lnode -> E) (hd : E -> lnode) (age : lnode -> Z) (n : lnode) (fuel : nat) (out : list lnode),
    2 * size (here n) < fuel ->
    Node_postorder_iter (LGE E eo hd age) fuel None n = GDone out ->
    forall m k, In m out -> In k (l_kids m) -> before out k m.
Proof. exact (@children_before_parents_run). Qed.
Print Assumptions children_before_parents.

(* with fuel 2*size + depth + 2 no machine runs out of fuel (proved, not assumed) *)
Theorem fuel_never_runs_out :
  forall (E : Type) (eo : lnode -> E) (hd : E -> lnode) (age : lnode -> Z)
         (ff : option (lnode -> bool)) (b1 b2 : bool) (n : lnode) (fuel : nat),
    2 * size (here n) + l_depth n + 2 <= fuel ->
    Node_preorder_iter (LGE E eo hd age) fuel ff n <> GFuel /\
    Node_postorder_iter (LGE E eo hd age) fuel ff n <> GFuel /\
    Node_levelorder_iter (LGE E eo hd age) fuel ff n <> GFuel /\
    Node_inorder_iter (LGE E eo hd age) fuel ff n <> GFuel /\
    Node_leaf_iter (LGE E eo hd age) fuel ff n <> GFuel /\
    Node_ancestor_iter (LGE E eo hd age) fuel ff b1 n <> GFuel /\
    Node_ageorder_iter (LGE E eo hd age) fuel ff b1 b2 n <> GFuel /\
    Node_preorder_internal_node_iter (LGE E eo hd age) fuel ff b1 n <> GFuel /\
    Node_postorder_internal_node_iter (LGE E eo hd age) fuel ff b1 n <> GFuel /\
    Tree_dunder_len (LGE E eo hd age) fuel n <> OutOfFuel.
Proof. exact (@never_out_of_fuel). Qed.
Print Assumptions fuel_never_runs_out.

(* ===== several trees in one process: object level (Model/C15World.v) =====
   Node_*_obj / Tree_*_obj are definitions of Gen/TraversalsObj.v, GENERATED from the source of
   Node.child_nodes / clear_child_nodes / add_child / set_child_nodes / _set_parent_node and
   Tree._set_seed_node: state transformers on a store of node records and LIST OBJECTS
   (Model/C15WorldPrims.v), recording which list object is copied or mutated in place.
   kids_of s x / parent_of s x are the object graph (WG s) the traversal machines run on in the
   correspondence check; owned s = the list objects that are some node's child list or held by
   the caller. *)
From DV Require Import Model.C15WorldPrims Gen.TraversalsObj Model.C15World Proofs.C15WorldProofs.
Open Scope Z_scope.

(* Over every history of the public routes (a copy obtained from child_nodes() edited and assigned back with
   set_child_nodes or kept, Tree(seed_node=n), tree.seed_node = n, n.parent_node = p, new_child,
   remove_child, new trees) from any initial forest: no list object is the child list of two nodes,
   or the child list of a node and a list the caller holds. *)
Theorem no_list_object_shared :
  forall (ts : list tree) (sts : list step) (s0 s : store),
    build_world ts empty_store = Ok (tt, s0) ->
    run_steps sts s0 = Ok (tt, s) ->
    NoDup (owned s) /\ (forall o, In o (owned s) -> o < s_next s).
Proof. exact sep_history. Qed.
Print Assumptions no_list_object_shared.

(* child_nodes() returns a list object that did not exist before (so it is nobody's child list and
   no earlier result), with the contents of the node's child list; nothing else changes. *)
Theorem child_nodes_returns_new_object :
  forall (x : Z) (s : store) (l : Z) (s' : store),
    Node_child_nodes_obj x s = Ok (l, s') ->
    l = s_next s /\ s_next s' = s_next s + 1 /\ s_nodes s' = s_nodes s /\ s_held s' = s_held s /\ s_trees s' = s_trees s /\
    exists r c, node_of s x = Some r /\ list_of s (n_kids r) = Some c /\ s_lists s' = s_lists s ++ [(l, c)].
Proof. exact child_nodes_new_object. Qed.
Print Assumptions child_nodes_returns_new_object.

Theorem child_nodes_result_is_private :
  forall (x : Z) (s : store) (l : Z) (s' : store),
    Node_child_nodes_obj x s = Ok (l, s') -> sep s -> sep s' /\ ~ In l (owned s') /\ l < s_next s'.
Proof. exact sep_child_nodes. Qed.
Print Assumptions child_nodes_result_is_private.

(* frame: whatever the caller writes into a list object that is nobody's child list is invisible to
   every node: no child list and no parent pointer changes (so no traversal of any tree does) *)
Theorem private_list_edit_frame :
  forall (l : Z) (c : list Z) (s s' : store) (x : Z),
    private l s -> l_put l c s = Ok (tt, s') ->
    kids_of s' x = kids_of s x /\ parent_of s' x = parent_of s x.
Proof. exact private_list_frame. Qed.
Print Assumptions private_list_edit_frame.

(* tree.seed_node = n / Tree(seed_node=n) with n attached below p ("spliced out of [its] current
   context"): n has no parent afterwards, p's child list has lost its first occurrence of n, every
   other parent pointer and every other list object is unchanged *)
Theorem seed_node_setter_splices_out :
  forall (t n p : Z) (s s' : store),
    Tree_set_seed_node_obj t (Some n) s = Ok (tt, s') ->
    parent_of s n = Some p ->
    parent_of s' n = None /\
    kids_of s' p = remove_first n (kids_of s p) /\
    (forall y, y <> n -> parent_of s' y = parent_of s y) /\
    (forall rp l, node_of s p = Some rp -> l <> n_kids rp -> list_of s' l = list_of s l).
Proof. exact seed_spliced_out. Qed.
Print Assumptions seed_node_setter_splices_out.

Theorem new_seed_is_nobodys_child :
  forall (t n p : Z) (s s' : store),
    Tree_set_seed_node_obj t (Some n) s = Ok (tt, s') -> parent_of s n = Some p -> NoDup (kids_of s p) ->
    ~ In n (kids_of s' p) /\ parent_of s' n = None.
Proof. exact seed_not_a_child_any_more. Qed.
Print Assumptions new_seed_is_nobodys_child.

(* the hypotheses are satisfiable: a concrete history through all routes runs to the expected forest,
   and the seed setter succeeds on an attached node of a built tree *)
Theorem world_history_example :
  exists s0 s, build_world [ex_tree] empty_store = Ok (tt, s0) /\ run_steps ex_steps s0 = Ok (tt, s) /\
               s_trees s = [4; 1] /\ kids_of s 0 = [] /\ kids_of s 4 = [5] /\ kids_of s 1 = [2; 3; 7] /\ kids_of s 2 = [] /\
               held_contents s = [[6]].
Proof. exact ex_history_runs. Qed.
Print Assumptions world_history_example.

Theorem attached_seed_example :
  exists s0 s', build_world [ex_tree] empty_store = Ok (tt, s0) /\ parent_of s0 1 = Some 0 /\ NoDup (kids_of s0 0) /\
                Tree_set_seed_node_obj 1 (Some 1) s0 = Ok (tt, s').
Proof. exact ex_attached_seed. Qed.
Print Assumptions attached_seed_example.

(* ===== wave 8: refused calls inside a history (Model/C15World.v step SRefused, Proofs/C15Refused.v) =====
   The caller calls p.remove_child(n) with n not a child of p, or p.add_child(n) with n = p or n = p's parent,
   catches the documented error and carries on.  run_steps_r runs such a history: a refused step must raise
   exactly its documented error and the history goes on from the store the call started from. *)
From DV Require Import Proofs.C15Refused.

(* the refused argument classes are refused (by the generated add_child and the transcribed remove_child) *)
Theorem remove_child_of_a_non_child_is_refused :
  forall (p n : Z) (s : store) (rp : nrec) (c : list Z),
    node_of s p = Some rp -> list_of s (n_kids rp) = Some c -> C15WorldPrims.memZ n c = false ->
    remove_child p n s = Err ValueErr.
Proof. exact remove_child_refused. Qed.
Print Assumptions remove_child_of_a_non_child_is_refused.

Theorem add_child_of_itself_is_refused :
  forall (p : Z) (s : store), Node_add_child_obj p p s = Err AssertErr.
Proof. exact add_child_self_refused. Qed.
Print Assumptions add_child_of_itself_is_refused.

Theorem add_child_of_own_parent_is_refused :
  forall (p n : Z) (s : store) (rp : nrec),
    node_of s p = Some rp -> n_parent rp = Some n -> Node_add_child_obj p n s = Err AssertErr.
Proof. exact add_child_parent_refused. Qed.
Print Assumptions add_child_of_own_parent_is_refused.

(* a refused operation changes nothing: the rest of the history runs from the very store the refused call
   started from (so kids_of / parent_of, hence the object graph WG s every traversal machine runs on, are the
   ones before the call) *)
Theorem refused_call_frame :
  forall (k : refused_kind) (p n : Z) (r : list step) (s : store) (x : unit * store),
    run_steps_r (SRefused k p n :: r) s = Ok x ->
    do_step (SRefused k p n) s = Err (refused_err k) /\ run_steps_r r s = Ok x.
Proof. exact refused_step_frame. Qed.
Print Assumptions refused_call_frame.

(* the correspondence check demands just that of the library: after a refused step every observed probe is
   what the traversal machines compute on the store BEFORE the call *)
Theorem refused_step_checked_against_the_store_before :
  forall (k : refused_kind) (p n : Z) (sr : list step) (r : hrec) (rr : list hrec) (s : store),
    steps_ok s (SRefused k p n :: sr) (r :: rr) = true ->
    do_step (SRefused k p n) s = Err (refused_err k) /\ rec_ok s r = true /\ steps_ok s sr rr = true.
Proof. exact steps_ok_refused. Qed.
Print Assumptions refused_step_checked_against_the_store_before.

(* no_list_object_shared over histories WITH refused calls *)
Theorem no_list_object_shared_with_refused_calls :
  forall (ts : list tree) (sts : list step) (s0 s : store),
    build_world ts empty_store = Ok (tt, s0) ->
    run_steps_r sts s0 = Ok (tt, s) ->
    NoDup (owned s) /\ (forall o, In o (owned s) -> o < s_next s).
Proof. exact sep_history_r. Qed.
Print Assumptions no_list_object_shared_with_refused_calls.

(* satisfiable: refused calls of every class (a child of another node, the receiver itself, its parent, the seed,
   add_child of itself / of its parent, a node detached meanwhile) inside a history that also really removes a child *)
Theorem refused_history_example :
  exists s0 s, build_world [ex_tree] empty_store = Ok (tt, s0) /\ run_steps_r ex_steps_r s0 = Ok (tt, s) /\
               kids_of s0 1 = [2; 3] /\ kids_of s 1 = [3] /\ parent_of s 3 = Some 1 /\ parent_of s 2 = None.
Proof. exact ex_history_r_runs. Qed.
Print Assumptions refused_history_example.

(* ===== wave 9: the store graph of a well-formed world IS the located-node graph of a rose tree =====
   (Proofs/C15W9Sim.v, Proofs/C15W9Store.v).  wf_store s f seed is an executable check: the seed has no
   parent, every member of a child list reachable from the seed has that node as parent pointer, the
   unfolding from the seed ends within f levels (acyclic), no node id occurs twice in it (no node in two
   child lists).  store_tree s f seed is the rose tree read off the store; loc r x: x is a located node
   of the tree rooted at r (the root, or a child of a located node).  lift ff = the filter ff : id -> bool
   read as a filter on located nodes (fun n => ff (l_id n)); store_age n = age_of (l_id n). *)
From DV Require Import Proofs.C15W9Sim Proofs.C15W9Store.

(* (a) l_id is an isomorphism-on-the-image from the located-node graph LG of store_tree onto the object
   graph WG s the traversal machines run on: child lists, parent pointers, ages, edges, `is`; and the located
   nodes are closed under children and parents *)
Theorem store_graph_is_located_node_graph : forall (s : store) (f : nat) (seed : Z),
  wf_store s f seed = true ->
  let r := (store_tree s f seed, []) in
  l_id r = seed /\
  forall x, loc r x ->
    attr_child_nodes (WG s) (l_id x) = map l_id (attr_child_nodes (LG store_age) x) /\
    attr_parent_node (WG s) (l_id x) = option_map l_id (attr_parent_node (LG store_age) x) /\
    attr_age (WG s) (l_id x) = attr_age (LG store_age) x /\
    attr_edge (WG s) (l_id x) = l_id (attr_edge (LG store_age) x) /\
    attr_head_node (WG s) (l_id x) = l_id (attr_head_node (LG store_age) x) /\
    Forall (loc r) (attr_child_nodes (LG store_age) x) /\
    (forall p, attr_parent_node (LG store_age) x = Some p -> loc r p) /\
    (forall y, loc r y -> obj_is (WG s) (l_id x) (l_id y) = obj_is (LG store_age) x y).
Proof. exact store_graph_is_located_graph. Qed.
Print Assumptions store_graph_is_located_node_graph.

(* the generated machines commute with it: for EVERY fuel (running out of fuel included), every located
   start node, every filter / callback set, the run on the store is the l_id image of the run on the tree *)
Theorem machines_on_store_are_machines_on_tree : forall (s : store) (f : nat) (seed : Z),
  wf_store s f seed = true ->
  forall x, loc (store_tree s f seed, []) x ->
  forall (ff : option (Z -> bool)) (b1 b2 : bool) (fuel : nat),
    Node_preorder_iter (WG s) fuel ff (l_id x) = gmap l_id (Node_preorder_iter (LG store_age) fuel (lift ff) x) /\
    Node_postorder_iter (WG s) fuel ff (l_id x) = gmap l_id (Node_postorder_iter (LG store_age) fuel (lift ff) x) /\
    Node_levelorder_iter (WG s) fuel ff (l_id x) = gmap l_id (Node_levelorder_iter (LG store_age) fuel (lift ff) x) /\
    Node_inorder_iter (WG s) fuel ff (l_id x) = gmap l_id (Node_inorder_iter (LG store_age) fuel (lift ff) x) /\
    Node_leaf_iter (WG s) fuel ff (l_id x) = gmap l_id (Node_leaf_iter (LG store_age) fuel (lift ff) x) /\
    Node_preorder_internal_node_iter (WG s) fuel ff b1 (l_id x)
      = gmap l_id (Node_preorder_internal_node_iter (LG store_age) fuel (lift ff) b1 x) /\
    Node_postorder_internal_node_iter (WG s) fuel ff b1 (l_id x)
      = gmap l_id (Node_postorder_internal_node_iter (LG store_age) fuel (lift ff) b1 x) /\
    Node_ancestor_iter (WG s) fuel ff b1 (l_id x) = gmap l_id (Node_ancestor_iter (LG store_age) fuel (lift ff) b1 x) /\
    Node_child_node_iter (WG s) fuel ff (l_id x) = gmap l_id (Node_child_node_iter (LG store_age) fuel (lift ff) x) /\
    Node_child_edge_iter (WG s) fuel ff (l_id x) = gmap l_id (Node_child_edge_iter (LG store_age) fuel (lift ff) x) /\
    Node_ageorder_iter (WG s) fuel ff b1 b2 (l_id x)
      = gmap l_id (Node_ageorder_iter (LG store_age) fuel (lift ff) b1 b2 x) /\
    Node_leaf_nodes (WG s) fuel (l_id x) = gmap l_id (Node_leaf_nodes (LG store_age) fuel x) /\
    Tree_nodes (WG s) fuel ff (l_id x) = gmap l_id (Tree_nodes (LG store_age) fuel (lift ff) x) /\
    Tree_leaf_nodes (WG s) fuel (l_id x) = gmap l_id (Tree_leaf_nodes (LG store_age) fuel x) /\
    Tree_internal_nodes (WG s) fuel b1 (l_id x) = gmap l_id (Tree_internal_nodes (LG store_age) fuel b1 x) /\
    Tree_dunder_len (WG s) fuel (l_id x) = Tree_dunder_len (LG store_age) fuel x /\
    (forall (ev : Type) (bf af lf : option (Z -> ev)),
       Node_apply (WG s) fuel bf af lf (l_id x)
       = Node_apply (LG store_age) fuel (lift_cb l_id bf) (lift_cb l_id af) (lift_cb l_id lf) x).
Proof. exact C15W9Store.machines_on_store_are_machines_on_tree. Qed.
Print Assumptions machines_on_store_are_machines_on_tree.

(* (b) hence every "machine = structural order" theorem above holds for the machines run on a well-formed
   store: each yields the ids of its structural order on the tree read off the store.  (The Tree.* wrappers,
   aliases and __iter__ are tree_wrappers_delegate, which holds in every object graph, WG s included.) *)
Theorem traversals_on_wellformed_store : forall (s : store) (f : nat) (seed : Z),
  wf_store s f seed = true ->
  forall x, loc (store_tree s f seed, []) x ->
  forall (ff : option (Z -> bool)) (b1 b2 : bool) (fuel : nat),
    (2 * size (here x) + l_depth x + 2 <= fuel)%nat ->
    Node_preorder_iter (WG s) fuel ff (l_id x) = GDone (map l_id (filter (pyf (lift ff)) (lpre x))) /\
    Node_postorder_iter (WG s) fuel ff (l_id x) = GDone (map l_id (filter (pyf (lift ff)) (lpost x))) /\
    Node_levelorder_iter (WG s) fuel ff (l_id x) = GDone (map l_id (filter (pyf (lift ff)) (llevel x))) /\
    Node_inorder_iter (WG s) fuel ff (l_id x) = gmap l_id (linorder (pyf (lift ff)) x) /\
    Node_leaf_iter (WG s) fuel ff (l_id x) = GDone (map l_id (filter (pyf (lift ff)) (lleaves x))) /\
    Node_preorder_internal_node_iter (WG s) fuel ff b1 (l_id x)
      = GDone (map l_id (filter (fun y => (if b1 then l_has_parent y else true) && l_is_internal y && pyf (lift ff) y)
                                (lpre x))) /\
    Node_postorder_internal_node_iter (WG s) fuel ff b1 (l_id x)
      = GDone (map l_id (filter (fun y => (if b1 then l_has_parent y else true) && l_is_internal y && pyf (lift ff) y)
                                (lpost x))) /\
    Node_ancestor_iter (WG s) fuel ff b1 (l_id x)
      = GDone (map l_id (filter (pyf (lift ff)) ((if b1 then [x] else []) ++ lancestors x))) /\
    Node_child_node_iter (WG s) fuel ff (l_id x) = GDone (map l_id (filter (pyf (lift ff)) (l_kids x))) /\
    Node_child_edge_iter (WG s) fuel ff (l_id x) = GDone (map l_id (filter (pyf (lift ff)) (l_kids x))) /\
    Node_ageorder_iter (WG s) fuel ff b1 b2 (l_id x)
      = GDone (map l_id (filter (fun y => (b1 || l_is_internal y) && pyf (lift ff) y)
                                (py_sort_by store_age b2 (lpre x)))) /\
    Node_leaf_nodes (WG s) fuel (l_id x) = GDone (map l_id (lleaves x)) /\
    Tree_nodes (WG s) fuel ff (l_id x) = GDone (map l_id (filter (pyf (lift ff)) (lpre x))) /\
    Tree_leaf_nodes (WG s) fuel (l_id x) = GDone (map l_id (lleaves x)) /\
    Tree_internal_nodes (WG s) fuel b1 (l_id x)
      = GDone (map l_id (filter (fun y => (if b1 then l_has_parent y else true) && l_is_internal y && true) (lpre x))) /\
    Tree_dunder_len (WG s) fuel (l_id x) = Ok (Z.of_nat (length (leaves (here x)))) /\
    (forall (ev : Type) (bf af lf : option (Z -> ev)),
       Node_apply (WG s) fuel bf af lf (l_id x)
       = GDone (flat_map (cb_emit (lift_cb l_id bf) (lift_cb l_id af) (lift_cb l_id lf)) (lbrackets x))).
Proof. exact C15W9Store.traversals_on_wellformed_store. Qed.
Print Assumptions traversals_on_wellformed_store.

(* the seed is a located node (the root) and the fuel the correspondence check gives the machines,
   store_fuel s = 2 * #nodes + 4, satisfies the bound there: a well-formed tree has at most #nodes + 1 nodes *)
Theorem seed_is_located_with_probe_fuel : forall (s : store) (f : nat) (seed : Z),
  wf_store s f seed = true ->
  exists x, loc (store_tree s f seed, []) x /\ l_id x = seed /\
            (2 * size (here x) + l_depth x + 2 <= store_fuel s)%nat.
Proof. exact C15W9Store.seed_is_located_with_probe_fuel. Qed.
Print Assumptions seed_is_located_with_probe_fuel.

(* edge iterators on a store (an edge is named by its head node): each IS its node counterpart, on every store *)
Theorem edge_iterators_on_store :
  forall (s : store) (fuel : nat) (fe : option (Z -> bool)) (excl : bool) (seed : Z),
  Tree_preorder_edge_iter (WG s) fuel fe seed = Tree_preorder_node_iter (WG s) fuel fe seed /\
  Tree_postorder_edge_iter (WG s) fuel fe seed = Tree_postorder_node_iter (WG s) fuel fe seed /\
  Tree_preorder_internal_edge_iter (WG s) fuel fe excl seed = Tree_preorder_internal_node_iter (WG s) fuel fe excl seed /\
  Tree_postorder_internal_edge_iter (WG s) fuel fe excl seed = Tree_postorder_internal_node_iter (WG s) fuel fe excl seed /\
  Tree_levelorder_edge_iter (WG s) fuel fe seed = Tree_levelorder_node_iter (WG s) fuel fe seed /\
  Tree_level_order_edge_iter (WG s) fuel fe seed = Tree_level_order_node_iter (WG s) fuel fe seed /\
  Tree_inorder_edge_iter (WG s) fuel fe seed = Tree_inorder_node_iter (WG s) fuel fe seed /\
  Tree_leaf_edge_iter (WG s) fuel fe seed = Tree_leaf_node_iter (WG s) fuel fe seed /\
  Tree_edges (WG s) fuel fe seed = Tree_nodes (WG s) fuel fe seed /\
  Tree_leaf_edges (WG s) fuel seed = Tree_leaf_nodes (WG s) fuel seed /\
  Tree_internal_edges (WG s) fuel excl seed = Tree_internal_nodes (WG s) fuel excl seed.
Proof. exact C15W9Store.edge_iterators_on_store. Qed.
Print Assumptions edge_iterators_on_store.

(* satisfiable: the world built from C15Final.ex_tree, and the world after a history (the seed's child list copied,
   reversed and assigned back; a new child under node 4), are well formed and read back as the expected trees *)
Theorem wellformed_store_example :
  wf_store ex_world 11 0%Z = true /\ ids (store_tree ex_world 11 0%Z) = ids C15Final.ex_tree /\
  wf_store ex_world2 12 0%Z = true /\ ids (store_tree ex_world2 12 0%Z) = [0; 9; 8; 4; 5; 6; 7; 20; 1; 2; 3]%Z.
Proof. exact wf_store_satisfiable. Qed.
Print Assumptions wellformed_store_example.

(* the hypothesis bites and is needed: a store with node 2 in two child lists (p.add_child(n) while n is still
   a child of another node) is rejected by wf_store, and there pre-order is not a tree order (2 is yielded twice) *)
Theorem shared_child_store_is_not_wellformed :
  wf_store ex_shared 10 0%Z = false /\
  Node_preorder_iter (WG ex_shared) 20 None 0%Z = GDone [0; 1; 2; 2]%Z.
Proof. exact shared_child_is_not_wellformed. Qed.
Print Assumptions shared_child_store_is_not_wellformed.

(* what the correspondence check evaluates on the store (probe_run: the generated machines on WG s with the
   check's own fuel store_fuel s, the filter given as a list of ids) at the seed of a well-formed store is the
   structural order of the tree read off the store - node and edge iterators, list methods, len.  So on such a
   store `probe_ok` compares the library's observed output with a tree order, by proof. *)
Theorem probes_at_seed_are_tree_orders : forall (s : store) (f : nat) (seed : Z),
  wf_store s f seed = true ->
  forall (st : Z) (filt : option (list Z)) (out : list Z) (oe : option err),
  let r := (store_tree s f seed, []) in
  let keep := pyf (lift (probe_filter filt)) in
  probe_run s seed (mkProbe st KT_preorder_node_iter filt out oe) = Some (map l_id (filter keep (lpre r)), None) /\
  probe_run s seed (mkProbe st KT_postorder_node_iter filt out oe) = Some (map l_id (filter keep (lpost r)), None) /\
  probe_run s seed (mkProbe st KT_levelorder_node_iter filt out oe) = Some (map l_id (filter keep (llevel r)), None) /\
  probe_run s seed (mkProbe st KT_leaf_node_iter filt out oe) = Some (map l_id (filter keep (lleaves r)), None) /\
  probe_run s seed (mkProbe st KT_nodes filt out oe) = Some (map l_id (filter keep (lpre r)), None) /\
  probe_run s seed (mkProbe st KT_preorder_edge_iter filt out oe) = Some (map l_id (filter keep (lpre r)), None) /\
  probe_run s seed (mkProbe st KT_postorder_edge_iter filt out oe) = Some (map l_id (filter keep (lpost r)), None) /\
  probe_run s seed (mkProbe st KT_len filt out oe) = Some ([Z.of_nat (length (leaves (here r)))], None).
Proof. exact C15W9Store.probes_at_seed_are_tree_orders. Qed.
Print Assumptions probes_at_seed_are_tree_orders.

(* executable, along a history: world_wf s = every live tree of s passes wf_store (fuel #nodes + 1); history_wf
   checks it on the store after every step (a refused step leaves the store).  The two example histories above
   (all public routes incl. Tree(seed_node = an attached node), the seed setter, a kept private list; refused
   calls of every class and a real remove_child) stay well formed throughout, so the theorems of this block
   apply to every tree of every intermediate store. *)
Theorem world_wf_gives_wellformed_seeds : forall (s : store) (seed : Z),
  world_wf s = true -> In seed (s_trees s) -> wf_store s (S (length (s_nodes s))) seed = true.
Proof. exact world_wf_probes. Qed.
Print Assumptions world_wf_gives_wellformed_seeds.

Theorem example_histories_stay_wellformed :
  match build_world [C15WorldProofs.ex_tree] empty_store with
  | Ok (_, s0) => history_wf s0 C15WorldProofs.ex_steps && history_wf s0 C15Refused.ex_steps_r
  | _ => false
  end = true.
Proof. exact C15W9Store.example_histories_stay_wellformed. Qed.
Print Assumptions example_histories_stay_wellformed.

(* ---- wave 10: wf_store is no longer a hypothesis on built worlds and along covered histories ----
   (1) build_world of ANY list of rose trees with pairwise distinct node ids succeeds and every live tree passes the
       executable check wf_store with the fuel S (length (s_nodes s)) (= world_wf), and the tree read off the store at
       each seed has the node ids of the tree that was built (Proofs/C15W10Build.v);
   (2) the semantic invariant winv (a forest of id-distinct rose trees that the store holds at the live seeds) implies
       world_wf, is established by build_world and preserved by the COVERED step kinds (Proofs/C15W10Steps.v):
         SKids n es false   kids = n.child_nodes(); any edits of that private list; the caller keeps it
         SNewChild n x      x = n.new_child()   (x a new id not yet referenced at n)
         SRemoveChild n     n.parent_node.remove_child(n)   (it succeeds only for a real child; the subtree leaves)
         STreeFromSeed n    Tree(seed_node = n), n ATTACHED inside a live tree: n's subtree is spliced out of that
         SAssignSeed k n    tree and becomes the new / reassigned tree; both stay well formed
         SNewTree t         a new tree built later from nodes that do not exist yet
         SRefused k p n     a refused call (leaves the store)
       NOT covered (not proved): SKids _ _ true (set_child_nodes of the edited copy), STreeFromSeed / SAssignSeed of a
       node that has no parent or lies in no live tree; SReparent is refuted below, as are add_child /
       set_child_nodes with a node that still has another parent (C03's finding in the unchanged library);
   (3) in every world reachable from built trees by covered steps every live tree's machines yield their structural
       orders (structural_orders s f seed is, verbatim, the conclusion of traversals_on_wellformed_store). *)
From DV Require Import Proofs.C15W10Build Proofs.C15W10Steps.

Theorem build_world_establishes_wf : forall ts : list tree, NoDup (flat_map ids ts) ->
  exists s, build_world ts empty_store = Ok (tt, s) /\
    s_trees s = map t_id ts /\ s_held s = [] /\
    world_wf s = true /\
    forall t, In t ts ->
      wf_store s (S (length (s_nodes s))) (t_id t) = true /\
      ids (store_tree s (S (length (s_nodes s))) (t_id t)) = ids t.
Proof. exact C15W10Build.build_world_establishes_wf. Qed.
Print Assumptions build_world_establishes_wf.

Theorem structural_orders_of_wellformed_store : forall s f seed,
  wf_store s f seed = true -> structural_orders s f seed.
Proof. exact wf_store_structural_orders. Qed.
Print Assumptions structural_orders_of_wellformed_store.

Theorem traversals_on_built_worlds : forall ts : list tree, NoDup (flat_map ids ts) ->
  exists s, build_world ts empty_store = Ok (tt, s) /\ s_trees s = map t_id ts /\
    forall seed, In seed (s_trees s) ->
      let f := S (length (s_nodes s)) in
      structural_orders s f seed /\
      (exists x, loc (store_tree s f seed, []) x /\ l_id x = seed /\
                 (2 * size (here x) + l_depth x + 2 <= store_fuel s)%nat).
Proof. exact C15W10Build.traversals_on_built_worlds. Qed.
Print Assumptions traversals_on_built_worlds.

Theorem build_world_establishes_invariant : forall ts, NoDup (flat_map ids ts) ->
  exists s, build_world ts empty_store = Ok (tt, s) /\ winv s.
Proof. exact build_world_winv. Qed.
Print Assumptions build_world_establishes_invariant.

Theorem invariant_gives_world_wf : forall s, winv s -> world_wf s = true.
Proof. exact winv_world_wf. Qed.
Print Assumptions invariant_gives_world_wf.

Theorem private_copy_step_preserves : forall s n es s1, winv s ->
  do_step (SKids n es false) s = Ok (tt, s1) -> winv s1.
Proof. exact step_private_copy_preserves. Qed.
Print Assumptions private_copy_step_preserves.

Theorem new_child_step_preserves : forall s n x s1, winv s ->
  ~ In x (kids_of s n) -> parent_of s n <> Some x ->
  do_step (SNewChild n x) s = Ok (tt, s1) -> winv s1.
Proof. exact step_new_child_preserves. Qed.
Print Assumptions new_child_step_preserves.

Theorem new_tree_step_preserves : forall s t s1, winv s -> NoDup (ids t) -> (forall y, In y (ids t) -> ~ dom s y) ->
  do_step (SNewTree t) s = Ok (tt, s1) -> winv s1.
Proof. exact step_new_tree_preserves. Qed.
Print Assumptions new_tree_step_preserves.

Theorem new_tree_step_succeeds : forall s t, winv s -> NoDup (ids t) -> (forall y, In y (ids t) -> ~ dom s y) ->
  exists s1, do_step (SNewTree t) s = Ok (tt, s1).
Proof. exact step_new_tree_succeeds. Qed.
Print Assumptions new_tree_step_succeeds.

Theorem covered_step_preserves_invariant : forall s st s', winv s -> covered s st -> step_to s st s' -> winv s'.
Proof. exact covered_step_preserves. Qed.
Print Assumptions covered_step_preserves_invariant.

Theorem reachable_worlds_are_wellformed : forall s, reachable s -> world_wf s = true.
Proof. exact reachable_world_wf. Qed.
Print Assumptions reachable_worlds_are_wellformed.

Theorem traversals_on_reachable_worlds : forall s, reachable s ->
  forall seed, In seed (s_trees s) ->
    let f := S (length (s_nodes s)) in
    wf_store s f seed = true /\
    structural_orders s f seed /\
    (exists x, loc (store_tree s f seed, []) x /\ l_id x = seed /\
               (2 * size (here x) + l_depth x + 2 <= store_fuel s)%nat).
Proof. exact C15W10Steps.traversals_on_reachable_worlds. Qed.
Print Assumptions traversals_on_reachable_worlds.

Theorem remove_child_step_preserves : forall s n s1, winv s ->
  do_step (SRemoveChild n) s = Ok (tt, s1) -> winv s1.
Proof. exact step_remove_child_preserves. Qed.
Print Assumptions remove_child_step_preserves.

Theorem tree_from_attached_seed_step_preserves : forall s n s1, winv s -> in_live_tree s n -> parent_of s n <> None ->
  do_step (STreeFromSeed n) s = Ok (tt, s1) -> winv s1.
Proof. exact step_tree_from_attached_seed_preserves. Qed.
Print Assumptions tree_from_attached_seed_step_preserves.

Theorem assign_attached_seed_step_preserves : forall s k n s1, winv s -> in_live_tree s n -> parent_of s n <> None ->
  do_step (SAssignSeed k n) s = Ok (tt, s1) -> winv s1.
Proof. exact step_assign_attached_seed_preserves. Qed.
Print Assumptions assign_attached_seed_step_preserves.

(* satisfiable: one step of each covered kind from a built tree (private copy with edits, new_child, a new tree,
   Tree(seed_node = attached node 1), remove_child, a refused call) *)
Theorem reachable_world_example :
  exists s, reachable s /\ s_trees s = [0; 10; 1]%Z /\
    ids (store_tree s (S (length (s_nodes s))) 0%Z) = [0; 2]%Z /\
    ids (store_tree s (S (length (s_nodes s))) 10%Z) = [10]%Z /\
    ids (store_tree s (S (length (s_nodes s))) 1%Z) = [1; 3; 5]%Z /\ s_held s <> [].
Proof. exact reachable_example. Qed.
Print Assumptions reachable_world_example.

Theorem add_child_of_attached_node_preserves_wf_refuted :
  ~ (forall s p n s', world_wf s = true -> Node_add_child_obj p n s = Ok (n, s') -> world_wf s' = true).
Proof. exact C15W10Steps.add_child_of_attached_node_preserves_wf_refuted. Qed.
Print Assumptions add_child_of_attached_node_preserves_wf_refuted.

Theorem set_child_nodes_with_attached_node_preserves_wf_refuted :
  ~ (forall s p q s', world_wf s = true ->
       mbind (Node_child_nodes_obj q) (fun l => Node_set_child_nodes_obj p l) s = Ok (tt, s') -> world_wf s' = true).
Proof. exact C15W10Steps.set_child_nodes_with_attached_node_preserves_wf_refuted. Qed.
Print Assumptions set_child_nodes_with_attached_node_preserves_wf_refuted.

Theorem reparent_step_preserves_wf_refuted :
  ~ (forall s n p s', world_wf s = true -> do_step (SReparent n p) s = Ok (tt, s') -> world_wf s' = true).
Proof. exact C15W10Steps.reparent_step_preserves_wf_refuted. Qed.
Print Assumptions reparent_step_preserves_wf_refuted.

(* ---- wave 11: the put-back step  kids = n.child_nodes(); edits; n.set_child_nodes(kids)  (SKids n es true) ---- *)
From DV Require Import Proofs.C15W11PutBack.

(* what the step does to the store (n's children distinct and existing): the new child list c of n has no
   duplicates and holds only old children of n and nodes that did not exist before; other child lists and the
   parent pointers of every old node outside c are unchanged; the nodes of c point to n; new nodes are leaves *)
Theorem put_back_store_effect : forall s n es s1, sok s -> NoDup (kids_of s n) -> (forall y, In y (kids_of s n) -> dom s y) ->
  do_step (SKids n es true) s = Ok (tt, s1) ->
  exists c, sok s1 /\ s_trees s1 = s_trees s /\ dom s n /\ NoDup c /\
    (forall y, In y c -> In y (kids_of s n) \/ ~ dom s y) /\
    (forall y, dom s y -> dom s1 y) /\
    kids_of s1 n = c /\
    (forall y, dom s y -> y <> n -> kids_of s1 y = kids_of s y) /\
    (forall y, In y c -> dom s1 y /\ parent_of s1 y = Some n) /\
    (forall y, dom s y -> ~ In y c -> parent_of s1 y = parent_of s y) /\
    (forall y, In y c -> ~ dom s y -> kids_of s1 y = []).
Proof. exact C15W11PutBack.put_back_store_effect. Qed.
Print Assumptions put_back_store_effect.

(* the named partial of wave 10: the put-back step at a node of a live tree preserves the invariant (the
   "added nodes are new" side condition is part of the step succeeding: EAppend / EInsert run Node() first) *)
Theorem put_back_step_preserves : forall s n es s1, winv s -> in_live_tree s n ->
  do_step (SKids n es true) s = Ok (tt, s1) -> winv s1.
Proof. exact step_put_back_preserves. Qed.
Print Assumptions put_back_step_preserves.

(* dropped children become orphans: in no live tree, own children kept, stale parent pointer to n *)
Theorem put_back_dropped_children_leave_the_live_trees : forall s n es s1, winv s -> in_live_tree s n ->
  do_step (SKids n es true) s = Ok (tt, s1) ->
  forall d, In d (kids_of s n) -> ~ In d (kids_of s1 n) ->
    ~ in_live_tree s1 d /\ dom s1 d /\ parent_of s1 d = Some n /\ kids_of s1 d = kids_of s d.
Proof. exact put_back_dropped_children. Qed.
Print Assumptions put_back_dropped_children_leave_the_live_trees.

Theorem put_back_children_after : forall s n es s1, winv s -> in_live_tree s n ->
  do_step (SKids n es true) s = Ok (tt, s1) ->
  NoDup (kids_of s1 n) /\
  forall y, In y (kids_of s1 n) -> parent_of s1 y = Some n /\
    ((In y (kids_of s n) /\ kids_of s1 y = kids_of s y) \/ (~ dom s y /\ kids_of s1 y = [])).
Proof. exact put_back_children. Qed.
Print Assumptions put_back_children_after.

Theorem node_with_stale_parent_is_not_live : forall s d p, winv s -> parent_of s d = Some p -> ~ In d (kids_of s p) -> ~ in_live_tree s d.
Proof. exact stale_parent_not_live. Qed.
Print Assumptions node_with_stale_parent_is_not_live.

Theorem covered_ext_step_preserves_invariant : forall s st s', winv s -> covered_ext s st -> step_to s st s' -> winv s'.
Proof. exact covered_ext_step_preserves. Qed.
Print Assumptions covered_ext_step_preserves_invariant.

Theorem reachable_is_reachable_ext : forall s, reachable s -> reachable_ext s.
Proof. exact reachable_reachable_ext. Qed.
Print Assumptions reachable_is_reachable_ext.

Theorem reachable_ext_worlds_are_wellformed : forall s, reachable_ext s -> winv s /\ world_wf s = true.
Proof. intros s R. split; [exact (reachable_ext_winv s R)|exact (reachable_ext_world_wf s R)]. Qed.
Print Assumptions reachable_ext_worlds_are_wellformed.

Theorem traversals_on_reachable_worlds_ext : forall s, reachable_ext s ->
  forall seed, In seed (s_trees s) ->
    let f := S (length (s_nodes s)) in
    wf_store s f seed = true /\
    structural_orders s f seed /\
    (exists x, loc (store_tree s f seed, []) x /\ l_id x = seed /\
               (2 * size (here x) + l_depth x + 2 <= store_fuel s)%nat).
Proof. exact C15W11PutBack.traversals_on_reachable_worlds_ext. Qed.
Print Assumptions traversals_on_reachable_worlds_ext.

(* satisfiable: two put-back steps on the built tree 0(1(3),2) *)
Theorem reachable_ext_world_example :
  exists s, reachable_ext s /\ s_trees s = [0]%Z /\
    ids (store_tree s (S (length (s_nodes s))) 0%Z) = [0; 8; 7; 1; 9]%Z /\
    ~ in_live_tree s 2%Z /\ ~ in_live_tree s 3%Z /\ parent_of s 2%Z = Some 0%Z /\ parent_of s 3%Z = Some 1%Z.
Proof. exact reachable_ext_example. Qed.
Print Assumptions reachable_ext_world_example.

(* the side condition in_live_tree cannot be dropped for arbitrary stores satisfying the invariant *)
Theorem put_back_on_orphan_preserves_winv_refuted :
  ~ (forall s n es s', winv s -> do_step (SKids n es true) s = Ok (tt, s') -> winv s').
Proof. exact C15W11PutBack.put_back_on_orphan_preserves_winv_refuted. Qed.
Print Assumptions put_back_on_orphan_preserves_winv_refuted.

Theorem put_back_on_any_node_preserves_wf_refuted :
  ~ (forall s n es s', world_wf s = true -> do_step (SKids n es true) s = Ok (tt, s') -> world_wf s' = true).
Proof. exact C15W11PutBack.put_back_on_any_node_preserves_wf_refuted. Qed.
Print Assumptions put_back_on_any_node_preserves_wf_refuted.

Theorem put_back_adding_an_existing_node_is_not_a_step :
  forall s', ~ step_to ex_orphan_store (SKids 0%Z [EAppend 5%Z] true) s'.
Proof. exact C15W11PutBack.put_back_adding_an_existing_node_is_not_a_step. Qed.
Print Assumptions put_back_adding_an_existing_node_is_not_a_step.
