(* C04 property theorems: statements only, each closed by `exact`.

   Reading guide (definitions are in Model/C04Model.v):
     struct            = (tree, Tree._is_rooted)
     fpfn/rf/missing mg acc s1 s2, wrf/euclid_sq mg p acc s1 s2
                       = false_positives_and_negatives / symmetric_difference / find_missing_bipartitions /
                         weighted_robinson_foulds_distance / euclidean_distance^2 called with default
                         arguments on two freshly built trees with structures s1, s2 over one namespace
                         whose taxon -> accession index map is acc
                         (theorem default_args_fresh: the same calls in ANY state of ANY world compute exactly these)
     splits mg acc s   = split masks of the list encode_bipartitions() stores (post-order, duplicates possible)
     entries mg acc s  = the same list with (edge length, is seed edge) attached
     split_len mg acc s m = length of the first edge with split m; absent or None = 0
     well_formed acc s = leaf taxa are members of the namespace, at least one leaf has a taxon,
                         node identities are distinct (a boolean check on the tree as given)
     redraw t t'       = t' is t with the children of any nodes reordered (Proofs/C04Core.v: reflexive-
                         transitive closure of "permute the children of one node")
     policy            = Current (the code as it stands) | ZeroBoth | RefuseBoth (the two repairs of F8)
     mg                = false: collapse_basal_bifurcation() as it stands (drops the removed seed edge's
                         length when the kept edge has none); true: repaired (the length is taken over).
                         Every theorem below holds for both forms.
     proper acc s      = every leaf carries a taxon of the namespace, accession indices non-negative and
                         pairwise distinct, node identities distinct (Model/C04Spec.v; implies well_formed)
     collides mg s     = s is not rooted and its seed still has exactly two children after
                         encode_bipartitions(): the domain of the listed finding
                         weighted-distance-root-adjacent-edge-collision (collision_domain below)
     reseed mg s path  = Tree.reseed_at(node) with default arguments, node given by its path of child
                         positions from the seed (Model/C04Spec.v, tied to the library by a second group
                         of correspondence cases)
     lengths in units of 2^-10; euclidean_distance = sqrt(euclid_sq) * 2^-10 (the square root and
     binary64 rounding are outside the model, so euclid_is_L2 and euclid_triangle are stated on the
     exact radicands, the triangle inequality in its square-root-free form). *)
From Coq Require Import ZArith List Bool Relations.
From Coq Require Import Reals.
From DV Require Import Model.PyPrims Model.Tree Model.C04Model Model.C04Spec Model.C04Prims Gen.TreeCompare Proofs.C04Core
  Proofs.C04Witness Proofs.C04Full Proofs.C04Real Proofs.C04Gen Proofs.C04Names.
Import ListNotations.
Open Scope Z_scope.

(* symmetric_difference = |S1 \ S2| + |S2 \ S1| for ANY duplicate-free enumerations S1, S2 of the two split sets *)
Theorem rf_is_symdiff_card : forall mg acc s1 s2 S1 S2,
  well_formed acc s1 = true -> well_formed acc s2 = true ->
  NoDup S1 -> NoDup S2 ->
  (forall m, In m S1 <-> In m (splits mg acc s1)) -> (forall m, In m S2 <-> In m (splits mg acc s2)) ->
  rf mg acc s1 s2 = Ok (Z.of_nat (length (filter (fun m => negb (memz m S2)) S1))
                     + Z.of_nat (length (filter (fun m => negb (memz m S1)) S2))).
Proof. exact F_rf_is_symdiff_card. Qed.
Print Assumptions rf_is_symdiff_card.

(* false positives = |S2 \ S1| (in the comparison tree only), false negatives = |S1 \ S2| *)
Theorem fp_fn_are_one_sided : forall mg acc s1 s2 S1 S2,
  well_formed acc s1 = true -> well_formed acc s2 = true ->
  NoDup S1 -> NoDup S2 ->
  (forall m, In m S1 <-> In m (splits mg acc s1)) -> (forall m, In m S2 <-> In m (splits mg acc s2)) ->
  fpfn mg acc s1 s2 = Ok (Z.of_nat (length (filter (fun m => negb (memz m S1)) S2)),
                      Z.of_nat (length (filter (fun m => negb (memz m S2)) S1))).
Proof. exact F_fp_fn_are_one_sided. Qed.
Print Assumptions fp_fn_are_one_sided.

(* weighted RF, whenever it returns, is the L1 norm of the per-split length differences over any
   duplicate-free superset U of the two split sets, absent = 0, None = 0 - provided no two edges of
   one tree carry the same split (false only for not-rooted trees whose seed keeps two children,
   see zero_on_redrawing_refuted) *)
Theorem wrf_is_L1 : forall mg p acc s1 s2 v U,
  well_formed acc s1 = true -> well_formed acc s2 = true ->
  NoDup (splits mg acc s1) -> NoDup (splits mg acc s2) ->
  wrf mg p acc s1 s2 = Ok v ->
  NoDup U -> incl (splits mg acc s1) U -> incl (splits mg acc s2) U ->
  v = fold_right Z.add 0 (map (fun m => Z.abs (split_len mg acc s1 m - split_len mg acc s2 m)) U).
Proof. exact F_wrf_is_L1. Qed.
Print Assumptions wrf_is_L1.

(* euclidean_distance^2 is the squared L2 norm of the same differences *)
Theorem euclid_is_L2 : forall mg p acc s1 s2 v U,
  well_formed acc s1 = true -> well_formed acc s2 = true ->
  NoDup (splits mg acc s1) -> NoDup (splits mg acc s2) ->
  euclid_sq mg p acc s1 s2 = Ok v ->
  NoDup U -> incl (splits mg acc s1) U -> incl (splits mg acc s2) U ->
  v = fold_right Z.add 0
        (map (fun m => (split_len mg acc s1 m - split_len mg acc s2 m) * (split_len mg acc s1 m - split_len mg acc s2 m)) U).
Proof. exact F_euclid_is_L2. Qed.
Print Assumptions euclid_is_L2.

(* ---- metric axioms (no assumption about colliding splits) ---- *)

Theorem rf_zero_self : forall mg acc s,
  well_formed acc s = true -> rf mg acc s s = Ok 0 /\ fpfn mg acc s s = Ok (0, 0).
Proof. exact F_rf_zero_self. Qed.
Print Assumptions rf_zero_self.

Theorem weighted_zero_self : forall mg p acc s v,
  well_formed acc s = true ->
  (wrf mg p acc s s = Ok v -> v = 0) /\ (euclid_sq mg p acc s s = Ok v -> v = 0).
Proof. exact F_self_weighted_zero. Qed.
Print Assumptions weighted_zero_self.

Theorem rf_sym : forall mg acc s1 s2,
  well_formed acc s1 = true -> well_formed acc s2 = true ->
  rf mg acc s1 s2 = rf mg acc s2 s1 /\ exists d, rf mg acc s1 s2 = Ok d /\ 0 <= d.
Proof. exact F_rf_sym. Qed.
Print Assumptions rf_sym.

Theorem rf_triangle : forall mg acc s1 s2 s3 d13 d12 d23,
  well_formed acc s1 = true -> well_formed acc s2 = true -> well_formed acc s3 = true ->
  rf mg acc s1 s3 = Ok d13 -> rf mg acc s1 s2 = Ok d12 -> rf mg acc s2 s3 = Ok d23 ->
  d13 <= d12 + d23.
Proof. exact F_rf_triangle. Qed.
Print Assumptions rf_triangle.

Theorem wrf_sym : forall mg p acc s1 s2 v v',
  well_formed acc s1 = true -> well_formed acc s2 = true ->
  wrf mg p acc s1 s2 = Ok v -> wrf mg p acc s2 s1 = Ok v' -> v = v'.
Proof. exact F_wrf_sym. Qed.
Print Assumptions wrf_sym.

Theorem wrf_triangle : forall mg p acc s1 s2 s3 d13 d12 d23,
  well_formed acc s1 = true -> well_formed acc s2 = true -> well_formed acc s3 = true ->
  wrf mg p acc s1 s3 = Ok d13 -> wrf mg p acc s1 s2 = Ok d12 -> wrf mg p acc s2 s3 = Ok d23 ->
  d13 <= d12 + d23.
Proof. exact F_wrf_triangle. Qed.
Print Assumptions wrf_triangle.

Theorem euclid_sq_sym : forall mg p acc s1 s2 v v',
  well_formed acc s1 = true -> well_formed acc s2 = true ->
  euclid_sq mg p acc s1 s2 = Ok v -> euclid_sq mg p acc s2 s1 = Ok v' -> v = v'.
Proof. exact F_euclid_sq_sym. Qed.
Print Assumptions euclid_sq_sym.

(* sqrt d13 <= sqrt d12 + sqrt d23, written without square roots:
   for non-negative reals, sqrt A <= sqrt B + sqrt C  <=>  A - B - C <= 0 \/ (A - B - C)^2 <= 4 B C *)
Theorem euclid_triangle : forall mg p acc s1 s2 s3 d13 d12 d23,
  well_formed acc s1 = true -> well_formed acc s2 = true -> well_formed acc s3 = true ->
  euclid_sq mg p acc s1 s3 = Ok d13 -> euclid_sq mg p acc s1 s2 = Ok d12 -> euclid_sq mg p acc s2 s3 = Ok d23 ->
  0 <= d13 /\ 0 <= d12 /\ 0 <= d23 /\
  (d13 - d12 - d23 <= 0 \/ (d13 - d12 - d23) * (d13 - d12 - d23) <= 4 * d12 * d23).
Proof. exact F_euclid_triangle. Qed.
Print Assumptions euclid_triangle.

(* the same in the usual form, over Coq's real numbers (depends on the three standard axioms of
   Coq.Reals only): euclidean_distance = sqrt(euclid_sq) * 2^-10 *)
Theorem euclid_triangle_sqrt : forall mg p acc s1 s2 s3 d13 d12 d23,
  well_formed acc s1 = true -> well_formed acc s2 = true -> well_formed acc s3 = true ->
  euclid_sq mg p acc s1 s3 = Ok d13 -> euclid_sq mg p acc s1 s2 = Ok d12 -> euclid_sq mg p acc s2 s3 = Ok d23 ->
  (sqrt (IZR d13) <= sqrt (IZR d12) + sqrt (IZR d23))%R.
Proof. exact euclid_triangle_sqrt_l. Qed.
Print Assumptions euclid_triangle_sqrt.

(* ---- re-drawings ---- *)

(* Theorem and finding partition the trees with pairwise distinct leaf taxa: the split list stored by
   encode_bipartitions() has no duplicates exactly when the tree is outside the finding's domain. *)
Theorem collision_domain : forall mg acc s,
  distinct_taxa acc (fst s) = true -> (NoDup (splits mg acc s) <-> collides mg s = false).
Proof. exact G_collision_domain. Qed.
Print Assumptions collision_domain.

(* ... and a condition on the tree as given that keeps it outside: no node of outdegree one and at
   least three leaves (so: the finding is about 2-leaf trees and unifurcations at/below the seed) *)
Theorem not_colliding : forall mg t r,
  unifurcation_free t = true -> (3 <= n_leaves t)%nat -> collides mg (t, r) = false.
Proof. exact G_not_colliding. Qed.
Print Assumptions not_colliding.

(* Re-drawings (children reordered at any set of nodes, the seed's included; both rooting states), for
   the library as repaired (mg = true): every function returns the same on a tree and on its re-drawing,
   in both argument positions, for every missing-length policy - for EVERY tree with distinct leaf taxa
   outside the finding's domain.  Inside the domain the statement is false (zero_on_redrawing_refuted);
   for the code before the basal-collapse repair (mg = false) it was false as well
   (child_order_invariant_refuted). *)
Theorem child_order_invariant : forall acc r t t',
  redraw t t' -> proper acc (t, r) = true -> collides true (t, r) = false ->
  forall p s2, well_formed acc s2 = true ->
    fpfn true acc (t, r) s2 = fpfn true acc (t', r) s2 /\ fpfn true acc s2 (t, r) = fpfn true acc s2 (t', r) /\
    rf true acc (t, r) s2 = rf true acc (t', r) s2 /\ rf true acc s2 (t, r) = rf true acc s2 (t', r) /\
    wrf true p acc (t, r) s2 = wrf true p acc (t', r) s2 /\ wrf true p acc s2 (t, r) = wrf true p acc s2 (t', r) /\
    euclid_sq true p acc (t, r) s2 = euclid_sq true p acc (t', r) s2 /\
    euclid_sq true p acc s2 (t, r) = euclid_sq true p acc s2 (t', r).
Proof. exact G_child_order_invariant. Qed.
Print Assumptions child_order_invariant.

Theorem zero_on_redrawing : forall p acc r t t',
  redraw t t' -> proper acc (t, r) = true -> collides true (t, r) = false ->
  rf true acc (t, r) (t', r) = Ok 0 /\
  fpfn true acc (t, r) (t', r) = Ok (0, 0) /\
  (forall v, wrf true p acc (t, r) (t', r) = Ok v -> v = 0) /\
  (forall v, euclid_sq true p acc (t, r) (t', r) = Ok v -> v = 0).
Proof. exact G_zero_on_redrawing. Qed.
Print Assumptions zero_on_redrawing.

(* the norm characterisations on the same domain (no hypothesis about colliding splits left) *)
Theorem wrf_is_L1_on_domain : forall mg p acc s1 s2 v U,
  proper acc s1 = true -> proper acc s2 = true -> collides mg s1 = false -> collides mg s2 = false ->
  wrf mg p acc s1 s2 = Ok v ->
  NoDup U -> incl (splits mg acc s1) U -> incl (splits mg acc s2) U ->
  v = fold_right Z.add 0 (map (fun m => Z.abs (split_len mg acc s1 m - split_len mg acc s2 m)) U).
Proof. exact G_wrf_is_L1. Qed.
Print Assumptions wrf_is_L1_on_domain.

Theorem euclid_is_L2_on_domain : forall mg p acc s1 s2 v U,
  proper acc s1 = true -> proper acc s2 = true -> collides mg s1 = false -> collides mg s2 = false ->
  euclid_sq mg p acc s1 s2 = Ok v ->
  NoDup U -> incl (splits mg acc s1) U -> incl (splits mg acc s2) U ->
  v = fold_right Z.add 0
        (map (fun m => (split_len mg acc s1 m - split_len mg acc s2 m) * (split_len mg acc s1 m - split_len mg acc s2 m)) U).
Proof. exact G_euclid_is_L2. Qed.
Print Assumptions euclid_is_L2_on_domain.

(* ---- moving the seed of a tree that is not rooted ---- *)

(* Tree.reseed_at(internal node): the encoding of the re-seeded tree has the same set of splits and the
   same length per split (missing = 0) as the encoding of the tree before - the lengths travel with the
   inverted edges, the clean-up merges edges with one split by adding their lengths (two basal edges
   included).  Hypotheses: distinct leaf taxa, not rooted, the seed is not a unifurcation (it would be
   left behind as a taxon-less leaf), both trees outside the finding's domain. *)
Theorem split_length_map_invariant : forall acc t r path s',
  proper acc (t, r) = true -> r <> Some true -> ((2 <= length (t_kids t))%nat \/ path = []) ->
  reseed true (t, r) path = Some s' ->
  collides true (t, r) = false -> collides true s' = false ->
  NoDup (splits true acc (t, r)) /\ NoDup (splits true acc s') /\
  (forall m, In m (splits true acc s') <-> In m (splits true acc (t, r))) /\
  (forall m, split_len true acc s' m = split_len true acc (t, r) m).
Proof. exact G_split_length_map_invariant. Qed.
Print Assumptions split_length_map_invariant.

(* hence every distance is unchanged by moving the seed (weighted ones: repaired missing-length policy,
   under which a length that is missing counts 0 wherever the edge ends up), and the distances between
   the tree and the re-seeded tree are 0 *)
Theorem seed_move_invariant : forall acc t r path s',
  proper acc (t, r) = true -> r <> Some true -> ((2 <= length (t_kids t))%nat \/ path = []) ->
  reseed true (t, r) path = Some s' ->
  collides true (t, r) = false -> collides true s' = false ->
  proper acc s' = true /\
  (forall s2, well_formed acc s2 = true ->
    fpfn true acc (t, r) s2 = fpfn true acc s' s2 /\ fpfn true acc s2 (t, r) = fpfn true acc s2 s' /\
    rf true acc (t, r) s2 = rf true acc s' s2 /\ rf true acc s2 (t, r) = rf true acc s2 s' /\
    wrf true ZeroBoth acc (t, r) s2 = wrf true ZeroBoth acc s' s2 /\ wrf true ZeroBoth acc s2 (t, r) = wrf true ZeroBoth acc s2 s' /\
    euclid_sq true ZeroBoth acc (t, r) s2 = euclid_sq true ZeroBoth acc s' s2 /\
    euclid_sq true ZeroBoth acc s2 (t, r) = euclid_sq true ZeroBoth acc s2 s') /\
  rf true acc (t, r) s' = Ok 0 /\ fpfn true acc (t, r) s' = Ok (0, 0) /\
  wrf true ZeroBoth acc (t, r) s' = Ok 0 /\ euclid_sq true ZeroBoth acc (t, r) s' = Ok 0.
Proof. exact G_seed_move_invariant. Qed.
Print Assumptions seed_move_invariant.

(* the re-seeded tree is outside the finding's domain whenever its seed does not have exactly two
   children (reseed_at leaves no unifurcation behind) *)
Theorem reseeded_not_colliding : forall mg s path s',
  reseed mg s path = Some s' -> length (t_kids (fst s')) <> 2%nat -> collides mg s' = false.
Proof. exact G_reseeded_not_colliding. Qed.
Print Assumptions reseeded_not_colliding.

(* LISTED FINDING (key weighted-distance-root-adjacent-edge-collision), inside the domain `collides`:
   a not-rooted tree whose seed keeps two children after encode_bipartitions() - here (((A:1,B:1):1):1,C:5) - has two edges with one split;
   only the last one's length is used, so the tree is at weighted distance 3.0 from its own re-drawing
   (for every missing-length policy and both forms of the basal collapse) *)
Theorem zero_on_redrawing_refuted : forall mg p,
  exists acc r t t',
    redraw t t' /\ proper acc (t, r) = true /\ proper acc (t', r) = true /\ collides mg (t, r) = true /\
    rf mg acc (t, r) (t', r) = Ok 0 /\ wrf mg p acc (t, r) (t', r) = Ok 3072 /\ euclid_sq mg p acc (t, r) (t', r) = Ok 9437184.
Proof. exact zero_on_redrawing_refuted_l. Qed.
Print Assumptions zero_on_redrawing_refuted.

(* REPAIRED DEFECT (basal-collapse-drops-length-onto-missing, /repo 1fc3f136): collapse_basal_bifurcation()
   before the repair (mg = false) drops the length of the removed seed edge when the kept one has none:
   ((A:1,B:1),(C:1,D:1):1) is at weighted distance 1.0 from the same tree with the seed's children
   exchanged (no split collision here); 0 with the repaired form (mg = true) *)
Theorem child_order_invariant_refuted :
  exists p acc r t t',
    redraw t t' /\ well_formed acc (t, r) = true /\ well_formed acc (t', r) = true /\
    nodupb (splits false acc (t, r)) = true /\ nodupb (splits false acc (t', r)) = true /\
    rf false acc (t, r) (t', r) = Ok 0 /\ wrf false p acc (t, r) (t', r) = Ok 1024 /\
    wrf true p acc (t, r) (t', r) = Ok 0.
Proof. exact child_order_invariant_refuted_l. Qed.
Print Assumptions child_order_invariant_refuted.

(* ---- definedness ---- *)

(* FULL STATEMENT: forall p ..., wrf mg p acc s1 s2 returns iff wrf mg p acc s2 s1 returns.
   REPAIRED DEFECT F8 (wrf-definedness-asymmetric, /repo 869e13ed; the library now has policy ZeroBoth):
   false for the code before the repair (policy Current) - (A,B,C) without lengths
   against (A:1,B:1,C:1): 3.0 one way, ValueError the other way. *)
Theorem defined_sym_refuted : forall mg,
  exists acc s1 s2,
    well_formed acc s1 = true /\ well_formed acc s2 = true /\
    wrf mg Current acc s1 s2 = Ok 3072 /\ wrf mg Current acc s2 s1 = Err ValueErr /\
    euclid_sq mg Current acc s1 s2 = Ok 3145728 /\ euclid_sq mg Current acc s2 s1 = Err ValueErr.
Proof. exact defined_sym_refuted_l. Qed.
Print Assumptions defined_sym_refuted.

(* what the current code does: it refuses exactly when some split of the FIRST tree is carried in the
   SECOND tree by an edge that has no length and is not the seed edge *)
Theorem refusal_current : forall mg acc s1 s2,
  well_formed acc s1 = true -> well_formed acc s2 = true ->
  NoDup (splits mg acc s2) ->
  ((exists v, wrf mg Current acc s1 s2 = Ok v) <->
   (forall m x, In (m, x) (entries mg acc s2) -> In m (splits mg acc s1) -> fst x = None -> snd x = true)).
Proof. exact F_refusal_current. Qed.
Print Assumptions refusal_current.

(* with either repair (missing length = 0 on both trees / refused on both trees) definedness is
   symmetric, and the only exception is ValueError *)
Theorem defined_sym : forall mg p acc s1 s2,
  p <> Current ->
  well_formed acc s1 = true -> well_formed acc s2 = true ->
  ((exists v, wrf mg p acc s1 s2 = Ok v) <-> (exists v, wrf mg p acc s2 s1 = Ok v)) /\
  ((exists v, euclid_sq mg p acc s1 s2 = Ok v) <-> (exists v, euclid_sq mg p acc s2 s1 = Ok v)) /\
  ((exists v, wrf mg p acc s1 s2 = Ok v) \/ wrf mg p acc s1 s2 = Err ValueErr).
Proof. exact F_defined_sym. Qed.
Print Assumptions defined_sym.

(* ---- call histories ---- *)

(* With is_bipartitions_updated = False, in any world state (whatever encodings, edge maps, per-edge
   bipartitions and detached nodes earlier calls and edits left behind) each function returns what it
   returns on two fresh trees with the CURRENT structures, leaves both trees normalised and touches
   no other tree. *)
Theorem default_args_fresh : forall mg p w a b sa sb,
  a <> b -> get_t w a = Ok sa -> get_t w b = Ok sb -> ts_ns sa = ts_ns sb ->
  well_formed (w_acc w) (ts_struct sa) = true -> well_formed (w_acc w) (ts_struct sb) = true ->
  fst (do_fpfn mg w a b false) = fpfn mg (w_acc w) (ts_struct sa) (ts_struct sb) /\
  fst (do_symdiff mg w a b false) = rf mg (w_acc w) (ts_struct sa) (ts_struct sb) /\
  fst (do_missing mg w a b false) = missing mg (w_acc w) (ts_struct sa) (ts_struct sb) /\
  fst (do_wrf mg p w a b false) = wrf mg p (w_acc w) (ts_struct sa) (ts_struct sb) /\
  fst (do_euclid_sq mg p w a b false) = euclid_sq mg p (w_acc w) (ts_struct sa) (ts_struct sb) /\
  (forall w', w' = snd (do_fpfn mg w a b false) \/ w' = snd (do_symdiff mg w a b false) \/ w' = snd (do_missing mg w a b false)
              \/ w' = snd (do_wrf mg p w a b false) \/ w' = snd (do_euclid_sq mg p w a b false) ->
     (exists sa' sb', get_t w' a = Ok sa' /\ get_t w' b = Ok sb' /\
        ts_struct sa' = normalise mg (ts_struct sa) /\ ts_struct sb' = normalise mg (ts_struct sb)) /\
     (forall c, c <> a -> c <> b -> get_t w' c = get_t w c)).
Proof. exact F_default_args_fresh. Qed.
Print Assumptions default_args_fresh.

(* trees over different namespaces: every function raises TaxonNamespaceIdentityError (a ValueError)
   for both values of the flag, before touching anything *)
Theorem namespace_mismatch_refused : forall mg p w a b sa sb upd,
  get_t w a = Ok sa -> get_t w b = Ok sb -> ts_ns sa <> ts_ns sb ->
  do_fpfn mg w a b upd = (Err ValueErr, w) /\
  do_symdiff mg w a b upd = (Err ValueErr, w) /\
  do_missing mg w a b upd = (Err ValueErr, w) /\
  do_wrf mg p w a b upd = (Err ValueErr, w) /\
  do_euclid_sq mg p w a b upd = (Err ValueErr, w).
Proof. exact F_namespace_mismatch. Qed.
Print Assumptions namespace_mismatch_refused.

(* interface: the list encode_bipartitions() returns is `splits` of the current structure *)
Theorem encode_is_splits : forall mg w a st,
  get_t w a = Ok st -> taxa_known (w_acc w) (ts_tree st) = true ->
  fst (step mg Current w (OpEncode a)) = OMasks (splits mg (w_acc w) (ts_struct st)).
Proof. exact F_encode_is_splits. Qed.
Print Assumptions encode_is_splits.

(* ---- translator tie ----
   Gen/TreeCompare.v is regenerated on every run from the AST of src/dendropy/calculate/treecompare.py
   (py/dv/gen_treecompare.py), statement by statement, over the primitives of Model/C04Prims.v.
   Each generated function computes exactly what the hand-written model computes: same value, same
   exception, same world afterwards.  The model is instantiated at the policy the source has now
   (ZeroBoth, i.e. after /repo 869e13ed); edge_weight_attr = "length", value_type = float.
   bmaps_ok (a cached bipartition_edge_map has no key twice) is an invariant of every world a case can
   reach (generated_invariant): Python dicts cannot violate it, association lists can.
   Hence every theorem above about do_* / fpfn / rf / wrf / euclid_sq holds of the generated code. *)

Theorem generated_false_positives_and_negatives : forall mg a b upd w,
  g_false_positives_and_negatives mg a b upd w = do_fpfn mg w a b upd.
Proof. exact gen_false_positives_and_negatives. Qed.
Print Assumptions generated_false_positives_and_negatives.

Theorem generated_symmetric_difference : forall mg a b upd w,
  g_symmetric_difference mg a b upd w = do_symdiff mg w a b upd /\
  g_unweighted_robinson_foulds_distance mg a b upd w = do_symdiff mg w a b upd.
Proof. intros. split; [apply gen_symmetric_difference | apply gen_unweighted_robinson_foulds_distance]. Qed.
Print Assumptions generated_symmetric_difference.

Theorem generated_find_missing_bipartitions : forall mg a b upd w,
  g_find_missing_bipartitions mg a b upd w = do_missing mg w a b upd.
Proof. exact gen_find_missing_bipartitions. Qed.
Print Assumptions generated_find_missing_bipartitions.

Theorem generated_get_length_diffs : forall mg a b upd w,
  bmaps_ok w ->
  g__get_length_diffs mg a b AttrLength CtorFloat upd w = do_length_diffs mg ZeroBoth w a b upd.
Proof. exact gen__get_length_diffs. Qed.
Print Assumptions generated_get_length_diffs.

Theorem generated_bipartition_difference : forall mg a b (f : list (Z * Z) -> Z) upd w,
  bmaps_ok w ->
  g__bipartition_difference mg a b f AttrLength CtorFloat upd w
  = wbind (do_length_diffs mg ZeroBoth w a b upd) (fun l w1 => (Ok (f l), w1)).
Proof. exact gen__bipartition_difference. Qed.
Print Assumptions generated_bipartition_difference.

Theorem generated_weighted_robinson_foulds_distance : forall mg a b upd w,
  bmaps_ok w ->
  g_weighted_robinson_foulds_distance mg a b AttrLength upd w = do_wrf mg ZeroBoth w a b upd /\
  g_robinson_foulds_distance mg a b AttrLength w = do_wrf mg ZeroBoth w a b false.
Proof. intros. split; [apply gen_weighted_robinson_foulds_distance | apply gen_robinson_foulds_distance]; assumption. Qed.
Print Assumptions generated_weighted_robinson_foulds_distance.

Theorem generated_euclidean_distance : forall mg a b upd w,
  bmaps_ok w ->
  g_euclidean_distance mg a b AttrLength CtorFloat upd w = do_euclid_sq mg ZeroBoth w a b upd.
Proof. exact gen_euclidean_distance. Qed.
Print Assumptions generated_euclidean_distance.

Theorem generated_invariant : forall mg p c w o,
  bmaps_ok (init_world c) /\ (bmaps_ok w -> bmaps_ok (snd (step mg p w o))).
Proof. intros. split; [apply bmaps_ok_init | apply bmaps_ok_step]. Qed.
Print Assumptions generated_invariant.

(* ---- what the theorems above need from the namespace.  They are stated on split masks; a mask stands for a set of
   leaf taxa through acc (taxon -> accession index).  The leafset mask of a node determines the node's set of leaf taxa,
   and conversely, as soon as acc gives pairwise different, non-negative indices to the taxa ON THE TWO TREES compared:
   nothing about other members of the namespace, vacated indices or the order of accession is needed.  (A namespace
   with a history of removals and additions is therefore fine, as long as TaxonNamespace keeps indices unique: C10.) *)
Theorem clade_masks_need_injectivity_on_the_trees_taxa_only : forall acc t1 t2 a b,
  (forall x y i, In (Some x) (leaf_taxa t1 ++ leaf_taxa t2) -> In (Some y) (leaf_taxa t1 ++ leaf_taxa t2) ->
                 zlookup x acc = Some i -> zlookup y acc = Some i -> x = y) ->
  (forall x, In (Some x) (leaf_taxa t1 ++ leaf_taxa t2) -> exists i, zlookup x acc = Some i /\ 0 <= i) ->
  In a (postorder t1) -> In b (postorder t2) ->
  (lmask acc a = lmask acc b <-> forall x, In (Some x) (leaf_taxa a) <-> In (Some x) (leaf_taxa b)).
Proof. exact clade_masks_need_injectivity_on_the_trees_taxa_only_l. Qed.
Print Assumptions clade_masks_need_injectivity_on_the_trees_taxa_only.

(* ... and it is needed: ((A:1,F:1):2,(C:1,G:1):3,D:1) against ((A:1,G:1):2,(C:1,F:1):3,D:1).  With distinct indices
   (acc') the distances are 4, (2,2), 10, sqrt 26; with an accession map that gives G the index F still has (acc: the
   namespace history A..F, remove B, remove E, add G under a remove_taxon() that re-uses the counter) all four are 0
   although every hypothesis well_formed of the theorems above holds.  The harness therefore checks "distinct leaf
   taxa have distinct bits" on every case and computes the expected distances from label sets (key
   namespace-bit-collision). *)
Theorem distances_with_colliding_bits_refuted : forall mg p,
  exists acc acc' s1 s2,
    proper acc' s1 = true /\ proper acc' s2 = true /\
    well_formed acc s1 = true /\ well_formed acc s2 = true /\
    proper acc s1 = false /\
    rf mg acc' s1 s2 = Ok 4 /\ fpfn mg acc' s1 s2 = Ok (2, 2) /\
    wrf mg p acc' s1 s2 = Ok 10240 /\ euclid_sq mg p acc' s1 s2 = Ok (26 * 1024 * 1024) /\
    rf mg acc s1 s2 = Ok 0 /\ fpfn mg acc s1 s2 = Ok (0, 0) /\
    wrf mg p acc s1 s2 = Ok 0 /\ euclid_sq mg p acc s1 s2 = Ok 0.
Proof. exact distances_with_colliding_bits_refuted_l. Qed.
Print Assumptions distances_with_colliding_bits_refuted.

(* ===== wave 8: a call the library refuses (documented error, caught) between the distance calls =====
   The harness reports such a call to the model as the structure it leaves (OpEdit, like every edit made outside
   the model) and demands - oracle clause "a refused operation changes nothing", checked on the pointers of every
   node of every tree - that this is the structure the tree already had, no cache reset: unchanged_edit a st. *)
From DV Require Import Proofs.C04Refused.

(* such a step is the identity on the world (trees, detached edges, edge bipartitions, cached encodings and maps) *)
Theorem refused_call_changes_nothing : forall (mg : bool) (p : policy) (w : world) (a : nat) (st : tstate),
  get_t w a = Ok st -> step mg p w (unchanged_edit a st) = (OUnit, w).
Proof. exact refused_edit_frame_l. Qed.
Print Assumptions refused_call_changes_nothing.

(* hence every later encode / distance result (and every later normalisation of a tree) is the one of the
   history without the refused call *)
Theorem refused_call_later_results : forall (mg : bool) (p : policy) (w : world) (a : nat) (st : tstate) (ops : list op),
  get_t w a = Ok st ->
  run_show mg p w (unchanged_edit a st :: ops) = (OUnit, map ts_struct (w_trees w)) :: run_show mg p w ops.
Proof. exact refused_edit_later_results_l. Qed.
Print Assumptions refused_call_later_results.

(* the hypotheses are satisfiable: after a weighted RF call (encodings cached) the refused-call step keeps the
   cache and the distance with is_bipartitions_updated=True after it is the one before it (0 to a re-drawing) *)
Theorem refused_call_example :
  exists w1 st d, snd (step true ZeroBoth rf_world (OpWRF 0 1 false)) = w1 /\ get_t w1 0 = Ok st /\
                  ts_enc st <> None /\
                  fst (step true ZeroBoth w1 (OpWRF 0 1 true)) = d /\
                  run_show true ZeroBoth w1 [unchanged_edit 0 st; OpWRF 0 1 true] =
                  [(OUnit, map ts_struct (w_trees w1)); (d, map ts_struct (w_trees w1))] /\ d = OInt 0.
Proof. exact refused_example. Qed.
Print Assumptions refused_call_example.
