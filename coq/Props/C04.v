(* C04 property theorems: statements only, each closed by `exact`.

   Reading guide (definitions are in Model/C04Model.v):
     struct            = (tree, Tree._is_rooted)
     fpfn/rf/missing mg acc s1 s2, wrf/euclid_sq mg p acc s1 s2
                       = false_positives_and_negatives / symmetric_difference / find_missing_bipartitions /
                         weighted_robinson_foulds_distance / euclidean_distance^2 called with default
                         arguments on two freshly built trees with structures s1, s2 over one namespace
                         whose taxon -> accession index map is acc
                         (theorem default_args_fresh: the same calls in ANY state of ANY world compute exactly these)
     splits mg acc s   = split masks of the list encode_bipartitions() stores (post-order, duplicates possible)
     entries mg acc s  = the same list with (edge length, is seed edge) attached
     split_len mg acc s m = length of the first edge with split m; absent or None = 0
     well_formed acc s = leaf taxa are members of the namespace, at least one leaf has a taxon,
                         node identities are distinct (a boolean check on the tree as given)
     redraw t t'       = t' is t with the children of any nodes reordered (Proofs/C04Core.v: reflexive-
                         transitive closure of "permute the children of one node")
     policy            = Current (the code as it stands) | ZeroBoth | RefuseBoth (the two repairs of F8)
     mg                = false: collapse_basal_bifurcation() as it stands (drops the removed seed edge's
                         length when the kept edge has none); true: repaired (the length is taken over).
                         Every theorem below holds for both forms.
     lengths in units of 2^-10; euclidean_distance = sqrt(euclid_sq) * 2^-10 (the square root and
     binary64 rounding are outside the model, so euclid_is_L2 and euclid_triangle are stated on the
     exact radicands, the triangle inequality in its square-root-free form). *)
From Coq Require Import ZArith List Bool Relations.
From DV Require Import Model.PyPrims Model.Tree Model.C04Model Proofs.C04Core Proofs.C04Witness.
Import ListNotations.
Open Scope Z_scope.

(* symmetric_difference = |S1 \ S2| + |S2 \ S1| for ANY duplicate-free enumerations S1, S2 of the two split sets *)
Theorem rf_is_symdiff_card : forall mg acc s1 s2 S1 S2,
  well_formed acc s1 = true -> well_formed acc s2 = true ->
  NoDup S1 -> NoDup S2 ->
  (forall m, In m S1 <-> In m (splits mg acc s1)) -> (forall m, In m S2 <-> In m (splits mg acc s2)) ->
  rf mg acc s1 s2 = Ok (Z.of_nat (length (filter (fun m => negb (memz m S2)) S1))
                     + Z.of_nat (length (filter (fun m => negb (memz m S1)) S2))).
Proof. exact F_rf_is_symdiff_card. Qed.
Print Assumptions rf_is_symdiff_card.

(* false positives = |S2 \ S1| (in the comparison tree only), false negatives = |S1 \ S2| *)
Theorem fp_fn_are_one_sided : forall mg acc s1 s2 S1 S2,
  well_formed acc s1 = true -> well_formed acc s2 = true ->
  NoDup S1 -> NoDup S2 ->
  (forall m, In m S1 <-> In m (splits mg acc s1)) -> (forall m, In m S2 <-> In m (splits mg acc s2)) ->
  fpfn mg acc s1 s2 = Ok (Z.of_nat (length (filter (fun m => negb (memz m S1)) S2)),
                      Z.of_nat (length (filter (fun m => negb (memz m S2)) S1))).
Proof. exact F_fp_fn_are_one_sided. Qed.
Print Assumptions fp_fn_are_one_sided.

(* weighted RF, whenever it returns, is the L1 norm of the per-split length differences over any
   duplicate-free superset U of the two split sets, absent = 0, None = 0 - provided no two edges of
   one tree carry the same split (false only for not-rooted trees whose seed keeps two children,
   see zero_on_redrawing_refuted) *)
Theorem wrf_is_L1 : forall mg p acc s1 s2 v U,
  well_formed acc s1 = true -> well_formed acc s2 = true ->
  NoDup (splits mg acc s1) -> NoDup (splits mg acc s2) ->
  wrf mg p acc s1 s2 = Ok v ->
  NoDup U -> incl (splits mg acc s1) U -> incl (splits mg acc s2) U ->
  v = fold_right Z.add 0 (map (fun m => Z.abs (split_len mg acc s1 m - split_len mg acc s2 m)) U).
Proof. exact F_wrf_is_L1. Qed.
Print Assumptions wrf_is_L1.

(* euclidean_distance^2 is the squared L2 norm of the same differences *)
Theorem euclid_is_L2 : forall mg p acc s1 s2 v U,
  well_formed acc s1 = true -> well_formed acc s2 = true ->
  NoDup (splits mg acc s1) -> NoDup (splits mg acc s2) ->
  euclid_sq mg p acc s1 s2 = Ok v ->
  NoDup U -> incl (splits mg acc s1) U -> incl (splits mg acc s2) U ->
  v = fold_right Z.add 0
        (map (fun m => (split_len mg acc s1 m - split_len mg acc s2 m) * (split_len mg acc s1 m - split_len mg acc s2 m)) U).
Proof. exact F_euclid_is_L2. Qed.
Print Assumptions euclid_is_L2.

(* ---- metric axioms (no assumption about colliding splits) ---- *)

Theorem rf_zero_self : forall mg acc s,
  well_formed acc s = true -> rf mg acc s s = Ok 0 /\ fpfn mg acc s s = Ok (0, 0).
Proof. exact F_rf_zero_self. Qed.
Print Assumptions rf_zero_self.

Theorem weighted_zero_self : forall mg p acc s v,
  well_formed acc s = true ->
  (wrf mg p acc s s = Ok v -> v = 0) /\ (euclid_sq mg p acc s s = Ok v -> v = 0).
Proof. exact F_self_weighted_zero. Qed.
Print Assumptions weighted_zero_self.

Theorem rf_sym : forall mg acc s1 s2,
  well_formed acc s1 = true -> well_formed acc s2 = true ->
  rf mg acc s1 s2 = rf mg acc s2 s1 /\ exists d, rf mg acc s1 s2 = Ok d /\ 0 <= d.
Proof. exact F_rf_sym. Qed.
Print Assumptions rf_sym.

Theorem rf_triangle : forall mg acc s1 s2 s3 d13 d12 d23,
  well_formed acc s1 = true -> well_formed acc s2 = true -> well_formed acc s3 = true ->
  rf mg acc s1 s3 = Ok d13 -> rf mg acc s1 s2 = Ok d12 -> rf mg acc s2 s3 = Ok d23 ->
  d13 <= d12 + d23.
Proof. exact F_rf_triangle. Qed.
Print Assumptions rf_triangle.

Theorem wrf_sym : forall mg p acc s1 s2 v v',
  well_formed acc s1 = true -> well_formed acc s2 = true ->
  wrf mg p acc s1 s2 = Ok v -> wrf mg p acc s2 s1 = Ok v' -> v = v'.
Proof. exact F_wrf_sym. Qed.
Print Assumptions wrf_sym.

Theorem wrf_triangle : forall mg p acc s1 s2 s3 d13 d12 d23,
  well_formed acc s1 = true -> well_formed acc s2 = true -> well_formed acc s3 = true ->
  wrf mg p acc s1 s3 = Ok d13 -> wrf mg p acc s1 s2 = Ok d12 -> wrf mg p acc s2 s3 = Ok d23 ->
  d13 <= d12 + d23.
Proof. exact F_wrf_triangle. Qed.
Print Assumptions wrf_triangle.

Theorem euclid_sq_sym : forall mg p acc s1 s2 v v',
  well_formed acc s1 = true -> well_formed acc s2 = true ->
  euclid_sq mg p acc s1 s2 = Ok v -> euclid_sq mg p acc s2 s1 = Ok v' -> v = v'.
Proof. exact F_euclid_sq_sym. Qed.
Print Assumptions euclid_sq_sym.

(* sqrt d13 <= sqrt d12 + sqrt d23, written without square roots:
   for non-negative reals, sqrt A <= sqrt B + sqrt C  <=>  A - B - C <= 0 \/ (A - B - C)^2 <= 4 B C *)
Theorem euclid_triangle : forall mg p acc s1 s2 s3 d13 d12 d23,
  well_formed acc s1 = true -> well_formed acc s2 = true -> well_formed acc s3 = true ->
  euclid_sq mg p acc s1 s3 = Ok d13 -> euclid_sq mg p acc s1 s2 = Ok d12 -> euclid_sq mg p acc s2 s3 = Ok d23 ->
  0 <= d13 /\ 0 <= d12 /\ 0 <= d23 /\
  (d13 - d12 - d23 <= 0 \/ (d13 - d12 - d23) * (d13 - d12 - d23) <= 4 * d12 * d23).
Proof. exact F_euclid_triangle. Qed.
Print Assumptions euclid_triangle.

(* ---- re-drawings ---- *)

(* FULL STATEMENT (refuted below for the current code):
     forall acc r t t', redraw t t' -> well_formed acc (t, r) = true ->
       every function returns the same on (t, r) and (t', r) against every well-formed s2, in both
       argument positions; in particular the distances between (t, r) and (t', r) are 0.
   PROVED: the statement for every re-drawing (children reordered at any set of nodes, the seed's
   included), both rooting states, under two conditions:
     - no two edges of the tree carry the same split (NoDup (splits ...)): fails exactly for not-rooted
       trees whose seed keeps two children after encode_bipartitions(), where the statement is FALSE for
       the weighted distances (zero_on_redrawing_refuted);
     - if the tree is not rooted and its seed has exactly two children, both internal, then their two
       edge lengths are both present or both missing - without this the statement is FALSE for the code
       as it stands (mg = false), child_order_invariant_refuted; no such condition for the repaired
       form (mg = true) - and their leafset masks are disjoint.
   MISSING: disjointness of the two seed-child leafsets and duplicate-freeness of the splits are
   hypotheses here; they follow from "the leaves carry distinct taxa" by the bit-level theory of the
   encoding (property C01), which this development does not import.  Moving the seed of an unrooted
   tree (reseed_at) is not modelled: it is covered by the correspondence and the oracle only. *)
Theorem child_order_invariant_partial : forall mg acc r t t',
  redraw t t' ->
  well_formed acc (t, r) = true -> NoDup (splits mg acc (t, r)) ->
  (r <> Some true -> forall c0 c1, t_kids t = [c0; c1] ->
     (2 <= length (t_kids c0))%nat -> (2 <= length (t_kids c1))%nat ->
     (mg = true \/ (t_len c0 = None <-> t_len c1 = None)) /\ Z.land (lmask acc c0) (lmask acc c1) = 0) ->
  forall p s2, well_formed acc s2 = true ->
    fpfn mg acc (t, r) s2 = fpfn mg acc (t', r) s2 /\ fpfn mg acc s2 (t, r) = fpfn mg acc s2 (t', r) /\
    rf mg acc (t, r) s2 = rf mg acc (t', r) s2 /\ rf mg acc s2 (t, r) = rf mg acc s2 (t', r) /\
    wrf mg p acc (t, r) s2 = wrf mg p acc (t', r) s2 /\ wrf mg p acc s2 (t, r) = wrf mg p acc s2 (t', r) /\
    euclid_sq mg p acc (t, r) s2 = euclid_sq mg p acc (t', r) s2 /\ euclid_sq mg p acc s2 (t, r) = euclid_sq mg p acc s2 (t', r).
Proof. exact F_child_order_invariant. Qed.
Print Assumptions child_order_invariant_partial.

Theorem zero_on_redrawing_partial : forall mg p acc r t t',
  redraw t t' ->
  well_formed acc (t, r) = true -> NoDup (splits mg acc (t, r)) ->
  (r <> Some true -> forall c0 c1, t_kids t = [c0; c1] ->
     (2 <= length (t_kids c0))%nat -> (2 <= length (t_kids c1))%nat ->
     (mg = true \/ (t_len c0 = None <-> t_len c1 = None)) /\ Z.land (lmask acc c0) (lmask acc c1) = 0) ->
  rf mg acc (t, r) (t', r) = Ok 0 /\
  fpfn mg acc (t, r) (t', r) = Ok (0, 0) /\
  (forall v, wrf mg p acc (t, r) (t', r) = Ok v -> v = 0) /\
  (forall v, euclid_sq mg p acc (t, r) (t', r) = Ok v -> v = 0).
Proof. exact F_zero_on_redrawing. Qed.
Print Assumptions zero_on_redrawing_partial.

(* DEFECT (key weighted-distance-root-adjacent-edge-collision): a not-rooted tree whose seed keeps two
   children after encode_bipartitions() - here (((A:1,B:1):1):1,C:5) - has two edges with one split;
   only the last one's length is used, so the tree is at weighted distance 3.0 from its own re-drawing
   (for every missing-length policy and both forms of the basal collapse) *)
Theorem zero_on_redrawing_refuted : forall mg p,
  exists acc r t t',
    redraw t t' /\ well_formed acc (t, r) = true /\ well_formed acc (t', r) = true /\
    rf mg acc (t, r) (t', r) = Ok 0 /\ wrf mg p acc (t, r) (t', r) = Ok 3072 /\ euclid_sq mg p acc (t, r) (t', r) = Ok 9437184.
Proof. exact zero_on_redrawing_refuted_l. Qed.
Print Assumptions zero_on_redrawing_refuted.

(* DEFECT (key basal-collapse-drops-length-onto-missing): collapse_basal_bifurcation() as it stands
   (mg = false) drops the length of the removed seed edge when the kept one has none:
   ((A:1,B:1),(C:1,D:1):1) is at weighted distance 1.0 from the same tree with the seed's children
   exchanged (no split collision here); 0 with the repaired form (mg = true) *)
Theorem child_order_invariant_refuted :
  exists p acc r t t',
    redraw t t' /\ well_formed acc (t, r) = true /\ well_formed acc (t', r) = true /\
    nodupb (splits false acc (t, r)) = true /\ nodupb (splits false acc (t', r)) = true /\
    rf false acc (t, r) (t', r) = Ok 0 /\ wrf false p acc (t, r) (t', r) = Ok 1024 /\
    wrf true p acc (t, r) (t', r) = Ok 0.
Proof. exact child_order_invariant_refuted_l. Qed.
Print Assumptions child_order_invariant_refuted.

(* ---- definedness ---- *)

(* FULL STATEMENT: forall p ..., wrf mg p acc s1 s2 returns iff wrf mg p acc s2 s1 returns.
   DEFECT F8 (key wrf-definedness-asymmetric): false for the current code - (A,B,C) without lengths
   against (A:1,B:1,C:1): 3.0 one way, ValueError the other way. *)
Theorem defined_sym_refuted : forall mg,
  exists acc s1 s2,
    well_formed acc s1 = true /\ well_formed acc s2 = true /\
    wrf mg Current acc s1 s2 = Ok 3072 /\ wrf mg Current acc s2 s1 = Err ValueErr /\
    euclid_sq mg Current acc s1 s2 = Ok 3145728 /\ euclid_sq mg Current acc s2 s1 = Err ValueErr.
Proof. exact defined_sym_refuted_l. Qed.
Print Assumptions defined_sym_refuted.

(* what the current code does: it refuses exactly when some split of the FIRST tree is carried in the
   SECOND tree by an edge that has no length and is not the seed edge *)
Theorem refusal_current : forall mg acc s1 s2,
  well_formed acc s1 = true -> well_formed acc s2 = true ->
  NoDup (splits mg acc s2) ->
  ((exists v, wrf mg Current acc s1 s2 = Ok v) <->
   (forall m x, In (m, x) (entries mg acc s2) -> In m (splits mg acc s1) -> fst x = None -> snd x = true)).
Proof. exact F_refusal_current. Qed.
Print Assumptions refusal_current.

(* with either repair (missing length = 0 on both trees / refused on both trees) definedness is
   symmetric, and the only exception is ValueError *)
Theorem defined_sym : forall mg p acc s1 s2,
  p <> Current ->
  well_formed acc s1 = true -> well_formed acc s2 = true ->
  ((exists v, wrf mg p acc s1 s2 = Ok v) <-> (exists v, wrf mg p acc s2 s1 = Ok v)) /\
  ((exists v, euclid_sq mg p acc s1 s2 = Ok v) <-> (exists v, euclid_sq mg p acc s2 s1 = Ok v)) /\
  ((exists v, wrf mg p acc s1 s2 = Ok v) \/ wrf mg p acc s1 s2 = Err ValueErr).
Proof. exact F_defined_sym. Qed.
Print Assumptions defined_sym.

(* ---- call histories ---- *)

(* With is_bipartitions_updated = False, in any world state (whatever encodings, edge maps, per-edge
   bipartitions and detached nodes earlier calls and edits left behind) each function returns what it
   returns on two fresh trees with the CURRENT structures, leaves both trees normalised and touches
   no other tree. *)
Theorem default_args_fresh : forall mg p w a b sa sb,
  a <> b -> get_t w a = Ok sa -> get_t w b = Ok sb -> ts_ns sa = ts_ns sb ->
  well_formed (w_acc w) (ts_struct sa) = true -> well_formed (w_acc w) (ts_struct sb) = true ->
  fst (do_fpfn mg w a b false) = fpfn mg (w_acc w) (ts_struct sa) (ts_struct sb) /\
  fst (do_symdiff mg w a b false) = rf mg (w_acc w) (ts_struct sa) (ts_struct sb) /\
  fst (do_missing mg w a b false) = missing mg (w_acc w) (ts_struct sa) (ts_struct sb) /\
  fst (do_wrf mg p w a b false) = wrf mg p (w_acc w) (ts_struct sa) (ts_struct sb) /\
  fst (do_euclid_sq mg p w a b false) = euclid_sq mg p (w_acc w) (ts_struct sa) (ts_struct sb) /\
  (forall w', w' = snd (do_fpfn mg w a b false) \/ w' = snd (do_symdiff mg w a b false) \/ w' = snd (do_missing mg w a b false)
              \/ w' = snd (do_wrf mg p w a b false) \/ w' = snd (do_euclid_sq mg p w a b false) ->
     (exists sa' sb', get_t w' a = Ok sa' /\ get_t w' b = Ok sb' /\
        ts_struct sa' = normalise mg (ts_struct sa) /\ ts_struct sb' = normalise mg (ts_struct sb)) /\
     (forall c, c <> a -> c <> b -> get_t w' c = get_t w c)).
Proof. exact F_default_args_fresh. Qed.
Print Assumptions default_args_fresh.

(* trees over different namespaces: every function raises TaxonNamespaceIdentityError (a ValueError)
   for both values of the flag, before touching anything *)
Theorem namespace_mismatch_refused : forall mg p w a b sa sb upd,
  get_t w a = Ok sa -> get_t w b = Ok sb -> ts_ns sa <> ts_ns sb ->
  do_fpfn mg w a b upd = (Err ValueErr, w) /\
  do_symdiff mg w a b upd = (Err ValueErr, w) /\
  do_missing mg w a b upd = (Err ValueErr, w) /\
  do_wrf mg p w a b upd = (Err ValueErr, w) /\
  do_euclid_sq mg p w a b upd = (Err ValueErr, w).
Proof. exact F_namespace_mismatch. Qed.
Print Assumptions namespace_mismatch_refused.

(* interface: the list encode_bipartitions() returns is `splits` of the current structure *)
Theorem encode_is_splits : forall mg w a st,
  get_t w a = Ok st -> taxa_known (w_acc w) (ts_tree st) = true ->
  fst (step mg Current w (OpEncode a)) = OMasks (splits mg (w_acc w) (ts_struct st)).
Proof. exact F_encode_is_splits. Qed.
Print Assumptions encode_is_splits.
