(* C17 property theorems: statements only, each closed by `exact`.

   Vocabulary (coq/Model/C17Model.v; lengths, ages, depths, precisions are Z in units of 2^-10):
     calc_node_ages c t      the model of Tree.calc_node_ages; c = precision value + forcing flags
     check_prec p            Some p' when the ultrametricity check is performed with threshold p'
                             (p a number >= 0), None for None / False / negative
     atree / a_age / a_len   the tree with the `age` attribute; aforget drops the ages
     tipdists v              distances from node v to every tip below it (explicit path sums, None = 0)
     fp v                    length of the path from v that always descends into the first child
     elen k                  edge length of k, None read as 0
     coerce m false t        t with the missing lengths replaced by 0 which the call replaces
                             (CoAll: every non-root node; CoFirst: first children; CoNone: none)
     paths t                 every node of t (pre-order) with the list of edge lengths from the root
     epaths k                the same for k and the nodes below it, starting with k's own edge
     nonroot t               all nodes except the root
     tperm t t'              t' is t with the children reordered, at any level *)
From Coq Require Import ZArith QArith List Bool Permutation.
From DV Require Import Model.PyPrims Model.Tree Model.C17Model.
From DV Require Import Proofs.C17Ages Proofs.C17AgesThm Proofs.C17Depth Proofs.C17Stats Proofs.C17Perm.
From DV Require Import Proofs.C17Gamma Proofs.C17Fix Proofs.C17Extra Proofs.C17GammaPrec.
From DV Require Import Model.C17Prims Gen.Ages Proofs.C17GenLib Proofs.C17GenStats Proofs.C17GenDepth Proofs.C17GenAges.
From DV Require Import Proofs.C17GenSetLen Proofs.C17GenGamma.
Import ListNotations.
Open Scope Z_scope.

(* ---------------------------------------------------------------------------------------------- *)
(* node ages                                                                                       *)

(* On an exactly ultrametric tree (below every node all tip distances are equal) every configuration
   except "both forcing options" succeeds (forcing options need all lengths), visits the nodes in
   post-order, leaves the tree unchanged up to the documented None -> 0 replacements, and the age of
   every node is its distance to every tip below it. *)
Theorem ages_exact : forall c t,
  (forall v, In v (preorder t) -> forall d1 d2, In d1 (tipdists v) -> In d2 (tipdists v) -> d1 = d2) ->
  c_fmax c && c_fmin c = false ->
  (c_fmax c || c_fmin c = true -> forall v, In v (preorder t) -> forall k, In k (t_kids v) -> t_len k <> None) ->
  exists a, calc_node_ages c t = COk a
    /\ map a_id (apostorder a) = map t_id (postorder t)
    /\ aforget a = coerce (mode_of c) false t
    /\ forall v, In v (apreorder a) -> forall d, In d (tipdists (aforget v)) -> a_age v = d.
Proof. exact ages_exact_l. Qed.
Print Assumptions ages_exact.

(* Tip paths agreeing within eps <= precision below every node: accepted, and every age is within
   eps of the distance to every tip below the node. *)
Theorem ages_within : forall c p eps t,
  c_fmax c = false -> c_fmin c = false -> check_prec (c_prec c) = Some p ->
  0 <= eps <= p ->
  (forall v, In v (preorder t) -> forall d1 d2, In d1 (tipdists v) -> In d2 (tipdists v) -> Z.abs (d1 - d2) <= eps) ->
  exists a, calc_node_ages c t = COk a
    /\ map a_id (apostorder a) = map t_id (postorder t)
    /\ aforget a = coerce CoAll false t
    /\ forall v, In v (apreorder a) -> forall d, In d (tipdists (aforget v)) -> Z.abs (a_age v - d) <= eps.
Proof. exact ages_within_l. Qed.
Print Assumptions ages_within.

(* Exactly what acceptance means and guarantees: the call succeeds iff at every node every child
   after the first agrees with the first-child path within the precision; then every age is the
   first-child path length and, per node and per child, |age - (age_c + len_c)| <= precision. *)
Theorem accept_local_spec : forall c p t,
  c_fmax c = false -> c_fmin c = false -> check_prec (c_prec c) = Some p ->
  ((exists a, calc_node_ages c t = COk a) <->
   (forall v, In v (preorder t) -> forall k, In k (tl (t_kids v)) -> Z.abs (fp v - (fp k + elen k)) <= p))
  /\ (forall a, calc_node_ages c t = COk a ->
        map a_id (apostorder a) = map t_id (postorder t)
        /\ aforget a = coerce CoAll false t
        /\ (forall v, In v (apreorder a) -> a_age v = fp (aforget v))
        /\ (forall v, In v (apreorder a) -> forall k, In k (a_kids v) -> Z.abs (a_age v - (a_age k + len0 (a_len k))) <= p)).
Proof. exact accept_local_spec_l. Qed.
Print Assumptions accept_local_spec.

(* What acceptance implies for ALL tip paths: the deviation may grow with the height of the node
   (number of nodes on the longest downward path), one precision per level. *)
Theorem accepted_drift_bound : forall c p t a,
  c_fmax c = false -> c_fmin c = false -> check_prec (c_prec c) = Some p ->
  calc_node_ages c t = COk a ->
  forall v, In v (apreorder a) -> forall d, In d (tipdists (aforget v)) ->
    Z.abs (a_age v - d) <= (Z.of_nat (height (aforget v)) - 1) * p.
Proof. exact accepted_drift_bound_l. Qed.
Print Assumptions accepted_drift_bound.

(* A rejection is justified: it is an UltrametricityError, and the node at which it is raised has
   two tip paths differing by more than the precision. *)
Theorem reject_sound : forall c p t e n,
  c_fmax c = false -> c_fmin c = false -> check_prec (c_prec c) = Some p ->
  calc_node_ages c t = CErr e n ->
  e = Ultra
  /\ exists v, In v (preorder t) /\ t_id v = n
       /\ exists d1 d2, In d1 (tipdists v) /\ In d2 (tipdists v) /\ Z.abs (d1 - d2) > p.
Proof. exact reject_sound_l. Qed.
Print Assumptions reject_sound.

(* Tip paths within the precision below every node are never rejected. *)
Theorem reject_only_when_needed : forall c p t,
  c_fmax c = false -> c_fmin c = false -> check_prec (c_prec c) = Some p ->
  (forall v, In v (preorder t) -> forall d1 d2, In d1 (tipdists v) -> In d2 (tipdists v) -> Z.abs (d1 - d2) <= p) ->
  exists a, calc_node_ages c t = COk a.
Proof. exact reject_only_when_needed_l. Qed.
Print Assumptions reject_only_when_needed.

(* F16.  The full statement
     reject_complete : forall c p t, (no forcing) -> check_prec (c_prec c) = Some p ->
       (exists v d1 d2, In v (preorder t) /\ In d1 (tipdists v) /\ In d2 (tipdists v) /\ Z.abs (d1 - d2) > p) ->
       exists e n, calc_node_ages c t = CErr e n
   is FALSE for the code: ((A:10,B:19):10,C:11) is accepted at precision 10 although the root's tip
   paths 29 and 11 differ by 18. *)
Theorem reject_complete_refuted : exists c p t,
  c_fmax c = false /\ c_fmin c = false /\ check_prec (c_prec c) = Some p
  /\ (exists v d1 d2, In v (preorder t) /\ In d1 (tipdists v) /\ In d2 (tipdists v) /\ Z.abs (d1 - d2) > p)
  /\ exists a, calc_node_ages c t = COk a.
Proof. exact reject_complete_refuted_l. Qed.
Print Assumptions reject_complete_refuted.

(* ... and acceptance depends on the order of the children: exchanging the tips of the cherry makes
   the same tree rejected. *)
Theorem accept_child_order_refuted : exists c t t',
  t = f16_witness
  /\ t' = T 0 None None None [T 1 None None (Some 10) [f16_leaf 3 19; f16_leaf 2 10]; f16_leaf 4 11]
  /\ (exists a, calc_node_ages c t = COk a) /\ (exists n, calc_node_ages c t' = CErr Ultra n).
Proof. exact accept_child_order_refuted_l. Qed.
Print Assumptions accept_child_order_refuted.

(* is_force_max_age: no ultrametricity test; with all lengths present every age is the distance to
   the furthest tip and the tree is untouched; a missing length below the root is a TypeError. *)
Theorem forced_max_spec : forall c t,
  c_fmax c = true /\ c_fmin c = false ->
  ((forall v, In v (preorder t) -> forall k, In k (t_kids v) -> t_len k <> None) ->
     exists a, calc_node_ages c t = COk a
       /\ map a_id (apostorder a) = map t_id (postorder t)
       /\ aforget a = t
       /\ forall v, In v (apreorder a) ->
            In (a_age v) (tipdists (aforget v))
            /\ forall d, In d (tipdists (aforget v)) -> d <= a_age v)
  /\ (~ (forall v, In v (preorder t) -> forall k, In k (t_kids v) -> t_len k <> None) ->
        exists n, calc_node_ages c t = CErr (Py TypeErr) n).
Proof. exact (forced_spec_l true). Qed.
Print Assumptions forced_max_spec.

Theorem forced_min_spec : forall c t,
  c_fmax c = false /\ c_fmin c = true ->
  ((forall v, In v (preorder t) -> forall k, In k (t_kids v) -> t_len k <> None) ->
     exists a, calc_node_ages c t = COk a
       /\ map a_id (apostorder a) = map t_id (postorder t)
       /\ aforget a = t
       /\ forall v, In v (apreorder a) ->
            In (a_age v) (tipdists (aforget v))
            /\ forall d, In d (tipdists (aforget v)) -> a_age v <= d)
  /\ (~ (forall v, In v (preorder t) -> forall k, In k (t_kids v) -> t_len k <> None) ->
        exists n, calc_node_ages c t = CErr (Py TypeErr) n).
Proof. exact (forced_spec_l false). Qed.
Print Assumptions forced_min_spec.

Theorem forced_both_spec : forall c t,
  c_fmax c = true -> c_fmin c = true -> calc_node_ages c t = CErr (Py ValueErr) (-1).
Proof. exact forced_both_l. Qed.
Print Assumptions forced_both_spec.

(* Precision None, False or negative (and no forcing): never an error, whatever the tree; every age
   is the first-child path length (one of the tip distances); only first children get 0.0 for None. *)
Theorem check_disabled_spec : forall c t,
  c_fmax c = false -> c_fmin c = false -> check_prec (c_prec c) = None ->
  exists a, calc_node_ages c t = COk a
    /\ map a_id (apostorder a) = map t_id (postorder t)
    /\ aforget a = coerce CoFirst false t
    /\ forall v, In v (apreorder a) -> a_age v = fp (aforget v) /\ In (a_age v) (tipdists (aforget v)).
Proof. exact check_disabled_spec_l. Qed.
Print Assumptions check_disabled_spec.

Theorem check_disabled_values : check_prec PNone = None /\ check_prec PFalse = None
  /\ forall z, check_prec (PNum z) = if z <? 0 then None else Some z.
Proof. exact check_prec_disabled_values. Qed.
Print Assumptions check_disabled_values.

(* After a call accepted at precision 0, set_edge_lengths_from_node_ages gives every edge its old
   length back (None below the root having become 0), provided no length is below the minimum and,
   with error_on_negative_edge_lengths, none is negative.  The root's length is not touched. *)
Theorem lengths_from_ages_roundtrip : forall c t a mn eon,
  c_fmax c = false -> c_fmin c = false -> check_prec (c_prec c) = Some 0 ->
  calc_node_ages c t = COk a ->
  (forall v, In v (preorder t) -> forall k, In k (t_kids v) ->
     (forall m, mn = Some m -> m <= elen k) /\ (eon = true -> 0 <= elen k)) ->
  set_edge_lengths_from_node_ages mn eon a = Ok (aforget a) /\ aforget a = coerce CoAll false t.
Proof. exact lengths_from_ages_roundtrip_l. Qed.
Print Assumptions lengths_from_ages_roundtrip.

(* ---------------------------------------------------------------------------------------------- *)
(* root distances, lineages, length                                                                *)

(* With a length on every edge below the root: root_distance / depth of every node = sum of the edge
   lengths on its path from the root; the returned lists are these sums in pre-order. *)
Theorem depth_exact : forall t,
  (forall v, In v (nonroot t) -> t_len v <> None) ->
  map fst (paths t) = preorder t
  /\ root_dists t = Ok (map dentry_of (paths t))
  /\ resolve_node_depths t = Ok (map (fun vp => (t_id (fst vp), sumZ (snd vp))) (paths t))
  /\ calc_node_root_distances false t = Ok (map (fun vp => sumZ (snd vp)) (paths t))
  /\ calc_node_root_distances true t = Ok (map (fun vp => sumZ (snd vp)) (filter (fun vp => is_leaf (fst vp)) (paths t))).
Proof. exact depth_exact_l. Qed.
Print Assumptions depth_exact.

(* a missing length below the root: TypeError (no coercion here) *)
Theorem depth_none : forall t,
  (exists v, In v (nonroot t) /\ t_len v = None) ->
  root_dists t = Err TypeErr /\ resolve_node_depths t = Err TypeErr
  /\ (forall b, calc_node_root_distances b t = Err TypeErr)
  /\ (forall x, num_lineages_at x t = Err TypeErr).
Proof. exact depth_none_l. Qed.
Print Assumptions depth_none.

(* the root distances of the tips are the tip distances of the root *)
Theorem leaf_depths_are_tip_distances : forall t, t_kids t <> [] ->
  map (fun vp => sumZ (snd vp)) (filter (fun vp => is_leaf (fst vp)) (paths t)) = tipdists t.
Proof. exact leaf_depths_are_tipdists. Qed.
Print Assumptions leaf_depths_are_tip_distances.

(* on a tree accepted at precision 0, depth + age is the same for every node (= the root's age) *)
Theorem depth_plus_age : forall t vp,
  (forall v, In v (preorder t) -> forall k, In k (tl (t_kids v)) -> Z.abs (fp v - (fp k + elen k)) <= 0) ->
  In vp (paths t) -> sumZ (snd vp) + fp (fst vp) = fp t.
Proof. exact depth_plus_age_readable. Qed.
Print Assumptions depth_plus_age.

(* num_lineages_at x = number of edges (parent, v) with depth v = x, or depth parent < x <= depth v
   (the code's two clauses) ... *)
Theorem num_lineages_general : forall x t,
  (forall v, In v (nonroot t) -> t_len v <> None) ->
  num_lineages_at x t =
  Ok (Z.of_nat (length (filter
        (fun vp => (sumZ (snd vp) =? x) || ((sumZ (snd vp) >=? x) && (sumZ (removelast (snd vp)) <? x)))
        (flat_map epaths (t_kids t))))).
Proof. exact num_lineages_general_l. Qed.
Print Assumptions num_lineages_general.

(* ... which, when every edge below the root has positive length, is the number of edges crossing
   x: depth parent < x <= depth v. *)
Theorem num_lineages_spec : forall x t,
  (forall v, In v (nonroot t) -> exists l, t_len v = Some l /\ 0 < l) ->
  num_lineages_at x t =
  Ok (Z.of_nat (length (filter
        (fun vp => (sumZ (removelast (snd vp)) <? x) && (x <=? sumZ (snd vp)))
        (flat_map epaths (t_kids t))))).
Proof. exact num_lineages_spec_l. Qed.
Print Assumptions num_lineages_spec.

Theorem tree_length_spec : forall t, tree_length t = sumZ (map elen (preorder t)).
Proof. exact tree_length_spec_l. Qed.
Print Assumptions tree_length_spec.

Theorem minmax_spec : forall t x r,
  (forall v, In v (nonroot t) -> t_len v <> None) ->
  map (fun vp => sumZ (snd vp)) (filter (fun vp => is_leaf (fst vp)) (paths t)) = x :: r ->
  max_distance_from_root t = Ok (maxl x r) /\ minmax_leaf_distance_from_root t = Ok (minl x r, maxl x r).
Proof. exact minmax_spec_l. Qed.
Print Assumptions minmax_spec.

(* ---------------------------------------------------------------------------------------------- *)
(* statistics                                                                                      *)

(* B1 (Shao & Sokal 1990) = sum over the internal nodes other than the root of 1/M_i, M_i = number
   of edges from node i to its furthest tip (height counts nodes, so M_i = height - 1). *)
Theorem B1_spec : forall t,
  (B1 t == sumQ (map (fun v => 1 # Z.to_pos (Z.of_nat (height v) - 1))
                     (filter (fun v => negb (is_leaf v)) (nonroot t))))%Q.
Proof. exact B1_spec_l. Qed.
Print Assumptions B1_spec.

(* Colless on a strictly bifurcating tree: C = sum over internal nodes of |tips right - tips left|;
   normalisations: none; Yule (C - n ln n - n(gamma_E - 1 - ln 2))/n with ln n, ln 2, gamma_E as given;
   PDA C / n^(3/2) with n^(3/2) as given; "max"/True C * 2/((n-1)(n-2)), ZeroDivisionError for n < 3. *)
Theorem colless_spec : forall w t,
  (forall v, In v (preorder t) -> t_kids v = [] \/ exists a b, t_kids v = [a; b]) ->
  let C := inject_Z (sumZ (map (fun v => match t_kids v with
                                         | [a; b] => Z.abs (Z.of_nat (length (leaves b)) - Z.of_nat (length (leaves a)))
                                         | _ => 0 end) (preorder t))) in
  let n := Z.of_nat (length (leaves t)) in
  colless_tree_imbalance w NNone t = Ok C
  /\ colless_tree_imbalance w NFalse t = Ok C
  /\ colless_tree_imbalance w NYule t = Ok ((C - inject_Z n * ln_n w - inject_Z n * (euler w - 1 - ln_2 w)) / inject_Z n)%Q
  /\ colless_tree_imbalance w NPda t = Ok (C / pow15 w)%Q
  /\ colless_tree_imbalance w NBad t = Err TypeErr
  /\ (3 <= n -> exists q, colless_tree_imbalance w NMax t = Ok q /\ colless_tree_imbalance w NTrue t = Ok q
                 /\ (q == C * (2 # 1) / inject_Z ((n - 1) * (n - 2)))%Q)
  /\ (n < 3 -> colless_tree_imbalance w NMax t = Err OtherErr /\ colless_tree_imbalance w NTrue t = Err OtherErr).
Proof. exact colless_spec_l. Qed.
Print Assumptions colless_spec.

Theorem colless_nonbinary : forall w nm t,
  ~ (forall v, In v (preorder t) -> t_kids v = [] \/ exists a b, t_kids v = [a; b]) ->
  exists e, colless_tree_imbalance w nm t = Err e /\ (e = IndexErr \/ e = TypeErr).
Proof. exact colless_nonbinary_l. Qed.
Print Assumptions colless_nonbinary.

(* Sackin = sum over the tips of the number of edges from the root (= sum over internal nodes of the
   tips they subtend); True: mean = N_bar; Yule (S - 2 n sum_{j=2..n} 1/j)/n; PDA S/n^(3/2). *)
Theorem sackin_spec : forall w t,
  let S := inject_Z (sumZ (map (fun vp => Z.of_nat (length (snd vp))) (filter (fun vp => is_leaf (fst vp)) (paths t)))) in
  let n := length (leaves t) in
  sumZ (map (fun vp => Z.of_nat (length (snd vp))) (filter (fun vp => is_leaf (fst vp)) (paths t)))
    = sumZ (map (fun v => Z.of_nat (length (leaves v))) (filter (fun v => negb (is_leaf v)) (preorder t)))
  /\ sackin_index w NNone t = Ok S /\ sackin_index w NFalse t = Ok S
  /\ sackin_index w NTrue t = Ok (S / inject_Z (Z.of_nat n))%Q
  /\ N_bar t = (S / inject_Z (Z.of_nat n))%Q
  /\ sackin_index w NYule t = Ok ((S - 2 * inject_Z (Z.of_nat n) * harmonic_from2 n) / inject_Z (Z.of_nat n))%Q
  /\ sackin_index w NPda t = Ok (S / pow15 w)%Q
  /\ sackin_index w NMax t = Err TypeErr /\ sackin_index w NBad t = Err TypeErr.
Proof. exact sackin_spec_l. Qed.
Print Assumptions sackin_spec.

Theorem harmonic_spec : harmonic_from2 0 = 0%Q /\ harmonic_from2 1 = 0%Q
  /\ forall m, (2 <= m)%nat -> (harmonic_from2 m == harmonic_from2 (m - 1) + (1 # Pos.of_nat m))%Q.
Proof. exact (conj (proj1 harmonic_from2_base) (conj (proj2 harmonic_from2_base) harmonic_from2_step)). Qed.
Print Assumptions harmonic_spec.

(* treeness = internal length / total length over the edges below the root *)
Theorem treeness_spec : forall t,
  let I := sumZ (map elen (filter (fun v => negb (is_leaf v)) (nonroot t))) in
  let X := sumZ (map elen (filter is_leaf (nonroot t))) in
  ((forall v, In v (nonroot t) -> t_len v <> None) -> X + I <> 0 -> treeness t = Ok (inject_Z I / inject_Z (X + I))%Q)
  /\ ((forall v, In v (nonroot t) -> t_len v <> None) -> X + I = 0 -> treeness t = Err OtherErr)
  /\ ((exists v, In v (nonroot t) /\ t_len v = None) -> treeness t = Err TypeErr).
Proof. exact treeness_spec_l. Qed.
Print Assumptions treeness_spec.

(* None of B1, Colless, Sackin, N_bar, treeness, length depends on the order of the children
   (Colless / treeness: whenever a value is returned; which exception class is met first on an
   invalid tree can depend on the order). *)
Theorem stats_child_order_invariant : forall t t', tperm t t' ->
  (B1 t == B1 t')%Q
  /\ (forall w nm q, colless_tree_imbalance w nm t = Ok q -> colless_tree_imbalance w nm t' = Ok q)
  /\ (forall w nm, sackin_index w nm t = sackin_index w nm t')
  /\ N_bar t = N_bar t'
  /\ (forall q, treeness t = Ok q -> treeness t' = Ok q)
  /\ tree_length t = tree_length t'.
Proof. exact stats_child_order_invariant_l. Qed.
Print Assumptions stats_child_order_invariant.

(* ---------------------------------------------------------------------------------------------- *)
(* Pybus & Harvey gamma                                                                            *)

(* A returned value is built from: the ages of the nodes with exactly two children sorted
   descending; g = the successive differences followed by the youngest age (the waiting times
   g_2 .. g_n); n = number of the other nodes = |g| + 1 >= 3;
     T = sum_{k=2..n} k g_k,   accum = sum_{i=2..n-1} sum_{k=2..i} k g_k  (sums over the prefixes of g),
     numerator = accum/(n-2) - T/2;     the float returned is numerator / (T * sqrt(1/(12(n-2)))). *)
Theorem gamma_spec : forall a p,
  gamma_of_ages a = Ok p ->
  exists older rest,
    sort_desc (map a_age (filter (fun v => (length (a_kids v) =? 2)%nat) (apostorder a))) = older :: rest
    /\ let g := waiting_times older rest in
       let n := Z.of_nat (length g) + 1 in
       gp_n p = n
       /\ n = Z.of_nat (length (filter (fun v => negb (length (a_kids v) =? 2)%nat) (apostorder a)))
       /\ 3 <= n
       /\ gp_T p = wsum 2 g /\ gp_T p <> 0
       /\ gp_accum p = sumZ (map (fun m => wsum 2 (firstn m g)) (seq 1 (length g - 1)))
       /\ gp_numerator p = (inject_Z (gp_accum p) / inject_Z (n - 2) - inject_Z (gp_T p) / 2)%Q.
Proof. exact gamma_spec_l. Qed.
Print Assumptions gamma_spec.

(* wsum i g = i*g_0 + (i+1)*g_1 + ... *)
Theorem wsum_spec : (forall i, wsum i [] = 0) /\ (forall i x r, wsum i (x :: r) = i * x + wsum (i + 1) r).
Proof. exact (conj wsum_nil wsum_cons). Qed.
Print Assumptions wsum_spec.

(* the ages are sorted: a descending permutation, the same for every order of the input *)
Theorem sort_desc_spec : forall l, Permutation l (sort_desc l) /\ desc_sorted (sort_desc l).
Proof. exact sort_desc_spec_l. Qed.
Print Assumptions sort_desc_spec.

(* gamma does not depend on the order of the children on an exactly ultrametric tree, for every
   precision value (results and exceptions alike) ... *)
Theorem gamma_child_order_exact : forall pv t t',
  (forall v, In v (preorder t) -> forall d1 d2, In d1 (tipdists v) -> In d2 (tipdists v) -> d1 = d2) ->
  tperm t t' -> pybus_harvey_gamma pv t = pybus_harvey_gamma pv t'.
Proof. exact gamma_child_order_exact_l. Qed.
Print Assumptions gamma_child_order_exact.

(* ... but with a positive precision and a tree ultrametric only within it, the first-child ages make
   gamma depend on the order (another face of F16). *)
Theorem gamma_child_order_refuted : exists pv t t' p p',
  tperm t t' /\ pybus_harvey_gamma pv t = GOk p /\ pybus_harvey_gamma pv t' = GOk p'
  /\ ~ (gp_numerator p / inject_Z (gp_T p) == gp_numerator p' / inject_Z (gp_T p'))%Q.
Proof. exact gamma_child_order_refuted_l. Qed.
Print Assumptions gamma_child_order_refuted.

(* ---------------------------------------------------------------------------------------------- *)
(* resolve_node_ages                                                                               *)

(* on an exactly ultrametric tree with non-negative lengths resolve_node_ages (max depth - depth)
   gives every node the age calc_node_ages gives it (the first-child path = every tip distance) *)
Theorem resolve_ages_exact : forall t,
  (forall v, In v (nonroot t) -> exists l, t_len v = Some l /\ 0 <= l) ->
  (forall v, In v (preorder t) -> forall d1 d2, In d1 (tipdists v) -> In d2 (tipdists v) -> d1 = d2) ->
  resolve_node_ages t = Ok (map (fun vp => (t_id (fst vp), fp (fst vp))) (paths t)).
Proof. exact resolve_ages_exact_l. Qed.
Print Assumptions resolve_ages_exact.

(* ---------------------------------------------------------------------------------------------- *)
(* the proposed repair of F16 (calc_node_ages_fix: compare shortest and longest tip path per node) *)

(* sound and complete, same ages as today on every tree it accepts, always UltrametricityError *)
Theorem fixed_spec : forall c p t,
  c_fmax c = false -> c_fmin c = false -> check_prec (c_prec c) = Some p ->
  ((exists a, calc_node_ages_fix c t = COk a) <->
   (forall v, In v (preorder t) -> forall d1 d2, In d1 (tipdists v) -> In d2 (tipdists v) -> Z.abs (d1 - d2) <= p))
  /\ (forall a, calc_node_ages_fix c t = COk a -> calc_node_ages c t = COk a)
  /\ (forall e n, calc_node_ages_fix c t = CErr e n ->
        e = Ultra /\ exists v, In v (preorder t) /\ t_id v = n
                     /\ exists d1 d2, In d1 (tipdists v) /\ In d2 (tipdists v) /\ Z.abs (d1 - d2) > p).
Proof. exact fixed_spec_l. Qed.
Print Assumptions fixed_spec.

Theorem reject_complete_fixed : forall c p t,
  c_fmax c = false -> c_fmin c = false -> check_prec (c_prec c) = Some p ->
  (exists v d1 d2, In v (preorder t) /\ In d1 (tipdists v) /\ In d2 (tipdists v) /\ Z.abs (d1 - d2) > p) ->
  exists n, calc_node_ages_fix c t = CErr Ultra n.
Proof. exact reject_complete_fixed_l. Qed.
Print Assumptions reject_complete_fixed.

Theorem fixed_same_elsewhere : forall c t,
  (c_fmax c = true \/ c_fmin c = true \/ check_prec (c_prec c) = None) ->
  calc_node_ages_fix c t = calc_node_ages c t.
Proof. exact fixed_same_elsewhere_l. Qed.
Print Assumptions fixed_same_elsewhere.

(* ---------------------------------------------------------------------------------------------- *)
(* TRANSLATOR TIE.  coq/Gen/Ages.v is regenerated from the Python source on every run by
   py/dv/gen_ages.py (statement by statement, over the primitives of Model/C17Prims.v).  The
   theorems below say that the generated functions compute exactly what the hand-written model
   computes, on every tree with distinct node identities and every attribute store whose edge
   lengths are those of the tree (`init_store t` is one).  Hence every theorem above holds of the
   generated code; an edit of the Python changes Gen/Ages.v and breaks these proofs.

   store: s_age / s_len / s_rd = the attributes x.age, x.edge.length, x.root_distance by identity;
   lens_agree st t: the store's lengths are the tree's; ids t: the identities in pre-order. *)

Theorem gen_init_store_agrees : forall t, NoDup (ids t) -> lens_agree (init_store t) t.
Proof. exact init_store_agrees. Qed.
Print Assumptions gen_init_store_agrees.

(* Tree.calc_node_ages (set_node_age_fn=None): same exception, or same returned list, the ages of the
   model's result in the age attributes, its lengths in the length attributes, nothing else touched *)
Theorem gen_calc_node_ages_eq : forall pv fmx fmn io t st,
  lens_agree st t -> NoDup (ids t) ->
  match calc_node_ages (mkCfg pv fmx fmn) t with
  | COk a =>
    exists st', g_calc_node_ages pv fmx fmn io t st = XOk (st', map Some (ret_ages io a))
      /\ (forall v, In v (apreorder a) -> s_age st' (a_id v) = Some (a_age v))
      /\ lens_agree st' (aforget a)
      /\ (forall j, ~ In j (ids t) -> s_age st' j = s_age st j /\ s_len st' j = s_len st j)
      /\ s_rd st' = s_rd st
  | CErr e n => g_calc_node_ages pv fmx fmn io t st = XErr e
  end.
Proof. exact g_calc_node_ages_eq_l. Qed.
Print Assumptions gen_calc_node_ages_eq.

(* Tree.calc_node_root_distances: same list or TypeError; root_distance attributes as in the model
   (rd_ok_all: every node below the root carries its length + the parent's distance) *)
Theorem gen_calc_node_root_distances_eq : forall lo t st, lens_agree st t -> NoDup (ids t) ->
  match calc_node_root_distances lo t with
  | Ok l => exists st', g_calc_node_root_distances lo t st = XOk (st', l)
              /\ s_rd st' (t_id t) = Some 0 /\ rd_ok_all st' 0 (t_kids t)
              /\ s_age st' = s_age st /\ s_len st' = s_len st
  | Err e => g_calc_node_root_distances lo t st = XErr (Py e)
  | OutOfFuel => False
  end.
Proof. exact g_root_distances_eq_l. Qed.
Print Assumptions gen_calc_node_root_distances_eq.

Theorem gen_num_lineages_at_eq : forall x t st, lens_agree st t -> NoDup (ids t) ->
  match num_lineages_at x t with
  | Ok n => exists st', g_num_lineages_at x t st = XOk (st', n) /\ s_age st' = s_age st /\ s_len st' = s_len st
  | Err e => g_num_lineages_at x t st = XErr (Py e)
  | OutOfFuel => False
  end.
Proof. exact g_num_lineages_eq_l. Qed.
Print Assumptions gen_num_lineages_at_eq.

(* treemeasure.*: the store is not changed; of_res maps the model's result (Err e -> the Python
   exception class e) *)
Theorem gen_treeness_eq : forall t st, lens_agree st t ->
  g_treeness t st = xbind (of_res (treeness t)) (fun q => XOk (st, q)).
Proof. exact g_treeness_eq_l. Qed.
Print Assumptions gen_treeness_eq.

Theorem gen_N_bar_eq : forall t st, g_N_bar t st = XOk (st, N_bar t).
Proof. exact g_N_bar_eq_l. Qed.
Print Assumptions gen_N_bar_eq.

(* equal up to == on the rational (the Yule normalisation sums 1/j in a different order) *)
Theorem gen_sackin_index_eq : forall w nm t st,
  Qeq_bool (pow15 w) 0 = false ->
  xq_equiv (g_sackin_index w nm t st) (xbind (of_res (sackin_index w nm t)) (fun q => XOk (st, q))).
Proof. exact g_sackin_eq_l. Qed.
Print Assumptions gen_sackin_index_eq.

Theorem gen_colless_tree_imbalance_eq : forall w nm t st,
  NoDup (ids t) -> Qeq_bool (pow15 w) 0 = false ->
  g_colless_tree_imbalance w nm t st = xbind (of_res (colless_tree_imbalance w nm t)) (fun q => XOk (st, q)).
Proof. exact g_colless_eq_l. Qed.
Print Assumptions gen_colless_tree_imbalance_eq.

Theorem gen_B1_eq : forall t st, NoDup (ids t) ->
  exists q, g_B1 t st = XOk (st, q) /\ (q == B1 t)%Q.
Proof. exact g_B1_eq_l. Qed.
Print Assumptions gen_B1_eq.

(* Tree.set_edge_lengths_from_node_ages on a store carrying the ages of `a` (ages_agree): same
   exception, or the lengths of the model's result tree in the length attributes (aids a: the
   identities of a, pre-order) *)
Theorem gen_set_edge_lengths_from_node_ages_eq : forall mn eon a st,
  ages_agree st a -> NoDup (aids a) -> s_len st (a_id a) = a_len a ->
  match set_edge_lengths_from_node_ages mn eon a with
  | Ok t' =>
    exists st', g_set_edge_lengths_from_node_ages mn eon (aforget a) st = XOk (st', tt)
      /\ lens_agree st' t' /\ ids t' = aids a
      /\ (forall j, ~ In j (aids a) -> s_len st' j = s_len st j)
      /\ s_age st' = s_age st /\ s_rd st' = s_rd st
  | Err er => g_set_edge_lengths_from_node_ages mn eon (aforget a) st = XErr (Py er)
  | OutOfFuel => False
  end.
Proof. exact g_set_edge_lengths_eq_l. Qed.
Print Assumptions gen_set_edge_lengths_from_node_ages_eq.

(* treemeasure.pybus_harvey_gamma on a tree without ages (it then calls calc_node_ages): the value is
   numerator / (T * sqrt_f), i.e. gamma_value of the model's exact parts *)
Theorem gen_pybus_harvey_gamma_eq : forall w pv t st,
  Qeq_bool (sqrt_f w) 0 = false ->
  s_age st (t_id t) = None -> lens_agree st t -> NoDup (ids t) ->
  match pybus_harvey_gamma pv t with
  | GOk p => exists st', g_pybus_harvey_gamma w pv t st = XOk (st', gamma_value w p)
  | GAgeErr e => g_pybus_harvey_gamma w pv t st = XErr e
  | GErr e => g_pybus_harvey_gamma w pv t st = XErr (Py e)
  end.
Proof. exact g_gamma_eq_l. Qed.
Print Assumptions gen_pybus_harvey_gamma_eq.

(* ---------------------------------------------------------------------------------------------- *)
(* The precision handed to the gamma entry point (treemeasure.pybus_harvey_gamma(tree, prec) and the
   deprecated Tree.pybus_harvey_gamma(prec), which passes it on) on a tree without ages:
   - a value that disables the check (None, False, negative: check_disabled_values) never yields an
     UltrametricityError (nor any other error from the age computation);
   - every other value p - the falsy 0 and 0.0 included, check_prec (PNum 0) = Some 0 - is an exact bound: no
     error from the age computation iff every non-first child path is within p of the first-child path, and an
     error is an UltrametricityError raised at a node with two tip paths differing by more than p.
   (gen_pybus_harvey_gamma_eq ties g_pybus_harvey_gamma, recompiled from the source on every run, to this
   pybus_harvey_gamma for every prec value.) *)
Theorem gamma_prec_honoured : forall pv t,
  (check_prec pv = None -> forall e, pybus_harvey_gamma pv t <> GAgeErr e) /\
  (forall p, check_prec pv = Some p ->
     ((forall e, pybus_harvey_gamma pv t <> GAgeErr e) <->
      (forall v, In v (preorder t) -> forall k, In k (tl (t_kids v)) -> Z.abs (fp v - (fp k + elen k)) <= p)) /\
     (forall e, pybus_harvey_gamma pv t = GAgeErr e ->
        e = Ultra /\ exists v d1 d2, In v (preorder t) /\ In d1 (tipdists v) /\ In d2 (tipdists v) /\ Z.abs (d1 - d2) > p)).
Proof. exact gamma_prec_honoured_l. Qed.
Print Assumptions gamma_prec_honoured.

Theorem gamma_prec_examples :
  pybus_harvey_gamma (PNum 0) gx_nearly = GAgeErr Ultra /\
  (exists p, pybus_harvey_gamma (PNum 10995116) gx_nearly = GOk p) /\
  (exists p, pybus_harvey_gamma PFalse gx_crooked = GOk p) /\
  (exists p, pybus_harvey_gamma PNone gx_crooked = GOk p) /\
  pybus_harvey_gamma (PNum 0) gx_crooked = GAgeErr Ultra.
Proof. exact gamma_prec_examples_l. Qed.
Print Assumptions gamma_prec_examples.
