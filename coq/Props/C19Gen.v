(* C19 translator tie: theorems only.
   Gen/CharMatrix.v is regenerated on every run from the CURRENT src/dendropy/datamodel/charmatrixmodel.py
   by py/dv/gen_charmatrix.py (statement by statement, over the primitives of Model/C19Prims.v).
   Each theorem says that a generated method equals the corresponding function of the hand-written
   model Model/C19Model.v on all inputs (side conditions: the dict invariant "keys are unique" and,
   where the method iterates the matrix, a namespace without repeated members - both preserved by
   every history, Props/C19.v wellformed_invariant).  Hence every theorem of Props/C19.v about the model
   is a theorem about the code as it is now; an edit of a translated method changes Gen/CharMatrix.v and
   breaks the proof of its equality.
   A generated method returns (receiver after the call, result / exception / OutOfFuel). *)
From Coq Require Import ZArith List Bool.
From DV Require Import Model.PyPrims Model.C19Model Model.C19Prims Gen.CharMatrix.
From DV Require Import Proofs.C19GenRows Proofs.C19GenDel Proofs.C19GenCols Proofs.C19GenConcat.
Import ListNotations.
Open Scope Z_scope.

(* CharacterDataSequence.extend: `alias` = the argument is the receiver itself.  The argument is
   materialised before the value list grows: also a sequence extended by itself is simply doubled
   (this is the repair 99e94739; with `self._character_values.extend(character_values)` on the live
   iterable the translator emits py_list_extend_iter and this equality no longer type-checks). *)
Theorem gen_extend_eq_model :
  forall (alias : bool) (self character_values : row),
  gen_extend alias self character_values = (self ++ (if alias then self else character_values), Ok tt).
Proof. exact gen_extend_eq. Qed.
Print Assumptions gen_extend_eq_model.

Theorem gen_add_sequences_eq_model :
  forall self other : matrix, NoDup (map fst (m_rows other)) ->
  gen_add_sequences self other = as_blk self (add_sequences self other).
Proof. exact gen_add_sequences_eq. Qed.
Print Assumptions gen_add_sequences_eq_model.

Theorem gen_replace_sequences_eq_model :
  forall self other : matrix, NoDup (map fst (m_rows other)) ->
  gen_replace_sequences self other = as_blk self (replace_sequences self other).
Proof. exact gen_replace_sequences_eq. Qed.
Print Assumptions gen_replace_sequences_eq_model.

Theorem gen_update_sequences_eq_model :
  forall self other : matrix, NoDup (map fst (m_rows other)) ->
  gen_update_sequences self other = as_blk self (update_sequences self other).
Proof. exact gen_update_sequences_eq. Qed.
Print Assumptions gen_update_sequences_eq_model.

(* `same` = other_matrix is self (then the model is applied to (self, self), as Model.step does) *)
Theorem gen_extend_sequences_eq_model :
  forall (same : bool) (self other : matrix) (addnew : bool),
  NoDup (map fst (m_rows other)) -> (same = true -> other = self) ->
  gen_extend_sequences same self other addnew = as_blk self (extend_sequences self other addnew).
Proof. exact gen_extend_sequences_eq. Qed.
Print Assumptions gen_extend_sequences_eq_model.

Theorem gen_extend_matrix_eq_model :
  forall (same : bool) (self other : matrix),
  NoDup (map fst (m_rows other)) -> (same = true -> other = self) ->
  gen_extend_matrix same self other = as_blk self (extend_matrix self other).
Proof. exact gen_extend_matrix_eq. Qed.
Print Assumptions gen_extend_matrix_eq_model.

(* the receiver keeps the deletions made before a KeyError *)
Theorem gen_remove_sequences_eq_model :
  forall (taxa : list tid) (self : matrix),
  gen_remove_sequences self taxa
  = (set_rows self (fst (remove_rows (m_rows self) taxa)),
     match snd (remove_rows (m_rows self) taxa) with None => Ok tt | Some e => Err e end).
Proof. exact gen_remove_sequences_eq. Qed.
Print Assumptions gen_remove_sequences_eq_model.

Theorem gen_discard_sequences_eq_model :
  forall (taxa : list tid) (self : matrix),
  gen_discard_sequences self taxa = (set_rows self (discard_rows (m_rows self) taxa), Ok tt).
Proof. exact gen_discard_sequences_eq. Qed.
Print Assumptions gen_discard_sequences_eq_model.

(* (iterating the live dict instead of tuple(...keys()) makes the translator emit for_each_live,
   which raises RuntimeError when a key is deleted, and this equality fails) *)
Theorem gen_keep_sequences_eq_model :
  forall (self : matrix) (taxa : list tid), NoDup (map fst (m_rows self)) ->
  gen_keep_sequences self taxa = (set_rows self (keep_rows (m_rows self) taxa), Ok tt).
Proof. exact gen_keep_sequences_eq. Qed.
Print Assumptions gen_keep_sequences_eq_model.

Theorem gen_fill_taxa_eq_model :
  forall (taxa_of : nsid -> list tid) (self : matrix),
  gen_fill_taxa taxa_of self = (fill_taxa (taxa_of (m_ns self)) self, Ok tt).
Proof. exact gen_fill_taxa_eq. Qed.
Print Assumptions gen_fill_taxa_eq_model.

(* includes: the `while len(v) < size` loop never runs out of the fuel S (size - len v) *)
Theorem gen_fill_eq_model :
  forall (taxa_of : nsid -> list tid) (self : matrix) (value : cell) (size : option Z) (append : bool),
  NoDup (taxa_of (m_ns self)) -> NoDup (map fst (m_rows self)) ->
  gen_fill taxa_of self value size append
  = (fst (fill (taxa_of (m_ns self)) self value size append),
     Ok (snd (fill (taxa_of (m_ns self)) self value size append))).
Proof. exact gen_fill_eq. Qed.
Print Assumptions gen_fill_eq_model.

Theorem gen_pack_eq_model :
  forall (taxa_of : nsid -> list tid) (self : matrix) (value : cell) (size : option Z) (append : bool),
  NoDup (taxa_of (m_ns self)) -> NoDup (map fst (m_rows self)) ->
  gen_pack taxa_of self value size append = (fst (pack (taxa_of (m_ns self)) self value size append), Ok tt).
Proof. exact gen_pack_eq. Qed.
Print Assumptions gen_pack_eq_model.

(* includes: deleting the unselected cells from the last position backwards never raises IndexError
   and leaves exactly the selected cells; the receiver is unchanged *)
Theorem gen_export_character_indices_eq_model :
  forall (taxa_of : nsid -> list tid) (self : matrix) (indices : list Z),
  NoDup (taxa_of (m_ns self)) -> NoDup (map fst (m_rows self)) ->
  gen_export_character_indices taxa_of self indices
  = (self, Ok (export_character_indices (taxa_of (m_ns self)) self indices)).
Proof. exact gen_export_character_indices_eq. Qed.
Print Assumptions gen_export_character_indices_eq_model.

(* the argument is a subset name (inl) or a CharacterSubset object, given by its indices (inr) *)
Theorem gen_export_character_subset_eq_model :
  forall (lower : lbl -> lbl) (taxa_of : nsid -> list tid) (self : matrix) (cs : lbl + list Z),
  NoDup (taxa_of (m_ns self)) -> NoDup (map fst (m_rows self)) ->
  gen_export_character_subset lower taxa_of self cs
  = (self, match cs with
           | inl l => export_character_subset lower (taxa_of (m_ns self)) self l
           | inr idx => Ok (export_character_indices (taxa_of (m_ns self)) self idx)
           end).
Proof. exact gen_export_character_subset_eq. Qed.
Print Assumptions gen_export_character_subset_eq_model.

(* includes the free-name loop (fuel free_name_fuel) and the subset ranges *)
Theorem gen_concatenate_eq_model :
  forall (lower : lbl -> lbl) (suffix : lbl -> Z -> lbl) (locus : Z -> lbl) (taxa_of : nsid -> list tid)
         (cms : list matrix),
  Forall (fun cm => NoDup (map fst (m_rows cm))) cms ->
  gen_concatenate lower suffix locus taxa_of cms = (tt, concatenate lower suffix locus taxa_of cms).
Proof. exact gen_concatenate_eq. Qed.
Print Assumptions gen_concatenate_eq_model.
