(* C20, translator tie: the FASTA and PHYLIP readers GENERATED from the current source by py/dv/gen_chario.py
   (coq/Gen/CharIO.v, over the primitives of Model/C09Prims.v) equal the hand-written models of Model/C20Model.v,
   so the totality theorems of Props/C20.v (`phylip_reader_total`, `fasta_reader_total`) hold of the generated code.

   The models' Python-runtime parameters are fixed as the translator's primitives fix them:
   isspace := is_space, dval := ascii_dval, sym := state_of_symbol a (the matrix's state alphabet), a
   case-insensitive namespace matched through `lower`; the two recorded PHYLIP defect sites are in their repaired
   form (gopts: po_fix_fmt = po_fix_dims = true), which is the form of the current source.
   Reader objects (C09's world relation): namespace = the labels of the rows, matrix = w_cm rows (taxon i -> row i),
   processed set = p_proc rows. *)
From Coq Require Import String ZArith List Bool.
From DV Require Import Model.C20Model Proofs.C20GenCharModel Proofs.C20GenChar.
From DV Require Import Model.PyPrims Model.C09AlphaTypes Model.C09Model Model.C09Prims Gen.CharIO
  Proofs.C09GenFasta Proofs.C09GenPhylip.
From DV Require Model.Tokenizer Model.C20Nexus2 Model.C20NexusPrims Model.C20NexusPrims2 Gen.NexusChars Proofs.C20GenNexus Proofs.C20GenNexusStates
  Proofs.C20GenNexusMatrix Proofs.C20GenNexusMatrix2.
Import ListNotations.
Open Scope Z_scope.

(* PhylipReader._parse_sequence_from_line (discrete data) is C20Model.parse_symbols, for BOTH values of
   ignore_invalid_chars: the states of the line are appended to the row of the current taxon *)
Theorem gen_parse_sequence_is_parse_symbols :
  forall (a : alphabet) (ign : bool) (line : text) (rows : matrix) (i : nat) (l : text) (v : list Z)
         (ns : tns) (proc : list taxon),
  nth_error rows i = Some (l, v) ->
  PhylipReader_parse_sequence_from_line ign a ns (w_cm rows) proc i line
  = do states <- parse_symbols (state_of_symbol a) ign line ;;
    Ok (ns, w_cm (C20Model.append_at rows i states), proc).
Proof. exact gen_parse_sequence_c20. Qed.
Print Assumptions gen_parse_sequence_is_parse_symbols.

(* PhylipReader._parse_taxon_from_line is C20Model.parse_taxon_from_line *)
Theorem gen_parse_taxon_is_parse_taxon_from_line :
  forall (lower : text -> text) (strict inter multi u2s ign : bool) (ntax nchar : Z) (rows : matrix) (line : text),
  len rows <= ntax ->
  PhylipReader_parse_taxon_from_line lower strict multi u2s ntax nchar (map fst rows) (w_cm rows) (p_proc rows) line
  = match parse_taxon_from_line is_space lower (gopts strict inter multi u2s ign) ntax nchar rows line with
    | Ok (i, rest, rows') => Ok (map fst rows', w_cm rows', p_proc rows', i, rest)
    | Err e => Err e
    | OutOfFuel => OutOfFuel
    end.
Proof. exact gen_parse_taxon_c20. Qed.
Print Assumptions gen_parse_taxon_is_parse_taxon_from_line.

(* PhylipReader._parse_sequential is C20Model.parse_sequential *)
Theorem gen_parse_sequential_is_parse_sequential :
  forall (lower : text -> text) (a : alphabet) (strict inter multi u2s ign : bool) (ntax nchar : Z)
         (lines : list text) (rows : matrix),
  len rows <= ntax ->
  PhylipReader_parse_sequential lower strict multi u2s ntax nchar ign a (map fst rows) (w_cm rows) (p_proc rows) lines
  = match parse_sequential is_space lower (state_of_symbol a) (gopts strict inter multi u2s ign) ntax nchar lines None rows with
    | Ok rows' => Ok (map fst rows', w_cm rows', p_proc rows')
    | Err e => Err e
    | OutOfFuel => OutOfFuel
    end.
Proof. exact gen_parse_sequential_c20. Qed.
Print Assumptions gen_parse_sequential_is_parse_sequential.

(* PhylipReader._parse_interleaved is C20Model.parse_interleaved *)
Theorem gen_parse_interleaved_is_parse_interleaved :
  forall (lower : text -> text) (a : alphabet) (strict inter multi u2s ign : bool) (ntax nchar : Z)
         (lines : list text) (rows : matrix),
  len rows <= ntax ->
  PhylipReader_parse_interleaved lower strict multi u2s ntax nchar ign a (map fst rows) (w_cm rows) (p_proc rows) lines
  = match parse_interleaved is_space lower (state_of_symbol a) (gopts strict inter multi u2s ign) ntax nchar lines false (-1) rows with
    | Ok rows' => Ok (map fst rows', w_cm rows', p_proc rows')
    | Err e => Err e
    | OutOfFuel => OutOfFuel
    end.
Proof. exact gen_parse_interleaved_c20. Qed.
Print Assumptions gen_parse_interleaved_is_parse_interleaved.

(* PhylipReader._read, from `lines = filesys.get_lines(stream)` on: the matrix it builds - or the exception class -
   is C20Model.phylip_read, for every text, every option combination and both values of ignore_invalid_chars *)
Theorem gen_phylip_reader_is_phylip_read :
  forall (lower : text -> text) (a : alphabet) (strict inter multi u2s ign : bool) (t : text),
  match PhylipReader_read lower strict multi u2s ign inter a (split_lines t []) with
  | Ok (ns, cm, _) => Ok (to_matrix (ns, cm))
  | Err e => Err e
  | OutOfFuel => OutOfFuel
  end
  = phylip_read is_space ascii_dval lower (state_of_symbol a) (gopts strict inter multi u2s ign) t.
Proof. exact gen_phylip_read_c20. Qed.
Print Assumptions gen_phylip_reader_is_phylip_read.

(* FastaReader._read (the line loop, with the inner loop over the characters of a line that is
   C20Model.fasta_symbols) on ANY list of lines is C20Model.fasta_lines *)
Theorem gen_fasta_reader_is_fasta_lines :
  forall (lower : text -> text) (a : alphabet) (lines : list text),
  match FastaReader_read lower a lines with
  | Ok w => Ok (to_matrix w)
  | Err e => Err e
  | OutOfFuel => OutOfFuel
  end
  = C20Model.fasta_lines is_space lower (state_of_symbol a) false lines None [].
Proof. exact gen_fasta_lines_c20. Qed.
Print Assumptions gen_fasta_reader_is_fasta_lines.

(* ... and on the lines `for line in stream` delivers for a text, it is C20Model.fasta_read *)
Theorem gen_fasta_reader_is_fasta_read :
  forall (lower : text -> text) (a : alphabet) (t : text),
  match FastaReader_read lower a (C20Model.split_nl t []) with
  | Ok w => Ok (to_matrix w)
  | Err e => Err e
  | OutOfFuel => OutOfFuel
  end
  = fasta_read is_space lower (state_of_symbol a) false t.
Proof. exact gen_fasta_read_c20. Qed.
Print Assumptions gen_fasta_reader_is_fasta_read.

(* `phylip_reader_total` (Props/C20.v) as a statement about the GENERATED PhylipReader._read: for every text, every
   option combination and every state alphabet it returns a matrix with the declared dimensions (NTAX rows, every row
   NCHAR characters) or raises DataParseError - no other exception class, and the loops end *)
Theorem gen_phylip_reader_total :
  forall (lower : text -> text) (a : alphabet) (strict inter multi u2s ign : bool) (t : text),
  match PhylipReader_read lower strict multi u2s ign inter a (split_lines t []) with
  | Ok (ns, cm, _) =>
      exists ntax nchar,
        phylip_declared is_space ascii_dval t = Some (ntax, nchar)
        /\ zlen (to_matrix (ns, cm)) = ntax
        /\ Forall (fun r => zlen (snd r) = nchar) (to_matrix (ns, cm))
  | Err e => e = ParseErr
  | OutOfFuel => False
  end.
Proof. exact gen_phylip_reader_total_l. Qed.
Print Assumptions gen_phylip_reader_total.

(* `fasta_reader_total` as a statement about the GENERATED FastaReader._read, on every list of lines *)
Theorem gen_fasta_reader_total :
  forall (lower : text -> text) (a : alphabet) (lines : list text),
  match FastaReader_read lower a lines with
  | Ok w => NoDup (map (fun r : row => lower (fst r)) (to_matrix w))
  | Err e => e = ParseErr
  | OutOfFuel => False
  end.
Proof. exact gen_fasta_reader_total_l. Qed.
Print Assumptions gen_fasta_reader_total.

(* ========================================================================================================= *)
(* NEXUS character block: methods generated by py/dv/gen_nexuschars.py (Gen/NexusChars.v, primitives            *)
(* Model/C20NexusPrims.v) against the skeleton of Model/C20Nexus2.v                                             *)
(* ========================================================================================================= *)

(* NexusReader._parse_format_statement IS the skeleton's parse_format: same reader state (DATATYPE, SYMBOLS, GAP,
   MISSING, MATCHCHAR, INTERLEAVE, tokenizer position) or the same exception class, on every state and for every
   loop budget.  (The guards and fetch primitives of the skeleton's two loops are those of the generated loop records,
   so this also ties Gen/ReaderLoops.v's records of these loops to the translated statements.) *)
Theorem gen_parse_format_is_parse_format :
  forall (upper lower : Tokenizer.str -> Tokenizer.str) (F : nat) (st : C20Nexus2.nstate),
  NexusChars.NexusReader_parse_format_statement upper lower F st = C20Nexus2.parse_format upper lower F st.
Proof. exact C20GenNexus.gen_parse_format_eq. Qed.
Print Assumptions gen_parse_format_is_parse_format.

(* NexusReader._read_character_states against the skeleton's read_character_states.  The method works on the
   sequences (character_data_vector cdv, states_to_add), the skeleton on the number of states of the row:
   same reader state and outcome class; on a normal return the length of the returned row is the skeleton's
   count; BlockTerminatedException (GBte) corresponds to the skeleton's `terminated` flag.
   (The attributes the method only reads are parameters: self._interleave = il, self._match_char = mc,
   self._file_specified_nchar = nchar.) *)
Theorem gen_read_character_states_is_model :
  forall (upper : Tokenizer.str -> Tokenizer.str) (sym_ok : Z -> Z -> bool) (F : nat) (il : bool) (nchar : Z)
         (mc : list Tokenizer.str) (cdv : list C20NexusPrims.pstate) (al : C20Nexus2.alphabet) (first : option Z)
         (st : C20Nexus2.nstate),
  C20Nexus2.n_match st = mc -> C20Nexus2.n_interleave st = il ->
  match NexusChars.NexusReader_read_character_states sym_ok F il nchar mc cdv al first st,
        C20Nexus2.read_character_states upper sym_ok F al nchar first (C20Model.zlen cdv) st with
  | C20Nexus2.ROk (C20NexusPrims.GVal (v, s1)), C20Nexus2.ROk (n1, false, s2) => s1 = s2 /\ C20Model.zlen v = n1
  | C20Nexus2.ROk (C20NexusPrims.GBte s1), C20Nexus2.ROk (_, true, s2) => s1 = s2
  | C20Nexus2.RErr e1, C20Nexus2.RErr e2 => e1 = e2
  | C20Nexus2.RFuel, C20Nexus2.RFuel => True
  | _, _ => False
  end.
Proof. exact C20GenNexusStates.gen_read_character_states_rel. Qed.
Print Assumptions gen_read_character_states_is_model.

(* ========================================================================================================= *)
(* the MATRIX statement: NexusReader._parse_dimensions_statement, _get_taxon, _process_discrete_matrix_data,   *)
(* _parse_matrix_statement generated from the source (primitives Model/C20NexusPrims2.v)                       *)
(* ========================================================================================================= *)

(* NexusReader._parse_dimensions_statement IS the skeleton's parse_dimensions (NTAX / NCHAR assignments, the
   exception raised for a missing '=' / a non-numeric value / BEGIN, tokenizer position), on every state *)
Theorem gen_parse_dimensions_is_parse_dimensions :
  forall (upper : Tokenizer.str -> Tokenizer.str) (dval : Z -> option Z) (F : nat) (st : C20Nexus2.nstate),
  NexusChars.NexusReader_parse_dimensions_statement upper dval F st = C20Nexus2.parse_dimensions upper dval F st.
Proof. exact C20GenNexusMatrix.gen_parse_dimensions_eq. Qed.
Print Assumptions gen_parse_dimensions_is_parse_dimensions.

(* NexusReader._get_taxon IS the skeleton's get_taxon: the label is looked up; a new label is added while the
   namespace holds fewer than NTAX members (or NTAX is not set), else TooManyTaxaError *)
Theorem gen_get_taxon_is_get_taxon :
  forall (lower : Tokenizer.str -> Tokenizer.str) (ti : nat) (tok : option Tokenizer.str) (st : C20Nexus2.nstate),
  NexusChars.NexusReader_get_taxon lower ti tok st = C20Nexus2.get_taxon lower st ti (C20Nexus2.tok_text tok).
Proof. exact C20GenNexusMatrix.gen_get_taxon_eq. Qed.
Print Assumptions gen_get_taxon_is_get_taxon.

(* NexusReader._parse_matrix_statement (with the generated _process_discrete_matrix_data, _get_taxon and
   _read_character_states inside it) IS the skeleton's parse_matrix, in the form that has the closing row-length
   check of the interleaved loop (fx_ildims = true): same reader state - tokenizer position, namespaces, the
   matrix appended with every row length - or the same exception class, on every state and token stream and for
   every loop budget.  fxc / fxa select the form of the two recorded defect sites that lie in UNTRANSLATED callees
   (_read_continuous_character_values, _build_state_alphabet). *)
Theorem gen_parse_matrix_is_parse_matrix :
  forall (fxc fxa : bool) (upper lower : Tokenizer.str -> Tokenizer.str) (sym_ok : Z -> Z -> bool)
         (is_float : Tokenizer.str -> bool) (F : nat) (st : C20Nexus2.nstate) (block_title link_title : option Tokenizer.str),
  NexusChars.NexusReader_parse_matrix_statement fxc fxa upper lower sym_ok is_float F block_title link_title st
  = C20Nexus2.parse_matrix (C20Nexus2.mkFix fxc fxa true) upper lower sym_ok is_float F st block_title link_title.
Proof. exact C20GenNexusMatrix2.gen_parse_matrix_eq. Qed.
Print Assumptions gen_parse_matrix_is_parse_matrix.

(* `nexus_matrix_dims` (Props/C20.v) as a statement about the GENERATED MATRIX statement - no hypothesis on the
   form of the reader is left: every MATRIX statement the generated code accepts appends ONE matrix, every row of
   which holds exactly the NCHAR in force (the matrices read before are untouched) *)
Theorem gen_nexus_matrix_dims :
  forall (fxc fxa : bool) (upper lower : Tokenizer.str -> Tokenizer.str) (sym_ok : Z -> Z -> bool)
         (is_float : Tokenizer.str -> bool) (F : nat) (st : C20Nexus2.nstate) (block_title link_title : option Tokenizer.str)
         (st' : C20Nexus2.nstate) (nchar : Z),
  0 <= nchar ->
  NexusChars.NexusReader_parse_matrix_statement fxc fxa upper lower sym_ok is_float F block_title link_title st
    = C20Nexus2.ROk st' ->
  C20Nexus2.n_nchar st = Some nchar ->
  exists m, C20Nexus2.n_mats st' = C20Nexus2.n_mats st ++ [m]
            /\ Forall (fun r => snd r = nchar) (C20Nexus2.m_rows m).
Proof. exact C20GenNexusMatrix2.gen_nexus_matrix_dims_l. Qed.
Print Assumptions gen_nexus_matrix_dims.

(* `nexus_matrix_rows` about the GENERATED MATRIX statement: the rows of an accepted matrix are DISTINCT taxa of its
   namespace, at most max(NTAX, members the namespace had before) of them (no lower bound: finding rows-fewer) *)
Theorem gen_nexus_matrix_rows :
  forall (fxc fxa : bool) (upper lower : Tokenizer.str -> Tokenizer.str) (sym_ok : Z -> Z -> bool)
         (is_float : Tokenizer.str -> bool) (F : nat) (st : C20Nexus2.nstate) (block_title link_title : option Tokenizer.str)
         (st' : C20Nexus2.nstate) (ntax : Z),
  NexusChars.NexusReader_parse_matrix_statement fxc fxa upper lower sym_ok is_float F block_title link_title st
    = C20Nexus2.ROk st' ->
  C20Nexus2.n_ntax st = Some ntax ->
  exists m, C20Nexus2.n_mats st' = C20Nexus2.n_mats st ++ [m] /\ NoDup (map fst (C20Nexus2.m_rows m))
            /\ Z.of_nat (length (C20Nexus2.m_rows m))
               <= Z.max ntax (Z.of_nat (length (C20Nexus2.tns_labels st (C20Nexus2.m_tns m)))).
Proof. exact C20GenNexusMatrix2.gen_nexus_matrix_rows_l. Qed.
Print Assumptions gen_nexus_matrix_rows.

(* non-vacuity: the generated MATRIX statement run on concrete documents (NTAX=2 NCHAR=4, DNA): a sequential and an
   interleaved matrix are accepted with rows of length 4 for taxa 0 and 1; a short sequential row, a short
   interleaved row and a third taxon are DataParseErrors *)
Theorem gen_matrix_examples :
  C20GenNexusMatrix2.ex_rows (C20GenNexusMatrix2.ex_run false " A ACGT B AC GT ; END;"%string) = Some [[(0%nat, 4); (1%nat, 4)]]
  /\ C20GenNexusMatrix2.ex_rows
       (C20GenNexusMatrix2.ex_run true (" A AC" ++ C20GenNexusMatrix2.nl ++ "B AC" ++ C20GenNexusMatrix2.nl ++ "A GT"
                                        ++ C20GenNexusMatrix2.nl ++ " B GT" ++ C20GenNexusMatrix2.nl ++ "; END;")%string)
     = Some [[(0%nat, 4); (1%nat, 4)]]
  /\ C20GenNexusMatrix2.ex_run false " A ACGT B ACG ; END;"%string = C20Nexus2.RErr ParseErr
  /\ C20GenNexusMatrix2.ex_run true (" A AC" ++ C20GenNexusMatrix2.nl ++ "B AC" ++ C20GenNexusMatrix2.nl ++ "A GT"
                                     ++ C20GenNexusMatrix2.nl ++ "; END;")%string = C20Nexus2.RErr ParseErr
  /\ C20GenNexusMatrix2.ex_run false " A ACGT B ACGT C ACGT ; END;"%string = C20Nexus2.RErr ParseErr.
Proof. exact C20GenNexusMatrix2.gen_matrix_examples_l. Qed.
Print Assumptions gen_matrix_examples.
