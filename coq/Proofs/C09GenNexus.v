(* C09: NexusWriter._link_blocks generated from the source equals the data-set model's link_blocks *)
From Coq Require Import ZArith List Bool.
From DV Require Import Model.PyPrims Model.C09AlphaTypes Model.C09Model Model.C09Prims Model.C09Nexus Model.C09Dataset Gen.CharIO.
Import ListNotations.
Open Scope Z_scope.

Lemma gen_link_blocks_eq : forall (sbt : option bool) (namespaces : list unit),
  NexusWriter_link_blocks sbt namespaces = link_blocks sbt (len namespaces).
Proof.
  intros sbt ns. unfold NexusWriter_link_blocks, link_blocks. destruct sbt; [reflexivity|].
  destruct (1 <? len ns); reflexivity.
Qed.
