(* C09: NexusWriter._link_blocks and NexusWriter._get_block_title generated from the source equal the
   data-set model's link_blocks / get_block_title (whose loop is uniq_title) *)
From Coq Require Import ZArith List Bool.
From Coq Require Import Arith.
From DV Require Import Model.PyPrims Model.C09AlphaTypes Model.C09Model Model.C09Prims Model.C09Nexus Model.C09Dataset Model.C09TitleMode Gen.CharIO.
From DV Require Import Proofs.C09Dataset.
Import ListNotations.
Open Scope Z_scope.

Lemma gen_link_blocks_eq : forall (sbt : option bool) (namespaces : list unit),
  NexusWriter_link_blocks sbt namespaces = link_blocks sbt (len namespaces).
Proof.
  intros sbt ns. unfold NexusWriter_link_blocks, link_blocks. destruct sbt; [reflexivity|].
  destruct (1 <? len ns); reflexivity.
Qed.

(* ---- _get_block_title ---- *)

(* the key of a title in _title_block_map, as the current source has it (Model/C09TitleMode.v is
   written by the harness from the source on every run) *)
Definition title_norm (upper : text -> text) : text -> text := if title_ci then upper else fun t => t.

Lemma title_block_map_keys : forall norm given, map fst (title_block_map norm given) = map norm (map snd given).
Proof. intros norm given. induction given as [|[b t] r IH]; simpl; [reflexivity|]. rewrite IH. reflexivity. Qed.

Lemma tdict_set_fresh : forall d k v, text_mem k (map fst d) = false -> tdict_set d k v = d ++ [(k, v)].
Proof.
  induction d as [|[j w] r IH]; intros k v H; simpl in *; [reflexivity|].
  apply orb_false_iff in H. destruct H as [H1 H2]. rewrite H1. rewrite (IH _ _ H2). reflexivity.
Qed.

Lemma wdict_contains_title : forall given b,
  wdict_contains given b = match title_of_block given b with Some _ => true | None => false end.
Proof.
  induction given as [|[j t] r IH]; intro b; simpl; [reflexivity|].
  destruct (Nat.eqb b j); simpl; [reflexivity|]. apply IH.
Qed.

Lemma wdict_get_title : forall given b t, title_of_block given b = Some t -> wdict_get given b = Ok t.
Proof.
  induction given as [|[j u] r IH]; intros b t H; simpl in *; [discriminate|].
  destruct (Nat.eqb b j); [inversion H; reflexivity | apply IH; exact H].
Qed.

Lemma wdict_set_fresh : forall given b t, title_of_block given b = None -> wdict_set given b t = given ++ [(b, t)].
Proof.
  induction given as [|[j u] r IH]; intros b t H; simpl in *; [reflexivity|].
  destruct (Nat.eqb b j); [discriminate|]. rewrite (IH _ _ H). reflexivity.
Qed.

Lemma uniq_title_S : forall esc norm f l used idx t,
  uniq_title esc norm (S f) l used idx t
  = if text_mem (norm t) used then uniq_title esc norm f l used (idx + 1) (esc (l ++ 46 :: render_nat idx)) else Ok t.
Proof. reflexivity. Qed.

(* the generated while loop is uniq_title; the counter is not used after the loop.
   Two shapes of the loop test: the key is title.upper() / the key is the title *)
Lemma while_uniq_title_ci : forall (esc norm : text -> text) (A : Type) (k : text -> res A) (l : text) (d : tdict) f idx t,
  (do x <- while_res f (fun carried_ : text * Z => let '(title, idx) := carried_ in tdict_contains d (norm title))
                      (fun carried_ : text * Z => let '(title, idx) := carried_ in
                         let raw_title := l ++ [46] ++ py_int_str idx in
                         let title := esc raw_title in
                         let idx := idx + 1 in Ok (title, idx)) (t, idx) ;;
   let '(title, idx) := x in k title)
  = do t' <- uniq_title esc norm f l (map fst d) idx t ;; k t'.
Proof.
  intros esc norm A k l d. induction f as [|f IH]; intros idx t; [reflexivity|].
  rewrite uniq_title_S. cbn [while_res]. unfold tdict_contains at 1.
  destruct (text_mem (norm t) (map fst d)); [|reflexivity].
  cbn [bind]. rewrite IH. reflexivity.
Qed.

Lemma while_uniq_title_cs : forall (esc : text -> text) (A : Type) (k : text -> res A) (l : text) (d : tdict) f idx t,
  (do x <- while_res f (fun carried_ : text * Z => let '(title, idx) := carried_ in tdict_contains d title)
                      (fun carried_ : text * Z => let '(title, idx) := carried_ in
                         let raw_title := l ++ [46] ++ py_int_str idx in
                         let title := esc raw_title in
                         let idx := idx + 1 in Ok (title, idx)) (t, idx) ;;
   let '(title, idx) := x in k title)
  = do t' <- uniq_title esc (fun t => t) f l (map fst d) idx t ;; k t'.
Proof. intros. exact (while_uniq_title_ci esc (fun t => t) A k l d f idx t). Qed.

(* the proof covers both shapes of the source (exact keys / upper-cased keys); any other
   combination - e.g. testing one key and storing another - does not check *)
Lemma gen_get_block_title_eq : forall (upper : text -> text) (esc : bool -> bool -> text -> text) (idstr : nat -> text) (fuel : nat)
    (sbt : option bool) (namespaces : list unit) (ps uu : bool) (label : option text) (given : list (nat * text)) (b : nat),
  NexusWriter_get_block_title upper esc idstr fuel sbt namespaces ps uu label (title_block_map (title_norm upper) given) given b
  = do x <- get_block_title (esc ps (negb uu)) (title_norm upper) idstr fuel (link_blocks sbt (len namespaces)) given b label ;;
    Ok (title_block_map (title_norm upper) (fst x), fst x, snd x).
Proof.
  intros. unfold NexusWriter_get_block_title, get_block_title. rewrite gen_link_blocks_eq.
  destruct (negb (link_blocks sbt (len namespaces))); [reflexivity|].
  rewrite wdict_contains_title. destruct (title_of_block given b) as [t|] eqn:T.
  - rewrite (wdict_get_title _ _ _ T). reflexivity.
  - match goal with |- bind ?X _ = _ =>
      assert (S : X = Ok (title_source idstr b label)) by (destruct label as [[|c r]|]; reflexivity)
    end.
    rewrite S. cbn [bind]. cbv zeta.
    first [ change (title_norm upper) with upper; rewrite (while_uniq_title_ci (esc ps (negb uu)) upper)
          | change (title_norm upper) with (fun t : text => t); rewrite (while_uniq_title_cs (esc ps (negb uu))) ].
    rewrite title_block_map_keys.
    match goal with |- bind ?UT _ = _ => destruct UT as [t| |] eqn:U; [|reflexivity|reflexivity] end.
    cbn [bind fst snd]. apply uniq_title_fresh in U. cbv beta in U.
    rewrite tdict_set_fresh by (rewrite title_block_map_keys; exact U).
    rewrite (wdict_set_fresh _ _ _ T). unfold title_block_map. rewrite map_app. reflexivity.
Qed.

(* blocks that each ask once get the titles of assign_titles *)
Lemma title_of_block_app : forall given b j t, title_of_block (given ++ [(j, t)]) b
  = match title_of_block given b with Some u => Some u | None => if Nat.eqb b j then Some t else None end.
Proof.
  induction given as [|[i u] r IH]; intros; simpl; [reflexivity|].
  destruct (Nat.eqb b i); [reflexivity | apply IH].
Qed.

Lemma request_titles_assign : forall (esc norm : text -> text) (idstr : nat -> text) blocks given,
  NoDup (map fst blocks) ->
  (forall b, In b (map fst blocks) -> title_of_block given b = None) ->
  request_titles esc norm idstr blocks given
  = assign_titles esc norm (map (fun x => title_source idstr (fst x) (snd x)) blocks) (map norm (map snd given)).
Proof.
  intros esc norm idstr. induction blocks as [|[b l] r IH]; intros given N F; [reflexivity|].
  cbn [request_titles assign_titles map fst snd]. unfold get_block_title. cbn [negb].
  rewrite (F b) by (left; reflexivity). rewrite !map_length.
  destruct (uniq_title esc norm (S (length given)) (title_source idstr b l) (map norm (map snd given)) 1 (esc (title_source idstr b l)))
    as [t| |]; [|reflexivity|reflexivity].
  cbn [bind fst snd]. inversion N as [|x xs NI N']; subst.
  rewrite IH.
  - rewrite !map_app. reflexivity.
  - exact N'.
  - intros b' I. rewrite title_of_block_app. rewrite (F b') by (right; exact I).
    destruct (Nat.eqb b' b) eqn:E; [|reflexivity]. apply Nat.eqb_eq in E. subst. contradiction.
Qed.
