(* C11, wave 9: non-vacuity of import_resolves_first_match_step8 on the fixed wave-8 histories (namespace 0 of
   history 0 is case-insensitive and holds  A B a C A a  = taxa 0..5 after two imports with
   taxon_import_strategy="add"; namespace 3 holds  a C B  = taxa 6 7 8), and the read route as counter-example. *)
From Coq Require Import List Bool Arith ZArith.
From DV Require Import Model.PyPrims Model.C11Model Model.C11W7Model Model.C11W8Model Proofs.C11W8Examples
  Proofs.C11W9First Proofs.C11W9Step.
Import ListNotations.
Open Scope nat_scope.

Definition w9_xa : xstate := run_state8 w8_lower x_init (firstn 25 w8_history0).
Definition w9_xb : xstate := run_state8 w8_lower x_init (firstn 26 w8_history0).
Definition w9_xc : xstate := fst (step8 w8_lower w9_xa (Op7 (NewMemo [(7, 4)]))).
Definition w9_xm : xstate := run_state8 w8_lower x_init (firstn 22 w8_history3).
Definition w9_xr : xstate := run_state8 w8_lower x_init (firstn 22 w8_history0).
Definition w9_read : op8 := Op7 (Base (ReadList 0 Newick false None [[3]])).

Lemma w9_example_l :
  (* migrate route: list0.append(tree5) *)
  taxa_wfb w9_xa = true /\ nth_error w8_history0 25 = Some (Op7 (Base (Append 0 5 (SMigrate true))))
  /\ imports8 w9_xa (Op7 (Base (Append 0 5 (SMigrate true)))) = Some (RMove 0 [] [5])
  /\ snd (step8 w8_lower w9_xa (Op7 (Base (Append 0 5 (SMigrate true))))) = OUnit
  /\ members (x_st w9_xa) 0 = [0; 1; 2; 3; 4; 5]
  /\ map (label (x_st w9_xa)) [0; 1; 2; 3; 4; 5; 6; 7; 8] = [0; 1; 3; 2; 0; 3; 3; 2; 1]
  /\ t_refs (gettree (x_st w9_xa) 5) = [7; 6]
  /\ t_refs (gettree (x_st (fst (step8 w8_lower w9_xa (Op7 (Base (Append 0 5 (SMigrate true))))))) 5) = [3; 0]
  (* clone route: list0.extend(list3) *)
  /\ taxa_wfb w9_xb = true /\ nth_error w8_history0 26 = Some (Op7 (Base (Extend 0 (SrcList 3))))
  /\ imports8 w9_xb (Op7 (Base (Extend 0 (SrcList 3)))) = Some (RClone 0 [4] 6)
  /\ snd (step8 w8_lower w9_xb (Op7 (Base (Extend 0 (SrcList 3))))) = OUnit
  /\ t_refs (gettree (x_st w9_xb) 4) = [6; 7; 8] /\ t_ns (gettree (x_st w9_xb) 4) = 3
  /\ t_refs (gettree (x_st (fst (step8 w8_lower w9_xb (Op7 (Base (Extend 0 (SrcList 3))))))) 6) = [0; 3; 1]
  (* a caller's memo that sends taxon 7 (C) to taxon 4 (the second A): honoured; taxon 6 (a), which the memo does
     not name, goes to the first member matching a, taxon 0 *)
  /\ taxa_wfb w9_xc = true
  /\ imports8 w9_xc (Op7 (MigrateTreeM 5 0 true 0)) = Some (RMove 0 [(7, 4)] [5])
  /\ snd (step8 w8_lower w9_xc (Op7 (MigrateTreeM 5 0 true 0))) = OUnit
  /\ t_refs (gettree (x_st (fst (step8 w8_lower w9_xc (Op7 (MigrateTreeM 5 0 true 0))))) 5) = [4; 0]
  (* matrix route *)
  /\ taxa_wfb w9_xm = true /\ nth_error w8_history3 22 = Some (Op7 (Base (MigrateMat 0 1 true)))
  /\ imports8 w9_xm (Op7 (Base (MigrateMat 0 1 true))) = Some (RMat 1 [] 0)
  /\ snd (step8 w8_lower w9_xm (Op7 (Base (MigrateMat 0 1 true)))) = OUnit
  /\ m_rows (getmat (x_st w9_xm) 0) = [0]
  /\ m_rows (getmat (x_st (fst (step8 w8_lower w9_xm (Op7 (Base (MigrateMat 0 1 true)))))) 0) = [2].
Proof. vm_compute. repeat split. Qed.

(* the read route is NOT among the routes of the theorem: TreeList.read into namespace 0 puts the label a on
   taxon 5, the LAST of the three members matching it (listed finding
   read-resolves-duplicate-label-to-last-member) *)
Lemma w9_read_refuted_l :
  exists (x : xstate) (o : op8) (x' : xstate),
    taxa_wf x /\ step8 w8_lower x o = (x', OUnit) /\ o = Op7 (Base (ReadList 0 Newick false None [[3]]))
    /\ l_ns (getlist (x_st x) 0) = 0 /\ length (s_trees (x_st x)) = 4
    /\ t_ns (gettree (x_st x') 4) = 0 /\ t_refs (gettree (x_st x') 4) = [5]
    /\ first_match w8_lower (x_st x') 0 (ns_cs (x_st x') 0) 3 = Some 0.
Proof.
  exists w9_xr, w9_read, (fst (step8 w8_lower w9_xr w9_read)).
  split; [apply taxa_wfb_sound; vm_compute; reflexivity|]. vm_compute. repeat split.
Qed.
