(* C05: canonical topology of reconstructed trees *)
From Coq Require Import ZArith QArith List Bool Lia Permutation.
From DV Require Import Model.PyPrims Gen.BitFns Gen.Consts Model.C05Model Model.C05Spec
     Proofs.C05Lists Proofs.C05Consensus Proofs.C05Trees Proofs.C05Array
     Proofs.C05Bits Proofs.C05Laminar Proofs.C05Final2 Proofs.C05Unique.
Import ListNotations.
Open Scope Z_scope.

Lemma determined_by_clades R T bits :
  wf R -> wf T -> ct_mask R = ct_mask T ->
  Permutation (ct_leaves R) bits -> Permutation (ct_leaves T) bits ->
  (forall c, In c (ct_clades R) <-> In c (ct_clades T)) ->
  ct_canon R = ct_canon T.
Proof.
  intros WR WT M LR LT C. apply wf_tree_unique; try assumption.
  intro x. rewrite !masks_split, C. split; (intros [H|H]; [now left | right]).
  - apply (Permutation_in x (Permutation_sym LT)). apply (Permutation_in x LR H).
  - apply (Permutation_in x (Permutation_sym LR)). apply (Permutation_in x LT H).
Qed.

(* the consensus tree is, up to the order of children, THE tree whose clades are the accepted set *)
Theorem consensus_tree_canonical_l :
  forall (all : Z) (idxs bits : list Z) (rooted : bool) (ss : list Z) (T : ctree),
  bits = map (Z.pow 2) idxs -> NoDup idxs -> (forall i, In i idxs -> 0 <= i) ->
  (2 <= length idxs)%nat -> all = fold_left Z.lor bits 0 ->
  wf T -> ct_mask T = all -> Permutation (ct_leaves T) bits ->
  (forall c, In c (ct_clades T) <-> c = all \/ In c (greedy all [] (fsb_prepare all rooted ss))) ->
  ct_canon (fsb_tree all bits rooted ss) = ct_canon T.
Proof.
  intros all idxs bits rooted ss T H1 H2 H3 H4 H5 WT MT LT CT.
  assert (NS : namespace_ok all idxs bits) by (repeat split; assumption).
  destruct (consensus_tree_wf_l all idxs bits NS rooted ss) as [WR [MR LR]].
  apply (determined_by_clades _ _ bits); try assumption; [congruence|].
  intro c. rewrite (consensus_tree_clades_l all idxs bits NS rooted ss c), CT. reflexivity.
Qed.

(* maximum-credibility clause at the level of topologies: the tree restore_tree(i) rebuilds has
   the canonical form of any well-formed clade tree T over the namespace whose clades are those
   of the i-th input tree *)
Theorem mcc_canonical_topology_l :
  forall (fw : bool) (c : config) (ts : list tree_in) (a : ta) (all : Z) (idxs bits : list Z)
         (i : nat) (t : tree_in) (T : ctree),
  bits = map (Z.pow 2) idxs -> NoDup idxs -> (forall j, In j idxs -> 0 <= j) ->
  (2 <= length idxs)%nat -> all = fold_left Z.lor bits 0 ->
  ta_add_trees fw c (ta_empty None) ts = Ok a ->
  nth_error ts i = Some t ->
  tree_compatible all (truthy (ta_rooting a)) t = true ->
  wf T -> ct_mask T = all -> Permutation (ct_leaves T) bits ->
  (forall m, In m (ct_clades T) <->
             m = all \/ (In m (fsb_prepare all (truthy (ta_rooting a)) (splits_of t)) /\ is_single m = false)) ->
  ct_canon (fsb_tree all bits (truthy (ta_rooting a)) (nth i (ta_splits a) [])) = ct_canon T.
Proof.
  intros fw c ts a all idxs bits i t T H1 H2 H3 H4 H5 E N TC WT MT LT CT.
  assert (NS : namespace_ok all idxs bits) by (repeat split; assumption).
  destruct (consensus_tree_wf_l all idxs bits NS (truthy (ta_rooting a)) (nth i (ta_splits a) [])) as [WR [MR LR]].
  apply (determined_by_clades _ _ bits); try assumption; [congruence|].
  intro m. rewrite (mcc_tree_clades_l fw c ts a all idxs bits i t H1 H2 H3 H4 H5 E N TC m), CT. reflexivity.
Qed.
